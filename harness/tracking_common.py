"""Shared helpers of the C06 / C07 checks (droplet tracking).

A *history* is a plain dict (JSON-able, used verbatim as replay input):
    {"dim": d, "grid": None | [[lo, hi, ncells, periodic], ...],
     "times": [t0, t1, ...], "frames": [[[pos..., radius], ...], ...]}
A *config* is ("overlap", None) or ("distance", max_dist) with max_dist a float or None (= default inf).

Droplets are identified by (frame index, index in the frame).  The implementation copies droplets on
append, so droplets of the result are matched back by their data (time stamp, position, radius); every
generator makes this triple unique inside a history.
"""
from __future__ import annotations

import copy
import functools
import itertools
import math
import random
from fractions import Fraction

import numpy as np

import vlib

INF = float("inf")


# ---------------------------------------------------------------------------------------------
# running the implementation
# ---------------------------------------------------------------------------------------------
def make_grid(spec):
    if spec is None:
        return None
    from pde import CartesianGrid
    return CartesianGrid([(a[0], a[1]) for a in spec], [a[2] for a in spec], periodic=[bool(a[3]) for a in spec])


def make_droplets(hist):
    from droplets import SphericalDroplet
    return [[SphericalDroplet(np.array(d[:-1], dtype=float), float(d[-1])) for d in fr] for fr in hist["frames"]]


def make_time_course(hist, drops=None):
    from droplets import Emulsion, EmulsionTimeCourse
    drops = drops if drops is not None else make_droplets(hist)
    return EmulsionTimeCourse([Emulsion(fr) for fr in drops], list(hist["times"]))


def _key(t, pos, radius):
    return (float(t), tuple(float(x) for x in pos), float(radius))


def hist_keys(hist):
    keys = {}
    for f, fr in enumerate(hist["frames"]):
        for j, d in enumerate(fr):
            k = _key(hist["times"][f], d[:-1], d[-1])
            if k in keys:
                raise RuntimeError(f"generator produced indistinguishable droplets: {k}")
            keys[k] = (f, j)
    return keys


def _snapshot(etc):
    """Bit-exact, structure-revealing snapshot of a time course."""
    return ([repr(t) for t in etc.times],
            [[(type(d).__name__, d.data.tobytes(), d.data.dtype) for d in e] for e in etc.emulsions])


def run_impl(hist, config, deep=True):
    """Run from_emulsion_time_course.  Returns dict:
       raised : None | exception class name
       tracks : list of tracks, each a list of [time, f, j]   (None if raised / not canonicalisable)
       problems : list of strings (property text items that can be judged while canonicalising:
                  droplet altered / unknown, input modified, wrong return type)"""
    from droplets import DropletTrackList
    method, max_dist = config
    grid = make_grid(hist["grid"])
    originals = make_droplets(hist)
    etc = make_time_course(hist, originals)
    before = _snapshot(etc)
    before_copy = copy.deepcopy(etc) if deep else None
    kwargs = {} if max_dist is None else {"max_dist": max_dist}
    out = {"raised": None, "tracks": None, "problems": [], "msg": ""}
    try:
        res = DropletTrackList.from_emulsion_time_course(etc, method=method, grid=grid, **kwargs)
    except Exception as e:  # noqa
        out["raised"] = type(e).__name__
        out["msg"] = str(e)[:200]
        res = None
    if _snapshot(etc) != before or (deep and not (etc == before_copy)):
        out["problems"].append("input time course modified")
    if res is None:
        return out
    keys = hist_keys(hist)
    # identification WITHOUT the time stamp (unique (position, radius) only): lets the identity statements of C07 be
    # judged on results whose time stamps are wrong (which is C06's business and reported there)
    keys_nt, amb = {}, set()
    for (t_, p_, r_), fj in keys.items():
        if (p_, r_) in keys_nt:
            amb.add((p_, r_))
        keys_nt[(p_, r_)] = fj
    tracks = []
    tracks_ident = []
    ident_ok = True
    ok = True
    for tr in res:
        if len(tr.times) != len(tr.droplets):
            out["problems"].append("track with different numbers of times and droplets")
            ok = False
            continue
        if len(tr.times) == 0:
            out["problems"].append("empty track returned")
            ok = False
            continue
        ent = []
        ent_nt = []
        for t, d in zip(tr.times, tr.droplets):
            k = _key(t, d.position, d.radius)
            if k[1:] in keys_nt and k[1:] not in amb:
                ent_nt.append([float(t), *keys_nt[k[1:]]])
            else:
                ident_ok = False
            if k not in keys:
                out["problems"].append(f"droplet in a track is not a droplet of its frame (altered data or wrong time stamp): "
                                       f"time={t!r} position={d.position.tolist()} radius={float(d.radius)!r}")
                ok = False
                continue
            f, j = keys[k]
            orig = originals[f][j]
            if type(d) is not type(orig) or d.data.tobytes() != orig.data.tobytes() or d.data.dtype != orig.data.dtype \
                    or (deep and not (d == orig)):
                out["problems"].append(f"droplet ({f},{j}) altered")
            if any(d is o for fr in originals for o in fr) or any(d is o for e in etc.emulsions for o in e):
                out["problems"].append(f"track shares droplet object ({f},{j}) with the input (no copy)")
            ent.append([float(t), f, j])
        tracks.append(ent)
        tracks_ident.append(ent_nt)
    out["tracks"] = tracks if ok else None
    out["tracks_ident"] = tracks_ident if ident_ok and all(tracks_ident) else None
    out["tracks_partial"] = tracks
    return out


# ---------------------------------------------------------------------------------------------
# the implementation's overlap relation and distance table
# ---------------------------------------------------------------------------------------------
def needed_pairs(hist, full=False):
    """(a, b) pairs the algorithm may consult: a in frame f-1 or an earlier droplet of frame f, b in frame f.
    full: every pair with frame(a) <= frame(b) (needed when times are not strictly increasing)."""
    sizes = [len(fr) for fr in hist["frames"]]
    pairs = []
    for f, n in enumerate(sizes):
        srcs = range(0, f + 1) if full else range(max(0, f - 1), f + 1)
        for g in srcs:
            for i in range(sizes[g]):
                for j in range(n):
                    if g == f and i == j:
                        continue
                    pairs.append(((g, i), (f, j)))
    return pairs


def impl_tables(hist, full=False):
    """ov[(a,b)] = a.overlaps(b, grid=grid);  D[(a,b)] = cdist entry with the metric the code uses."""
    from scipy.spatial import distance
    grid = make_grid(hist["grid"])
    drops = make_droplets(hist)
    metric = "euclidean" if grid is None else functools.partial(grid.distance, coords="cartesian")
    ov, D = {}, {}
    for a, b in needed_pairs(hist, full):
        da, db = drops[a[0]][a[1]], drops[b[0]][b[1]]
        ov[(a, b)] = bool(da.overlaps(db, grid=grid))
        D[(a, b)] = float(distance.cdist([da.position], [db.position], metric=metric)[0, 0])
    return ov, D


# ---------------------------------------------------------------------------------------------
# exact reference metric (independent of py-pde): squared periodic distance as a Fraction
# ---------------------------------------------------------------------------------------------
def exact_dist2(hist, a, b):
    pa = hist["frames"][a[0]][a[1]][:-1]
    pb = hist["frames"][b[0]][b[1]][:-1]
    tot = Fraction(0)
    for ax, (x, y) in enumerate(zip(pa, pb)):
        d = Fraction(y) - Fraction(x)
        if hist["grid"] is not None and hist["grid"][ax][3]:
            L = Fraction(hist["grid"][ax][1]) - Fraction(hist["grid"][ax][0])
            d = (d + L / 2) % L - L / 2
        tot += d * d
    return tot


def exact_overlap(hist, a, b):
    ra = Fraction(hist["frames"][a[0]][a[1]][-1])
    rb = Fraction(hist["frames"][b[0]][b[1]][-1])
    s = ra + rb
    return s > 0 and exact_dist2(hist, a, b) < s * s


def metric_failures(hist, ov, D):
    """Property text (C07): distances and overlaps are measured with the (periodic) grid metric."""
    fails = []
    for (a, b), d in D.items():
        d2 = exact_dist2(hist, a, b)
        # d is the correctly rounded sqrt of a sum of exactly representable squares (coarse dyadic inputs):
        # |d^2 - d2| <= d2 * 2^-50
        if abs(Fraction(d) ** 2 - d2) > d2 * Fraction(1, 2 ** 50):
            fails.append(f"distance of {a}->{b} is {d!r}, grid metric gives sqrt({float(d2)!r})")
    for (a, b), o in ov.items():
        if o != exact_overlap(hist, a, b):
            fails.append(f"overlaps({a},{b}) = {o}, grid metric says {not o}")
    return fails


# ---------------------------------------------------------------------------------------------
# property oracles, written from the property text
# ---------------------------------------------------------------------------------------------
def inframe_nonoverlap(hist, ov):
    for f, fr in enumerate(hist["frames"]):
        for i in range(len(fr)):
            for j in range(len(fr)):
                if i != j and ov[((f, i), (f, j))]:
                    return False
    return True


def strictly_increasing(ts):
    return all(a < b for a, b in zip(ts, ts[1:]))


def oracle_C06(hist, config, res, ov):
    """Returns list of failure strings (empty = property holds on this input)."""
    fails = []
    if res["raised"]:
        return [f"raised {res['raised']}: {res['msg']}"]
    fails += res["problems"]
    tracks = res["tracks"] if res["tracks"] is not None else res.get("tracks_partial", [])
    seen = {}
    for k, tr in enumerate(tracks):
        for (t, f, j) in tr:
            seen[(f, j)] = seen.get((f, j), 0) + 1
            if t != float(hist["times"][f]):
                fails.append(f"droplet ({f},{j}) stamped with time {t!r}, frame time is {hist['times'][f]!r}")
    for f, fr in enumerate(hist["frames"]):
        for j in range(len(fr)):
            c = seen.get((f, j), 0)
            if c != 1:
                fails.append(f"droplet ({f},{j}) appears {c} times in the tracks")
    if inframe_nonoverlap(hist, ov) and strictly_increasing(hist["times"]):
        for k, tr in enumerate(tracks):
            fs = [f for (_, f, _) in tr]
            if len(set(fs)) != len(fs):
                fails.append(f"track {k} holds two droplets of one frame: frames {fs}")
            elif fs != list(range(fs[0], fs[0] + len(fs))):
                fails.append(f"track {k} does not cover a gap-free run of consecutive frames: {fs}")
    return fails


def links_of(tracks):
    """frame f -> set of ((f-1? any), (f, j)) consecutive pairs whose second droplet is in frame f."""
    links = {}
    for tr in tracks:
        for (t1, f1, j1), (t2, f2, j2) in zip(tr, tr[1:]):
            links.setdefault(f2, set()).add(((f1, j1), (f2, j2)))
    return links


def greedy_reference(rows, cols, W):
    """'repeatedly join the closest remaining pair' (W[(a,b)] = distance or None when beyond the cut-off).
    Returns None when the closest pair is not unique at some step (the text then fixes nothing)."""
    rows, cols, out = list(rows), list(cols), set()
    while True:
        cand = [(W[(a, b)], a, b) for a in rows for b in cols if W[(a, b)] is not None]
        if not cand:
            return out
        m = min(c[0] for c in cand)
        best = [c for c in cand if c[0] == m]
        if len(best) > 1:
            return None
        _, a, b = best[0]
        out.add((a, b))
        rows.remove(a)
        cols.remove(b)


def oracle_C07(hist, config, res, ov, D):
    """C07 is quantified over time courses whose droplets do not overlap within a frame (checked by the
    caller for the statements that need it)."""
    fails = []
    if res["raised"]:
        return fails  # C06's business
    method, max_dist = config
    tracks = res["tracks"] if res["tracks"] is not None else res.get("tracks_ident")
    if tracks is None:
        return fails  # droplets cannot be identified at all: C06's business
    sizes = [len(fr) for fr in hist["frames"]]
    links = links_of(tracks)
    starts = {(tr[0][1], tr[0][2]) for tr in tracks}
    ends = {(tr[-1][1], tr[-1][2]) for tr in tracks}
    clean = inframe_nonoverlap(hist, ov) and strictly_increasing(hist["times"])
    md = INF if max_dist is None else max_dist
    for f2, ls in links.items():
        for (a, b) in ls:
            if a[0] != f2 - 1 and clean:
                fails.append(f"link {a}->{b} skips or repeats a frame")
    if not clean:
        # the text quantifies over non-overlapping frames; only the unconditional parts are judged
        for f2, ls in links.items():
            for (a, b) in ls:
                if (a, b) not in ov:
                    continue
                if method == "overlap" and not ov[(a, b)]:
                    fails.append(f"overlap method linked {a}->{b} which do not overlap")
                if method == "distance" and D[(a, b)] > md:
                    fails.append(f"distance method linked {a}->{b} at distance {D[(a, b)]!r} > cut-off {md!r}")
        return fails
    for f in range(len(sizes)):
        prev = [(f - 1, i) for i in range(sizes[f - 1])] if f > 0 else []
        now = [(f, j) for j in range(sizes[f])]
        ls = links.get(f, set())
        ls_known = {(a, b) for (a, b) in ls if (a, b) in ov and (a, b) in D}   # others: reported as frame-skipping links
        if method == "overlap":
            for (a, b) in ls_known:
                if not ov[(a, b)]:
                    fails.append(f"overlap method linked {a}->{b} which do not overlap")
            for b in now:
                if not any(ov[(a, b)] for a in prev) and b not in starts:
                    fails.append(f"droplet {b} overlaps no droplet of the previous frame but does not start a track")
            rel = {(a, b) for a in prev for b in now if ov[(a, b)]}
            one_to_one = (all(sum(1 for (a, b) in rel if a == x) <= 1 for x in prev)
                          and all(sum(1 for (a, b) in rel if b == y) <= 1 for y in now))
            if one_to_one and ls != rel:
                fails.append(f"overlap relation between frames {f - 1} and {f} is one-to-one ({sorted(rel)}) but links are {sorted(ls)}")
        else:
            for (a, b) in ls_known:
                if D[(a, b)] > md:
                    fails.append(f"distance method linked {a}->{b} at distance {D[(a, b)]!r} > cut-off {md!r}")
            linked_prev = {a for (a, b) in ls}
            linked_now = {b for (a, b) in ls}
            for a in prev:
                for b in now:
                    if a not in linked_prev and b not in linked_now and D[(a, b)] <= md:
                        fails.append(f"track ends with {a} while a new track starts with {b} within the cut-off "
                                     f"(distance {D[(a, b)]!r} <= {md!r})")
            W = {(a, b): (D[(a, b)] if D[(a, b)] <= md else None) for a in prev for b in now}
            ref = greedy_reference(prev, now, W)
            if ref is not None and ref != ls:
                fails.append(f"frame {f}: links {sorted(ls)} differ from closest-pair-first matching {sorted(ref)}")
    return fails


# ---------------------------------------------------------------------------------------------
# generators
# ---------------------------------------------------------------------------------------------
def lattice_class(name):
    """Small exhaustive classes: droplet kinds (position, radius) on a lattice; radii chosen so that
    touching (d == r1 + r2, not an overlap), overlapping and distance ties all occur."""
    if name == "1d-3x2":       # 3 positions x 2 radii, period 3 when periodic
        kinds = [[x, r] for x in (0.5, 1.5, 2.5) for r in (0.5, 0.75)]
        return {"dim": 1, "kinds": kinds, "grid": [[0.0, 3.0, 3, True]], "cutoffs": [None, 1.0, 0.5]}
    if name == "1d-4x2":
        kinds = [[x, r] for x in (0.5, 1.5, 2.5, 3.5) for r in (0.5, 0.75)]
        return {"dim": 1, "kinds": kinds, "grid": [[0.0, 4.0, 4, True]], "cutoffs": [None, 1.0, 1.5]}
    if name == "1d-2x2":
        # at distance 1: 0.375+0.375 apart, 0.375+0.625 touching (not an overlap), 0.625+0.625 overlapping
        kinds = [[x, r] for x in (0.5, 1.5) for r in (0.375, 0.625)]
        return {"dim": 1, "kinds": kinds, "grid": [[0.0, 2.0, 2, True]], "cutoffs": [None, 1.0, 0.5]}
    if name == "2d-2x2":       # 2 x 2 lattice, one radius, periodic in x only (period 3)
        kinds = [[x, y, 0.625] for x in (0.5, 2.5) for y in (0.5, 1.5)]
        return {"dim": 2, "kinds": kinds, "grid": [[0.0, 3.0, 3, True], [0.0, 2.0, 2, False]],
                "cutoffs": [None, 1.0, 1.25]}
    if name == "2d-2x2x2":
        kinds = [[x, y, r] for x in (0.5, 2.5) for y in (0.5, 1.5) for r in (0.5, 0.75)]
        return {"dim": 2, "kinds": kinds, "grid": [[0.0, 3.0, 3, True], [0.0, 2.0, 2, True]],
                "cutoffs": [None, 1.0, 1.25]}
    raise KeyError(name)


def lattice_frames(nk, maxdrop):
    """all frames with <= maxdrop droplets of pairwise different kinds, in every order"""
    out = [()]
    for n in range(1, maxdrop + 1):
        out += list(itertools.permutations(range(nk), n))
    return out


def lattice_histories(nk, maxframes, maxdrop):
    frs = lattice_frames(nk, maxdrop)
    for nf in range(0, maxframes + 1):
        yield from itertools.product(frs, repeat=nf)


def lattice_history(cls, kind_hist, with_grid, times=None):
    return {"dim": cls["dim"], "grid": cls["grid"] if with_grid else None,
            "times": list(times) if times is not None else [float(i) for i in range(len(kind_hist))],
            "frames": [[list(cls["kinds"][k]) for k in fr] for fr in kind_hist]}


def random_history(rng: random.Random, max_frames=8, max_drops=5, allow_nonmonotone=False):
    """Random history on a coarse dyadic lattice: appear / disappear / split / merge / drift / ties / empty frames."""
    dim = rng.choice([1, 1, 2, 2, 3])
    L = rng.choice([4.0, 6.0, 8.0])
    periodic = [rng.random() < 0.6 for _ in range(dim)]
    grid = [[0.0, L, int(L), periodic[ax]] for ax in range(dim)] if rng.random() < 0.6 else None
    nf = rng.randint(0, max_frames)
    step = rng.choice([0.25, 0.5, 1.0])
    # dense: frequent overlaps inside a frame; sparse: small radii, mostly non-overlapping frames (the class C07 and the
    # second half of C06 quantify over)
    radii = [0.25, 0.5, 0.75, 1.0, 1.25] if rng.random() < 0.4 else [0.125, 0.25, 0.25, 0.375]
    frames = []
    cur = []
    uid = 0
    p_empty = rng.choice([0.0, 0.1, 0.3])
    for f in range(nf):
        mode = rng.random()
        if mode < p_empty:
            new = []
        else:
            new = []
            for d in cur:
                u = rng.random()
                if u < 0.12:
                    continue  # disappears
                pos = [(x + rng.choice([-1, 0, 0, 1]) * step) for x in d[:-1]]
                if grid is not None:
                    pos = [x % L if periodic[ax] else min(max(x, 0.0), L) for ax, x in enumerate(pos)]
                r = d[-1] if rng.random() < 0.7 else rng.choice(radii)
                new.append(pos + [r])
                if u > 0.88:   # split: a second droplet next to it
                    pos2 = list(pos)
                    pos2[rng.randrange(dim)] += rng.choice([-1, 1]) * rng.choice([0.5, 1.0, 1.5])
                    new.append(pos2 + [rng.choice(radii)])
            while len(new) < max_drops and rng.random() < (0.5 if new else 0.8):
                new.append([rng.randrange(0, int(L / step) + 1) * step for _ in range(dim)] + [rng.choice(radii)])
            if len(new) >= 2 and rng.random() < 0.1:   # merge: drop one of a close pair
                new.pop(rng.randrange(len(new)))
            rng.shuffle(new)
            new = new[:max_drops]
        # unique radius perturbation (exact in binary64) so that result droplets can be matched back
        fr = []
        for d in new:
            uid += 1
            base = round(d[-1] * 8) / 8
            fr.append([float(x) for x in d[:-1]] + [base + uid * 2.0 ** -20])
        frames.append(fr)
        cur = [list(d) for d in fr]
    if allow_nonmonotone and nf > 0:
        times = [float(rng.randrange(0, 3)) for _ in range(nf)]
    else:
        t, times = rng.choice([0.0, -1.5, 10.0]), []
        for f in range(nf):
            times.append(t)
            t += rng.choice([0.25, 1.0, 1.0, 2.5])
    return {"dim": dim, "grid": grid, "times": times, "frames": frames}


def drift_history(rng: random.Random):
    """k well separated droplets drifting rigidly across a periodic boundary by less than their radius per frame;
    with the grid supplied each droplet must keep its identity (C07, last sentence)."""
    dim = rng.choice([1, 2])
    k = rng.randint(1, 3)
    L = 12.0
    r = 1.0
    step = rng.choice([0.25, 0.5, 0.75])
    direction = rng.choice([-1, 1])
    nf = rng.randint(3, 8)
    base = [[(L / k) * i + 0.5] + ([rng.randrange(0, 4) * 1.0] if dim == 2 else []) for i in range(k)]
    grid = [[0.0, L, 12, True]] + ([[0.0, 4.0, 4, False]] if dim == 2 else [])
    frames = []
    uid = 0
    for f in range(nf):
        fr = []
        order = list(range(k))
        rng.shuffle(order)
        for i in order:
            uid += 1
            pos = list(base[i])
            pos[0] = (pos[0] + direction * step * f) % L
            fr.append(pos + [r + (i + 1) * 2.0 ** -10])     # radius identifies the physical droplet
        frames.append(fr)
    return {"dim": dim, "grid": grid, "times": [0.5 * f for f in range(nf)], "frames": frames}


def drift_applicable(hist, config):
    """Premise of 'droplets that move less than their separation keep their identity', decided exactly
    (rational arithmetic, periodic metric of the supplied grid): the same physical droplets (identified by
    their radius) in every frame; between consecutive frames every droplet moves by less than its distance
    to any other droplet (distance method, and not farther than the cut-off) resp. still overlaps itself and
    nothing else (overlap method)."""
    method, md = config
    frames = hist["frames"]
    if len(frames) < 2 or not frames[0] or not strictly_increasing(hist["times"]):
        return False
    radii = sorted(d[-1] for d in frames[0])
    if len(set(radii)) != len(radii) or any(sorted(d[-1] for d in fr) != radii for fr in frames):
        return False
    idx = [{d[-1]: j for j, d in enumerate(fr)} for fr in frames]
    for f in range(len(frames) - 1):
        for r in radii:
            a = (f, idx[f][r])
            own = exact_dist2(hist, a, (f + 1, idx[f + 1][r]))
            if method == "distance" and md is not None and own > Fraction(md) ** 2:
                return False
            if method == "overlap" and not own < (2 * Fraction(r)) ** 2:
                return False
            for r2 in radii:
                if r2 == r:
                    continue
                cross1 = exact_dist2(hist, a, (f + 1, idx[f + 1][r2]))
                cross2 = exact_dist2(hist, (f, idx[f][r2]), (f + 1, idx[f + 1][r]))
                if method == "distance" and not (own < cross1 and own < cross2):
                    return False
                if method == "overlap":
                    s2 = (Fraction(r) + Fraction(r2)) ** 2
                    if cross1 < s2 or cross2 < s2:
                        return False
                    for g in (f, f + 1):   # no overlap within a frame
                        if exact_dist2(hist, (g, idx[g][r]), (g, idx[g][r2])) < s2:
                            return False
    return True


def drift_failures(hist, config, res):
    """under the premise above every track must consist of one physical droplet in all frames"""
    if res["raised"] or res["tracks"] is None or not drift_applicable(hist, config):
        return []
    fails = []
    nf = len(hist["frames"])
    for tr in res["tracks"]:
        rs = {hist["frames"][f][j][-1] for (_, f, j) in tr}
        if len(rs) != 1 or len(tr) != nf:
            fails.append(f"droplets moving less than their separation lost their identity: track {[(f, j) for (_, f, j) in tr]}")
    return fails


# ---------------------------------------------------------------------------------------------
# Coq literals.  Elaborating literals is the expensive part of a correspondence run (~0.3 ms per token),
# so cases are encoded compactly: droplets of a result are written as (frame, index) -- that the time
# stamp of the implementation's entry equals times[frame] exactly has been established when the droplet
# was matched back (run_impl); the model's time stamp is compared with times[frame] inside Coq --,
# configs with identical results are grouped, and the lattice classes share one table per class.
# ---------------------------------------------------------------------------------------------
def did_lit(a):
    return f"({a[0]},{a[1]})"


def impl_lit(res):
    if res["raised"] or res["tracks"] is None:
        return "None"
    return "Some " + vlib.listlit(res["tracks"], lambda tr: vlib.listlit(tr, lambda e: f"({e[1]},{e[2]})"))


def config_lit(config):
    method, md = config
    if method == "overlap":
        return "CfgOv"
    return "(CfgDist " + ("None" if md is None or math.isinf(md) else f"(Some {vlib.qlit(md)})") + ")"


def outs_lit(outs):
    groups = {}
    for cfg, res in outs:
        groups.setdefault(impl_lit(res), []).append(cfg)
    return vlib.listlit(list(groups.items()), lambda g: f"({vlib.listlit(g[1], config_lit)},{g[0]})")


HEADER = """From Coq Require Import List Bool Arith QArith.
Import ListNotations.
From PD Require Import Model.Tracking.
Local Open Scope nat_scope.

Inductive cfg := CfgOv | CfgDist (md : option Q).
Definition out := option (list (list did)).          (* None: the implementation raised *)
Definition outs := list (list cfg * out).

(* tables keyed by labels of type L (droplet ids for general cases, kind numbers for lattice cases) *)
Section Tab.
  Variable L : Type.
  Variable leqb : L -> L -> bool.
  Fixpoint lookup {V : Type} (tbl : list (L * L * V)) (a b : L) : option V :=
    match tbl with
    | [] => None
    | (x, y, v) :: r => if leqb a x && leqb b y then Some v else lookup r a b
    end.
End Tab.

(* pairs of droplets the algorithm may consult *)
Fixpoint sizes_pairs (full : bool) (sizes : list nat) (f : nat) (prev : list (nat * nat))
  : list (bool * did * did) :=          (* flag: pair of consecutive frames (needs a distance) *)
  match sizes with
  | [] => []
  | n :: rest =>
      let now := frame_ids f n in
      let srcs := flat_map (fun gn => frame_ids (fst gn) (snd gn))
                           (if full then prev else match prev with [] => [] | x :: _ => [x] end) in
      flat_map (fun a => map (fun b => (true, a, b)) now) srcs
      ++ flat_map (fun a => flat_map (fun b => if did_eqb a b then [] else [(false, a, b)]) now) now
      ++ sizes_pairs full rest (S f) ((f, n) :: prev)
  end.

Definition track_set_eqb (a b : list (list entry)) : bool :=
  Nat.eqb (length a) (length b) && forallb (fun x => existsb (list_eqb entry_eqb x) b) a
  && forallb (fun x => existsb (list_eqb entry_eqb x) a) b.

(* attach times[frame] to the implementation's entries; a frame index out of range -> None *)
Fixpoint stamp_track (times : list Q) (tr : list did) : option (list entry) :=
  match tr with
  | [] => Some []
  | d :: r => match nth_error times (fst d), stamp_track times r with
              | Some t, Some l => Some ((t, d) :: l)
              | _, _ => None
              end
  end.
Fixpoint stamp (times : list Q) (trs : list (list did)) : option (list (list entry)) :=
  match trs with
  | [] => Some []
  | tr :: r => match stamp_track times tr, stamp times r with
               | Some x, Some l => Some (x :: l)
               | _, _ => None
               end
  end.

(* tracks are compared as a SET of tracks (the property does not order the list of tracks; inside a
   track the order is fixed); the implementation must not raise and the model must not fail *)
Definition same (times : list Q) (model : res (list track)) (impl : out) : bool :=
  match model, impl with
  | Ok trs, Some l => match stamp times l with
                      | Some l' => track_set_eqb (map entries trs) l'
                      | None => false
                      end
  | _, _ => false
  end.

Definition agree_with (ov : did -> did -> bool) (D : did -> did -> Q) (frames : list frame) (o : outs) : bool :=
  forallb (fun co =>
    forallb (fun c => same (map fst frames)
                           (track_all (match c with CfgOv => MOverlap ov | CfgDist md => MDistance D md end) frames)
                           (snd co)) (fst co)) o.

(* ---- general cases: tables keyed by droplet ids ---- *)
Definition gcase := (bool * list frame * list (did * did * bool) * list (did * did * Q) * outs)%type.
Definition gagree (c : gcase) : bool :=
  let '(full, frames, ot, dt, o) := c in
  forallb (fun p => let '(consec, a, b) := p in
                    match lookup did did_eqb ot a b with None => false | Some _ => true end
                    && (negb consec || match lookup did did_eqb dt a b with None => false | Some _ => true end))
          (sizes_pairs full (map snd frames) 0 [])
  && agree_with (fun a b => match lookup did did_eqb ot a b with Some true => true | _ => false end)
                (fun a b => match lookup did did_eqb dt a b with Some q => q | None => 0%Q end) frames o.

(* ---- lattice cases: droplets are kinds, one table per class; times are 0, 1, 2, ... ---- *)
Definition ktab := (list (nat * nat * bool) * list (nat * nat * Q))%type.
Definition lcase := (ktab * list (list nat) * outs)%type.
Definition kind_of (kf : list (list nat)) (a : did) : option nat :=
  match nth_error kf (fst a) with Some l => nth_error l (snd a) | None => None end.
Fixpoint times_from (k : nat) (n : nat) : list Q :=
  match n with O => [] | S n' => (Z.of_nat k # 1) :: times_from (S k) n' end.
Definition look {V : Type} (kf : list (list nat)) (tbl : list (nat * nat * V)) (a b : did) : option V :=
  match kind_of kf a, kind_of kf b with
  | Some x, Some y => lookup nat Nat.eqb tbl x y
  | _, _ => None
  end.
Definition lagree (c : lcase) : bool :=
  let '((ot, dt), kf, o) := c in
  let frames := combine (times_from 0 (length kf)) (map (@length nat) kf) in
  forallb (fun p => let '(_, a, b) := p in
                    match look kf ot a b, look kf dt a b with Some _, Some _ => true | _, _ => false end)
          (sizes_pairs false (map snd frames) 0 [])
  && agree_with (fun a b => match look kf ot a b with Some true => true | _ => false end)
                (fun a b => match look kf dt a b with Some q => q | None => 0%Q end) frames o.
"""


def gcase_lit(hist, ov, D, outs, full=False):
    ot = vlib.listlit(sorted(ov.items()), lambda kv: f"({did_lit(kv[0][0])},{did_lit(kv[0][1])},{vlib.blit(kv[1])})")
    dd = [kv for kv in sorted(D.items()) if full or kv[0][0][0] != kv[0][1][0]]
    dt = vlib.listlit(dd, lambda kv: f"({did_lit(kv[0][0])},{did_lit(kv[0][1])},{vlib.qlit(kv[1])})")
    fr = vlib.listlit(list(zip(hist["times"], hist["frames"])), lambda p: f"({vlib.qlit(p[0])},{len(p[1])})")
    return f"({vlib.blit(full)},{fr},{ot},{dt},{outs_lit(outs)})"


def lcase_lit(tabname, kind_hist, outs):
    return f"({tabname},{vlib.listlit(kind_hist, lambda fr: vlib.listlit(fr))},{outs_lit(outs)})"


def class_tables(cls, with_grid):
    """overlap relation and distance table of a lattice class, keyed by kind numbers, computed by the implementation
    on droplets of these kinds"""
    nk = len(cls["kinds"])
    h = {"dim": cls["dim"], "grid": cls["grid"] if with_grid else None, "times": [0.0, 1.0],
         "frames": [[list(k) for k in cls["kinds"]], [list(k) for k in cls["kinds"]]]}
    ov, D = impl_tables(h)
    ot = {(a, b): ov[((0, a), (1, b))] for a in range(nk) for b in range(nk)}
    dt = {(a, b): D[((0, a), (1, b))] for a in range(nk) for b in range(nk)}
    for a in range(nk):          # in-frame pairs are computed on droplets of the same frame: must coincide
        for b in range(nk):
            if a != b and (ov[((1, a), (1, b))] != ot[(a, b)] or D[((1, a), (1, b))] != dt[(a, b)]):
                raise RuntimeError("overlap/distance of a pair of droplets depends on something other than their data")
    return ot, dt


def class_tables_lit(name, ot, dt):
    o = vlib.listlit(sorted(ot.items()), lambda kv: f"({kv[0][0]},{kv[0][1]},{vlib.blit(kv[1])})")
    d = vlib.listlit(sorted(dt.items()), lambda kv: f"({kv[0][0]},{kv[0][1]},{vlib.qlit(kv[1])})")
    return f"Definition {name} : ktab := ({o},{d}).\n"


HEADER_METRIC = """From Coq Require Import List Bool ZArith QArith Qabs.
Import ListNotations.
From PD Require Import Model.Grid Model.Tracking.
Local Open Scope Q_scope.

(* (grid or None, position a, position b, cdist entry, radius a + radius b, a.overlaps(b)) *)
Definition mcase := (option grid * list Q * list Q * Q * Q * bool)%type.
Definition magree (c : mcase) : bool :=
  let '(g, p, q, d, rr, o) := c in
  let d2 := match g with Some g => dist2 g p q | None => edist2 p q end in
  (* the implementation's distance is the correctly rounded square root of d2 (coarse dyadic inputs) *)
  Qle_bool (Qabs (d * d - d2)) (d2 * (1 # 1125899906842624))
  (* overlap: distance < r1 + r2, compared on squares *)
  && Bool.eqb o (Qlt_b 0 rr && Qlt_b d2 (rr * rr)).
"""


def metric_case_lits(hist, ov, D, limit=4):
    out = []
    for (a, b) in sorted(D):
        if len(out) >= limit:
            break
        da, db = hist["frames"][a[0]][a[1]], hist["frames"][b[0]][b[1]]
        if hist["grid"] is None:
            g = "None"
        else:
            g = "(Some " + vlib.listlit(hist["grid"], lambda ax: f"(Build_axis {vlib.zlit(ax[2])} {vlib.qlit(ax[0])} "
                                                                  f"{vlib.qlit(ax[1])} {vlib.blit(ax[3])})") + ")"
        rr = Fraction(da[-1]) + Fraction(db[-1])
        out.append(f"({g},{vlib.listlit(da[:-1], vlib.qlit)},{vlib.listlit(db[:-1], vlib.qlit)},"
                   f"{vlib.qlit(D[(a, b)])},{vlib.qlit(rr)},{vlib.blit(ov[(a, b)])})")
    return out


# ---------------------------------------------------------------------------------------------
# the check (shared by C06 and C07; the tie to /repo is the same correspondence)
# ---------------------------------------------------------------------------------------------
TRUSTED = [
    "Coq 8.16.1 kernel + vm_compute (no native_compute)",
    "hand-written model coq/Model/Tracking.v of DropletTrackList.from_emulsion_time_course, tied to /repo by the "
    "correspondence run (model evaluated inside Coq on the implementation's own overlap relation and distance table)",
    "harness/tracking_common.py: canonicalisation (droplets matched back by time stamp + position + radius), "
    "float.as_integer_ratio, table extraction by calling SphericalDroplet.overlaps / scipy cdist pairwise",
    "oracles (premises or inputs of the theorems): SphericalDroplet.overlaps(grid=) as relation ov, scipy cdist with "
    "the code's metric as table D (precondition: two non-empty point sets), np.argmin = first minimum in C order",
]
ASSUME = [
    "times strictly increasing (property quantifier); the model itself compares time VALUES like the code",
    "all droplets of a time course have the same space dimension (DropletTrack.append raises otherwise)",
    "cdist computes entry (i, j) from points i and j only, and deterministically (checked implicitly: tables are "
    "extracted pairwise, the implementation computes them matrix-wise)",
    "distances are finite (positions finite, no overflow); non-finite values never enter Q",
]
RULE = ("one case = one history x one grid choice, evaluated for the overlap method and the distance method with "
        "three cut-offs; exhaustive lattice classes + seeded random histories (appear/disappear/split/merge/drift/"
        "empty frames/ties); distinct = distinct (history, grid, config) triples; non-trivial = at least two frames "
        "of which at least one holds a droplet")

ALL_CONFIGS = lambda cutoffs: [("overlap", None)] + [("distance", c) for c in cutoffs]  # noqa


def _hist_stats(hist, D):
    sizes = [len(fr) for fr in hist["frames"]]
    vals = {}
    for (a, b), d in D.items():
        if a[0] + 1 == b[0]:
            vals.setdefault(b[0], []).append(d)
    ties = any(len(v) != len(set(v)) for v in vals.values())
    return sizes, ties


def process(item):
    """item = dict(hist, configs, full, pid, kind, lat).  Runs the implementation and the oracles; returns a plain dict."""
    hist, configs, full, pid, kind = item["hist"], item["configs"], item["full"], item["pid"], item["kind"]
    ov, D = impl_tables(hist, full)
    outs, fails = [], []
    for n, cfg in enumerate(configs):
        # bit-exact snapshot comparison always; the (weaker, allclose-based) == of the library on a deep copy
        # additionally for the first config of every history
        res = run_impl(hist, cfg, deep=(n == 0))
        outs.append((cfg, res))
        fs = []
        try:
            if pid == "C06":
                fs = oracle_C06(hist, cfg, res, ov)
            else:
                fs = oracle_C07(hist, cfg, res, ov, D)
                fs += drift_failures(hist, cfg, res)
        except Exception as e:  # noqa -- a result the oracle cannot even interpret is a failure of the property
            fs = [f"result cannot be judged by the property oracle ({type(e).__name__}: {str(e)[:120]})"]
        for f in fs:
            fails.append((cfg, f))
    if pid == "C07":
        for f in metric_failures(hist, ov, D):
            fails.append((configs[0], "metric: " + f))
    sizes, ties = _hist_stats(hist, D)
    if item.get("lat"):
        lit = lcase_lit(item["lat"][0], item["lat"][1], outs)
    else:
        lit = gcase_lit(hist, ov, D, outs, full)
    return {"lit": lit, "fails": fails, "sizes": sizes, "ties": ties,
            "metric": metric_case_lits(hist, ov, D) if pid == "C07" and not item.get("lat") else [],
            "clean": inframe_nonoverlap(hist, ov), "raised": [r["raised"] for _, r in outs if r["raised"]],
            "ntracks": [len(r["tracks"]) if r["tracks"] is not None else -1 for _, r in outs]}


def mkitem(hist, configs, pid, kind, full=False, lat=None):
    return {"hist": hist, "configs": configs, "full": full, "pid": pid, "kind": kind, "lat": lat}


def _pool_map(fn, items, chunk=64):
    import multiprocessing as mp
    if len(items) < 200:
        return [fn(x) for x in items]
    with mp.get_context("fork").Pool(min(vlib.NPROC, 16)) as pool:
        return pool.map(fn, items, chunksize=chunk)


def shrink(hist, cfg, pid, kind):
    """greedy delta debugging on frames and droplets; keeps a failing history failing"""
    def failing(h):
        try:
            r = process(mkitem(h, [cfg], pid, kind, full=not strictly_increasing(h["times"])))
        except Exception:  # noqa
            return False
        return bool(r["fails"])
    cur = copy.deepcopy(hist)
    changed = True
    while changed:
        changed = False
        for f in range(len(cur["frames"]) - 1, -1, -1):
            h = copy.deepcopy(cur)
            del h["frames"][f]
            del h["times"][f]
            if failing(h):
                cur, changed = h, True
        for f in range(len(cur["frames"])):
            for j in range(len(cur["frames"][f]) - 1, -1, -1):
                h = copy.deepcopy(cur)
                del h["frames"][f][j]
                if failing(h):
                    cur, changed = h, True
    return cur


def build_items(ctx, rng, pid):
    """-> (lattice items, general items, Coq text defining the lattice tables)"""
    lat, gen, tabtext = [], [], ""
    if ctx.quick:
        plan = [("1d-2x2", 3, 2), ("1d-3x2", 2, 2), ("2d-2x2", 2, 2)]
    else:
        plan = [("1d-2x2", 3, 2), ("1d-3x2", 3, 2), ("1d-4x2", 2, 2), ("2d-2x2", 3, 2), ("2d-2x2x2", 2, 2)]
    for name, maxframes, maxdrop in plan:
        cls = lattice_class(name)
        n = 0
        for with_grid in (False, True):
            tabname = "tab_" + name.replace("-", "_") + ("_grid" if with_grid else "_nogrid")
            tabtext += class_tables_lit(tabname, *class_tables(cls, with_grid))
            for kh in lattice_histories(len(cls["kinds"]), maxframes, maxdrop):
                lat.append(mkitem(lattice_history(cls, kh, with_grid), ALL_CONFIGS(cls["cutoffs"]), pid,
                                  "lattice:" + name, lat=(tabname, [list(fr) for fr in kh])))
                n += 1
        ctx.count("exhaustive_class", f"{name}: all histories of <= {maxframes} frames x <= {maxdrop} droplets, with and without grid", n)
    for i in range(ctx.scale(700, 6000)):
        h = random_history(rng, 8, 5)
        cut = [None, rng.choice([0.5, 1.0, 1.5, 2.0]), rng.choice([0.25, 0.75, 3.0])]
        gen.append(mkitem(h, ALL_CONFIGS(cut), pid, "random"))
    for i in range(ctx.scale(60, 400)):   # time VALUES that repeat / decrease: correspondence only
        h = random_history(rng, 5, 3, allow_nonmonotone=True)
        gen.append(mkitem(h, ALL_CONFIGS([None, 1.0, 0.5]), pid, "random-nonmonotone-times", full=True))
    for i in range(ctx.scale(60, 400)):
        gen.append(mkitem(drift_history(rng), ALL_CONFIGS([None, 1.0, 3.0]), pid, "drift"))
    return lat, gen, tabtext


def record_violations(ctx, pid, items, results, limit=4):
    seen = set()
    for item, r in zip(items, results):
        for cfg, f in r["fails"]:
            sig = (cfg[0], "".join(ch for ch in f.split(":")[0] if not ch.isdigit())[:40])
            if sig in seen or len(ctx.violations) >= limit:
                continue
            seen.add(sig)
            small = shrink(item["hist"], cfg, pid, item["kind"])
            rr = process(mkitem(small, [cfg], pid, item["kind"], full=not strictly_increasing(small["times"])))
            what = rr["fails"][0][1] if rr["fails"] else f
            if any(v["what"] == what and v["input"]["history"] == small and v["input"]["config"] == list(cfg)
                   for v in ctx.violations):
                continue
            ctx.violations.append({"what": what, "input": {"history": small, "config": list(cfg), "kind": item["kind"]},
                                   "found": True, "broken": ctx.broken[:3]})


def run_check(ctx, pid, deps):
    rng = random.Random(ctx.seed)
    vlib.prove(ctx, deps, gens=[])
    ctx.tie.append("correspondence: Model/Tracking.v evaluated inside Coq on the implementation's overlap relation / "
                   "cdist table, compared with DropletTrackList.from_emulsion_time_course (both methods, 3 cut-offs, +-grid)")
    lat, gen, tabtext = build_items(ctx, rng, pid)
    items = lat + gen
    results = _pool_map(process, items)
    for item, r in zip(items, results):
        hist, configs, kind = item["hist"], item["configs"], item["kind"]
        nontrivial = len(r["sizes"]) >= 2 and any(r["sizes"])
        for cfg in configs:
            ctx.case([hist, list(cfg)], nontrivial=nontrivial)
            ctx.count("method", cfg[0])
            ctx.count("cutoff", "n/a" if cfg[0] == "overlap" else ("inf" if cfg[1] is None else cfg[1]))
        ctx.count("kind", kind.split(":")[0])
        ctx.count("frames", len(r["sizes"]))
        for n in r["sizes"]:
            ctx.count("droplets_per_frame", n)
        ctx.count("empty_frames_in_history", sum(1 for n in r["sizes"] if n == 0))
        ctx.count("distance_ties_between_consecutive_frames", r["ties"])
        ctx.count("in_frame_non_overlap", r["clean"])
        ctx.count("grid", "none" if hist["grid"] is None else "periodic:" + "".join("1" if a[3] else "0" for a in hist["grid"]))
        ctx.count("dim", hist["dim"])
        for e in r["raised"]:
            ctx.count("raised", e)
    for idx in (len(lat) // 3, len(lat) + len(gen) // 2):
        if idx < len(items):
            ctx.sample({"history": items[idx]["hist"], "configs": [list(c) for c in items[idx]["configs"]],
                        "tracks_per_config": results[idx]["ntracks"], "coq_case": results[idx]["lit"][:600]})
    bad_l = vlib.run_cases(ctx, "lat", HEADER + tabtext, [r["lit"] for r in results[:len(lat)]], "lagree", shard=300)
    bad_g = vlib.run_cases(ctx, "gen", HEADER, [r["lit"] for r in results[len(lat):]], "gagree", shard=100)
    bad = list(bad_l) + [len(lat) + b for b in bad_g]
    if pid == "C07":
        mlits = [m for r in results for m in r["metric"]][:ctx.scale(1500, 12000)]
        bad_m = vlib.run_cases(ctx, "metric", HEADER_METRIC, mlits, "magree", shard=150)
        ctx.count("metric_cases(distance/overlap table vs Model/Grid.v)", "pairs", len(mlits))
        if bad_m:
            ctx.broken.append(f"metric: distance / overlap computed by the implementation differ from the Grid model "
                              f"on {len(bad_m)} pair(s), first: {mlits[bad_m[0]][:300]}")
    if bad:
        ctx.broken.append(f"correspondence from_emulsion_time_course: model and implementation differ on {len(bad)} "
                          f"case(s), first: {items[bad[0]]['hist']} kind={items[bad[0]]['kind']}")
        ctx.extra["disagreeing_cases"] = [{"history": items[b]["hist"], "kind": items[b]["kind"]} for b in bad[:5]]
    record_violations(ctx, pid, items, results)
    if ctx.broken and not ctx.violations:
        # search: the oracle over a larger fresh stream
        extra = []
        r2 = random.Random(ctx.seed + 1)
        for i in range(ctx.scale(4000, 20000)):
            h = random_history(r2, 8, 5)
            extra.append(mkitem(h, ALL_CONFIGS([None, r2.choice([0.5, 1.0, 1.5, 2.0]), r2.choice([0.25, 0.75, 3.0])]), pid, "random"))
        for i in range(ctx.scale(300, 1000)):
            extra.append(mkitem(drift_history(r2), ALL_CONFIGS([None, 1.0, 3.0]), pid, "drift"))
        res2 = _pool_map(process, extra)
        ctx.notes.append(f"search: oracle over {len(extra)} further histories")
        record_violations(ctx, pid, extra, res2)
    if bad and not ctx.violations:
        # no statement of the property text fails, but the implementation no longer is the verified model:
        # report the smallest disagreeing history (and the config on which it disagrees) as replay input
        b = min(bad, key=lambda i: (sum(results[i]["sizes"]), len(results[i]["sizes"]), i))
        it = items[b]
        full = not strictly_increasing(it["hist"]["times"])
        singles = [process(mkitem(it["hist"], [cfg], pid, it["kind"], full=full)) for cfg in it["configs"]]
        bad_c = vlib.run_cases(ctx, "diag", HEADER, [s["lit"] for s in singles], "gagree", shard=10)
        for ci in (bad_c or [0])[:2]:
            cfg = it["configs"][ci]
            ctx.violations.append({"what": "implementation differs from the verified model on this input (no statement of the "
                                           "property text fails on it: see `./check %s --replay` for both results)" % pid,
                                   "input": {"history": it["hist"], "config": list(cfg), "kind": it["kind"]},
                                   "found": False, "broken": ctx.broken[:3]})
    return vlib.finish(ctx, "", TRUSTED, ASSUME, RULE, exhaustive=True)


def replay(path, pid):
    import json
    obj = json.load(open(path))
    print(json.dumps(obj, indent=1)[:3000])
    inp = obj.get("input")
    if not inp:
        print("no concrete input stored (no-failing-input-found replay)")
        return 1
    hist, cfg, kind = inp["history"], tuple(inp["config"]), inp.get("kind", "random")
    full = not strictly_increasing(hist["times"])
    r = process(mkitem(hist, [cfg], pid, kind, full=full))
    ov, D = impl_tables(hist, full)
    res = run_impl(hist, cfg)
    print("implementation:", "raised " + res["raised"] if res["raised"] else res["tracks"])
    ctx = vlib.Ctx(pid, "quick", 0)
    d = ctx.casedir
    d.mkdir(parents=True, exist_ok=True)
    p = d / "replay_case.v"
    p.write_text(HEADER + f"\nDefinition c : gcase := {r['lit']}.\n"
                 "Eval vm_compute in (let '(full, frames, ot, dt, o) := c in\n"
                 "  let ov a b := match lookup did did_eqb ot a b with Some true => true | _ => false end in\n"
                 "  let D a b := match lookup did did_eqb dt a b with Some q => q | None => 0%Q end in\n"
                 "  map (fun c => match track_all (match c with CfgOv => MOverlap ov | CfgDist md => MDistance D md end) frames with\n"
                 "                | Ok t => Some (map (fun tr => map snd (entries tr)) t) | Err _ => None end) (flat_map fst o)).\n"
                 "Eval vm_compute in (gagree c).\n")
    rc, out = vlib.coqc(p, timeout=300)
    print("model (inside Coq):", " ".join(out.split())[:3000])
    print("oracle failures on current tree:", [f for _, f in r["fails"]])
    return 1 if r["fails"] else 0
