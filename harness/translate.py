"""Fail-closed translator from a small subset of Python (as used in py-droplets for
closed-form scalar mathematics) to Gallina terms over Coq's R (mode "R") or Z (mode "Z").

The translator reads the *current* source text under /repo (or the pinned py-pde for
`volume_from_radius`), so that the theorems which `Require` the generated files are
re-checked against what the code says now.  Anything outside the supported subset raises
`TranslateError` (fail closed); the check then falls back to the golden model + the
correspondence run (DESIGN.md 2.2).

Supported expression subset
  numbers (int, float -> exact rational), names bound in the environment, pi constants
  (`π`, `np.pi`, `math.pi`), `+ - * /`, unary minus, `x ** n` (n a natural literal ->
  `pow`), `x ** (p / q)` (-> `pow_nn x (p/q)`, defined in Model/Num.v), `np.sqrt`, `np.tanh`,
  `np.sin`, `np.cos`, `np.exp`, `np.hypot`, `float(...)`, `np.sum`/`sum` are NOT supported.
Supported statements
  `if <name> == <const>` chains (resolved by partial evaluation on given constants),
  assignments to fresh locals (-> `let`), `return expr`, docstrings, nested function
  definitions (selected by name).
"""
from __future__ import annotations

import ast
from fractions import Fraction
from pathlib import Path


class TranslateError(Exception):
    pass


PI_NAMES = {"π"}
PI_ATTRS = {("np", "pi"), ("math", "pi"), ("numpy", "pi")}
FUNCS_R = {
    ("np", "sqrt"): "sqrt",
    ("math", "sqrt"): "sqrt",
    ("np", "tanh"): "tanh",
    ("math", "tanh"): "tanh",
    ("np", "sin"): "sin",
    ("np", "cos"): "cos",
    ("np", "exp"): "exp",
    ("math", "exp"): "exp",
}


def _q(fr: Fraction, mode: str) -> str:
    if mode == "Z":
        if fr.denominator != 1:
            raise TranslateError(f"non-integer literal {fr} in Z mode")
        n = fr.numerator
        return f"({n})" if n < 0 else f"{n}"
    if fr.denominator == 1:
        n = fr.numerator
        return f"({n})" if n < 0 else f"{n}"
    return f"({fr.numerator} / {fr.denominator})"


def const_value(node: ast.AST, consts: dict):
    """Evaluate `node` to a Python constant if it only involves `consts`; else None."""
    if isinstance(node, ast.Constant):
        return node.value
    if isinstance(node, ast.Name) and node.id in consts:
        return consts[node.id]
    if isinstance(node, ast.Attribute) and ast.unparse(node) in consts:
        return consts[ast.unparse(node)]
    return None


class ExprTranslator:
    def __init__(self, env: dict[str, str], mode: str = "R", calls: dict | None = None,
                 consts: dict | None = None):
        self.env = dict(env)  # python name -> coq term
        self.mode = mode
        self.calls = calls or {}  # python callee name -> (coq name, arity) for other generated defs
        self.consts = consts or {}

    def tr(self, n: ast.AST) -> str:
        m = getattr(self, "tr_" + type(n).__name__, None)
        if m is None:
            raise TranslateError(f"unsupported expression node {type(n).__name__}: {ast.dump(n)[:120]}")
        return m(n)

    def tr_Constant(self, n):
        v = n.value
        if isinstance(v, bool) or not isinstance(v, (int, float)):
            raise TranslateError(f"unsupported constant {v!r}")
        return _q(Fraction(v), self.mode)

    def tr_Name(self, n):
        if n.id in self.consts and isinstance(self.consts[n.id], (int, float)) and not isinstance(self.consts[n.id], bool):
            return _q(Fraction(self.consts[n.id]), self.mode)
        if n.id in self.env:
            return self.env[n.id]
        if n.id in PI_NAMES and self.mode == "R":
            return "PI"
        raise TranslateError(f"unbound name {n.id}")

    def tr_Attribute(self, n):
        if isinstance(n.value, ast.Name) and (n.value.id, n.attr) in PI_ATTRS and self.mode == "R":
            return "PI"
        key = ast.unparse(n)
        if key in self.env:
            return self.env[key]
        raise TranslateError(f"unsupported attribute {key}")

    def tr_UnaryOp(self, n):
        if isinstance(n.op, ast.USub):
            return f"(- {self.tr(n.operand)})"
        if isinstance(n.op, ast.UAdd):
            return self.tr(n.operand)
        raise TranslateError("unsupported unary operator")

    def tr_BinOp(self, n):
        if isinstance(n.op, ast.Pow):
            base = self.tr(n.left)
            e = n.right
            if isinstance(e, ast.Constant) and isinstance(e.value, int) and not isinstance(e.value, bool) and e.value >= 0:
                if self.mode == "Z":
                    return f"({base} ^ {e.value})"
                return f"({base} ^ {e.value})"
            if self.mode == "R":
                # fractional power p/q or a float literal
                fr = None
                if isinstance(e, ast.BinOp) and isinstance(e.op, ast.Div):
                    a, b = const_value(e.left, {}), const_value(e.right, {})
                    if isinstance(a, int) and isinstance(b, int) and b != 0:
                        fr = Fraction(a, b)
                elif isinstance(e, ast.Constant) and isinstance(e.value, float):
                    fr = Fraction(e.value)
                if fr is not None and fr > 0:
                    return f"(pow_nn {base} {_q(fr, 'R')})"
            raise TranslateError(f"unsupported power {ast.unparse(n)}")
        l, r = self.tr(n.left), self.tr(n.right)
        if isinstance(n.op, ast.Add):
            return f"({l} + {r})"
        if isinstance(n.op, ast.Sub):
            return f"({l} - {r})"
        if isinstance(n.op, ast.Mult):
            return f"({l} * {r})"
        if isinstance(n.op, ast.Div):
            if self.mode == "Z":
                raise TranslateError("true division in Z mode")
            return f"({l} / {r})"
        if isinstance(n.op, ast.FloorDiv) and self.mode == "Z":
            return f"({l} / {r})"
        if isinstance(n.op, ast.Mod) and self.mode == "Z":
            return f"({l} mod {r})"
        raise TranslateError(f"unsupported binary operator {type(n.op).__name__}")

    def tr_Call(self, n):
        if n.keywords:
            raise TranslateError(f"keyword arguments in call {ast.unparse(n)}")
        f = n.func
        if isinstance(f, ast.Name) and f.id == "float" and len(n.args) == 1 and self.mode == "R":
            return self.tr(n.args[0])
        if self.mode == "Z":
            # int(np.floor(np.sqrt(k)))  ->  Z.sqrt k ;  int(np.sqrt(k) + 0.5) -> round-to-nearest sqrt
            src = ast.unparse(n)
            if isinstance(f, ast.Name) and f.id == "int" and len(n.args) == 1:
                a = n.args[0]
                if (isinstance(a, ast.Call) and ast.unparse(a.func) in ("np.floor", "math.floor")
                        and len(a.args) == 1 and isinstance(a.args[0], ast.Call)
                        and ast.unparse(a.args[0].func) in ("np.sqrt", "math.sqrt")):
                    return f"(Z.sqrt {self.tr(a.args[0].args[0])})"
                if (isinstance(a, ast.BinOp) and isinstance(a.op, ast.Add)
                        and isinstance(a.left, ast.Call) and ast.unparse(a.left.func) in ("np.sqrt", "math.sqrt")
                        and isinstance(a.right, ast.Constant) and a.right.value == 0.5):
                    return f"(sqrt_round {self.tr(a.left.args[0])})"
            raise TranslateError(f"unsupported call in Z mode: {src}")
        if isinstance(f, ast.Attribute) and isinstance(f.value, ast.Name):
            key = (f.value.id, f.attr)
            if key in FUNCS_R and len(n.args) == 1:
                return f"({FUNCS_R[key]} {self.tr(n.args[0])})"
            if key == ("np", "hypot") and len(n.args) == 2:
                a, b = self.tr(n.args[0]), self.tr(n.args[1])
                return f"(sqrt ({a} * {a} + {b} * {b}))"
        name = ast.unparse(f)
        if name in self.calls and callable(self.calls[name]):
            return self.calls[name](self, n)
        if name in self.calls:
            coq, arity = self.calls[name]
            args = [self.tr(a) for a in n.args]
            if arity is not None and len(args) != arity:
                raise TranslateError(f"arity mismatch calling {name}")
            return "(" + " ".join([coq] + args) + ")"
        raise TranslateError(f"unsupported call {ast.unparse(n)}")


def _test_const(test: ast.AST, consts: dict):
    """Evaluate an `if` test using constants; returns True/False or None (unknown)."""
    if isinstance(test, ast.Compare) and len(test.ops) == 1:
        a = const_value(test.left, consts)
        b = const_value(test.comparators[0], consts)
        if a is None or b is None:
            # `dim not in [2, 3]`
            if isinstance(test.comparators[0], (ast.List, ast.Tuple)) and a is not None:
                vals = [const_value(e, consts) for e in test.comparators[0].elts]
                if None not in vals:
                    if isinstance(test.ops[0], ast.In):
                        return a in vals
                    if isinstance(test.ops[0], ast.NotIn):
                        return a not in vals
            return None
        op = test.ops[0]
        if isinstance(op, ast.Eq):
            return a == b
        if isinstance(op, ast.NotEq):
            return a != b
    if isinstance(test, ast.Call) and ast.unparse(test.func) == "isinstance":
        # isinstance(radius, np.ndarray) with scalar semantics: array broadcasting is an oracle
        if ast.unparse(test.args[1]) in ("np.ndarray", "nb.types.Array"):
            return False
    return None


def flatten(stmts: list[ast.stmt], consts: dict) -> list[ast.stmt]:
    """Resolve `if` statements whose tests are decided by `consts`; drop docstrings/imports."""
    out: list[ast.stmt] = []
    for s in stmts:
        if isinstance(s, ast.Expr) and isinstance(s.value, ast.Constant) and isinstance(s.value.value, str):
            continue
        if isinstance(s, (ast.Import, ast.ImportFrom)):
            continue
        if isinstance(s, ast.If):
            t = _test_const(s.test, consts)
            if t is None:
                out.append(s)
            elif t:
                out.extend(flatten(s.body, consts))
                if _always_leaves(s.body):
                    return out
            else:
                out.extend(flatten(s.orelse, consts))
            continue
        out.append(s)
        if isinstance(s, (ast.Return, ast.Raise)):
            return out
    return out


def _always_leaves(body):
    return bool(body) and isinstance(body[-1], (ast.Return, ast.Raise))


def find_function(tree_or_body, path: list[str], consts: dict) -> ast.FunctionDef:
    """Descend through nested defs / classes following `path`, resolving `if`s by `consts`."""
    body = tree_or_body.body if hasattr(tree_or_body, "body") else tree_or_body
    name, rest = path[0], path[1:]
    for s in _walk_defs(flatten(body, consts) if not isinstance(tree_or_body, ast.Module) else body):
        if isinstance(s, (ast.FunctionDef, ast.ClassDef)) and s.name == name:
            # property setters share the name with the getter: honour the `@x.setter` request
            if rest and rest[0] == "@setter":
                if not any("setter" in ast.unparse(d) for d in getattr(s, "decorator_list", [])):
                    continue
                return s if len(rest) == 1 else find_function(s, rest[1:], consts)
            if isinstance(s, ast.FunctionDef) and any("setter" in ast.unparse(d) for d in s.decorator_list):
                continue
            if not rest:
                return s
            return find_function(s, rest, consts)
    raise TranslateError(f"function {'/'.join(path)} not found")


def _walk_defs(stmts):
    for s in stmts:
        yield s


def translate_body(fn: ast.FunctionDef, params: list[str], consts: dict, mode: str = "R",
                   calls: dict | None = None, env0: dict | None = None) -> str:
    """Translate the (partially evaluated) body of `fn` to one Gallina expression."""
    env = {p: p for p in params}
    if env0:
        env.update(env0)
    stmts = flatten(fn.body, consts)
    return _tr_stmts(stmts, env, consts, mode, calls)


def _tr_stmts(stmts, env, consts, mode, calls) -> str:
    if not stmts:
        raise TranslateError("function body falls through without return")
    s, rest = stmts[0], stmts[1:]
    et = ExprTranslator(env, mode, calls, consts)
    if isinstance(s, ast.Return):
        if s.value is None:
            raise TranslateError("bare return")
        return et.tr(s.value)
    if isinstance(s, ast.Assign) and len(s.targets) == 1 and isinstance(s.targets[0], ast.Name):
        v = s.targets[0].id
        rhs = et.tr(s.value)
        coqv = _fresh(v, env)
        env2 = dict(env)
        env2[v] = coqv
        return f"(let {coqv} := {rhs} in {_tr_stmts(rest, env2, consts, mode, calls)})"
    if isinstance(s, ast.AnnAssign) and isinstance(s.target, ast.Name) and s.value is not None:
        v = s.target.id
        rhs = et.tr(s.value)
        coqv = _fresh(v, env)
        env2 = dict(env)
        env2[v] = coqv
        return f"(let {coqv} := {rhs} in {_tr_stmts(rest, env2, consts, mode, calls)})"
    if isinstance(s, ast.FunctionDef):
        return _tr_stmts(rest, env, consts, mode, calls)  # nested helper defs are selected by path
    if isinstance(s, ast.If):
        # comparison on reals / ints that cannot be resolved statically
        c = _tr_cond(s.test, et)
        a = _tr_stmts(flatten(s.body, consts) + ([] if _always_leaves(s.body) else rest), env, consts, mode, calls)
        b = _tr_stmts(flatten(s.orelse, consts) + rest, env, consts, mode, calls)
        return f"(if {c} then {a} else {b})"
    raise TranslateError(f"unsupported statement {type(s).__name__}: {ast.unparse(s)[:100]}")


def _tr_cond(test, et: ExprTranslator) -> str:
    if isinstance(test, ast.Compare) and len(test.ops) == 1:
        a, b = et.tr(test.left), et.tr(test.comparators[0])
        op = test.ops[0]
        if et.mode == "Z":
            tbl = {ast.Lt: "Z.ltb", ast.LtE: "Z.leb", ast.Eq: "Z.eqb"}
            for k, v in tbl.items():
                if isinstance(op, k):
                    return f"({v} {a} {b})"
            if isinstance(op, ast.Gt):
                return f"(Z.ltb {b} {a})"
            if isinstance(op, ast.GtE):
                return f"(Z.leb {b} {a})"
            if isinstance(op, ast.NotEq):
                return f"(negb (Z.eqb {a} {b}))"
        else:
            tbl = {ast.Lt: "Rlt_dec", ast.LtE: "Rle_dec"}
            for k, v in tbl.items():
                if isinstance(op, k):
                    return f"({v} {a} {b})"
            if isinstance(op, ast.Gt):
                return f"(Rlt_dec {b} {a})"
            if isinstance(op, ast.GtE):
                return f"(Rle_dec {b} {a})"
            if isinstance(op, ast.Eq):
                return f"(Req_EM_T {a} {b})"
    raise TranslateError(f"unsupported condition {ast.unparse(test)}")


def _fresh(v: str, env: dict) -> str:
    base = "".join(ch if (ch.isascii() and (ch.isalnum() or ch == "_")) else "u" for ch in v)
    cand = base
    i = 0
    used = set(env.values())
    while cand in used or cand in ("PI", "sqrt", "exp", "sin", "cos", "tanh"):
        i += 1
        cand = f"{base}{i}"
    return cand


def parse_file(path: str | Path) -> ast.Module:
    return ast.parse(Path(path).read_text(encoding="utf-8"))


def definition(name: str, params: list[str], body: str, ty: str = "R") -> str:
    ps = " ".join(f"({p} : {ty})" for p in params)
    return f"Definition {name} {ps} : {ty} :=\n  {body}.\n"
