#!/bin/bash
# seed_recheck.sh <ID> [check ids...]: re-run the checks against an already confirmed seeded change
# (/verif/seeded/<ID>/patch.diff) after the machinery was strengthened; updates meta.json "checks".
set -u
NAME=$1; ID=${NAME%%-*}; shift; CHECKS=${@:-$ID}
OUT=/verif/seeded/$NAME
PP=$OUT/patch.diff; [ -f $OUT/patch_rebased.diff ] && PP=$OUT/patch_rebased.diff  # patch_rebased.diff is always the rebase onto the current /repo HEAD
S=/var/tmp/pd-seed-$NAME; rm -rf $S; cp -r /repo $S; git -C $S apply $PP || { echo "patch does not apply"; rm -rf $S; exit 2; }
cd /verif; RES=""
for c in $CHECKS; do
  VERIF_REPO=$S VERIF_BUILD=/verif/build/seed_$NAME VERIF_EVIDENCE=$OUT/evidence VERIF_REPLAYS=$OUT/replays ./check $c > $OUT/check_$c.txt 2>&1; rc=$?
  nv=$(grep -c "^VIOLATION" $OUT/check_$c.txt); nf=$(grep -c "no-failing-input-found" $OUT/check_$c.txt)
  RES="$RES{\"check\":\"$c\",\"exit\":$rc,\"violation_lines\":$nv,\"without_failing_input\":$nf},"
done
rm -rf $S /verif/build/seed_$NAME
python3 - "$OUT" "[${RES%,}]" <<'PY'
import json,sys
out,res=sys.argv[1:3]
m=json.load(open(out+"/meta.json"))
old=m.get("checks",[])
m.setdefault("history",[]).append({"checks_before_strengthening":old})
m["checks"]=json.loads(res)
json.dump(m,open(out+"/meta.json","w"),indent=1)
print(m["checks"])
PY
