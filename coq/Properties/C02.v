From Coq Require Import QArith List.
From PD Require Import Model.MergeLoop Model.Locate Proofs.C02.
Theorem C02_placeholder : True. Proof. exact I. Qed.
Print Assumptions C02_placeholder.
