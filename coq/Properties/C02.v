(* C02 -- property theorems only. *)
From Coq Require Import QArith ZArith List Arith Bool.
Import ListNotations.
From PD Require Import Model.Grid Model.MergeLoop Model.Locate Model.LocateSym Model.Overlap
  Proofs.MergeLoop Proofs.Overlap Proofs.C02 Proofs.Components Proofs.LocateCart Model.Label Proofs.LabelSpec Proofs.LabelUnique Proofs.LabelClients.
Local Open Scope Q_scope.

(* ---- the periodic merge loop, for ANY list of boundary edges between labels 0..n-1 ---- *)
Theorem C02_merge_classes : forall N n pos0 vol0, (forall j, (j < n)%nat -> 0 < vol0 j) ->
  forall es, edges_ok n es -> forall j k,
  cl (merge_all N (init_state pos0 vol0) es) j = cl (merge_all N (init_state pos0 vol0) es) k <-> eqclos es j k.
Proof. exact merge_classes. Qed.
Print Assumptions C02_merge_classes.

Theorem C02_merge_volume : forall N n pos0 vol0, (forall j, (j < n)%nat -> 0 < vol0 j) ->
  forall es, edges_ok n es -> forall k, (k < n)%nat ->
  let st := merge_all N (init_state pos0 vol0) es in mvol st (cl st k) == msum n (cl st) (cl st k) vol0.
Proof. exact merge_volume. Qed.
Print Assumptions C02_merge_volume.

Theorem C02_merge_position : forall N n pos0 vol0, (forall j, (j < n)%nat -> 0 < vol0 j) ->
  forall es, edges_ok n es -> forall k a, (k < n)%nat ->
  let st := merge_all N (init_state pos0 vol0) es in
  mpos st (cl st k) a * msum n (cl st) (cl st k) vol0 == msum n (cl st) (cl st k) (contrib N pos0 vol0 st a).
Proof. exact merge_position. Qed.
Print Assumptions C02_merge_position.

Theorem C02_merge_offsets_follow_lift : forall N pos0 vol0 kappa es, lift_ok kappa es ->
  exists t : nat -> nat -> Z, forall k a,
    (off (merge_all N (init_state pos0 vol0) es) k a =
     kappa k a + t (cl (merge_all N (init_state pos0 vol0) es) k) a)%Z.
Proof. exact merge_offsets. Qed.
Print Assumptions C02_merge_offsets_follow_lift.

(* ---- Cartesian grids: clusters = connected components under torus adjacency ----
   img: label image of scipy.ndimage.label (oracle) in raster order; LabelSpecImg: equal non-zero labels
   <=> connected through face-adjacent mask cells inside the box; wf_img: one entry per grid cell, every
   label 1..n occurs.  torus_conn: connectivity through faces and across periodic boundaries. *)
Theorem C02_cartesian_components : forall g img, grid_ok g -> wf_img g img -> LabelSpecImg img ->
  forall a b, In a (mask_cells img) -> In b (mask_cells img) ->
  cl (final_state g img) (clab img a) = cl (final_state g img) (clab img b) <-> torus_conn g img a b.
Proof. exact locate_cart_components. Qed.
Print Assumptions C02_cartesian_components.

(* a droplet's volume is its component's total cell volume *)
Theorem C02_cartesian_volume : forall g img, grid_ok g -> wf_img g img -> LabelSpecImg img ->
  forall a comp, In a (mask_cells img) -> NoDup comp ->
  (forall c, In c comp <-> In c (mask_cells img) /\ torus_conn g img a c) ->
  mvol (final_state g img) (cl (final_state g img) (clab img a))
  == cell_volume g * inject_Z (Z.of_nat (length comp)).
Proof. exact locate_cart_volume. Qed.
Print Assumptions C02_cartesian_volume.

(* components that do not wind around a periodic axis (a consistent lift kappa of the labels exists):
   the stored position is the centre of mass of the unwrapped component, up to whole periods t *)
Theorem C02_cartesian_position : forall g img, grid_ok g -> wf_img g img -> LabelSpecImg img ->
  forall kappa, lift_ok kappa (edges g img) ->
  exists t : nat -> nat -> Z, forall a ax comp, In a (mask_cells img) -> NoDup comp ->
    (forall c, In c comp <-> In c (mask_cells img) /\ torus_conn g img a c) ->
    let i := cl (final_state g img) (clab img a) in
    mpos (final_state g img) i ax * inject_Z (Z.of_nat (length comp))
    == lsum comp (fun c => coordQ c ax + (1 # 2) + inject_Z ((kappa (clab img c) ax + t i ax) * shapeN g ax)).
Proof. exact locate_cart_position. Qed.
Print Assumptions C02_cartesian_position.

(* meaning of the lift: across a periodic boundary pair (l on the low face, h on the high face of axis ax)
   the lifted cells are face neighbours exactly when kappa is consistent on that edge *)
Theorem C02_lift_means_unwrapped : forall g img kappa ax l h a, grid_ok g -> wrap_pair g ax l h ->
  (a < length g)%nat ->
  coordQ h a + inject_Z (kappa (clab img h) a * shapeN g a) + inject_Z (delta a ax)
  == coordQ l a + inject_Z (kappa (clab img l) a * shapeN g a)
  <-> kappa (clab img h) a = (kappa (clab img l) a - delta a ax)%Z.
Proof. exact wrap_pair_lift_adjacent. Qed.
Print Assumptions C02_lift_means_unwrapped.

(* the boundary edges the model enumerates are exactly the periodic boundary pairs of mask cells *)
Theorem C02_edges_sound_complete : forall g img, grid_ok g -> wf_img g img ->
  (forall kl kh ax, In (kl, kh, ax) (edges g img) ->
     exists l h, In l (mask_cells img) /\ In h (mask_cells img) /\ wrap_pair g ax l h /\
                 clab img l = kl /\ clab img h = kh) /\
  (forall ax l h, In l (mask_cells img) -> In h (mask_cells img) -> wrap_pair g ax l h ->
     In (clab img l, clab img h, ax) (edges g img)).
Proof.
  intros g img Hg Hw. exact (conj (fun kl kh ax => edges_sound g img kl kh ax Hg Hw)
                                  (fun ax l h => edges_complete g img ax l h Hg)).
Qed.
Print Assumptions C02_edges_sound_complete.

(* ---- the same WITHOUT the oracle premise: with the executable labelling Model/Label.v (proved to satisfy the
   specification of scipy.ndimage.label; compared with scipy's label image inside Coq on every sample) ---- *)
Theorem C02_label_meets_spec : forall g mask, length mask = length (all_cells (gshape g)) ->
  LabelSpecImg (mk_limage (gshape g) (label (gshape g) mask)) /\
  wf_img g (mk_limage (gshape g) (label (gshape g) mask)).
Proof. intros g mask H. exact (conj (label_spec (gshape g) mask H) (label_wf g mask H)). Qed.
Print Assumptions C02_label_meets_spec.

(* any label image that is zero exactly off the mask, satisfies the specification and numbers components in raster
   order IS the executable one: comparing scipy's labels with `label` checks scipy against its specification *)
Theorem C02_label_unique : forall shape mask lab',
  length mask = length (all_cells shape) -> length lab' = length mask ->
  (forall c m, In (c, m) (combine (all_cells shape) mask) -> (lab_of (mk_limage shape lab') c = 0%nat <-> m = false)) ->
  LabelSpecImg (mk_limage shape lab') -> rgs 0 lab' -> lab' = label shape mask.
Proof. exact label_unique. Qed.
Print Assumptions C02_label_unique.

Theorem C02_cartesian_components_end_to_end : forall g mask, grid_ok g ->
  length mask = length (all_cells (gshape g)) ->
  let img := mk_limage (gshape g) (label (gshape g) mask) in
  forall a b, In (a, true) (combine (all_cells (gshape g)) mask) -> In (b, true) (combine (all_cells (gshape g)) mask) ->
  cl (final_state g img) (clab img a) = cl (final_state g img) (clab img b) <->
  connT cell (mcells (gshape g) mask) face_adj (wrap_pair g) a b.
Proof. exact locate_cart_components_mask. Qed.
Print Assumptions C02_cartesian_components_end_to_end.

Theorem C02_cartesian_volume_end_to_end : forall g mask, grid_ok g ->
  length mask = length (all_cells (gshape g)) ->
  let img := mk_limage (gshape g) (label (gshape g) mask) in
  forall a comp, In a (mask_cells img) -> NoDup comp ->
  (forall c, In c comp <-> In c (mask_cells img) /\ torus_conn g img a c) ->
  mvol (final_state g img) (cl (final_state g img) (clab img a))
  == cell_volume g * inject_Z (Z.of_nat (length comp)).
Proof. exact locate_cart_volume_label. Qed.
Print Assumptions C02_cartesian_volume_end_to_end.

Theorem C02_cartesian_position_end_to_end : forall g mask, grid_ok g ->
  length mask = length (all_cells (gshape g)) ->
  let img := mk_limage (gshape g) (label (gshape g) mask) in
  forall kappa, lift_ok kappa (edges g img) ->
  exists t : nat -> nat -> Z, forall a ax comp, In a (mask_cells img) -> NoDup comp ->
    (forall c, In c comp <-> In c (mask_cells img) /\ torus_conn g img a c) ->
    let i := cl (final_state g img) (clab img a) in
    mpos (final_state g img) i ax * inject_Z (Z.of_nat (length comp))
    == lsum comp (fun c => coordQ c ax + (1 # 2) + inject_Z ((kappa (clab img c) ax + t i ax) * shapeN g ax)).
Proof. exact locate_cart_position_label. Qed.
Print Assumptions C02_cartesian_position_end_to_end.

(* ---- returned droplets ---- *)
Theorem C02_returned_do_not_overlap : forall D rad l i j,
  In i (ro D rad 0 l) -> In j (ro D rad 0 l) -> i <> j -> 0 <= D i j.
Proof. exact returned_do_not_overlap. Qed.
Print Assumptions C02_returned_do_not_overlap.

Theorem C02_left_out_only_if_overlapped : forall D rad l k, In k l -> ~ In k (ro D rad 0 l) ->
  exists j, In j l /\ j <> k /\ (D k j < 0 \/ D j k < 0) /\ rad k <= rad j.
Proof. exact left_out_only_if_overlapped. Qed.
Print Assumptions C02_left_out_only_if_overlapped.

(* ---- symmetric grids ---- *)
Theorem C02_radial : forall r_lo dr m,
  match locate_radial r_lo dr m with
  | None => nth_error m 0 = Some false \/ m = []
  | Some r => exists n, (0 < n)%nat /\ r = r_lo + inject_Z (Z.of_nat n) * dr /\
                        (forall i, (i < n)%nat -> nth_error m i = Some true) /\
                        (nth_error m n = Some false \/ nth_error m n = None)
  end.
Proof. exact locate_radial_spec. Qed.
Print Assumptions C02_radial.

Theorem C02_cyl_candidates_are_axis_clusters : forall g img ds, cyl_single g img = Found ds ->
  (forall d, In d ds -> exists k, (k < num_labels img)%nat /\ on_axis (members img k) = true /\
                                  d = cyl_droplet g (members img k)) /\
  (forall k, (k < num_labels img)%nat -> on_axis (members img k) = true -> In (cyl_droplet g (members img k)) ds).
Proof. intros g img ds H. exact (conj (cyl_single_members g img ds H) (cyl_single_complete g img ds H)). Qed.
Print Assumptions C02_cyl_candidates_are_axis_clusters.

Theorem C02_cyl_volume_is_cluster_volume : forall g cs,
  snd (cyl_droplet g cs) = csum cs (fun c => shell g (ridx c)).
Proof. exact cyl_droplet_volume. Qed.
Print Assumptions C02_cyl_volume_is_cluster_volume.

Theorem C02_cyl_empty_if_off_axis : forall g img_pad img,
  (forall k, on_axis (members img k) = false) -> (forall k, on_axis (members img_pad k) = false) ->
  cyl_candidates g img_pad img = [].
Proof. exact cyl_empty_if_off_axis. Qed.
Print Assumptions C02_cyl_empty_if_off_axis.

Theorem C02_cyl_window_in_box : forall g ds d, In d (cyl_window g ds) -> cg_zlo g <= fst d /\ fst d < cg_zhi g.
Proof. exact cyl_window_in_box. Qed.
Print Assumptions C02_cyl_window_in_box.

(* non-vacuity: the 3x3 doubly periodic image of defect F1b: one torus component of 5 cells *)
Example C02_nonvacuous :
  let g := [ {| ncell := 3; alo := 0; ahi := 3; aper := true |}; {| ncell := 3; alo := 0; ahi := 3; aper := true |} ] in
  map (fun p => (map Qred (fst p), Qred (snd p))) (candidates g [0;1;0; 2;0;3; 2;2;0]%nat) = [([23 # 10; 7 # 10], 5)] /\
  edges_ok 3 (edges g (mk_limage (gshape g) [0;1;0; 2;0;3; 2;2;0]%nat)).
Proof.
  split; [vm_compute; reflexivity|].
  intros kl kh ax H. vm_compute in H. destruct H as [H|[H|[]]]; injection H as <- <- <-; split; repeat constructor.
Qed.
