(* C15 -- property theorems only; each closed by `exact`, with Print Assumptions. *)
From Coq Require Import String List Bool Arith QArith Permutation.
From PD Require Import Model.Online Model.Parallel Gen.Gen_glue Proofs.Online Proofs.Parallel Proofs.ParallelOneShot Proofs.C14 Proofs.C15.
Import ListNotations.
Local Open Scope nat_scope.

(* list(executor.map(f, xs)) on w >= 1 workers returns map f xs for every schedule *)
Theorem C15_pool_map_schedule_free :
  forall (A B : Type) (f : A -> B) (xs : list A) (sigma : list nat) (w : nat),
    Permutation sigma (seq 0 (length xs)) -> 1 <= w -> pool_map f xs sigma w = Some (map f xs).
Proof. exact (fun A B => @pool_map_schedule_free_perm A B). Qed.
Print Assumptions C15_pool_map_schedule_free.

(* ... even for rankings that are not permutations (tasks not named are slowest) *)
Theorem C15_pool_map_any_ranking :
  forall (A B : Type) (f : A -> B) (xs : list A) (sigma : list nat) (w : nat),
    1 <= w -> pool_map f xs sigma w = Some (map f xs).
Proof. exact pool_map_schedule_free. Qed.
Print Assumptions C15_pool_map_any_ranking.

(* the schedules range over everything a pool can do: every task finishes exactly once; with enough
   workers every permutation is the completion order; with one worker it is the submission order *)
Theorem C15_schedules :
  (forall n w sigma, 1 <= w -> Permutation (completion_order n w sigma) (seq 0 n)) /\
  (forall n w sigma, n <= w -> Permutation sigma (seq 0 n) -> completion_order n w sigma = sigma) /\
  (forall n sigma, completion_order n 1 sigma = seq 0 n).
Proof. exact (conj completion_order_perm (conj completion_order_all_workers completion_order_one_worker)). Qed.
Print Assumptions C15_schedules.

(* refine_droplets with any usable process count (n >= 1 or "auto") under any schedule returns the
   serial list comprehension: same results, same order *)
Theorem C15_refine_droplets_par_eq_ser :
  forall (candidate outcome_t : Type) (is_none : outcome_t -> bool)
         (worker : string -> candidate -> outcome_t)
         (np : nproc) (ncpu : nat) (sigma : list nat) (cands : list candidate),
    usable np ncpu ->
    refine_droplets candidate outcome_t is_none worker np ncpu sigma cands
    = Done (refine_serial candidate outcome_t is_none worker cands).
Proof. exact refine_droplets_par_eq_ser. Qed.
Print Assumptions C15_refine_droplets_par_eq_ser.

Theorem C15_refine_droplets_independent :
  forall (candidate outcome_t : Type) (is_none : outcome_t -> bool)
         (worker : string -> candidate -> outcome_t)
         (np1 np2 : nproc) (ncpu1 ncpu2 : nat) (sigma1 sigma2 : list nat) (cands : list candidate),
    usable np1 ncpu1 -> usable np2 ncpu2 ->
    refine_droplets candidate outcome_t is_none worker np1 ncpu1 sigma1 cands
    = refine_droplets candidate outcome_t is_none worker np2 ncpu2 sigma2 cands.
Proof. exact refine_droplets_independent. Qed.
Print Assumptions C15_refine_droplets_independent.

(* EmulsionTimeCourse.from_storage with any usable process count, either setting of `progress` (truthy or
   not) and any schedule returns what the serial analysis of Model/Online.v returns (emulsions paired with
   their times, first exception) *)
Theorem C15_from_storage_par_eq_ser :
  forall (value : Type) (parse : string -> value) (field emulsion exn : Type)
         (locate : list (string * option value) -> field -> res exn emulsion)
         (user : kwdict value) (progress : bool) (np : nproc) (ncpu : nat) (sigma : list nat)
         (storage : list (field * Q)),
    usable np ncpu ->
    from_storage_np value parse field emulsion exn locate user progress np ncpu sigma storage
    = Done (from_storage value parse field emulsion exn locate G O_serial user storage).
Proof. exact from_storage_par_eq_ser. Qed.
Print Assumptions C15_from_storage_par_eq_ser.

Theorem C15_from_storage_independent :
  forall (value : Type) (parse : string -> value) (field emulsion exn : Type)
         (locate : list (string * option value) -> field -> res exn emulsion)
         (user : kwdict value) (progress1 progress2 : bool) (np1 np2 : nproc) (ncpu1 ncpu2 : nat)
         (sigma1 sigma2 : list nat) (storage : list (field * Q)),
    usable np1 ncpu1 -> usable np2 ncpu2 ->
    from_storage_np value parse field emulsion exn locate user progress1 np1 ncpu1 sigma1 storage
    = from_storage_np value parse field emulsion exn locate user progress2 np2 ncpu2 sigma2 storage.
Proof. exact from_storage_independent. Qed.
Print Assumptions C15_from_storage_independent.

(* branch selection and worker count as written in the source *)
Theorem C15_branches :
  (forall np, (is_serial P_refine np = true <-> np = NPInt 1) /\
              (forall progress, is_serial (P_storage progress) np = true <-> np = NPInt 1)) /\
  (forall np ncpu ntasks, workers P_refine np ncpu ntasks = match np with NPAuto => ncpu | NPInt n => n end /\
                          (forall progress, workers (P_storage progress) np ncpu ntasks
                                            = match np with NPAuto => ncpu | NPInt n => n end)) /\
  (forall np ncpu ntasks, usable np ncpu ->
                          1 <= workers P_refine np ncpu ntasks /\
                          forall progress, 1 <= workers (P_storage progress) np ncpu ntasks) /\
  (rd_serial_iter = rd_parallel_iter /\ fs_serial_iter = fs_parallel_iter /\ fs_times_from = fs_serial_iter) /\
  (p_gather P_refine = GatherByIndex /\ forall progress, p_gather (P_storage progress) = GatherByIndex).
Proof.
  exact (conj serial_iff_one (conj workers_rule (conj workers_positive (conj iterate_same_argument
          (conj (eq_refl : p_gather P_refine = GatherByIndex) storage_gathers_by_index))))).
Qed.
Print Assumptions C15_branches.

(* refine_droplet writes into its options dict (tolerance defaults) only after rebinding it to a copy (generated
   fact refine_copies_options): for every task function, options value, usable process count and schedule the
   results equal the serial map over the ORIGINAL options and the caller's options are unchanged -- by the serial
   branch, which hands one object to all tasks, and by the pool, whose tasks work on pickled copies *)
Theorem C15_refine_options_par_eq_ser :
  forall (candidate outcome_t options : Type) (is_none : outcome_t -> bool)
         (task : string -> options -> candidate -> outcome_t * options)
         (o : options) (np : nproc) (ncpu : nat) (sigma : list nat) (cands : list candidate),
    usable np ncpu ->
    rd_parallel_call = rd_serial_call /\
    refine_droplets_with_options candidate outcome_t options is_none task o np ncpu sigma cands
    = Done (filter (fun r => negb (is_none r)) (map (fun c => fst (task rd_serial_call o c)) cands), o).
Proof. exact refine_options_par_eq_ser. Qed.
Print Assumptions C15_refine_options_par_eq_ser.

Theorem C15_refine_options_independent :
  forall (candidate outcome_t options : Type) (is_none : outcome_t -> bool)
         (task : string -> options -> candidate -> outcome_t * options)
         (o : options) (np1 np2 : nproc) (ncpu1 ncpu2 : nat) (sigma1 sigma2 : list nat) (cands : list candidate),
    usable np1 ncpu1 -> usable np2 ncpu2 ->
    refine_droplets_with_options candidate outcome_t options is_none task o np1 ncpu1 sigma1 cands
    = refine_droplets_with_options candidate outcome_t options is_none task o np2 ncpu2 sigma2 cands.
Proof. exact refine_options_independent. Qed.
Print Assumptions C15_refine_options_independent.

(* what that theorem excludes: a task that writes into the object it is handed (o.setdefault(key, x); return
   o[key]).  Two tasks, options initially unset: serially the second task sees what the first wrote and the
   caller's dict is modified; with two processes neither happens *)
Theorem C15_shared_options_refuted :
  exists (sigma : list nat),
    mapped_with_options none_nat plain_glue false setdefault_task None (NPInt 1) 4 sigma [1; 2]
      = Done ([Some 1; Some 1], Some 1) /\
    mapped_with_options none_nat plain_glue false setdefault_task None (NPInt 2) 4 sigma [1; 2]
      = Done ([Some 1; Some 2], None).
Proof. exact shared_options_refuted. Qed.
Print Assumptions C15_shared_options_refuted.

(* refine_droplet works on a copy of the candidate it is handed (generated fact refine_copies_candidate): for
   every usable process count and schedule the results are the serial map and the caller's candidate list is
   unchanged -- by the serial branch, which hands the caller's objects to the task, and by the pool *)
Theorem C15_refine_candidates_par_eq_ser :
  forall (candidate outcome_t : Type) (is_none : outcome_t -> bool)
         (task : string -> candidate -> outcome_t * candidate)
         (np : nproc) (ncpu : nat) (sigma : list nat) (cands : list candidate),
    usable np ncpu ->
    refine_droplets_with_candidates candidate outcome_t is_none task np ncpu sigma cands
    = Done (filter (fun r => negb (is_none r)) (map (fun c => fst (task rd_serial_call c)) cands), cands).
Proof. exact refine_candidates_par_eq_ser. Qed.
Print Assumptions C15_refine_candidates_par_eq_ser.

(* what it excludes: a task that fits the object it is handed in place *)
Theorem C15_shared_arguments_refuted :
  exists (sigma : list nat),
    mapped_with_arguments none_nat plain_glue false in_place_task (NPInt 1) 4 sigma [1; 2]
      = Done ([Some 11; Some 12], [11; 12]) /\
    mapped_with_arguments none_nat plain_glue false in_place_task (NPInt 2) 4 sigma [1; 2]
      = Done ([Some 11; Some 12], [1; 2]).
Proof. exact shared_arguments_refuted. Qed.
Print Assumptions C15_shared_arguments_refuted.

(* ... and a worker count min(cpus, number of tasks) without the lower bound 1: "auto" on an empty task list
   is rejected by the pool where an explicit count returns the empty result *)
Theorem C15_capped_workers_refuted :
  let P := {| p_serial_when := 1; p_max_workers := MWAutoCapped; p_gather := GatherByIndex;
              p_serial_filters_none := true; p_parallel_filters_none := true |} in
  mapped none_nat P (fun x : nat => Some x) (fun x => Some x) NPAuto 8 [] [] = Failed BadWorkerCount /\
  mapped none_nat P (fun x : nat => Some x) (fun x => Some x) (NPInt 2) 8 [] [] = Done [].
Proof. exact capped_workers_refuted. Qed.
Print Assumptions C15_capped_workers_refuted.

(* the candidates may be a one-shot iterable (generator, iter(list), filter / map object): the parallel branch
   traverses the argument exactly once (or materialises it first), so the tasks are made of ALL candidates *)
Theorem C15_candidates_all_dispatched :
  forall (A : Type) (xs : list A),
    rd_serial_iterates_once = true /\ rd_parallel_iterates_once = true /\
    seen_by_dispatch rd_parallel_uses_of_candidates false xs = Some xs.
Proof. exact (fun A => @candidates_all_dispatched A). Qed.
Print Assumptions C15_candidates_all_dispatched.

(* what it excludes: peeking into the container before dispatching it *)
Theorem C15_one_shot_peek_refuted :
  (seen_by_dispatch ["other"; "dispatch"] false [1; 2; 3] = Some [2; 3] /\
   seen_by_dispatch ["dispatch"] false [1; 2; 3] = Some [1; 2; 3] /\
   seen_by_dispatch ["materialise"; "len"; "dispatch"] false [1; 2; 3] = Some [1; 2; 3])%string.
Proof. exact one_shot_peek_refuted. Qed.
Print Assumptions C15_one_shot_peek_refuted.

(* what the theorems exclude: a gatherer that returns results in completion order *)
Theorem C15_completion_order_refuted :
  exists (f : nat -> nat) (xs : list nat) (sigma : list nat) (w : nat),
    Permutation sigma (seq 0 (length xs)) /\ 1 <= w /\ pool_map_completion f xs sigma w <> map f xs.
Proof. exact completion_order_refuted. Qed.
Print Assumptions C15_completion_order_refuted.

(* non-vacuity: a usable process count, a schedule that is a permutation and reorders completions *)
Example C15_nonvacuous :
  usable (NPInt 3) 8 /\ usable NPAuto 8 /\ Permutation [2; 0; 1] (seq 0 3) /\
  completion_order 3 2 [2; 0; 1] = [0; 2; 1] /\ completion_order 3 3 [2; 0; 1] = [2; 0; 1] /\
  pool_map S [5; 6; 7] [2; 0; 1] 2 = Some [6; 7; 8] /\
  pool_map_completion S [5; 6; 7] [2; 0; 1] 3 = [8; 6; 7].
Proof.
  repeat split; try (vm_compute; reflexivity); try (simpl; repeat constructor).
  apply (Permutation_cons_app [0; 1] [] 2). apply Permutation_refl.
Qed.
