(* C18 -- property theorems only. *)
From Coq Require Import QArith ZArith List Bool.
Import ListNotations.
From PD Require Import Model.Threshold Model.Pipeline Model.Overlap Gen.Gen_analysis Proofs.C18 Proofs.Otsu.
Local Open Scope Q_scope.

(* locate_mask: ANY function of the binary image (Model/Locate.v is one instance) *)

Theorem C18_locate_factorises : forall (cand : Type) (locate_mask : list bool -> list cand) radius r mn x l,
  locate cand locate_mask radius r mn x l =
  size_filter cand radius mn (locate_mask (map (fun v => mask_cell v (threshold_of r x l)) (x :: l))).
Proof. exact locate_is_locate_mask. Qed.
Print Assumptions C18_locate_factorises.

Theorem C18_mask_is_exceeds_threshold : forall x t, mask_cell x t = true <-> t < x.
Proof. exact mask_cell_gt. Qed.
Print Assumptions C18_mask_is_exceeds_threshold.

Theorem C18_threshold_rules : forall x l t,
  threshold_of ThrExtrema x l == (lmin x l + lmax x l) / 2 /\
  threshold_of ThrAuto x l == (lmin x l + lmax x l) / 2 /\
  threshold_of ThrMean x l == lmean x l /\
  threshold_of ThrOtsu x l == otsu x l /\
  threshold_of (ThrNum t) x l == t.
Proof. intros. unfold threshold_of, tau. repeat split; reflexivity. Qed.
Print Assumptions C18_threshold_rules.

Theorem C18_otsu_is_argmax_bin_centre : forall x l, Qeq_bool (lmin x l) (lmax x l) = false ->
  let lo := lmin x l in let hi := lmax x l in
  let cnt := count_bin (map (bin_index lo hi) (x :: l)) in
  let c := bin_centre lo hi in
  exists k, In k splits /\ otsu x l = c k /\ forall j, In j splits -> variance12 cnt c j <= variance12 cnt c k.
Proof. exact tau_otsu_argmax. Qed.
Print Assumptions C18_otsu_is_argmax_bin_centre.

(* every rule, including Otsu; a numeric threshold is mapped the same way (map_rule) *)
Theorem C18_affine_invariant : forall (cand : Type) (locate_mask : list bool -> list cand) radius a b r mn x l,
  0 < a ->
  locate cand locate_mask radius (map_rule a b r) mn (affine a b x) (map (affine a b) l) =
  locate cand locate_mask radius r mn x l.
Proof. exact affine_invariant_all. Qed.
Print Assumptions C18_affine_invariant.

Theorem C18_mask_affine_invariant : forall a b r x l, 0 < a ->
  mask_of (map_rule a b r) (affine a b x) (map (affine a b) l) = mask_of r x l.
Proof. exact mask_affine_all. Qed.
Print Assumptions C18_mask_affine_invariant.

Theorem C18_otsu_equivariant : forall a b x l, 0 < a -> Qeq_bool (lmin x l) (lmax x l) = false ->
  otsu (affine a b x) (map (affine a b) l) == affine a b (otsu x l).
Proof. exact otsu_affine. Qed.
Print Assumptions C18_otsu_equivariant.

Theorem C18_mask_eval_eq : forall r x l, mask_eval r x l = mask_of r x l.
Proof. exact mask_eval_eq. Qed.
Print Assumptions C18_mask_eval_eq.

(* the evaluation-friendly variance used by the correspondence equals the specification *)
Theorem C18_variance_eval_eq : forall cnt c k, variance12r cnt c k == variance12 cnt c k.
Proof. exact variance12r_eq. Qed.
Print Assumptions C18_variance_eval_eq.

Theorem C18_filter_exact : forall (cand : Type) radius mn cs (c : cand),
  In c (size_filter cand radius mn cs) <-> In c cs /\ mn < radius c.
Proof. exact filter_exact. Qed.
Print Assumptions C18_filter_exact.

Theorem C18_located_above_minimal : forall (cand : Type) (locate_mask : list bool -> list cand) radius r mn x l c,
  In c (locate cand locate_mask radius r mn x l) -> mn < radius c.
Proof. exact located_above_minimal. Qed.
Print Assumptions C18_located_above_minimal.

Theorem C18_filter_is_remove_small_loop : forall rad mn l,
  remove_small rad mn l = filter (fun k => negb (small (rad k) mn)) l.
Proof. exact small_is_remove_small. Qed.
Print Assumptions C18_filter_is_remove_small_loop.

Example C18_nonvacuous : 0 < 3 /\ not_otsu ThrExtrema /\
  mask_of ThrMean 1 [4; 2; 9] = [false; false; false; true].
Proof. repeat split; vm_compute; reflexivity. Qed.
