(* stub *)
