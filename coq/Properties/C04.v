(* C04 -- property theorems only; each closed by `exact`, with Print Assumptions.
   D-layer, over Model/Refine.v, which composes the lines of refine_droplet GENERATED from the current source
   (Gen_refine: start vector, bounds, write-back, intensity levels, dilation count, final position).
   lsq : the optimiser (scipy.optimize.least_squares) -- every statement that needs it carries the visible
         premise `lsq_spec lsq` (answer within the bounds, cost not larger than at the start);
   hyp : Euclidean norm used by grid.transform;  dev : image deviation over the fit region (abstract);
   st  : min / max of the image over the fit region (None = empty region). *)
From Coq Require Import String QArith ZArith List Bool.
Import ListNotations.
From PD Require Import Model.Grid Gen.Gen_refine Model.Refine Proofs.RefineVec Proofs.Render Proofs.Refine Proofs.C04.
From PD Require Import Proofs.RefineOptions.
Local Open Scope Q_scope.

(* the result has the candidate's class, promoted to DiffuseDroplet when it has no interface, and carries a width *)
Theorem C04_refine_class : forall lsq hyp dev g st vmin_o vmax_o adjust c r,
  refine lsq hyp dev g st vmin_o vmax_o adjust c = ROk r ->
  d_cls r = promote (d_cls c) /\ is_diffuse (d_cls r) = true /\ exists w, d_width r = Some w.
Proof. exact refine_class. Qed.
Print Assumptions C04_refine_class.

(* radius and width non-negative, amplitudes in [-1, 1], same number of modes *)
Theorem C04_refine_bounds : forall lsq hyp dev g st vmin_o vmax_o adjust c r,
  lsq_spec lsq -> wf c ->
  refine lsq hyp dev g st vmin_o vmax_o adjust c = ROk r ->
  0 <= d_rad r /\ (exists w, d_width r = Some w /\ 0 <= w) /\
  Forall (fun a => -1 <= a /\ a <= 1) (d_amp r) /\ length (d_amp r) = length (d_amp (promoted c)).
Proof. exact refine_bounds. Qed.
Print Assumptions C04_refine_bounds.

(* coordinates listed in grid.coordinate_constraints are the candidate's, whatever the optimiser and the
   norm oracle return and wherever the candidate lies *)
Theorem C04_refine_constrained_untouched : forall lsq hyp dev g st vmin_o vmax_o adjust c r,
  wf c -> wf_grid g ->
  refine lsq hyp dev g st vmin_o vmax_o adjust c = ROk r ->
  forall i, In i (constraints g) -> nth_error (d_pos r) i = nth_error (d_pos c) i.
Proof. exact refine_constrained_untouched. Qed.
Print Assumptions C04_refine_constrained_untouched.

(* periodic coordinates end in [lo, hi): every periodic axis of a Cartesian grid, z of a periodic cylinder *)
Theorem C04_refine_position_normalised : forall lsq hyp dev g st vmin_o vmax_o adjust c r,
  wf c -> wf_grid g ->
  refine lsq hyp dev g st vmin_o vmax_o adjust c = ROk r ->
  (g_family g = FCart -> forall i a, nth_error (g_axes g) i = Some a -> aper a = true -> alo a < ahi a ->
     exists x, nth_error (d_pos r) i = Some x /\ alo a <= x /\ x < ahi a) /\
  (g_family g = FCyl -> forall a, nth_error (g_axes g) 1 = Some a -> aper a = true -> alo a < ahi a ->
     exists z, nth_error (d_pos r) 2 = Some z /\ alo a <= z /\ z < ahi a).
Proof. exact refine_position_normalised. Qed.
Print Assumptions C04_refine_position_normalised.

(* the start vector handed to the optimiser satisfies all its preconditions (shapes, lo < hi, lo <= x0 <= hi) for
   every valid candidate and every intensity option -- with fitted intensities under the exact hypothesis
   vmin < vmax on the effective levels (given, or min / max of the data) *)
Theorem C04_refine_start_feasible : forall g st vmin_o vmax_o adjust c p,
  wf c -> valid g c ->
  prepare g st vmin_o vmax_o adjust c = inr p ->
  (adjust = false \/ p_vmin p < p_vmax p) ->
  lsq_precondition (p_x0 p) (p_lo p) (p_hi p) = None /\
  within (p_lo p) (p_x0 p) (p_hi p) = true /\ strict (p_lo p) (p_hi p) = true.
Proof. exact refine_start_feasible. Qed.
Print Assumptions C04_refine_start_feasible.

(* ... and the hypothesis is necessary: fitted intensities with vmin >= vmax are rejected (known finding F20) *)
Theorem C04_refine_degenerate_range_rejected : forall lsq hyp dev g st vmin_o vmax_o c p,
  wf c -> prepare g st vmin_o vmax_o true c = inr p -> ~ p_vmin p < p_vmax p ->
  refine lsq hyp dev g st vmin_o vmax_o true c = RErr EBoundsNotStrict.
Proof. exact refine_degenerate_range. Qed.
Print Assumptions C04_refine_degenerate_range_rejected.

(* no error value: matching dimension, valid candidate, increasing levels when they are fitted (an empty fit region
   with automatic levels falls back to the defaults 0 / 1) *)
Theorem C04_refine_ok : forall lsq hyp dev g st vmin_o vmax_o adjust c,
  lsq_spec lsq -> wf c -> valid g c -> length (d_pos c) = g_dim g ->
  (adjust = false \/ level_min vmin_o st < level_max vmax_o st) ->
  exists r, refine lsq hyp dev g st vmin_o vmax_o adjust c = ROk r.
Proof. exact refine_ok. Qed.
Print Assumptions C04_refine_ok.

(* squared deviation of the returned droplet (with the final intensities) <= that of the candidate; the premise
   `dev_normalisation_invariant` says that the rendered field does not change when the position is normalised *)
Theorem C04_refine_cost_le : forall lsq hyp dev g st vmin_o vmax_o adjust c r p,
  lsq_spec lsq -> wf c -> dev_normalisation_invariant hyp dev g ->
  prepare g st vmin_o vmax_o adjust c = inr p ->
  refine lsq hyp dev g st vmin_o vmax_o adjust c = ROk r ->
  exists vminf vrngf,
    sumsq (dev (flat_of r) vminf vrngf) <= sumsq (dev (p_flat p) (p_vmin p) (p_vrng p)) /\
    (adjust = false -> vminf = p_vmin p /\ vrngf = p_vrng p).
Proof. exact refine_cost_le. Qed.
Print Assumptions C04_refine_cost_le.

(* zero initial deviation => zero final deviation *)
Theorem C04_refine_fixed_point : forall lsq hyp dev g st vmin_o vmax_o adjust c r p,
  lsq_spec lsq -> wf c -> dev_normalisation_invariant hyp dev g ->
  prepare g st vmin_o vmax_o adjust c = inr p ->
  refine lsq hyp dev g st vmin_o vmax_o adjust c = ROk r ->
  sumsq (dev (p_flat p) (p_vmin p) (p_vrng p)) == 0 ->
  exists vminf vrngf, sumsq (dev (flat_of r) vminf vrngf) == 0.
Proof. exact refine_fixed_point. Qed.
Print Assumptions C04_refine_fixed_point.

(* ... and a solver that returns a zero-cost start unchanged returns the candidate itself (promoted, default
   width, position normalised) *)
Theorem C04_refine_fixed_point_unchanged : forall lsq hyp dev g st vmin_o vmax_o adjust c p,
  lsq_stationary lsq -> wf c -> valid g c ->
  prepare g st vmin_o vmax_o adjust c = inr p ->
  (adjust = false \/ p_vmin p < p_vmax p) ->
  sumsq (dev (p_flat p) (p_vmin p) (p_vrng p)) == 0 ->
  let q := promoted c in
  refine lsq hyp dev g st vmin_o vmax_o adjust c =
  ROk {| d_cls := d_cls q; d_pos := final_pos hyp g (d_pos q); d_rad := d_rad q;
         d_width := Some (p_width p); d_amp := d_amp q |}.
Proof. exact refine_fixed_point_unchanged. Qed.
Print Assumptions C04_refine_fixed_point_unchanged.

(* Cartesian grids: the final position is the normalised one and every (periodic) difference vector / squared
   distance from it to any point is unchanged -- what discharges `dev_normalisation_invariant` for a deviation
   that depends on the position through the grid's difference vectors only *)
Theorem C04_cart_normalisation_invariant : forall hyp g pos q, g_family g = FCart ->
  Forall (fun a => aper a = true -> alo a < ahi a) (g_axes g) ->
  final_pos hyp g pos = normalize (g_axes g) pos /\
  Qlist_eq (diff_vec (g_axes g) (final_pos hyp g pos) q) (diff_vec (g_axes g) pos q) /\
  dist2 (g_axes g) (final_pos hyp g pos) q == dist2 (g_axes g) pos q.
Proof. exact cart_final_pos_diff. Qed.
Print Assumptions C04_cart_normalisation_invariant.

(* the fit region: the candidate's binary image dilated n times, 2 w < n <= 2 w + 1 *)
Theorem C04_fit_region_dilation : forall w, 0 <= w ->
  (1 <= dilation_passed (dilation_iterations w))%Z /\
  2 * w < inject_Z (dilation_passed (dilation_iterations w)) /\
  inject_Z (dilation_passed (dilation_iterations w)) <= 2 * w + 1.
Proof. exact fit_region_dilation. Qed.
Print Assumptions C04_fit_region_dilation.

(* the options of the optimiser (arguments `tolerance`, `least_squares_params`; keys and the copy GENERATED from the source):
   the caller's dict holds the same entries after the call as before, whatever `tolerance` is ... *)
Theorem C04_options_caller_dict_unchanged : forall tolerance params,
  caller_params_after tolerance params = params.
Proof. exact caller_params_unchanged. Qed.
Print Assumptions C04_options_caller_dict_unchanged.

(* ... and least_squares receives every entry of the caller's dict unchanged; `tolerance` supplies ftol, xtol, gtol where the
   dict does not specify them; nothing else is added *)
Theorem C04_options_documented : forall tolerance params k,
  opt_lookup k (lsq_options tolerance params) =
  match opt_lookup k (match params with None => [] | Some p => p end) with
  | Some x => Some x
  | None => match tolerance with
            | Some t => if existsb (String.eqb k) ["ftol"; "xtol"; "gtol"]%string then Some (OQ t) else None
            | None => None
            end
  end.
Proof. exact lsq_options_lookup. Qed.
Print Assumptions C04_options_documented.

(* the candidate OBJECT of the caller is left as it was (also when it is a member of an Emulsion), and the result is a new
   object -- for every candidate class, grid, image and optimiser answer; `candidate_copied` is GENERATED from the source *)
Theorem C04_candidate_object_unchanged : forall lsq hyp dev g st vmin_o vmax_o adjust c,
  caller_candidate_after c (refine lsq hyp dev g st vmin_o vmax_o adjust c) = c /\ result_is_candidate c = false.
Proof. exact candidate_object_unchanged. Qed.
Print Assumptions C04_candidate_object_unchanged.

Example C04_options_nonvacuous :
  lsq_options (Some (1 # 1000)) (Some [("ftol"%string, OQ (1 # 10)); ("method"%string, OS "trf"%string)])
  = [("ftol"%string, OQ (1 # 10)); ("method"%string, OS "trf"%string); ("xtol"%string, OQ (1 # 1000)); ("gtol"%string, OQ (1 # 1000))]
  /\ lsq_options None None = []
  /\ lsq_options (Some 1) None = [("ftol"%string, OQ 1); ("xtol"%string, OQ 1); ("gtol"%string, OQ 1)].
Proof. exact ex_options. Qed.

(* non-vacuity: an optimiser satisfying both specifications; a spherical candidate across the periodic boundary of
   a Cartesian grid (promoted, default width, wrapped into the box); an off-axis axisymmetric candidate on a periodic
   cylinder with a moving "optimiser" (x, y untouched, z wrapped); the error value of a degenerate range; an empty
   fit region with automatic fitted levels (defaults 0 / 1) *)
Example C04_nonvacuous :
  (lsq_spec lsq_identity /\ lsq_stationary lsq_identity) /\
  res_is (refine lsq_identity (fun _ => 0) (fun _ _ _ => []) ex_cart (Some (0, 1)) None None true ex_sph)
    {| d_cls := RDiffuse; d_pos := [1; 1]; d_rad := 1; d_width := Some 1; d_amp := [] |} = true /\
  res_is (refine ex_lsq_cyl (fun _ => 1 # 2) (fun _ _ _ => []) ex_cyl (Some (0, 1)) (Some 0) (Some 1) true ex_axi)
    {| d_cls := RP3DAxi; d_pos := [3 # 10; 4 # 10; 15 # 4]; d_rad := 5 # 4; d_width := Some (3 # 4);
       d_amp := [1 # 20; -(1 # 5)] |} = true /\
  refine lsq_identity (fun _ => 0) (fun _ _ _ => []) ex_cart (Some (1, 1)) None None true ex_sph = RErr EBoundsNotStrict /\
  res_is (refine lsq_identity (fun _ => 0) (fun _ _ _ => []) ex_cart None None None true ex_sph)
    {| d_cls := RDiffuse; d_pos := [1; 1]; d_rad := 1; d_width := Some 1; d_amp := [] |} = true /\
  wf ex_sph /\ wf ex_axi /\ valid ex_cart ex_sph /\ valid ex_cyl ex_axi /\ wf_grid ex_cart /\ wf_grid ex_cyl.
Proof. exact (conj identity_lsq_spec ex_runs). Qed.
