(* C08 -- saving and loading returns an equal object.  Property theorems only; each closed by
   `exact`, with Print Assumptions.  `repo_fmt` holds the format facts generated from the current
   source (Gen/Gen_codec.v); F = bit pattern of a binary64, so `=` on droplets is bit identity. *)
From Coq Require Import ZArith List Bool String.
From PD Require Import Model.Codec Proofs.Codec Proofs.CodecDrop Gen.Gen_codec Proofs.C08.
Import ListNotations.
Local Open Scope Z_scope.

(* Emulsion.to_file then Emulsion.from_file: the same droplets, bit for bit *)
Theorem C08_dec_enc_emulsion : forall l f,
  valid_emulsion l = true -> enc_emulsion_file repo_fmt l = Ok f -> dec_emulsion_file repo_fmt f = Ok l.
Proof. exact dec_enc_emulsion_file. Qed.
Print Assumptions C08_dec_enc_emulsion.

(* EmulsionTimeCourse, at most 10^6 frames: same frames, same times (same int/float kind), same order *)
Theorem C08_dec_enc_etc : forall x f,
  valid_etc x = true -> Z.of_nat (List.length x) <= 10 ^ 6 ->
  enc_etc repo_fmt x = Ok f -> dec_etc repo_fmt f = Ok x.
Proof. exact dec_enc_etc. Qed.
Print Assumptions C08_dec_enc_etc.

(* DropletTrack: same droplets bit for bit, times equal under == (they come back as the doubles of the
   f8 time column).  Stated premise on the times: integer times within +-2^53, no NaN (`times_exact`);
   it is needed, see C08_track_int_time_refuted *)
Theorem C08_dec_enc_track : forall l f,
  valid_track l = true -> times_exact l = true ->
  enc_track_file repo_fmt l = Ok f ->
  exists l', dec_track_file repo_fmt f = Ok l' /\ track_same l l'.
Proof. exact dec_enc_track_file. Qed.
Print Assumptions C08_dec_enc_track.

(* DropletTrackList, at most 10^6 tracks; `valid_tracklist` = every member valid with exact times *)
Theorem C08_dec_enc_tracklist : forall x f,
  valid_tracklist x = true -> Z.of_nat (List.length x) <= 10 ^ 6 ->
  enc_tracklist repo_fmt x = Ok f ->
  exists x', dec_tracklist repo_fmt f = Ok x' /\ tracklist_same x x'.
Proof. exact dec_enc_tracklist. Qed.
Print Assumptions C08_dec_enc_tracklist.

(* DropletTrack.data rejects members whose layout differs from that of the first member: whatever is
   written is uniform (this is what rules out numpy's silent broadcast of a single amplitude) *)
Theorem C08_track_written_uniform : forall l f, enc_track_file repo_fmt l = Ok f ->
  match l with
  | [] => True
  | td0 :: _ => forallb (fun td => layout_eqb (layout (snd td)) (layout (snd td0))) l = true
  end.
Proof. exact track_written_uniform. Qed.
Print Assumptions C08_track_written_uniform.

(* writing raises, or the file reads back as the object written *)
Theorem C08_enc_total_or_err_emulsion : forall l, valid_emulsion l = true ->
  (exists e, enc_emulsion_file repo_fmt l = Err e) \/
  (exists f, enc_emulsion_file repo_fmt l = Ok f /\ dec_emulsion_file repo_fmt f = Ok l).
Proof. exact enc_total_or_err_emulsion. Qed.
Print Assumptions C08_enc_total_or_err_emulsion.

Theorem C08_enc_total_or_err_etc : forall x, valid_etc x = true -> Z.of_nat (List.length x) <= 10 ^ 6 ->
  (exists e, enc_etc repo_fmt x = Err e) \/
  (exists f, enc_etc repo_fmt x = Ok f /\ dec_etc repo_fmt f = Ok x).
Proof. exact enc_total_or_err_etc. Qed.
Print Assumptions C08_enc_total_or_err_etc.

Theorem C08_enc_total_or_err_track : forall l,
  valid_track l = true -> times_exact l = true ->
  (exists e, enc_track_file repo_fmt l = Err e) \/
  (exists f l', enc_track_file repo_fmt l = Ok f /\ dec_track_file repo_fmt f = Ok l' /\ track_same l l').
Proof. exact enc_total_or_err_track. Qed.
Print Assumptions C08_enc_total_or_err_track.

Theorem C08_enc_total_or_err_tracklist : forall x,
  valid_tracklist x = true -> Z.of_nat (List.length x) <= 10 ^ 6 ->
  (exists e, enc_tracklist repo_fmt x = Err e) \/
  (exists f x', enc_tracklist repo_fmt x = Ok f /\ dec_tracklist repo_fmt f = Ok x' /\ tracklist_same x x').
Proof. exact enc_total_or_err_tracklist. Qed.
Print Assumptions C08_enc_total_or_err_tracklist.

(* the keys of up to 10^6 members are in lexicographic order, so sorted() keeps the index order *)
Theorem C08_pad6_sorted : forall p n, Z.of_nat n <= 10 ^ 6 ->
  sorted_keys (map (key p 6) (zseq 0 n)) = map (key p 6) (zseq 0 n).
Proof. exact pad6_sorted. Qed.
Print Assumptions C08_pad6_sorted.

(* ... and the bound is needed: frame 1000000 is read before frame 999999 (both key formats) *)
Theorem C08_pad6_unsorted_refuted :
  str_ltb (key "time_" 6 1000000) (key "time_" 6 999999) = true
  /\ str_ltb (key "track_" 6 1000000) (key "track_" 6 999999) = true
  /\ sorted_keys [key "time_" 6 999999; key "time_" 6 1000000] = [key "time_" 6 1000000; key "time_" 6 999999].
Proof. exact pad6_unsorted. Qed.
Print Assumptions C08_pad6_unsorted_refuted.

(* an integer time beyond 2^53 does not survive the f8 time column *)
Theorem C08_track_int_time_refuted :
  exists l, valid_track l = true /\
  exists f l', enc_track_file repo_fmt l = Ok f /\ dec_track_file repo_fmt f = Ok l' /\ ~ track_same l l'.
Proof. exact (ex_intro _ big_time_track track_int_time_witness). Qed.
Print Assumptions C08_track_int_time_refuted.

(* the premise radius > -1 of valid_etc is needed: a droplet with NaN radius that sits in a time course
   (append(copy=False)) is written and then dropped on reading *)
Theorem C08_etc_nan_radius_refuted :
  exists x, forallb (fun te => forallb valid_drop (snd te)) x = true /\
  exists f x', enc_etc repo_fmt x = Ok f /\ dec_etc repo_fmt f = Ok x' /\ x' <> x.
Proof. exact (ex_intro _ nan_radius_etc etc_nan_radius_witness). Qed.
Print Assumptions C08_etc_nan_radius_refuted.

(* non-vacuity: a time course with two classes in different frames, an empty frame, an unset width,
   int and float times satisfies the hypotheses, is written, and reads back equal *)
Example C08_nonvacuous :
  valid_etc sample_etc = true /\ Z.of_nat (List.length sample_etc) <= 10 ^ 6 /\
  exists f, enc_etc repo_fmt sample_etc = Ok f /\ List.length f = 4%nat /\ dec_etc repo_fmt f = Ok sample_etc.
Proof. exact sample_etc_roundtrip. Qed.
