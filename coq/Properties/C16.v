(* C16 -- property theorems only; each closed by `exact`, with Print Assumptions.
   F is the numpy.fft.fftn oracle; `dft_spec dom F` (Model.Spectrum) is its stated specification:
   Parseval for norm="ortho", zero mode, homogeneity, shift / reflection / axis-transposition identities. *)
From Coq Require Import Reals List Permutation.
Import ListNotations.
From PD Require Import Model.Num Model.Spectrum Gen.Gen_spectrum
  Proofs.SpectrumLists Proofs.SpectrumSF Proofs.SpectrumSmooth Proofs.SpectrumDFT4 Proofs.SpectrumDFTSmall
  Proofs.SpectrumDFTAlg Proofs.SpectrumDFTMath Proofs.C16 Proofs.C17 Proofs.SpectrumMathInst.
Local Open Scope R_scope.

Theorem C16_sf_nonneg : forall (F : dft_oracle) shape x,
  sumsq shape x <> 0 -> Forall (fun v => 0 <= v) (sf_list F shape x).
Proof. exact c16_sf_nonneg. Qed.
Print Assumptions C16_sf_nonneg.

Theorem C16_sf_sum : forall dom F, dft_spec dom F -> forall shape x,
  dom shape -> Forall (fun n => (0 < n)%nat) shape -> sumsq shape x <> 0 ->
  rsum (sf_list F shape x) = 1 - total shape x ^ 2 / (INR (size_of shape) * sumsq shape x).
Proof. exact c16_sf_sum. Qed.
Print Assumptions C16_sf_sum.

Theorem C16_sf_scale_inv : forall dom F, dft_spec dom F -> forall shape c x,
  dom shape -> c <> 0 -> sumsq shape x <> 0 ->
  sf_list F shape (fun n => c * x n) = sf_list F shape x.
Proof. exact c16_sf_scale_inv. Qed.
Print Assumptions C16_sf_scale_inv.

Theorem C16_sf_shift_inv : forall dom F, dft_spec dom F -> forall shape s x,
  dom shape -> sf_list F shape (fun n => x (shift_idx shape s n)) = sf_list F shape x.
Proof. exact c16_sf_shift_inv. Qed.
Print Assumptions C16_sf_shift_inv.

Theorem C16_sf_reflect_perm : forall dom F, dft_spec dom F -> forall shape h ax x,
  dom shape -> Forall (fun n => (0 < n)%nat) shape ->
  Permutation (sf_pairs F shape h (fun n => x (reflect_idx shape ax n))) (sf_pairs F shape h x).
Proof. exact c16_sf_reflect_perm. Qed.
Print Assumptions C16_sf_reflect_perm.

Theorem C16_sf_axis_perm : forall dom F, dft_spec dom F -> forall i shape h x,
  dom shape -> dom (swap_at i shape) -> Forall (fun n => (0 < n)%nat) shape -> length h = length shape ->
  Permutation (sf_pairs F (swap_at i shape) (swap_at i h) (fun n => x (swap_at i n)))
              (sf_pairs F shape h x).
Proof. exact c16_sf_axis_perm. Qed.
Print Assumptions C16_sf_axis_perm.

(* np.flip = index reflection composed with a cyclic shift (flip_index_arith) *)
Theorem C16_sf_flip_perm : forall dom F, dft_spec dom F -> forall shape h ax s x,
  dom shape -> Forall (fun n => (0 < n)%nat) shape ->
  Permutation (sf_pairs F shape h (fun n => x (reflect_idx shape ax (shift_idx shape s n)))) (sf_pairs F shape h x).
Proof. exact c16_sf_flip_perm. Qed.
Print Assumptions C16_sf_flip_perm.

(* any product of adjacent transpositions = any permutation of the axes *)
Theorem C16_sf_axis_perm_seq : forall dom F, dft_spec dom F -> forall swaps,
  (forall i s, dom s -> dom (swap_at i s)) ->
  forall shape h x, dom shape -> Forall (fun n => (0 < n)%nat) shape -> length h = length shape ->
  Permutation (sf_pairs F (fold_left (fun l i => swap_at i l) swaps shape)
                        (fold_left (fun l i => swap_at i l) swaps h)
                        (fun n => x (fold_right (fun i m => swap_at i m) n swaps)))
              (sf_pairs F shape h x).
Proof. exact c16_sf_axis_perm_seq. Qed.
Print Assumptions C16_sf_axis_perm_seq.

Theorem C16_k_is_fftfreq : forall n h m, (0 < n)%nat -> h <> 0 ->
  wave_number n h m = IZR (fft_int_freq n m) * (2 * PI / (INR n * h)) /\
  k2_component n h m = wave_number n h m ^ 2.
Proof. exact c16_k_is_fftfreq. Qed.
Print Assumptions C16_k_is_fftfreq.

Theorem C16_k_scaling : forall shape h s, 0 < s ->
  Forall (fun n => (0 < n)%nat) shape -> Forall (fun hi => hi <> 0) h ->
  (forall n hi m, (0 < n)%nat -> hi <> 0 -> wave_number n (s * hi) m = wave_number n hi m / s) /\
  k_list shape (map (Rmult s) h) = map (fun k => k / s) (k_list shape h).
Proof. exact c16_k_scaling. Qed.
Print Assumptions C16_k_scaling.

Theorem C16_unsmoothed_is_raw : forall (F : dft_oracle) shape h x au nw sm wn,
  gsf_model F shape h x false au nw false sm wn = (k_list shape h, sf_list F shape x).
Proof. exact c16_unsmoothed_is_raw. Qed.
Print Assumptions C16_unsmoothed_is_raw.

Theorem C16_add_zero_prepends : forall (F : dft_oracle) shape h x on au nw sm wn,
  gsf_model F shape h x on au nw true sm wn =
  (0 :: fst (gsf_model F shape h x on au nw false sm wn),
   1 :: snd (gsf_model F shape h x on au nw false sm wn)).
Proof. exact c16_add_zero_prepends. Qed.
Print Assumptions C16_add_zero_prepends.

Theorem C16_smoothed_returns_wave_numbers : forall (F : dft_oracle) shape h x au sm wn,
  fst (gsf_model F shape h x true au false false sm wn) = wn /\
  fst (gsf_model F shape h x true au false true sm wn) = 0 :: wn.
Proof. exact c16_smoothed_returns_wave_numbers. Qed.
Print Assumptions C16_smoothed_returns_wave_numbers.

Theorem C16_smoothed_shares_invariances : forall dom F, dft_spec dom F ->
  forall shape h x on au nw az sm wn,
  dom shape -> Forall (fun n => (0 < n)%nat) shape -> sumsq shape x <> 0 ->
  (forall c, c <> 0 ->
     gsf_model F shape h (fun n => c * x n) on au nw az sm wn = gsf_model F shape h x on au nw az sm wn) /\
  (forall s,
     gsf_model F shape h (fun n => x (shift_idx shape s n)) on au nw az sm wn =
     gsf_model F shape h x on au nw az sm wn) /\
  (forall ax,
     gsf_model F shape h (fun n => x (reflect_idx shape ax n)) true au nw az sm wn =
     gsf_model F shape h x true au nw az sm wn) /\
  (forall i, dom (swap_at i shape) -> length h = length shape ->
     gsf_model F (swap_at i shape) (swap_at i h) (fun n => x (swap_at i n)) true au nw az sm wn =
     gsf_model F shape h x true au nw az sm wn).
Proof. exact c16_smoothed_shares_invariances. Qed.
Print Assumptions C16_smoothed_shares_invariances.

(* the oracle premises are satisfiable: the executable 1-d transform for N = 4 meets all of them *)
Theorem C16_dft_spec_satisfiable : dft_spec dom4 dft4.
Proof. exact dft4_spec. Qed.
Print Assumptions C16_dft_spec_satisfiable.

(* ... and so does an executable instance on the shapes (2,), (4,), (2,2); on (2,2) the axis-transposition
   premise is witnessed non-trivially *)
Theorem C16_dft_spec_satisfiable_nd :
  dft_spec dom_small dft_small /\ dom_small [2%nat; 2%nat] /\ dom_small (swap_at 0 [2%nat; 2%nat]) /\
  (exists x, dft_small true [2%nat; 2%nat] (fun n => x (swap_at 0 n)) [0%nat; 1%nat] <>
             dft_small true [2%nat; 2%nat] x [0%nat; 1%nat]).
Proof. exact (conj dft_small_spec (conj (or_intror (or_intror eq_refl)) (conj (or_intror (or_intror eq_refl)) dft_small_swap_nontrivial))). Qed.
Print Assumptions C16_dft_spec_satisfiable_nd.

(* ======================================================================================================
   The mathematical DFT.  Model.Spectrum.dft_math is the orthonormal n-dimensional discrete Fourier transform of a
   real field, defined for every shape as iterated 1-d transforms  X_k = N^(-1/2) sum_n z_n exp(-2 pi i k n / N)
   (complex numbers as pairs of reals).  It is PROVED to satisfy all premises of dft_spec for every shape with
   positive axis lengths; the theorems below are the C16 theorems for it, with no DFT premise left.  What remains an
   oracle is only "numpy.fft.fftn computes this transform up to rounding" (checked per sample in props/C16.py). *)

(* orthogonality of the characters of Z/N *)
Theorem C16_dft_character_orthogonality : forall N n m, (n < N)%nat -> (m < N)%nat ->
  rsum (map (fun k => cos (angle N k n - angle N k m)) (seq 0 N)) = (if Nat.eq_dec n m then INR N else 0) /\
  rsum (map (fun k => sin (angle N k n - angle N k m)) (seq 0 N)) = 0.
Proof. exact character_orthogonality. Qed.
Print Assumptions C16_dft_character_orthogonality.

(* Parseval for complex fields in any dimension *)
Theorem C16_dft_parseval_nd : forall shape, Forall (fun n => (0 < n)%nat) shape -> forall z,
  sum_over (all_idx shape) (fun k => cabs2 (dftc shape z k)) = sum_over (all_idx shape) (fun n => cabs2 (z n)).
Proof. exact dftc_parseval. Qed.
Print Assumptions C16_dft_parseval_nd.

(* all six identities (Parseval, zero mode, homogeneity, cyclic shift, reflection, axis transposition) *)
Theorem C16_dft_math_spec : dft_spec dom_math dft_math.
Proof. exact dft_math_spec. Qed.
Print Assumptions C16_dft_math_spec.

Theorem C16_math_sf_sum : forall shape x, Forall (fun n => (0 < n)%nat) shape -> sumsq shape x <> 0 ->
  rsum (sf_list dft_math shape x) = 1 - total shape x ^ 2 / (INR (size_of shape) * sumsq shape x).
Proof. exact m_sf_sum. Qed.
Print Assumptions C16_math_sf_sum.

Theorem C16_math_sf_scale_inv : forall shape c x, Forall (fun n => (0 < n)%nat) shape -> c <> 0 -> sumsq shape x <> 0 ->
  sf_list dft_math shape (fun n => c * x n) = sf_list dft_math shape x.
Proof. exact m_sf_scale_inv. Qed.
Print Assumptions C16_math_sf_scale_inv.

Theorem C16_math_sf_shift_inv : forall shape s x, Forall (fun n => (0 < n)%nat) shape ->
  sf_list dft_math shape (fun n => x (shift_idx shape s n)) = sf_list dft_math shape x.
Proof. exact m_sf_shift_inv. Qed.
Print Assumptions C16_math_sf_shift_inv.

Theorem C16_math_sf_reflect_perm : forall shape h ax x, Forall (fun n => (0 < n)%nat) shape ->
  Permutation (sf_pairs dft_math shape h (fun n => x (reflect_idx shape ax n))) (sf_pairs dft_math shape h x).
Proof. exact m_sf_reflect_perm. Qed.
Print Assumptions C16_math_sf_reflect_perm.

Theorem C16_math_sf_flip_perm : forall shape h ax s x, Forall (fun n => (0 < n)%nat) shape ->
  Permutation (sf_pairs dft_math shape h (fun n => x (reflect_idx shape ax (shift_idx shape s n))))
              (sf_pairs dft_math shape h x).
Proof. exact m_sf_flip_perm. Qed.
Print Assumptions C16_math_sf_flip_perm.

Theorem C16_math_sf_axis_perm : forall i shape h x, Forall (fun n => (0 < n)%nat) shape -> length h = length shape ->
  Permutation (sf_pairs dft_math (swap_at i shape) (swap_at i h) (fun n => x (swap_at i n)))
              (sf_pairs dft_math shape h x).
Proof. exact m_sf_axis_perm. Qed.
Print Assumptions C16_math_sf_axis_perm.

Theorem C16_math_sf_axis_perm_seq : forall swaps shape h x,
  Forall (fun n => (0 < n)%nat) shape -> length h = length shape ->
  Permutation (sf_pairs dft_math (fold_left (fun l i => swap_at i l) swaps shape)
                                 (fold_left (fun l i => swap_at i l) swaps h)
                                 (fun n => x (fold_right (fun i m => swap_at i m) n swaps)))
              (sf_pairs dft_math shape h x).
Proof. exact m_sf_axis_perm_seq. Qed.
Print Assumptions C16_math_sf_axis_perm_seq.

Theorem C16_math_smoothed_shares_invariances : forall shape h x on au nw az sm wn,
  Forall (fun n => (0 < n)%nat) shape -> sumsq shape x <> 0 ->
  (forall c, c <> 0 ->
     gsf_model dft_math shape h (fun n => c * x n) on au nw az sm wn = gsf_model dft_math shape h x on au nw az sm wn) /\
  (forall s,
     gsf_model dft_math shape h (fun n => x (shift_idx shape s n)) on au nw az sm wn =
     gsf_model dft_math shape h x on au nw az sm wn) /\
  (forall ax,
     gsf_model dft_math shape h (fun n => x (reflect_idx shape ax n)) true au nw az sm wn =
     gsf_model dft_math shape h x true au nw az sm wn) /\
  (forall i, length h = length shape ->
     gsf_model dft_math (swap_at i shape) (swap_at i h) (fun n => x (swap_at i n)) true au nw az sm wn =
     gsf_model dft_math shape h x true au nw az sm wn).
Proof. exact m_smoothed_shares_invariances. Qed.
Print Assumptions C16_math_smoothed_shares_invariances.

Example C16_nonvacuous :
  dft_spec dom4 dft4 /\ dom4 [4%nat] /\ dom4 (swap_at 0 [4%nat]) /\
  Forall (fun n => (0 < n)%nat) [4%nat] /\ sumsq [4%nat] ramp4 <> 0 /\
  length [/ 2] = length [4%nat] /\ Forall (fun hi => hi <> 0) [/ 2].
Proof. exact c16_nonvacuous. Qed.
