(* C17 -- property theorems only; each closed by `exact`, with Print Assumptions.
   F: numpy.fft.fftn oracle (premise dft_spec); mini: scipy.optimize.minimize_scalar oracle
   (premise minimizer_covariant).  None = the implementation's nan. *)
From Coq Require Import Reals List.
Import ListNotations.
From PD Require Import Model.Num Model.Spectrum Gen.Gen_spectrum
  Proofs.SpectrumLists Proofs.SpectrumSF Proofs.SpectrumSmooth Proofs.SpectrumPeak Proofs.SpectrumDFT4
  Proofs.SpectrumDFTAlg Proofs.SpectrumDFTMath Proofs.SpectrumDFTCosine Proofs.C16 Proofs.C17 Proofs.SpectrumMathInst.
Local Open Scope R_scope.

Theorem C17_ls_mean_covariant : forall (F : dft_oracle) shape h x s, 0 < s ->
  Forall (fun n => (0 < n)%nat) shape -> Forall (fun hi => hi <> 0) h ->
  ls_mean_model F shape (map (Rmult s) h) x = s * ls_mean_model F shape h x.
Proof. exact ls_mean_covariant. Qed.
Print Assumptions C17_ls_mean_covariant.

Theorem C17_ls_mean_field_inv : forall dom F, dft_spec dom F -> forall shape h x,
  dom shape -> sumsq shape x <> 0 ->
  (forall c, c <> 0 -> ls_mean_model F shape h (fun n => c * x n) = ls_mean_model F shape h x) /\
  (forall s, ls_mean_model F shape h (fun n => x (shift_idx shape s n)) = ls_mean_model F shape h x).
Proof. exact ls_mean_field_inv. Qed.
Print Assumptions C17_ls_mean_field_inv.

Theorem C17_ls_count_formula : forall bounds n g,
  bounds <> [] -> Forall (fun b => fst b < snd b) bounds -> (0 < n)%nat ->
  0 < ls_count_model bounds n g /\
  ls_count_model bounds n g ^ length bounds = prod_extents bounds / INR n.
Proof. exact ls_count_formula. Qed.
Print Assumptions C17_ls_count_formula.

Theorem C17_ls_count_covariant : forall bounds n g s, 0 < s ->
  bounds <> [] -> Forall (fun b => fst b < snd b) bounds -> (0 < n)%nat ->
  ls_count_model (scale_bounds s bounds) n g = s * ls_count_model bounds n g.
Proof. exact ls_count_covariant. Qed.
Print Assumptions C17_ls_count_covariant.

Theorem C17_smooth_covariant : forall sigma s xs ys x, s <> 0 ->
  nw_smooth (sigma / s) (scale_by s xs) ys (x / s) = nw_smooth sigma xs ys x.
Proof. exact smooth_covariant. Qed.
Print Assumptions C17_smooth_covariant.

Theorem C17_ls_peak_covariant : forall mini, minimizer_covariant mini ->
  forall (F : dft_oracle) shape h x sigma s, 0 < s ->
  Forall (fun n => (0 < n)%nat) shape -> Forall (fun hi => hi <> 0) h ->
  ls_peak_model mini F shape (map (Rmult s) h) x (sigma / s) =
  option_map (Rmult s) (ls_peak_model mini F shape h x sigma).
Proof. exact ls_peak_covariant. Qed.
Print Assumptions C17_ls_peak_covariant.

Theorem C17_ls_peak_field_inv : forall mini dom F, dft_spec dom F -> forall shape h x sigma,
  dom shape -> sumsq shape x <> 0 ->
  (forall c, c <> 0 ->
     ls_peak_model mini F shape h (fun n => c * x n) sigma = ls_peak_model mini F shape h x sigma) /\
  (forall s,
     ls_peak_model mini F shape h (fun n => x (shift_idx shape s n)) sigma = ls_peak_model mini F shape h x sigma).
Proof. exact ls_peak_field_inv. Qed.
Print Assumptions C17_ls_peak_field_inv.

(* the peak search starts at the argmax over the unsmoothed (k, sf) pairs and smooths (0 :: k, 1 :: sf) *)
Theorem C17_ls_peak_model_start : forall mini (F : dft_oracle) shape h x sigma,
  ls_peak_model mini F shape h x sigma =
  match argmax_pair (sf_pairs F shape h x) with
  | None => None
  | Some est => peak_loop mini (nw_smooth sigma (0 :: k_list shape h) (1 :: sf_list F shape x)) (fst est) ls_peak_windows
  end.
Proof. exact ls_peak_model_start. Qed.
Print Assumptions C17_ls_peak_model_start.

(* resolved plane wave, any spacing: the start estimate is the true wave number; a returned value lies in the
   widest bracket around it (premises: DFT identities, cosine orthogonality, minimiser stays in its bracket).
   "Within half a Fourier bin" beyond this is a per-sample check (see the comment in Proofs/C17.v). *)
Theorem C17_plane_wave_peak_bin : forall mini dom F,
  minimizer_in_bracket mini -> dft_spec dom F -> dft_cosine dom F ->
  forall N q A phi c h sigma,
  dom [N] -> (1 <= q)%nat -> (4 * q <= N)%nat -> A <> 0 -> 0 < h ->
  (exists p, argmax_pair (sf_pairs F [N] [h] (cosine_field N q A phi c)) = Some p /\
             fst p = 2 * PI * INR q / (INR N * h)) /\
  (forall L, ls_peak_model mini F [N] [h] (cosine_field N q A phi c) sigma = Some L ->
     exists xk, L = ls_peak xk /\
                2 * PI * INR q / (INR N * h) / 5 <= xk <= 5 * (2 * PI * INR q / (INR N * h))).
Proof. exact plane_wave_peak_bin. Qed.
Print Assumptions C17_plane_wave_peak_bin.

Theorem C17_plane_wave_start_covariant : forall dom F, dft_spec dom F -> dft_cosine dom F ->
  forall N q A phi c h s,
  dom [N] -> (1 <= q)%nat -> (4 * q <= N)%nat -> A <> 0 -> 0 < h -> 0 < s ->
  exists p p', argmax_pair (sf_pairs F [N] [h] (cosine_field N q A phi c)) = Some p /\
               argmax_pair (sf_pairs F [N] [s * h] (cosine_field N q A phi c)) = Some p' /\
               fst p' = fst p / s.
Proof. exact plane_wave_start_covariant. Qed.
Print Assumptions C17_plane_wave_start_covariant.

Theorem C17_plane_wave_premises_satisfiable :
  minimizer_in_bracket mini_lo /\ dft_spec dom4 dft4 /\ dft_cosine dom4 dft4 /\ dom4 [4%nat] /\
  (1 <= 1)%nat /\ (4 * 1 <= 4)%nat /\ 1 <> 0 /\ 0 < / 2.
Proof. exact c17_plane_wave_nonvacuous. Qed.
Print Assumptions C17_plane_wave_premises_satisfiable.

Theorem C17_ls_is_inverse_wave_number :
  (forall x, x <> 0 -> ls_peak x * x = 2 * PI) /\
  (forall S K, S <> 0 -> K <> 0 -> ls_mean S K * (K / S) = 2 * PI).
Proof. exact ls_is_inverse_wave_number. Qed.
Print Assumptions C17_ls_is_inverse_wave_number.

Theorem C17_default_smoothing_scales_like_length : forall td s,
  ls_default_smoothing (s * td) = s * ls_default_smoothing td.
Proof. exact default_smoothing_scales_like_length. Qed.
Print Assumptions C17_default_smoothing_scales_like_length.

(* finding F7: the default width cannot satisfy the premise sigma' = sigma / s of C17_ls_peak_covariant *)
Theorem C17_default_smoothing_not_covariant : forall td s, 0 < td -> 0 < s -> s <> 1 ->
  ls_default_smoothing (s * td) <> ls_default_smoothing td / s.
Proof. exact default_smoothing_not_covariant. Qed.
Print Assumptions C17_default_smoothing_not_covariant.

Theorem C17_ls_peak_default_refuted :
  exists td s, 0 < td /\ 0 < s /\ ~ ls_default_smoothing (s * td) = ls_default_smoothing td / s.
Proof. exact ls_peak_default_refuted. Qed.
Print Assumptions C17_ls_peak_default_refuted.

(* ======================================================================================================
   The same theorems for the mathematical DFT (Model.Spectrum.dft_math, proved to satisfy dft_spec and dft_cosine):
   no DFT premise is left; the minimiser premises of the peak method remain. *)
Theorem C17_dft_math_cosine : dft_cosine dom_math dft_math.
Proof. exact dft_math_cosine. Qed.
Print Assumptions C17_dft_math_cosine.

Theorem C17_math_ls_mean_field_inv : forall shape h x, Forall (fun n => (0 < n)%nat) shape -> sumsq shape x <> 0 ->
  (forall c, c <> 0 -> ls_mean_model dft_math shape h (fun n => c * x n) = ls_mean_model dft_math shape h x) /\
  (forall s, ls_mean_model dft_math shape h (fun n => x (shift_idx shape s n)) = ls_mean_model dft_math shape h x).
Proof. exact m_ls_mean_field_inv. Qed.
Print Assumptions C17_math_ls_mean_field_inv.

Theorem C17_math_ls_peak_field_inv : forall mini shape h x sigma,
  Forall (fun n => (0 < n)%nat) shape -> sumsq shape x <> 0 ->
  (forall c, c <> 0 ->
     ls_peak_model mini dft_math shape h (fun n => c * x n) sigma = ls_peak_model mini dft_math shape h x sigma) /\
  (forall s,
     ls_peak_model mini dft_math shape h (fun n => x (shift_idx shape s n)) sigma = ls_peak_model mini dft_math shape h x sigma).
Proof. exact m_ls_peak_field_inv. Qed.
Print Assumptions C17_math_ls_peak_field_inv.

Theorem C17_math_plane_wave_peak_bin : forall mini N q A phi c h sigma, minimizer_in_bracket mini ->
  (1 <= q)%nat -> (4 * q <= N)%nat -> A <> 0 -> 0 < h ->
  (exists p, argmax_pair (sf_pairs dft_math [N] [h] (cosine_field N q A phi c)) = Some p /\
             fst p = 2 * PI * INR q / (INR N * h)) /\
  (forall L, ls_peak_model mini dft_math [N] [h] (cosine_field N q A phi c) sigma = Some L ->
     exists xk, L = ls_peak xk /\
                2 * PI * INR q / (INR N * h) / 5 <= xk <= 5 * (2 * PI * INR q / (INR N * h))).
Proof. exact m_plane_wave_peak_bin. Qed.
Print Assumptions C17_math_plane_wave_peak_bin.

Theorem C17_math_plane_wave_start_covariant : forall N q A phi c h s,
  (1 <= q)%nat -> (4 * q <= N)%nat -> A <> 0 -> 0 < h -> 0 < s ->
  exists p p', argmax_pair (sf_pairs dft_math [N] [h] (cosine_field N q A phi c)) = Some p /\
               argmax_pair (sf_pairs dft_math [N] [s * h] (cosine_field N q A phi c)) = Some p' /\
               fst p' = fst p / s.
Proof. exact m_plane_wave_start_covariant. Qed.
Print Assumptions C17_math_plane_wave_start_covariant.

Example C17_nonvacuous :
  minimizer_covariant mini_mid /\ [(0, 1)] <> [] /\ Forall (fun b : R * R => fst b < snd b) [(0, 1)] /\
  (0 < 1)%nat /\ 0 < 2 /\ 2 <> 1.
Proof. exact c17_nonvacuous. Qed.
