(* C14 -- property theorems only; each closed by `exact`, with Print Assumptions. *)
From Coq Require Import String List Bool Arith QArith.
From PD Require Import Model.Online Model.Parallel Gen.Gen_glue Proofs.Online Proofs.C14.
Import ListNotations.
Local Open Scope nat_scope.
Local Open Scope string_scope.

(* For every configuration `user` of the tracker (any values, any subset of options given), every
   history of (state, time) pairs of any length whose frames the source selection fits, and any
   analysis function `locate` (frames without droplets are just emulsions like any other; exceptions
   included): the time course recorded by DropletTracker.handle over the history is the result of
   EmulsionTimeCourse.from_storage on the stored fields with the same settings -- same emulsions,
   same times, same first exception. *)
Theorem C14_online_eq_offline :
  forall (value : Type) (parse : string -> value) (raw field emulsion exn : Type)
         (extract : option value -> raw -> res exn field)
         (locate : list (string * option value) -> field -> res exn emulsion)
         (user : kwdict value) (history : list (raw * Q)) (fields : list field),
    map_res (extract (param_value value parse dt_ctor_defaults user "source")) (map fst history) = Ok fields ->
    online value parse raw field emulsion exn extract locate G user tc_empty history
    = from_storage value parse field emulsion exn locate G O_serial (same_settings value user)
                   (combine fields (map snd history)).
Proof. exact online_eq_offline. Qed.
Print Assumptions C14_online_eq_offline.

(* when no frame raises the recorded data is literally (map locate fields, times) *)
Theorem C14_online_is_map :
  forall (value : Type) (parse : string -> value) (raw field emulsion exn : Type)
         (extract : option value -> raw -> res exn field)
         (locate : list (string * option value) -> field -> res exn emulsion)
         (user : kwdict value) (history : list (raw * Q)) (fields : list field) (loc : field -> emulsion),
    map_res (extract (param_value value parse dt_ctor_defaults user "source")) (map fst history) = Ok fields ->
    (forall f, In f fields -> locate (tracker_options value parse G user) f = Ok (loc f)) ->
    online value parse raw field emulsion exn extract locate G user tc_empty history
    = Ok (mk_tc_raw (map loc fields) (map snd history)).
Proof. exact online_is_map. Qed.
Print Assumptions C14_online_is_map.

(* a tracker that continues an existing time course s0 (emulsion_timecourse = s0) *)
Theorem C14_online_continues :
  forall (value : Type) (parse : string -> value) (raw field emulsion exn : Type)
         (extract : option value -> raw -> res exn field)
         (locate : list (string * option value) -> field -> res exn emulsion)
         (user : kwdict value) (s0 : tc emulsion) (history : list (raw * Q)) (fields : list field),
    map_res (extract (param_value value parse dt_ctor_defaults user "source")) (map fst history) = Ok fields ->
    online value parse raw field emulsion exn extract locate G user s0 history
    = bind (from_storage value parse field emulsion exn locate G O_serial (same_settings value user)
                         (combine fields (map snd history)))
           (fun s => Ok (mk_tc_raw (tc_emulsions s0 ++ tc_emulsions s) (tc_times s0 ++ tc_times s))).
Proof. exact online_continues. Qed.
Print Assumptions C14_online_continues.

(* every analysis setting reaches locate_droplets under the paired keyword, on the tracker path and on
   both branches of the offline path; none is dropped; the defaults agree *)
Theorem C14_options_forwarded :
  forall (value : Type) (parse : string -> value),
    (forall user : kwdict value,
        tracker_options value parse G user = offline_options value parse G O_serial (same_settings value user) /\
        tracker_options value parse G user = offline_options value parse G O_parallel (same_settings value user) /\
        tracker_options value parse G user =
        [("threshold", param_value value parse dt_ctor_defaults user "threshold");
         ("minimal_radius", param_value value parse dt_ctor_defaults user "minimal_radius");
         ("modes", param_value value parse dt_ctor_defaults user "perturbation_modes");
         ("interface_width", Some (parse "None"));
         ("refine", param_value value parse dt_ctor_defaults user "refine");
         ("refine_args", param_value value parse dt_ctor_defaults user "refine_args");
         ("num_processes", Some (parse "1"))]) /\
    (forall p, In p dt_ctor_params -> ~ In p not_analysis ->
               exists a k, In (a, FromName p) dt_ctor_assign /\ In (k, FromName a) dt_handle_forward /\
                           In (p, k) pairing /\ In k locate_opts) /\
    (forall p k, In (p, k) pairing ->
                 lookup p dt_ctor_defaults = lookup k locate_defaults /\
                 (In k fs_params -> lookup k fs_defaults = lookup k locate_defaults)).
Proof.
  exact (fun value parse =>
           conj (fun user => conj (options_forwarded_serial value parse user)
                                  (conj (options_forwarded_parallel value parse user)
                                        (tracker_options_spelled_out value parse user)))
                (conj options_cover defaults_agree)).
Qed.
Print Assumptions C14_options_forwarded.

(* EmulsionTimeCourse(emulsions, times) succeeds iff the two lists have the same length *)
Theorem C14_constructor_checks_lengths :
  forall (emulsion : Type) (es : list emulsion) (ts : list Q),
    (exists s, tc_make es (Some ts) = Ok s) <-> length ts = length es.
Proof. exact tc_constructor_checks_lengths. Qed.
Print Assumptions C14_constructor_checks_lengths.

(* LengthScaleTracker.handle never raises on frames the source selection fits, records for every
   frame exactly the analysis value (nan when the analysis raised), and keeps its lists aligned *)
Theorem C14_length_tracker_total :
  forall (value : Type) (parse : string -> value) (raw field exn : Type)
         (extract : option value -> raw -> res exn field)
         (number : Type) (nan : number)
         (analysis : list (string * option value) -> field -> res exn number)
         (user : kwdict value) (history : list (raw * Q)) (fields : list field),
    map_res (extract (param_value value parse ls_ctor_defaults user "source")) (map fst history) = Ok fields ->
    exists s,
      ls_online value parse raw field exn number nan extract analysis L user history = Ok s /\
      ls_times number s = map snd history /\
      ls_values number s =
        map (fun f => match analysis [("method", param_value value parse ls_ctor_defaults user "method")] f with
                      | Ok v => v | Err _ => nan end) fields /\
      length (ls_times number s) = length history /\ length (ls_values number s) = length history.
Proof. exact length_tracker_total. Qed.
Print Assumptions C14_length_tracker_total.

(* finalize writes to the file given to the constructor (that it reads back equal: C08) *)
Theorem C14_finalize_target :
  forall (value : Type) (parse : string -> value) (user : kwdict value),
    attr_value value parse dt_ctor_assign dt_ctor_defaults user dt_finalize_attr
    = param_value value parse dt_ctor_defaults user "filename".
Proof. exact finalize_target. Qed.
Print Assumptions C14_finalize_target.

(* non-vacuity: a concrete history with a frame without droplets, a non-default option and a source
   selection that fits; premise and conclusion evaluated *)
Example C14_nonvacuous :
  let value := nat in
  let parse := String.length in
  let extract := fun (src : option nat) (r : nat) => if Nat.eqb r 99 then Err tt else Ok r in
  let locate := fun (opts : list (string * option nat)) (f : nat) =>
                  match lookup "minimal_radius" opts with
                  | Some (Some m) => Ok (repeat m f)
                  | _ => Err tt
                  end in
  let user := fun k => if String.eqb k "minimal_radius" then Some 7 else None in
  let history := [(2, (0 # 1)%Q); (0, (1 # 2)%Q); (3, (5 # 4)%Q)] in
  map_res (extract (param_value value parse dt_ctor_defaults user "source")) (map fst history) = Ok [2; 0; 3] /\
  online value parse nat nat (list nat) unit extract locate G user tc_empty history
  = Ok (mk_tc_raw [[7; 7]; []; [7; 7; 7]] [0 # 1; 1 # 2; 5 # 4]%Q).
Proof. split; reflexivity. Qed.
