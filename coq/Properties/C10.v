(* C10 -- property theorems only. *)
From Coq Require Import QArith List Arith Bool.
Import ListNotations.
From PD Require Import Model.Overlap Model.Grid Model.OverlapCases Proofs.Overlap Proofs.C10 Proofs.GridSym.
Local Open Scope Q_scope.

(* D i j : surface distance between original droplets i and j (any table), rad : radii,
   md : min_distance of either sign; l : the emulsion as list of original indices. *)

Theorem C10_separated : forall D rad md l i j,
  In i (ro D rad md l) -> In j (ro D rad md l) -> i <> j -> md <= D i j.
Proof. exact ro_separated. Qed.
Print Assumptions C10_separated.

Theorem C10_survivors_in_order : forall D rad md l, exists f, ro D rad md l = filter f l.
Proof. exact ro_sublist. Qed.
Print Assumptions C10_survivors_in_order.

Theorem C10_removed_reason : forall D rad md l k, In k l -> ~ In k (ro D rad md l) ->
  exists j, In j l /\ j <> k /\ (D k j < md \/ D j k < md) /\ rad k <= rad j.
Proof. exact ro_removed_reason. Qed.
Print Assumptions C10_removed_reason.

Theorem C10_largest_survives : forall D rad md l k, In k l ->
  (forall j, In j l -> j <> k -> rad j < rad k) -> In k (ro D rad md l).
Proof. exact ro_largest_survives. Qed.
Print Assumptions C10_largest_survives.

Theorem C10_idempotent : forall D rad md l, ro D rad md (ro D rad md l) = ro D rad md l.
Proof. exact ro_idempotent. Qed.
Print Assumptions C10_idempotent.

Theorem C10_identity_if_separated : forall D rad md l,
  (forall i j, In i l -> In j l -> i <> j -> md <= D i j) -> ro D rad md l = l.
Proof. exact ro_id_if_separated. Qed.
Print Assumptions C10_identity_if_separated.

Theorem C10_pairwise_symmetric_zero_diag : forall dist rad sub i j,
  pairwise dist rad sub i j = pairwise dist rad sub j i /\ pairwise dist rad sub i i = 0.
Proof. intros. exact (conj (pairwise_sym dist rad sub i j) (pairwise_diag dist rad sub i)). Qed.
Print Assumptions C10_pairwise_symmetric_zero_diag.

Theorem C10_pairwise_is_distance : forall dist rad i j, (i < j)%nat ->
  pairwise dist rad false i j = dist i j /\ pairwise dist rad true i j = dist i j - (rad i + rad j).
Proof. exact pairwise_upper. Qed.
Print Assumptions C10_pairwise_is_distance.

(* the grid's (periodic) squared distance and the Euclidean one are symmetric, so the matrix entry computed from
   (p_i, p_j) for i < j is also the distance from p_j to p_i *)
Theorem C10_metric_symmetric : forall g, (forall a, In a g -> aper a = false \/ 0 < asize a) ->
  forall p q, dist2 g p q == dist2 g q p /\ edist2 p q == edist2 q p.
Proof. intros g Hg p q. exact (conj (dist2_sym g Hg p q) (edist2_sym p q)). Qed.
Print Assumptions C10_metric_symmetric.

Theorem C10_overlaps_iff_negative : forall d r1 r2 : Q, d < r1 + r2 <-> d - (r1 + r2) < 0.
Proof. exact overlaps_iff_negative. Qed.
Print Assumptions C10_overlaps_iff_negative.

Theorem C10_remove_small_is_filter : forall rad mn l,
  remove_small rad mn l = filter (fun k => negb (Qle_bool (rad k) mn)) l.
Proof. exact remove_small_filter. Qed.
Print Assumptions C10_remove_small_is_filter.

(* cylindrical grids: for droplets on the symmetry axis the metric is Euclidean for periodic and non-periodic z alike *)
Theorem C10_cylinder_axis_metric : forall nr nz R z0 z1 pz a b,
  dist2 (cyl_metric nr nz R z0 z1 pz) [0; 0; a] [0; 0; b] == (b - a) * (b - a).
Proof. exact cyl_axis_metric. Qed.
Print Assumptions C10_cylinder_axis_metric.

(* non-vacuity: three droplets, 0 and 1 overlap (1 is larger), 2 is far away *)
Example C10_nonvacuous :
  let D := fun i j => if Nat.eqb (i + j) 1 then -(1#2) else 5 in
  let rad := fun i => match i with 0%nat => 1 | 1%nat => 2 | _ => 1 end in
  ro D rad 0 [0; 1; 2]%nat = [1; 2]%nat.
Proof. vm_compute. reflexivity. Qed.
