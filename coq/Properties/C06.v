(* C06 -- tracking neither loses, duplicates nor alters droplets: property theorems only.
   Model: Model/Tracking.v (track_all, both methods); a droplet is (frame index, index in the frame),
   a frame is (time, number of droplets), an entry of a track is (time stamp, droplet).
   Input immutability and copy-on-append are heap statements (C20); here: the model never changes
   earlier entries of a track (C06_track_prefix). *)
From Coq Require Import List Arith QArith Permutation Sorted.
Import ListNotations.
From PD Require Import Model.Tracking Proofs.Tracking Proofs.C06.
Local Open Scope nat_scope.

(* every droplet of every frame appears in exactly one track exactly once *)
Theorem C06_track_partition : forall m frames trs,
  track_all m frames = Ok trs ->
  Permutation (all_ids_of trs) (all_ids frames) /\ NoDup (all_ids_of trs).
Proof. exact c06_partition. Qed.
Print Assumptions C06_track_partition.

(* ... stamped with its frame's time *)
Theorem C06_track_time_stamp : forall m frames trs,
  track_all m frames = Ok trs ->
  forall tr t d, In tr trs -> In (t, d) (entries tr) ->
                 exists n, nth_error frames (fst d) = Some (t, n) /\ snd d < n.
Proof. exact c06_time_stamp. Qed.
Print Assumptions C06_track_time_stamp.

(* never raises: every history, including frames without droplets, both methods, every cut-off
   (cdist's precondition, argmin of an empty array, list indices and the loop bound are explicit
   errors of the model) *)
Theorem C06_track_total : forall m frames, exists trs, track_all m frames = Ok trs.
Proof. exact c06_total. Qed.
Print Assumptions C06_track_total.

(* earlier entries of a track are never changed and tracks keep their position *)
Theorem C06_track_prefix : forall m fr1 fr2 trs2,
  track_all m (fr1 ++ fr2) = Ok trs2 ->
  exists trs1, track_all m fr1 = Ok trs1 /\
    length trs1 <= length trs2 /\
    forall k tr, nth_error trs1 k = Some tr ->
                 exists tr' suf, nth_error trs2 k = Some tr' /\ entries tr' = entries tr ++ suf.
Proof. exact c06_prefix. Qed.
Print Assumptions C06_track_prefix.

(* strictly increasing times; overlap method: no droplet overlaps an earlier droplet of its own
   frame (method_ok); distance method: no further hypothesis *)
Theorem C06_track_one_per_frame : forall m frames trs,
  StronglySorted Qlt (map fst frames) -> method_ok m frames -> track_all m frames = Ok trs ->
  forall tr, In tr trs -> NoDup (track_frames tr).
Proof. exact c06_one_per_frame. Qed.
Print Assumptions C06_track_one_per_frame.

Theorem C06_track_gap_free : forall m frames trs,
  StronglySorted Qlt (map fst frames) -> method_ok m frames -> track_all m frames = Ok trs ->
  forall tr, In tr trs -> exists s, track_frames tr = seq s (length (entries tr)).
Proof. exact c06_gap_free. Qed.
Print Assumptions C06_track_gap_free.

(* the in-frame hypothesis is needed for the overlap method *)
Theorem C06_overlap_two_per_frame_without_hypothesis :
  exists ov frames trs tr, track_all (MOverlap ov) frames = Ok trs /\ In tr trs /\
                           ~ NoDup (track_frames tr).
Proof. exact overlap_two_per_frame_witness. Qed.
Print Assumptions C06_overlap_two_per_frame_without_hypothesis.

(* the guard `if tracks_alive and len(emulsion) > 0` is what makes the distance method total *)
Theorem C06_unguarded_distance_fails :
  dist_frame_unguarded (fun _ _ => 1%Q) None 1%Q 1 0 [0] [t_new (0%Q, (0, 0))] = Err ECdistEmpty.
Proof. exact unguarded_fails. Qed.
Print Assumptions C06_unguarded_distance_fails.

(* non-vacuity: a time course with an empty frame, a continuing, a disappearing and an appearing
   droplet satisfies the hypotheses, for both methods *)
Example C06_nonvacuous :
  StronglySorted Qlt (map fst ex_frames) /\ method_ok (MOverlap ex_ov) ex_frames /\
  track_all (MOverlap ex_ov) ex_frames
  = Ok [([(0%Q, (0, 0))], ((1 # 2)%Q, (1, 0))); ([], (0%Q, (0, 1))); ([], (3%Q, (3, 0)))] /\
  track_all (MDistance (fun a b => if did_eqb a (0, 0) then 1%Q else 3%Q) (Some 2%Q)) ex_frames
  = Ok [([(0%Q, (0, 0))], ((1 # 2)%Q, (1, 0))); ([], (0%Q, (0, 1))); ([], (3%Q, (3, 0)))].
Proof. exact (conj ex_increasing (conj ex_inframe (conj ex_result ex_result_dist))). Qed.
