From PD Require Import Model.Tracking Proofs.C06.
Theorem C06_stub : True. Proof. exact stub_C06. Qed.
Print Assumptions C06_stub.
