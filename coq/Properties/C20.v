(* C20 -- property theorems only; each closed by `exact`, with Print Assumptions. *)
From Coq Require Import List Arith Bool QArith Permutation.
Import ListNotations.
From PD Require Import Model.Heap Proofs.Heap Proofs.HeapWf Proofs.HeapSep Proofs.HeapTimes Proofs.HeapNI Proofs.HeapRefine
  Proofs.HeapStats Proofs.C20.
Local Open Scope nat_scope.

(* the heap model refines the simple list model: every default-flag operation commutes with the
   abstraction to plain value lists and returns the same outcome *)
Theorem C20_abs_refines_list : forall h o,
  wf h -> Sep h -> Aligned h -> list_op o = true ->
  spec_step (abs h) o = (abs (fst (exec h o)), snd (exec h o)).
Proof. exact abs_refines_list. Qed.
Print Assumptions C20_abs_refines_list.

Theorem C20_abs_refines_list_sequences : forall os,
  Forall (fun o => list_op o = true) os ->
  abs (run emp os) = spec_run (abs emp) os /\ map snd (run_trace emp os) = spec_trace (abs emp) os.
Proof. exact abs_refines_list_from_empty. Qed.
Print Assumptions C20_abs_refines_list_sequences.

(* the premise list_op is needed: copy=False aliases by design *)
Theorem C20_aliasing_ops_not_list_model : exists os, abs (run emp os) <> spec_run (abs emp) os.
Proof. exact aliasing_ops_not_list_model. Qed.
Print Assumptions C20_aliasing_ops_not_list_model.

(* invariants over ALL operation sequences: times and members have equal length for every time
   course and track, and no times list object is held twice (two collections, or a collection and a
   caller variable) *)
Theorem C20_times_members_aligned : forall os,
  let h := run emp os in
  (forall t tc, nth_error (tcs h) t = Some tc -> length (tc_times h tc) = length (tc_ems tc)) /\
  (forall k tr, nth_error (trs h) k = Some tr -> length (tr_times h tr) = length (tr_drops tr)) /\
  NoDup (tl_roots h).
Proof. exact times_members_aligned. Qed.
Print Assumptions C20_times_members_aligned.

Theorem C20_aligned_step : forall h o, wf h -> Aligned h -> Aligned (fst (exec h o)).
Proof. exact aligned_step. Qed.
Print Assumptions C20_aligned_step.

Theorem C20_failed_insert_keeps_alignment : forall h t k,
  fst (exec h (OTcAppendBad t)) = h /\ fst (exec h (OTrAppendBad k)) = h.
Proof. exact failed_insert_keeps_alignment. Qed.
Print Assumptions C20_failed_insert_keeps_alignment.

Theorem C20_reachable_wf_aligned : forall os, wf (run emp os) /\ Aligned (run emp os).
Proof. exact reachable_wf_aligned. Qed.
Print Assumptions C20_reachable_wf_aligned.

Theorem C20_no_dangling : forall os o, snd (exec (run emp os) o) <> Err EDangling.
Proof. exact reachable_no_dangling. Qed.
Print Assumptions C20_no_dangling.

(* separation: preserved by every default-flag operation, holds after every default-flag history *)
Theorem C20_sep_preserved : forall h o, wf h -> Sep h -> sep_op o = true -> Sep (fst (exec h o)).
Proof. exact Sep_step. Qed.
Print Assumptions C20_sep_preserved.

Theorem C20_reachable_sep : forall os, Forall (fun o => sep_op o = true) os -> Sep (run emp os).
Proof. exact reachable_sep. Qed.
Print Assumptions C20_reachable_sep.

Theorem C20_default_insert_separates : forall h c i f h' e l,
  wf h -> nth_error (ems h) c = Some e -> nth_error (hnd h) i = Some l ->
  exec h (OAppend c i true f) = (h', Ok) ->
  let l' := length (objs h) in let s' := length (store h) in
  (exists d, nth_error (ems h') c = Some (mkE d (e_mem e ++ [l']))) /\
  obj_of h' l' = Some s' /\
  val_of h' l' = val_of h l /\
  ~ In l' (roots h) /\
  (forall l1, In l1 (roots h) -> obj_of h' l1 = obj_of h l1 /\ obj_of h' l1 <> Some s') /\
  (forall rows, In rows (arrs h') -> ~ In s' rows).
Proof. exact default_insert_separates. Qed.
Print Assumptions C20_default_insert_separates.

Theorem C20_sep_handles_disjoint : forall h i l c e m,
  wf h -> Sep h -> nth_error (hnd h) i = Some l -> nth_error (ems h) c = Some e -> In m (e_mem e) ->
  obj_of h l <> obj_of h m.
Proof. exact sep_handles_disjoint. Qed.
Print Assumptions C20_sep_handles_disjoint.

Theorem C20_sep_handles_disjoint_track : forall h i l k t m,
  wf h -> Sep h -> nth_error (hnd h) i = Some l -> nth_error (trs h) k = Some t -> In m (tr_drops t) ->
  obj_of h l <> obj_of h m.
Proof. exact sep_handles_disjoint_track. Qed.
Print Assumptions C20_sep_handles_disjoint_track.

(* noninterference *)
Theorem C20_noninterference_handle : forall h i k q,
  wf h -> Sep h ->
  let h' := fst (exec h (OSetH i k q)) in
  (forall j, j <> i -> abs_hnd h' j = abs_hnd h j) /\
  (forall c, abs_em h' c = abs_em h c) /\
  (forall n, abs_tr h' n = abs_tr h n) /\
  (forall t, abs_tc h' t = abs_tc h t).
Proof. exact noninterference_handle. Qed.
Print Assumptions C20_noninterference_handle.

Theorem C20_noninterference_member : forall h c i k q,
  wf h -> Sep h ->
  let h' := fst (exec h (OSetM c i k q)) in
  (forall j, abs_hnd h' j = abs_hnd h j) /\
  (forall c', c' <> c -> abs_em h' c' = abs_em h c') /\
  (forall n, abs_tr h' n = abs_tr h n) /\
  (forall t, (forall tc, nth_error (tcs h) t = Some tc -> ~ In c (tc_ems tc)) -> abs_tc h' t = abs_tc h t).
Proof. exact noninterference_member. Qed.
Print Assumptions C20_noninterference_member.

Theorem C20_noninterference_merge : forall h c i j v,
  wf h -> Sep h ->
  let h' := fst (exec h (OMerge c i j true v)) in
  (forall n, abs_hnd h' n = abs_hnd h n) /\
  (forall c', c' <> c -> abs_em h' c' = abs_em h c') /\
  (forall n, abs_tr h' n = abs_tr h n) /\
  (forall t, (forall tc, nth_error (tcs h) t = Some tc -> ~ In c (tc_ems tc)) -> abs_tc h' t = abs_tc h t).
Proof. exact noninterference_merge. Qed.
Print Assumptions C20_noninterference_merge.

Theorem C20_noninterference_array : forall h a r k q,
  wf h -> Sep h ->
  let h' := fst (exec h (OWriteA a r k q)) in
  exists owner : option loc,
    forall ls, match owner with Some l0 => ~ In l0 ls | None => True end -> abs_vals h' ls = abs_vals h ls.
Proof. exact noninterference_array. Qed.
Print Assumptions C20_noninterference_array.

Theorem C20_array_write_one_emulsion : forall h a r k q c1 c2,
  wf h -> Sep h -> c1 <> c2 ->
  let h' := fst (exec h (OWriteA a r k q)) in
  abs_em h' c1 = abs_em h c1 \/ abs_em h' c2 = abs_em h c2.
Proof. exact array_write_one_emulsion. Qed.
Print Assumptions C20_array_write_one_emulsion.

Theorem C20_insert_then_mutate_independent : forall h c i f k q j n,
  wf h -> Sep h ->
  let h1 := fst (exec h (OAppend c i true f)) in
  abs_em (fst (exec h1 (OSetH i k q))) c = abs_em h1 c /\
  abs_hnd (fst (exec h1 (OSetM c j k q))) n = abs_hnd h1 n.
Proof. exact insert_then_mutate_independent. Qed.
Print Assumptions C20_insert_then_mutate_independent.

Theorem C20_copies_independent : forall h o c i k q,
  wf h -> Sep h -> makes_emulsion o = true -> c < length (ems h) ->
  let h1 := fst (exec h o) in
  let c' := length (ems h) in
  abs_em (fst (exec h1 (OSetM c i k q))) c' = abs_em h1 c' /\
  abs_em (fst (exec h1 (OSetM c' i k q))) c = abs_em h1 c.
Proof. exact copies_independent. Qed.
Print Assumptions C20_copies_independent.

Theorem C20_tc_slice_independent : forall h t lo hi h' tc tc',
  wf h -> Sep h -> exec h (OTcSlice t lo hi) = (h', Ok) ->
  nth_error (tcs h') t = Some tc -> nth_error (tcs h') (length (tcs h)) = Some tc' ->
  forall c, In c (tc_ems tc) -> ~ In c (tc_ems tc').
Proof. exact tc_slice_independent. Qed.
Print Assumptions C20_tc_slice_independent.

(* times lists: editing one collection, or a list the caller owns, reaches no other collection *)
Theorem C20_tc_append_frame : forall h t c tm cp,
  wf h -> Sep h -> Aligned h ->
  let s := abs h in let s' := abs (fst (exec h (OTcAppend t c tm cp))) in
  (forall t', t' <> t -> nth_error (s_tcs s') t' = nth_error (s_tcs s) t') /\
  s_trs s' = s_trs s /\ s_tvars s' = s_tvars s /\ s_hnd s' = s_hnd s /\
  (forall c', c' < length (s_ems s) -> nth_error (s_ems s') c' = nth_error (s_ems s) c').
Proof. exact tc_append_frame. Qed.
Print Assumptions C20_tc_append_frame.

Theorem C20_tr_append_frame : forall h k i tm,
  wf h -> Sep h -> Aligned h ->
  let s := abs h in let s' := abs (fst (exec h (OTrAppend k i tm))) in
  (forall k', k' <> k -> nth_error (s_trs s') k' = nth_error (s_trs s) k') /\
  s_tcs s' = s_tcs s /\ s_tvars s' = s_tvars s /\ s_hnd s' = s_hnd s /\ s_ems s' = s_ems s.
Proof. exact tr_append_frame. Qed.
Print Assumptions C20_tr_append_frame.

Theorem C20_tlist_mutation_frame : forall h o,
  wf h -> Sep h -> Aligned h ->
  (exists j q, o = OTlistAppend j q) \/ (exists j i q, o = OTlistSet j i q) ->
  let s := abs h in let s' := abs (fst (exec h o)) in
  s_tcs s' = s_tcs s /\ s_trs s' = s_trs s /\ s_ems s' = s_ems s /\ s_hnd s' = s_hnd s.
Proof. exact tlist_mutation_frame. Qed.
Print Assumptions C20_tlist_mutation_frame.

Theorem C20_tc_copy_independent : forall h t c tm cp,
  wf h -> Sep h -> Aligned h -> t < length (tcs h) ->
  let h1 := fst (exec h (OTcCopy t)) in
  let t' := length (tcs h) in
  nth_error (s_tcs (abs (fst (exec h1 (OTcAppend t' c tm cp))))) t = nth_error (s_tcs (abs h1)) t /\
  nth_error (s_tcs (abs (fst (exec h1 (OTcAppend t c tm cp))))) t' = nth_error (s_tcs (abs h1)) t'.
Proof. exact tc_copy_independent. Qed.
Print Assumptions C20_tc_copy_independent.

Theorem C20_tr_copy_independent : forall h k i tm,
  wf h -> Sep h -> Aligned h -> k < length (trs h) ->
  let h1 := fst (exec h (OTrCopy k)) in
  let k' := length (trs h) in
  nth_error (s_trs (abs (fst (exec h1 (OTrAppend k' i tm))))) k = nth_error (s_trs (abs h1)) k /\
  nth_error (s_trs (abs (fst (exec h1 (OTrAppend k i tm))))) k' = nth_error (s_trs (abs h1)) k'.
Proof. exact tr_copy_independent. Qed.
Print Assumptions C20_tr_copy_independent.

(* force_consistency *)
Theorem C20_consistency_rejects : forall h c i cp e d l v,
  nth_error (ems h) c = Some e -> e_dtype e = Some d ->
  nth_error (hnd h) i = Some l -> val_of h l = Some v ->
  dtype_eqb d (dtype_of v) = false ->
  exec h (OAppend c i cp true) = (h, Err EValue).
Proof. exact consistency_rejects. Qed.
Print Assumptions C20_consistency_rejects.

Theorem C20_consistency_rejects_extend : forall h c ls l rest cp h1 e d v,
  extend_locs h c ls cp true = (h1, Ok) ->
  nth_error (ems h1) c = Some e -> e_dtype e = Some d -> val_of h1 l = Some v ->
  dtype_eqb d (dtype_of v) = false ->
  extend_locs h c (ls ++ l :: rest) cp true = (h1, Err EValue).
Proof. exact consistency_rejects_extend. Qed.
Print Assumptions C20_consistency_rejects_extend.

Theorem C20_consistency_accepts : forall h c i cp f e l v,
  nth_error (ems h) c = Some e -> nth_error (hnd h) i = Some l -> val_of h l = Some v ->
  (f = false \/ e_dtype e = None \/ e_dtype e = Some (dtype_of v)) ->
  snd (exec h (OAppend c i cp f)) = Ok.
Proof. exact consistency_accepts. Qed.
Print Assumptions C20_consistency_accepts.

(* every way two layouts can differ (class family, dimension, number of modes) is a dtype difference *)
Theorem C20_dtype_differs : forall a b,
  dtype_eqb (dtype_of a) (dtype_of b) = false <->
  (layout (cls a) <> layout (cls b) \/ dim a <> dim b \/ length (extra a) <> length (extra b)).
Proof. exact dtype_differs. Qed.
Print Assumptions C20_dtype_differs.

(* the constructor: all or nothing; a droplet of another layout anywhere in the list is rejected when
   consistency is requested, against an explicit dtype (droplet / numpy dtype / array / Emulsion.empty)
   and against the layout of the first droplet *)
Theorem C20_ctor_all_or_nothing : forall h is dt cp f,
  snd (exec h (OEmCtor is dt cp f)) <> Ok -> fst (exec h (OEmCtor is dt cp f)) = h.
Proof. exact ctor_all_or_nothing. Qed.
Print Assumptions C20_ctor_all_or_nothing.

Theorem C20_consistency_rejects_ctor : forall h is i0 cp ls l0 v0,
  wf h -> mapM (nth_error (hnd h)) is = Some ls -> nth_error (hnd h) i0 = Some l0 -> val_of h l0 = Some v0 ->
  Exists (fun l => exists v, val_of h l = Some v /\ dtype_eqb (dtype_of v0) (dtype_of v) = false) ls ->
  exec h (OEmCtor is (Some i0) cp true) = (h, Err EValue).
Proof. exact consistency_rejects_ctor. Qed.
Print Assumptions C20_consistency_rejects_ctor.

Theorem C20_consistency_rejects_ctor_first : forall h i1 is cp l1 v1 ls,
  wf h -> nth_error (hnd h) i1 = Some l1 -> val_of h l1 = Some v1 -> mapM (nth_error (hnd h)) is = Some ls ->
  Exists (fun l => exists v, val_of h l = Some v /\ dtype_eqb (dtype_of v1) (dtype_of v) = false) ls ->
  exec h (OEmCtor (i1 :: is) None cp true) = (h, Err EValue).
Proof. exact consistency_rejects_ctor_first. Qed.
Print Assumptions C20_consistency_rejects_ctor_first.

(* copy.copy / copy.deepcopy / pickle round trip of an emulsion: never fails, same number of members, dtype kept
   (ownership of the members: C20_sep_preserved and C20_copies_independent cover OEmClone) *)
Theorem C20_clone_keeps_dtype : forall h c e,
  wf h -> nth_error (ems h) c = Some e ->
  snd (exec h (OEmClone c)) = Ok /\
  exists e', nth_error (ems (fst (exec h (OEmClone c)))) (length (ems h)) = Some e' /\
             (e_dtype e <> None -> e_dtype e' = e_dtype e) /\ length (e_mem e') = length (e_mem e).
Proof. exact clone_keeps_dtype. Qed.
Print Assumptions C20_clone_keeps_dtype.

(* self-extension e.extend(e): like a list, the emulsion is extended by the droplets it held before the call *)
Theorem C20_self_extend_doubles : forall h c e,
  wf h -> Sep h -> Aligned h -> nth_error (ems h) c = Some e ->
  let r := exec h (OExtendSelf c true false) in
  snd r = Ok /\
  option_map snd (nth_error (s_ems (abs (fst r))) c) = Some (abs_vals h (e_mem e) ++ abs_vals h (e_mem e)).
Proof. exact self_extend_doubles. Qed.
Print Assumptions C20_self_extend_doubles.

(* summary queries *)
Theorem C20_stats_perm_invariant : forall (vol area : value -> Q) vs vs',
  Permutation vs vs' ->
  st_count vs = st_count vs' /\
  (st_radius_mean vs == st_radius_mean vs')%Q /\
  (st_radius_var vs == st_radius_var vs')%Q /\
  (st_volume_mean vol vs == st_volume_mean vol vs')%Q /\
  (st_volume_var vol vs == st_volume_var vol vs')%Q /\
  (st_total_volume vol vs == st_total_volume vol vs')%Q /\
  oQeq (st_width area vs) (st_width area vs') /\
  (forall k, oQeq (fst (st_bbox k vs)) (fst (st_bbox k vs')) /\ oQeq (snd (st_bbox k vs)) (snd (st_bbox k vs'))).
Proof. exact stats_perm_invariant. Qed.
Print Assumptions C20_stats_perm_invariant.

Theorem C20_bbox_contains_members : forall k vs v p lo hi,
  In v vs -> nth_error (pos v) k = Some p -> st_bbox k vs = (Some lo, Some hi) ->
  (lo <= p - rad v /\ p + rad v <= hi)%Q.
Proof. exact bbox_contains_members. Qed.
Print Assumptions C20_bbox_contains_members.

Theorem C20_short_tracks_perm_invariant : forall q (tss tss' : list (list Q)),
  Permutation tss tss' -> Permutation (filter (keeps_times q) tss) (filter (keeps_times q) tss').
Proof. exact short_tracks_perm_invariant. Qed.
Print Assumptions C20_short_tracks_perm_invariant.

Theorem C20_nearest_minimal : forall ts t i,
  nearest ts t = Some i ->
  exists ti, nth_error ts i = Some ti /\ forall tj, In tj ts -> (Qabs.Qabs (ti - t) <= Qabs.Qabs (tj - t))%Q.
Proof. exact nearest_minimal. Qed.
Print Assumptions C20_nearest_minimal.

(* non-vacuity: a concrete history of seventeen default-flag operations over all three collection types
   reaches a well-formed, separated, aligned heap with non-trivial content; the hypotheses of the
   theorems above (wf, Sep, list_op) are therefore satisfiable *)
Example C20_nonvacuous :
  Forall (fun o => list_op o = true) demo_ops /\
  wf (run emp demo_ops) /\ Sep (run emp demo_ops) /\ Aligned (run emp demo_ops) /\
  abs_em (run emp demo_ops) 0 = Some [mkV 0 [0%Q; 0%Q] (7#1)%Q []; vB] /\
  abs_hnd (run emp demo_ops) 0 = Some (mkV 0 [0%Q; 0%Q] (5#1)%Q []) /\
  abs_em (run emp demo_ops) 1 = Some [vA] /\
  length (arrs (run emp demo_ops)) = 1 /\
  length (tcs (run emp demo_ops)) = 2 /\ s_tvars (abs (run emp demo_ops)) = [[(1#2)%Q; (9#1)%Q]].
Proof.
  split; [exact demo_ops_default|].
  split; [apply reachable_wf_aligned|].
  split; [apply reachable_sep; repeat constructor|].
  split; [apply reachable_wf_aligned|].
  vm_compute. repeat split; reflexivity.
Qed.

(* non-vacuity for the constructor (explicit dtype, Emulsion.empty), clones and general slices, with the
   2-modes-then-4-modes rejections evaluated on the reached heap *)
Example C20_nonvacuous_ctor_clone_slices :
  wf (run emp demo_ops2) /\ Aligned (run emp demo_ops2) /\
  length (ems (run emp demo_ops2)) = 11 /\
  abs_em (run emp demo_ops2) 4 = Some [vA; vP2] /\
  nth_error (s_tcs (abs (run emp demo_ops2))) 2 = Some ([(5#1)%Q; 0%Q], [9; 10]) /\
  exec (run emp demo_ops2) (OEmCtor [0; 1] None true true) = (run emp demo_ops2, Err EValue) /\
  exec (run emp demo_ops2) (OAppend 1 1 true true) = (run emp demo_ops2, Err EValue).
Proof.
  split; [apply reachable_wf_aligned|]. split; [apply reachable_wf_aligned|].
  destruct demo_facts2 as (F1 & _ & _ & F4 & _ & _ & _ & F8 & _ & _ & _ & F12 & _ & F14 & _).
  split; [exact F1|]. split; [exact F4|]. split; [exact F8|]. split; [exact F12|exact F14].
Qed.
