(* C11 -- property theorems only; each closed by `exact`, with Print Assumptions. *)
From Coq Require Import Reals Lra List Permutation.
Import ListNotations.
From PD Require Import Model.Num Gen.Gen_spherical Gen.Gen_merge Proofs.MergeSphere Proofs.Merge Proofs.C11.
Local Open Scope R_scope.

(* volume of the merged droplet = sum of the volumes (d = 1, 2, 3) *)
Theorem C11_merge_volume :
  (forall r1 r2, 0 <= r1 -> 0 <= r2 -> 0 < vfr_nd_1 r1 + vfr_nd_1 r2 ->
     0 <= merge_radius_1 r1 r2 /\ vfr_nd_1 (merge_radius_1 r1 r2) = vfr_nd_1 r1 + vfr_nd_1 r2) /\
  (forall r1 r2, 0 <= r1 -> 0 <= r2 -> 0 < vfr_nd_2 r1 + vfr_nd_2 r2 ->
     0 <= merge_radius_2 r1 r2 /\ vfr_nd_2 (merge_radius_2 r1 r2) = vfr_nd_2 r1 + vfr_nd_2 r2) /\
  (forall r1 r2, 0 <= r1 -> 0 <= r2 -> 0 < vfr_nd_3 r1 + vfr_nd_3 r2 ->
     0 <= merge_radius_3 r1 r2 /\ vfr_nd_3 (merge_radius_3 r1 r2) = vfr_nd_3 r1 + vfr_nd_3 r2).
Proof. exact merge_volume. Qed.
Print Assumptions C11_merge_volume.

(* V_m p_m = V_1 p_1 + V_2 p_2; p_m is the convex combination with weights V_i / (V_1 + V_2) *)
Theorem C11_merge_position :
  merge_position_stmt vfr_nd_1 merge_radius_1 merge_pos_1 /\
  merge_position_stmt vfr_nd_2 merge_radius_2 merge_pos_2 /\
  merge_position_stmt vfr_nd_3 merge_radius_3 merge_pos_3.
Proof. exact merge_position. Qed.
Print Assumptions C11_merge_position.

Theorem C11_merge_width : forall w1 w2,
  merge_width w1 w2 = (w1 + w2) / 2 /\ Rmin w1 w2 <= merge_width w1 w2 <= Rmax w1 w2 /\
  merge_width w1 w2 = merge_width w2 w1.
Proof. exact merge_width_mean. Qed.
Print Assumptions C11_merge_width.

Theorem C11_merge_comm :
  merge_comm_stmt vfr_nd_1 merge_radius_1 merge_pos_1 /\
  merge_comm_stmt vfr_nd_2 merge_radius_2 merge_pos_2 /\
  merge_comm_stmt vfr_nd_3 merge_radius_3 merge_pos_3.
Proof. exact merge_comm. Qed.
Print Assumptions C11_merge_comm.

(* every binary merge tree over any number of droplets: volume = sum, first moment = sum,
   value independent of the grouping and of the order of the leaves *)
Theorem C11_merge_tree :
  merge_tree_stmt vfr_nd_1 rfv_nd_1 merge_radius_1 merge_pos_1 /\
  merge_tree_stmt vfr_nd_2 rfv_nd_2 merge_radius_2 merge_pos_2 /\
  merge_tree_stmt vfr_nd_3 rfv_nd_3 merge_radius_3 merge_pos_3.
Proof. exact (conj merge_tree_1 (conj merge_tree_2 merge_tree_3)). Qed.
Print Assumptions C11_merge_tree.

(* the source's statement sequence on a store with arbitrary aliasing of drop1/drop2/out yields the
   pure merge at out and changes nothing else; DropletBase.merge(inplace=True) returns the same
   droplet as inplace=False; operands untouched unless in-place *)
Theorem C11_merge_inplace_eq :
  (exec_spec merge_exec_1 merge_radius_1 merge_pos_1 None /\
   exec_spec merge_exec_2 merge_radius_2 merge_pos_2 None /\
   exec_spec merge_exec_3 merge_radius_3 merge_pos_3 None) /\
  (exec_spec merge_exec_diffuse_1 merge_radius_1 merge_pos_1 (Some merge_width) /\
   exec_spec merge_exec_diffuse_2 merge_radius_2 merge_pos_2 (Some merge_width) /\
   exec_spec merge_exec_diffuse_3 merge_radius_3 merge_pos_3 (Some merge_width)) /\
  (dispatch_stmt merge_exec_1 false /\ dispatch_stmt merge_exec_2 false /\ dispatch_stmt merge_exec_3 false) /\
  (dispatch_stmt merge_exec_diffuse_1 true /\ dispatch_stmt merge_exec_diffuse_2 true /\
   dispatch_stmt merge_exec_diffuse_3 true).
Proof. exact merge_inplace_eq. Qed.
Print Assumptions C11_merge_inplace_eq.

(* non-vacuity: a concrete admissible tree with a zero-radius leaf and unequal sizes (d = 3),
   and two different groupings of the same leaves *)
Example C11_nonvacuous :
  tree_ok vfr_nd_3 (Node (Leaf 1 0) (Node (Leaf 2 3) (Leaf 0 5))) /\
  tree_ok vfr_nd_3 (Node (Node (Leaf 0 5) (Leaf 1 0)) (Leaf 2 3)) /\
  Permutation (leaves (Node (Leaf 1 0) (Node (Leaf 2 3) (Leaf 0 5))))
              (leaves (Node (Node (Leaf 0 5) (Leaf 1 0)) (Leaf 2 3))) /\
  0 < vfr_nd_3 1 + vfr_nd_3 0.
Proof.
  pose proof PI_RGT_0 as HP. unfold vfr_nd_3. simpl. unfold vfr_nd_3.
  repeat split; try lra; try nra.
  apply perm_trans with [(2, 3); (0, 5); (1, 0)].
  - apply (Permutation_cons_append [(2, 3); (0, 5)] (1, 0)).
  - apply (Permutation_cons_append [(0, 5); (1, 0)] (2, 3)).
Qed.
