(* C03 -- property theorems only; each closed by `exact`, with Print Assumptions.
   R-layer: over the definitions generated from the current droplets.py / emulsions.py (Gen_shapes);
   D-layer: over the exact-rational rendering model (Model/Render.v on Model/Grid.v).
   d = distance of the cell centre from the droplet centre (grid metric), r = radius, i = interface
   distance in the direction of the cell, ow = stored interface width (None | Some w, w >= 0 enforced by
   the setter), h = grid.typical_discretization > 0. *)
From Coq Require Import Reals List Permutation ZArith QArith Bool.
From PD Require Import Gen.Gen_shapes Model.Grid Model.Render Model.LocateSym Model.RenderSym Proofs.Profile
  Proofs.Render Proofs.RenderSym Proofs.C03.
Import ListNotations.

Local Open Scope R_scope.

Theorem C03_profile_range : forall (b : bool) d i w, 0 <= w ->
  (spherical_field d i = 0 \/ spherical_field d i = 1) /\
  (w = 0 \/ b = true ->
     (diffuse_field b d i w = 0 \/ diffuse_field b d i w = 1) /\
     (perturbed_field b d i w = 0 \/ perturbed_field b d i w = 1)) /\
  (0 < w -> b = false ->
     0 < diffuse_field b d i w < 1 /\ 0 < perturbed_field b d i w < 1 /\
     0 < diffuse_profile d i w < 1 /\ 0 < perturbed_profile d i w < 1).
Proof. exact profile_range. Qed.
Print Assumptions C03_profile_range.

Theorem C03_scaled_between : forall vmin vmax p, 0 <= p <= 1 ->
  (vmin <= vmax -> vmin <= scale_value vmin vmax p <= vmax) /\
  (vmax <= vmin -> vmax <= scale_value vmin vmax p <= vmin).
Proof. exact scaled_between_lemma. Qed.
Print Assumptions C03_scaled_between.

Theorem C03_value_between : forall vmin vmax d i ow h, 0 < h -> valid_width ow ->
  Rmin vmin vmax <= spherical_value vmin vmax d i <= Rmax vmin vmax /\
  Rmin vmin vmax <= diffuse_value vmin vmax d i (diffuse_width ow h) <= Rmax vmin vmax /\
  Rmin vmin vmax <= perturbed_value vmin vmax d i (perturbed_width ow h) <= Rmax vmin vmax.
Proof. exact value_between. Qed.
Print Assumptions C03_value_between.

Theorem C03_above_mid_iff_inside : forall vmin vmax d i ow h, vmin < vmax -> 0 < h -> valid_width ow ->
  (spherical_value vmin vmax d i > (vmin + vmax) / 2 <-> spherical_inside d i) /\
  (diffuse_value vmin vmax d i (diffuse_width ow h) > (vmin + vmax) / 2 <-> diffuse_inside d i) /\
  (perturbed_value vmin vmax d i (perturbed_width ow h) > (vmin + vmax) / 2 <-> perturbed_inside d i).
Proof. exact above_mid_iff_inside. Qed.
Print Assumptions C03_above_mid_iff_inside.

(* `inside` means what the property text says: strictly closer than the interface *)
Theorem C03_inside_is_strictly_closer : forall d i,
  (spherical_inside d i <-> d < i) /\ (diffuse_inside d i <-> d < i) /\ (perturbed_inside d i <-> d < i).
Proof. intros d i. exact (conj (spherical_inside_char d i) (conj (diffuse_inside_char d i) (perturbed_inside_char d i))). Qed.
Print Assumptions C03_inside_is_strictly_closer.

Theorem C03_below_mid_iff_inside_mirrored : forall vmin vmax d i ow h, vmax < vmin -> 0 < h -> valid_width ow ->
  (spherical_value vmin vmax d i < (vmin + vmax) / 2 <-> spherical_inside d i) /\
  (diffuse_value vmin vmax d i (diffuse_width ow h) < (vmin + vmax) / 2 <-> diffuse_inside d i) /\
  (perturbed_value vmin vmax d i (perturbed_width ow h) < (vmin + vmax) / 2 <-> perturbed_inside d i).
Proof. exact below_mid_iff_inside_mirrored. Qed.
Print Assumptions C03_below_mid_iff_inside_mirrored.

Theorem C03_sharp_is_indicator : forall vmin vmax d i h,
  ((spherical_inside d i -> spherical_value vmin vmax d i = vmax) /\
   (~ spherical_inside d i -> spherical_value vmin vmax d i = vmin)) /\
  ((diffuse_inside d i -> diffuse_value vmin vmax d i (diffuse_width (Some 0) h) = vmax) /\
   (~ diffuse_inside d i -> diffuse_value vmin vmax d i (diffuse_width (Some 0) h) = vmin)) /\
  ((perturbed_inside d i -> perturbed_value vmin vmax d i (perturbed_width (Some 0) h) = vmax) /\
   (~ perturbed_inside d i -> perturbed_value vmin vmax d i (perturbed_width (Some 0) h) = vmin)) /\
  ((spherical_mask d i = true <-> d < i) /\ (diffuse_mask d i = true <-> d < i) /\
   (perturbed_mask d i = true <-> d < i)) /\
  (forall w, 0 <= w -> diffuse_field true d i w = indicator d i /\ perturbed_field true d i w = indicator d i).
Proof. exact sharp_is_indicator. Qed.
Print Assumptions C03_sharp_is_indicator.

Theorem C03_spherical_monotone : forall vmin vmax d d' r ow h, 0 < h -> valid_width ow -> d <= d' ->
  (vmin <= vmax ->
     spherical_value vmin vmax d' r <= spherical_value vmin vmax d r /\
     diffuse_value vmin vmax d' r (diffuse_width ow h) <= diffuse_value vmin vmax d r (diffuse_width ow h)) /\
  (vmax <= vmin ->
     spherical_value vmin vmax d r <= spherical_value vmin vmax d' r /\
     diffuse_value vmin vmax d r (diffuse_width ow h) <= diffuse_value vmin vmax d' r (diffuse_width ow h)).
Proof. exact spherical_monotone. Qed.
Print Assumptions C03_spherical_monotone.

Theorem C03_emulsion_sum_clip_perm : forall ds ds', Permutation ds ds' ->
  emulsion_cell ds = emulsion_cell ds' /\
  emulsion_cell ds = np_clip (fold_right Rplus 0 ds) 0 1 /\
  0 <= emulsion_cell ds <= 1 /\
  emulsion_cell [] = 0.
Proof. exact emulsion_sum_clip_perm. Qed.
Print Assumptions C03_emulsion_sum_clip_perm.

(* sharp members: the clipped sum is the cellwise OR (ties the R-layer to Model/Render.mask_emulsion) *)
Theorem C03_emulsion_sharp_or : forall l, Forall (fun p => p = 0 \/ p = 1) l ->
  (emulsion_cell l = 1 <-> Exists (fun p => p = 1) l) /\
  (emulsion_cell l = 0 <-> Forall (fun p => p = 0) l) /\
  (emulsion_cell l = 0 \/ emulsion_cell l = 1).
Proof. exact emulsion_sharp_or. Qed.
Print Assumptions C03_emulsion_sharp_or.

Theorem C03_dimension_guard : forall dd gd,
  (render_guard dd gd = None <-> dd = gd) /\ (dd <> gd -> render_guard dd gd = Some ValueError).
Proof. exact render_guard_char. Qed.
Print Assumptions C03_dimension_guard.

(* the guarded quotient of polar_coordinates over the reals: defined (never 0/0) and within the domain of arccos *)
Theorem C03_angle_total_R : forall dx dy dz,
  exists v, cos_theta_R dz (sqrt (dx * dx + dy * dy + dz * dz)) = Some v /\ -1 <= v <= 1.
Proof. exact cos_theta_R_total. Qed.
Print Assumptions C03_angle_total_R.

Local Open Scope Q_scope.

Theorem C03_render_roll : forall g ax a k c r,
  periodic_axis g ax a ->
  (forall idx, dist2 g (shift_at ax (inject_Z k * adisc a) c) (cell_centre g idx) ==
               dist2 g c (cell_centre g (roll_at g ax k idx))) /\
  (forall idx, inside g (shift_at ax (inject_Z k * adisc a) c) r idx = inside g c r (roll_at g ax k idx)) /\
  mask_sphere g (shift_at ax (inject_Z k * adisc a) c) r = rolled_mask_sphere g ax k c r /\
  (forall idx, in_range g idx ->
     in_range g (roll_at g ax k idx) /\ roll_at g ax (- k) (roll_at g ax k idx) = idx) /\
  (forall idx, In idx (all_cells (gshape g)) -> in_range g idx).
Proof. exact render_roll. Qed.
Print Assumptions C03_render_roll.

Theorem C03_render_periodic_image : forall g ax a m c r,
  periodic_axis g ax a ->
  (forall q, dist2 g (shift_at ax (inject_Z m * asize a) c) q == dist2 g c q) /\
  (forall idx, inside g (shift_at ax (inject_Z m * asize a) c) r idx = inside g c r idx) /\
  mask_sphere g (shift_at ax (inject_Z m * asize a) c) r = mask_sphere g c r.
Proof. exact render_periodic_image. Qed.
Print Assumptions C03_render_periodic_image.

Theorem C03_wrap_periodic : forall L d m, 0 < L ->
  wrap1 L (d + L) == wrap1 L d /\ wrap1 L (d + inject_Z m * L) == wrap1 L d /\
  - (L / 2) <= wrap1 L d /\ wrap1 L d < L / 2.
Proof. exact wrap_periodic. Qed.
Print Assumptions C03_wrap_periodic.

Theorem C03_angle_total : forall g c idx dist, (1 <= length g <= 3)%nat ->
  length c = length g -> length idx = length g ->
  0 <= dist -> dist * dist == dist2 g c (cell_centre g idx) ->
  exists a, polar_angles (diff_vec g c (cell_centre g idx)) dist = Some a /\ angles_ok a.
Proof. exact angle_total. Qed.
Print Assumptions C03_angle_total.

Theorem C03_cos_theta_total : forall dz dist, 0 <= dist -> dz * dz <= dist * dist ->
  exists v, cos_theta dz dist = Some v /\ - (1) <= v /\ v <= 1.
Proof. exact cos_theta_total. Qed.
Print Assumptions C03_cos_theta_total.

Theorem C03_sharp_mask_spec : forall g c r idx,
  (inside g c r idx = true <-> 0 <= r /\ dist2 g c (cell_centre g idx) < r * r) /\
  (r <= 0 -> inside g c r idx = false).
Proof. exact sharp_mask_spec. Qed.
Print Assumptions C03_sharp_mask_spec.

Theorem C03_emulsion_mask_or : forall g ds ds',
  (forall idx, inside_any g ds idx = true <-> exists d, In d ds /\ inside g (fst d) (snd d) idx = true) /\
  ((forall d, In d ds <-> In d ds') -> mask_emulsion g ds = mask_emulsion g ds') /\
  (forall c r, mask_emulsion g [(c, r)] = mask_sphere g c r).
Proof. exact emulsion_mask_or. Qed.
Print Assumptions C03_emulsion_mask_or.

(* grids with a symmetry centre / axis (PolarSym, SphericalSym: droplet at the origin; CylindricalSym: droplets on
   the axis; Model/RenderSym.v): the sharp image is the indicator of `distance < radius` (strict), radius <= 0 renders
   nothing, the value never increases with the distance, an emulsion is the cellwise OR whatever the droplet order *)
Theorem C03_sharp_mask_sym_spec :
  (forall r_lo dr rad n i, (i < n)%nat ->
     nth_error (radial_mask r_lo dr rad n) i = Some (radial_inside r_lo dr rad i)) /\
  (forall r_lo dr rad i,
     (radial_inside r_lo dr rad i = true <->
        0 <= rad /\ radial_centre r_lo dr i * radial_centre r_lo dr i < rad * rad) /\
     (rad <= 0 -> radial_inside r_lo dr rad i = false) /\
     (0 <= r_lo -> 0 < dr ->
        (radial_inside r_lo dr rad i = true <-> radial_centre r_lo dr i < rad) /\
        (forall j, (i <= j)%nat -> radial_inside r_lo dr rad j = true -> radial_inside r_lo dr rad i = true))) /\
  (forall g c rad i j,
     (cyl_inside g c rad i j = true <->
        0 <= rad /\ cyl_r g i * cyl_r g i + (cyl_z g j - c) * (cyl_z g j - c) < rad * rad) /\
     (rad <= 0 -> cyl_inside g c rad i j = false) /\
     (forall i', 0 < cg_dr g -> (0 <= i <= i')%Z -> cyl_inside g c rad i' j = true -> cyl_inside g c rad i j = true)) /\
  (forall g ds ds',
     cyl_mask g ds = map (cyl_inside_any g ds) (all_cells [cg_nr g; cg_nz g]) /\
     (forall idx, cyl_inside_any g ds idx = true <->
        exists d, In d ds /\ cyl_inside g (fst d) (snd d) (nth 0 idx 0%Z) (nth 1 idx 0%Z) = true) /\
     ((forall d, In d ds <-> In d ds') -> cyl_mask g ds = cyl_mask g ds')).
Proof. exact sharp_mask_sym_spec. Qed.
Print Assumptions C03_sharp_mask_sym_spec.

(* non-vacuity: the hypotheses are met by concrete non-trivial inputs -- a periodic axis of a 4 x 3 grid,
   a disc straddling the periodic boundary whose image is neither empty nor full and which rolls by one
   cell, a 3-d difference vector with and without distance, a valid width and value range, a centred sphere on a
   radial grid with inner radius 1/2 and two on-axis spheres on a cylinder (one cell exactly on an interface) *)
Example C03_nonvacuous :
  periodic_axis ex_grid 0 {| ncell := 4; alo := 0; ahi := 2; aper := true |} /\
  (mask_sphere ex_grid [1 # 4; 1 # 2] (3 # 4) =
     [false; true; false;  false; true; false;  false; false; false;  false; true; false] /\
   mask_sphere ex_grid [3 # 4; 1 # 2] (3 # 4) =
     [false; true; false;  false; true; false;  false; true; false;  false; false; false]) /\
  (polar_angles [0; 3; 4] 5 = Some (Spher3 (4 # 5) 3 0) /\ polar_angles [0; 0; 0] 0 = Some (Spher3 1 0 0)) /\
  (valid_width (Some 1%R) /\ valid_width None /\ (0 < 1)%R /\ (0 <= 1 / 2 <= 1)%R) /\
  (radial_mask (1 # 2) (1 # 2) (9 # 4) 6 = [true; true; true; false; false; false] /\
   cyl_mask {| cg_nr := 2; cg_nz := 4; cg_R := 2; cg_zlo := - (1); cg_zhi := 1; cg_per := true |}
            [(- (3 # 4), 3 # 4); (3 # 4, 1 # 2)] =
     [true; true; false; false;  false; false; false; false]).
Proof. exact (conj ex_periodic_axis (conj ex_mask (conj ex_angle (conj ex_values ex_sym_mask)))). Qed.
