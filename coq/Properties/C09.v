(* C09 -- placeholder while developing *)
From PD Require Import Proofs.C09.
