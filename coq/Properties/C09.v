(* C09 -- analysis never aborts on valid input and returns finite droplets: property theorems only.
   "Never raises" = CALL-SITE PRECONDITION theorems: the models return explicit error values where the code raises
   and every partial operation has an explicit domain; the theorems show that the error values are not produced on
   valid input.  Partial: only exceptions arising at modelled call sites are covered by theorems; everything else
   is covered by the error-kind sweep of harness/props/C09.py over the public entry points.

   Cartesian: g = grid axes, lab = scipy.ndimage.label's image in raster order (oracle), wf_img = one label per cell,
   every label 1..n occurs.  Cylindrical: img = labels of the mask, img_pad = labels of the 3x padded mask, volumes
   divided by pi.  Rendering: diff_vec / dist2 of Model/Grid.v.  Tracking: Model/Tracking.v.  Refinement: Model/Refine.v
   over the lines GENERATED from refine_droplet. *)
From Coq Require Import Reals QArith ZArith List Bool.
Import ListNotations.
From PD Require Import Model.Grid Model.MergeLoop Model.Locate Model.LocateSym Model.Render Model.Tracking
  Gen.Gen_analysis Gen.Gen_shapes Gen.Gen_spherical Gen.Gen_droplet_basic Model.Request Model.Totality
  Proofs.LocateCart Proofs.Render Proofs.Profile Proofs.C03 Proofs.C06 Proofs.C12 Proofs.C19 Proofs.C02.
From PD Require Import Gen.Gen_refine Model.Refine Proofs.RefineVec Proofs.Refine Proofs.C04.
From PD Require Import Proofs.C09.
Local Open Scope Q_scope.

(* ---- rendering: the angle computation of polar_coordinates is defined for EVERY cell, including dist = 0 ---- *)
Theorem C09_render_angles_total : forall g c idx dist, (1 <= length g <= 3)%nat ->
  length c = length g -> length idx = length g ->
  0 <= dist -> dist * dist == dist2 g c (cell_centre g idx) ->
  exists a, polar_angles (diff_vec g c (cell_centre g idx)) dist = Some a /\ angles_ok a.
Proof. exact angle_total. Qed.
Print Assumptions C09_render_angles_total.

Theorem C09_render_cos_theta_total : forall dz dist, 0 <= dist -> dz * dz <= dist * dist ->
  exists v, cos_theta dz dist = Some v /\ - (1) <= v /\ v <= 1.
Proof. exact cos_theta_total. Qed.
Print Assumptions C09_render_cos_theta_total.

(* ... over the reals: never 0/0, always inside the domain of arccos *)
Theorem C09_render_angle_total_R : forall dx dy dz : R,
  exists v, cos_theta_R dz (sqrt (dx * dx + dy * dy + dz * dz)) = Some v /\ (-1 <= v <= 1)%R.
Proof. exact cos_theta_R_total. Qed.
Print Assumptions C09_render_angle_total_R.

(* ---- locating, Cartesian grids ---- *)
(* the centre of mass divides by a positive cell count *)
Theorem C09_cart_count_positive : forall g img k, wf_img g img -> (k < num_labels img)%nat -> 0 < count (members img k).
Proof. exact cart_count_pos. Qed.
Print Assumptions C09_cart_count_positive.

(* every merge of the periodic loop divides by a positive volume v_l + v_h *)
Theorem C09_cart_merge_divisor_positive : forall g img es1 kl kh ax es2, grid_ok g -> wf_img g img ->
  edges g img = es1 ++ (kl, kh, ax) :: es2 ->
  let st := merge_all (shapeN g) (init_state (pos0 img) (vol0 g img)) es1 in
  0 < mvol st (cl st kl) + mvol st (cl st kh).
Proof. exact cart_merge_divisor_pos. Qed.
Print Assumptions C09_cart_merge_divisor_positive.

(* every candidate: position of the grid's dimension, volume > 0 (argument of SphericalDroplet.from_volume) *)
Theorem C09_cart_located_finite : forall g lab, grid_ok g -> wf_img g (mk_limage (gshape g) lab) ->
  forall c, In c (candidates g lab) -> length (fst c) = length g /\ 0 < snd c.
Proof. exact cart_located_finite. Qed.
Print Assumptions C09_cart_located_finite.

(* no cluster: empty emulsion (the early return), nothing is computed *)
Theorem C09_cart_empty : forall g lab, num_labels (mk_limage (gshape g) lab) = 0%nat -> candidates g lab = [].
Proof. exact cart_empty. Qed.
Print Assumptions C09_cart_empty.

(* ---- locating, polar / spherical grids ---- *)
Theorem C09_radial_total : forall r_lo dr m, 0 < dr ->
  locate_radial r_lo dr m = None \/ exists r, locate_radial r_lo dr m = Some r /\ r_lo < r.
Proof. exact radial_total. Qed.
Print Assumptions C09_radial_total.

(* ---- locating, cylindrical grids ---- *)
(* the internal spanning signal (a RuntimeError) can only be raised for the PADDED image, where it is caught *)
Theorem C09_cyl_unpadded_never_spans : forall g img, unpadded g img -> cyl_single g img <> Spanning.
Proof. exact cyl_unpadded_never_spans. Qed.
Print Assumptions C09_cyl_unpadded_never_spans.

Theorem C09_cyl_candidates_total : forall g img_pad img, unpadded g img ->
  exists ds, cyl_single g img = Found ds /\
    (cyl_candidates g img_pad img = ds \/
     exists dp, cg_per g = true /\ cyl_single g img_pad = Found dp /\ cyl_candidates g img_pad img = cyl_window g dp).
Proof. exact cyl_candidates_total. Qed.
Print Assumptions C09_cyl_candidates_total.

(* no cluster on the symmetry axis: empty emulsion on every code path, no exception (defect F5) *)
Theorem C09_cyl_empty_if_off_axis : forall g img_pad img,
  (forall k, on_axis (members img k) = false) -> (forall k, on_axis (members img_pad k) = false) ->
  cyl_candidates g img_pad img = [].
Proof. exact cyl_empty_if_off_axis. Qed.
Print Assumptions C09_cyl_empty_if_off_axis.

(* every candidate of one call comes from a non-empty cluster (divisor of the mean z index) and has volume > 0 *)
Theorem C09_cyl_located_finite : forall g img ds, cyl_ok g -> r_nonneg img -> cyl_single g img = Found ds ->
  forall d, In d ds -> 0 < snd d /\
    exists k, (k < num_labels img)%nat /\ d = cyl_droplet g (members img k) /\ 0 < count (members img k).
Proof. exact cyl_located_finite. Qed.
Print Assumptions C09_cyl_located_finite.

Theorem C09_cyl_candidates_finite : forall g img_pad img, cyl_ok g -> r_nonneg img -> r_nonneg img_pad ->
  forall d, In d (cyl_candidates g img_pad img) -> 0 < snd d.
Proof. exact cyl_candidates_finite. Qed.
Print Assumptions C09_cyl_candidates_finite.

(* ---- candidates become droplets: from_volume of a volume >= 0 is a radius >= 0 with that volume (d = 1, 2, 3);
        a positive volume gives a positive radius ---- *)
Theorem C09_from_volume_finite : forall v : R, (0 <= v)%R ->
  ((0 <= drop_from_volume_1 v)%R /\ drop_volume_1 (drop_from_volume_1 v) = v) /\
  ((0 <= drop_from_volume_2 v)%R /\ drop_volume_2 (drop_from_volume_2 v) = v) /\
  ((0 <= drop_from_volume_3 v)%R /\ drop_volume_3 (drop_from_volume_3 v) = v).
Proof. exact from_volume_finite. Qed.
Print Assumptions C09_from_volume_finite.

Theorem C09_from_volume_positive : forall v : R, (0 < v)%R ->
  (0 < drop_from_volume_1 v)%R /\ (0 < drop_from_volume_2 v)%R /\ (0 < drop_from_volume_3 v)%R.
Proof. exact from_volume_pos. Qed.
Print Assumptions C09_from_volume_positive.

(* ---- refinement: the start vector handed to least_squares meets all its preconditions (shapes, lo < hi,
        lo <= x0 <= hi), so scipy's ValueError cannot occur -- with fitted intensities under the exact hypothesis
        vmin < vmax on the effective levels (known finding F20 otherwise) ---- *)
Theorem C09_refine_start_feasible : forall g st vmin_o vmax_o adjust c p,
  wf c -> valid g c ->
  prepare g st vmin_o vmax_o adjust c = inr p ->
  (adjust = false \/ p_vmin p < p_vmax p) ->
  lsq_precondition (p_x0 p) (p_lo p) (p_hi p) = None /\
  within (p_lo p) (p_x0 p) (p_hi p) = true /\ strict (p_lo p) (p_hi p) = true.
Proof. exact refine_start_feasible. Qed.
Print Assumptions C09_refine_start_feasible.

(* no error value: matching dimension, valid candidate (an empty fit region falls back to the default levels: defect
   F23, repaired); lsq_spec is the visible premise on the optimiser *)
Theorem C09_refine_ok : forall lsq hyp dev g st vmin_o vmax_o adjust c,
  lsq_spec lsq -> wf c -> valid g c -> length (d_pos c) = g_dim g ->
  (adjust = false \/ level_min vmin_o st < level_max vmax_o st) ->
  exists r, refine lsq hyp dev g st vmin_o vmax_o adjust c = ROk r.
Proof. exact refine_ok. Qed.
Print Assumptions C09_refine_ok.

(* ---- tracking: Ok for every history incl. frames without droplets, both methods, every cut-off ---- *)
Theorem C09_track_total : forall m frames, exists trs, track_all m frames = Ok trs.
Proof. exact c06_total. Qed.
Print Assumptions C09_track_total.

(* ... and the guard `if tracks_alive and len(emulsion) > 0` is what makes it so (defect F4) *)
Theorem C09_unguarded_distance_fails :
  dist_frame_unguarded (fun _ _ => 1) None 1 1 0 [0%nat] [t_new (0, (0%nat, 0%nat))] = Err ECdistEmpty.
Proof. exact unguarded_fails. Qed.
Print Assumptions C09_unguarded_distance_fails.

(* ---- the documented errors: exactly two sources in the generated guards, both ValueError ---- *)
Theorem C09_documented_errors :
  (forall r, (1 <= rq_dim r <= 3)%Z ->
     (locate_error r = Some ModesInOneDimension <-> (0 < rq_modes r /\ rq_dim r = 1)%Z) /\
     (locate_error r = None <-> ~ (0 < rq_modes r /\ rq_dim r = 1)%Z) /\
     (forall cands, locate_unrefined r cands = RaiseValueError <-> locate_error r = Some ModesInOneDimension) /\
     (forall cands, locate_error r = None -> exists ds, locate_unrefined r cands = Located ds /\ length ds = length cands)) /\
  (forall dd gd,
     (render_error_of dd gd = Some DimensionMismatch <-> dd <> gd) /\
     (render_error_of dd gd = None <-> dd = gd) /\
     (render_guard dd gd = None \/ render_guard dd gd = Some ValueError)) /\
  (forall r, locate_error r = None \/ locate_error r = Some ModesInOneDimension) /\
  (forall dd gd, render_error_of dd gd = None \/ render_error_of dd gd = Some DimensionMismatch).
Proof. exact documented_errors. Qed.
Print Assumptions C09_documented_errors.

(* the tracking branch of the outcome function used by the error-kind correspondence is constantly "ok" *)
Theorem C09_track_outcome_ok : forall distance cutoff frames, model_outcome (CallTrack distance cutoff frames) = ObsOk.
Proof. exact model_outcome_track. Qed.
Print Assumptions C09_track_outcome_ok.

(* non-vacuity: a periodic cylinder whose mask has an on-axis cluster joined across the boundary by an off-axis
   cell (hypotheses unpadded / r_nonneg / cyl_ok hold; one candidate of volume 7 pi at z = 1/6); the doubly periodic
   3 x 3 image of defect F1b (grid_ok, wf_img; one candidate) *)
Example C09_nonvacuous :
  (cyl_ok ex_cgrid /\ unpadded ex_cgrid ex_cimg /\ r_nonneg ex_cimg /\ r_nonneg ex_cimg_pad /\
   (exists ds, cyl_single ex_cgrid ex_cimg = Found ds /\ map qred2 ds = [(1 # 2, 4)]) /\
   map qred2 (cyl_candidates ex_cgrid ex_cimg_pad ex_cimg) = [(1 # 6, 7)]) /\
  (grid_ok ex_grid2 /\ wf_img ex_grid2 (mk_limage (gshape ex_grid2) [0;1;0; 2;0;3; 2;2;0]%nat) /\
   length (candidates ex_grid2 [0;1;0; 2;0;3; 2;2;0]%nat) = 1%nat).
Proof. exact (conj ex_cyl_facts ex_cart_facts). Qed.
