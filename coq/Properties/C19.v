(* C19 -- property theorems only. *)
From Coq Require Import QArith ZArith List Bool.
Import ListNotations.
From PD Require Import Gen.Gen_analysis Model.Request Proofs.C19.

Theorem C19_class_of_request : forall r, (1 <= rq_dim r <= 3)%Z ->
  modes_guard (rq_dim r) (modes_pos r) = false ->
  final_class r =
    if modes_pos r then (if Z.eqb (rq_dim r) 2 then P2D else if rq_cyl r then P3DAxi else P3D)
    else if width_given r || rq_refine r then Diffuse else Spherical.
Proof. exact final_class_table. Qed.
Print Assumptions C19_class_of_request.

Theorem C19_modes_in_1d_raise : forall dim m, (1 <= dim <= 3)%Z ->
  modes_guard dim m = true <-> (m = true /\ dim = 1%Z).
Proof. exact guard_table. Qed.
Print Assumptions C19_modes_in_1d_raise.

Theorem C19_unrefined_droplet : forall r pos radius,
  let d := convert r pos radius in
  d_cls d = class_unrefined (rq_dim r) (rq_cyl r) (width_given r) (modes_pos r) /\
  d_pos d = pos /\ d_radius d = radius /\
  (has_ampl (d_cls d) = true -> length (d_ampl d) = Z.to_nat (rq_modes r)) /\
  (has_width (d_cls d) = true -> d_width d = rq_width r).
Proof. exact convert_spec. Qed.
Print Assumptions C19_unrefined_droplet.

Theorem C19_width_carried : forall r, width_given r = true ->
  has_width (class_unrefined (rq_dim r) (rq_cyl r) (width_given r) (modes_pos r)) = true.
Proof. exact width_class_carries. Qed.
Print Assumptions C19_width_carried.

Theorem C19_amplitudes_present : forall r, (2 <= rq_dim r <= 3)%Z -> modes_pos r = true ->
  has_ampl (class_unrefined (rq_dim r) (rq_cyl r) (width_given r) (modes_pos r)) = true.
Proof. exact modes_class_has_ampl. Qed.
Print Assumptions C19_amplitudes_present.

Theorem C19_refined_is_diffuse : forall c, has_width (class_refined c) = true.
Proof. exact refined_has_width. Qed.
Print Assumptions C19_refined_is_diffuse.

Theorem C19_uniform_layout : forall r cands ds dim,
  locate_unrefined r cands = Located ds ->
  (forall c, In c cands -> length (fst c) = dim) ->
  forall d1 d2, In d1 ds -> In d2 ds -> layout d1 = layout d2 /\ length (d_pos d1) = dim.
Proof. exact uniform_layout. Qed.
Print Assumptions C19_uniform_layout.

Example C19_nonvacuous :
  let r := {| rq_dim := 3; rq_cyl := true; rq_width := Some (1#2); rq_modes := 2; rq_refine := false |} in
  (1 <= rq_dim r <= 3)%Z /\ modes_guard (rq_dim r) (modes_pos r) = false /\ final_class r = P3DAxi /\
  locate_unrefined r [([0;0;1], 2)] =
    Located [{| d_cls := P3DAxi; d_pos := [0;0;1]; d_radius := 2; d_width := Some (1#2); d_ampl := [0;0] |}].
Proof. vm_compute. repeat split; discriminate. Qed.
