(* C01 -- property theorems only. *)
From Coq Require Import QArith Qabs ZArith List Arith Bool.
Import ListNotations.
From PD Require Import Model.Grid Model.Render Model.RenderSym Model.LocateSym Proofs.C01.
Local Open Scope Q_scope.

(* polar / spherical grids: a centred droplet with dr/2 < R <= R_out: one droplet at the origin whose radius is
   within half a radial spacing of R; exactly the cells whose centres it covers are counted *)
Theorem C01_radial : forall r_lo dr R N, 0 <= r_lo -> 0 < dr -> (1 <= N)%nat ->
  r_lo + dr / 2 < R -> R <= r_lo + inject_Z (Z.of_nat N) * dr ->
  exists n, (1 <= n <= N)%nat /\
    locate_radial r_lo dr (radial_mask r_lo dr R N) = Some (r_lo + inject_Z (Z.of_nat n) * dr) /\
    Qabs (r_lo + inject_Z (Z.of_nat n) * dr - R) <= dr / 2 /\
    (forall i, (i < N)%nat -> (covered r_lo dr R i = true <-> (i < n)%nat)).
Proof. exact radial_located. Qed.
Print Assumptions C01_radial.

(* the located volume c_d * (n dr)^d equals the total volume of the n covered cells c_d * (r_{i+1}^d - r_i^d) *)
Theorem C01_radial_volume : forall r_lo dr n (p : nat),
  sumto n (fun i => edge_radius r_lo dr (S i) ^ Z.of_nat p - edge_radius r_lo dr i ^ Z.of_nat p)
  == edge_radius r_lo dr n ^ Z.of_nat p - edge_radius r_lo dr 0 ^ Z.of_nat p.
Proof. exact radial_volume_exact. Qed.
Print Assumptions C01_radial_volume.

Example C01_nonvacuous : 0 <= 0 /\ 0 < (1#2) /\ 0 + (1#2) / 2 < (9#4) /\ (9#4) <= 0 + inject_Z (Z.of_nat 8) * (1#2) /\
  locate_radial 0 (1#2) (radial_mask 0 (1#2) (9#4) 8) = Some (0 + inject_Z 4 * (1#2)).
Proof.
  split; [apply Qle_refl|]. split; [reflexivity|]. split; [reflexivity|].
  split; [vm_compute; discriminate|vm_compute; reflexivity].
Qed.
