(* C01 -- property theorems only. *)
From Coq Require Import QArith Qabs ZArith List Arith Bool.
Import ListNotations.
From PD Require Import Model.Grid Model.Render Model.RenderSym Model.Locate Model.LocateSym Model.Ball Model.Overlap
  Proofs.LocateCart Proofs.BallLift Proofs.C01 Model.Label Proofs.LabelClients Model.Totality
  Proofs.Components Proofs.C01Cyl Proofs.C01CylPer Proofs.C01Multi Proofs.BallCount Proofs.C01CylMulti.
Local Open Scope Q_scope.

(* ===== Cartesian grids of any dimension =====
   g: the grid; lab: the label image scipy.ndimage.label returns for the rendered image (oracle; LabelSpecImg is
   its specification: equal non-zero labels <=> face-connected inside the box; wf_img: one entry per cell, labels
   1..n all occur); mask_is_ball / mask_is_emulsion: the image is the rendered (sharp) droplet / emulsion
   (Model/Render.v `inside`, proved equal to the implementation's image by the C03/C01 correspondence);
   candidates g lab: the droplets (position in grid coordinates, volume) found before overlap removal. *)

(* one droplet, no periodic axis, droplet inside the box (fits), covering at least one cell centre *)
Theorem C01_cartesian_single : forall g c r lab,
  let img := mk_limage (gshape g) lab in
  grid_ok g -> nonper g -> fits g c r -> ball_cells g c r <> [] ->
  wf_img g img -> LabelSpecImg img -> mask_is_ball g c r img ->
  num_labels img = 1%nat /\
  exists pos vol, candidates g lab = [(pos, vol)] /\
    vol == cell_volume g * inject_Z (Z.of_nat (length (ball_cells g c r))) /\
    length pos = length g /\
    forall k a x, nth_error g k = Some a -> nth_error c k = Some x ->
      exists pk, nth_error pos k = Some pk /\ Qabs (pk - x) <= adisc a / 2.
Proof. exact c01_single. Qed.
Print Assumptions C01_cartesian_single.

(* several droplets, pairwise separated: (r_i + r_j + hmax)^2 <= |c_i - c_j|^2 with hmax >= every spacing:
   exactly one candidate per original, each with the volume of the cells it covers and a half-cell centre *)
Theorem C01_cartesian_emulsion : forall g (ds : list sphere) lab hmax,
  let img := mk_limage (gshape g) lab in
  grid_ok g -> nonper g ->
  (forall d, In d ds -> fits g (fst d) (snd d)) ->
  (forall d, In d ds -> ball_cells g (fst d) (snd d) <> []) ->
  0 <= hmax -> Forall (fun a => adisc a <= hmax) g ->
  (forall i j di dj, nth_error ds i = Some di -> nth_error ds j = Some dj -> i <> j ->
     (snd di + snd dj + hmax) * (snd di + snd dj + hmax) <= dist2 g (fst di) (fst dj)) ->
  wf_img g img -> LabelSpecImg img -> mask_is_emulsion g ds img ->
  num_labels img = length ds /\ length (candidates g lab) = length ds /\
  exists lbl : nat -> nat,
    (forall i, (i < length ds)%nat -> (lbl i < length ds)%nat) /\
    (forall i j, (i < length ds)%nat -> (j < length ds)%nat -> lbl i = lbl j -> i = j) /\
    forall i d, nth_error ds i = Some d ->
      exists pos vol, nth_error (candidates g lab) (lbl i) = Some (pos, vol) /\
        vol == cell_volume g * inject_Z (Z.of_nat (length (ball_cells g (fst d) (snd d)))) /\
        length pos = length g /\
        forall k a x, nth_error g k = Some a -> nth_error (fst d) k = Some x ->
          exists pk, nth_error pos k = Some pk /\ Qabs (pk - x) <= adisc a / 2.
Proof. exact c01_multi_euclid. Qed.
Print Assumptions C01_cartesian_emulsion.

(* no candidate is removed when the located spheres do not overlap (D i j >= 0: centre distance minus both radii;
   the link from the separation hypothesis to D >= 0 goes through cube roots and is a premise) *)
Theorem C01_no_removal : forall D rad n, (forall i j, i <> j -> 0 <= D i j) -> ro D rad 0 (seq 0 n) = seq 0 n.
Proof. exact c01_multi_no_removal. Qed.
Print Assumptions C01_no_removal.

(* one droplet on a grid with ANY mix of periodic axes, centre anywhere (also outside the box along periodic axes),
   straddling boundaries and corners; pfits: 2 r + 2 h <= L along periodic axes, inside the box along the others:
   one candidate, exact volume, centre within half a spacing under the periodic metric, position inside the bounds *)
Theorem C01_cartesian_periodic_single : forall g c r lab,
  let img := mk_limage (gshape g) lab in
  grid_ok g -> pfits g c r -> ball_cells g c r <> [] ->
  wf_img g img -> LabelSpecImg img -> mask_is_ball g c r img ->
  exists pos vol, candidates g lab = [(pos, vol)] /\
    vol == cell_volume g * inject_Z (Z.of_nat (length (ball_cells g c r))) /\
    length pos = length g /\
    forall k a x, nth_error g k = Some a -> nth_error c k = Some x ->
      exists pk, nth_error pos k = Some pk /\ Qabs (diff1 a x pk) <= adisc a / 2 /\
                 (aper a = true -> alo a <= pk /\ pk < ahi a).
Proof. exact c01_periodic_single. Qed.
Print Assumptions C01_cartesian_periodic_single.

(* several droplets on a grid with ANY mix of periodic axes, pairwise separated under the PERIODIC squared distance:
   one candidate per original, exact volume, centre within half a spacing under the periodic metric, inside the bounds *)
Theorem C01_cartesian_periodic_emulsion : forall g (ds : list sphere) lab hmax,
  let img := mk_limage (gshape g) lab in
  grid_ok g ->
  (forall d, In d ds -> pfits g (fst d) (snd d)) ->
  (forall d, In d ds -> ball_cells g (fst d) (snd d) <> []) ->
  0 <= hmax -> Forall (fun a => adisc a <= hmax) g ->
  (forall i j di dj, nth_error ds i = Some di -> nth_error ds j = Some dj -> i <> j ->
     (snd di + snd dj + hmax) * (snd di + snd dj + hmax) <= dist2 g (fst di) (fst dj)) ->
  wf_img g img -> LabelSpecImg img -> mask_is_emulsion g ds img ->
  length (candidates g lab) = length ds /\
  exists cidx : nat -> nat,
    (forall i, (i < length ds)%nat -> (cidx i < length ds)%nat) /\
    (forall i j, (i < length ds)%nat -> (j < length ds)%nat -> cidx i = cidx j -> i = j) /\
    forall i d, nth_error ds i = Some d ->
      exists pos vol, nth_error (candidates g lab) (cidx i) = Some (pos, vol) /\
        vol == cell_volume g * inject_Z (Z.of_nat (length (ball_cells g (fst d) (snd d)))) /\
        length pos = length g /\
        forall k a x, nth_error g k = Some a -> nth_error (fst d) k = Some x ->
          exists pk, nth_error pos k = Some pk /\ Qabs (diff1 a x pk) <= adisc a / 2 /\
                     (aper a = true -> alo a <= pk /\ pk < ahi a).
Proof. exact c01_multi_periodic. Qed.
Print Assumptions C01_cartesian_periodic_emulsion.

(* the digitised ball has at most prod (2 r / h_i + 1) cells: its volume is at most that of its bounding box
   (any periodicity); with C01Sep.v (over the reals) this gives D i j >= 0, the premise of C01_no_removal *)
Theorem C01_ball_count_bound : forall g c r, grid_ok g -> length c = length g -> 0 <= r ->
  inject_Z (Z.of_nat (length (ball_cells g c r))) * cell_volume g <= boxvol g r.
Proof. exact ball_count_bound. Qed.
Print Assumptions C01_ball_count_bound.

(* ===== cylindrical grids (non-periodic path): an on-axis droplet inside the z range =====
   img: label image of the rendered (r, z) image on the 2-d grid cyl_axes g (same oracle premises as above) *)
Theorem C01_cylindrical_single : forall (g : cylgrid) c rad img_pad img,
  cg_per g = false -> cyl_ok g -> cg_zlo g <= c - rad -> c + rad <= cg_zhi g ->
  cyl_cells g c rad <> [] ->
  wf_img (cyl_axes g) img -> LabelSpecImg img ->
  (forall idx, LocateCart.in_range [cg_nr g; cg_nz g] idx ->
     (lab_of img idx <> 0%nat <-> cyl_inside g c rad (ridx idx) (zidx idx) = true)) ->
  exists z v, cyl_candidates g img_pad img = [(z, v)] /\
    v == Components.lsum (cyl_cells g c rad) (fun p => shell g (ridx p)) /\
    Qabs (z - c) <= cg_dz g / 2.
Proof. exact c01_cyl_candidates. Qed.
Print Assumptions C01_cylindrical_single.

(* periodic cylindrical grids: the image is padded with one periodic copy on each side ([nr; 3 nz] cells), located on
   the padded image and the copy inside the box is kept.  Droplet inside the z range (rendering never wraps in z:
   F19), 2 rad + dz <= L so that the copies do not touch: exactly one droplet, inside [z_lo, z_hi) *)
Theorem C01_cylindrical_periodic_single : forall (g : cylgrid) c rad img_pad img,
  cyl_ok g -> cg_per g = true ->
  cg_zlo g <= c - rad -> c + rad <= cg_zhi g -> 2 * rad + cg_dz g <= cg_len g ->
  cyl_cells g c rad <> [] ->
  wf_img (cyl_axes3 g) img_pad -> LabelSpecImg img_pad ->
  (forall idx, LocateCart.in_range [cg_nr g; (3 * cg_nz g)%Z] idx ->
     (lab_of img_pad idx <> 0%nat <-> cyl_inside g c rad (ridx idx) (zidx idx mod cg_nz g) = true)) ->
  exists z v, cyl_candidates g img_pad img = [(z, v)] /\
    v == Components.lsum (cyl_cells g c rad) (fun p => shell g (ridx p)) /\
    Qabs (z - c) <= cg_dz g / 2 /\ cg_zlo g <= z /\ z < cg_zhi g.
Proof. exact c01_cyl_periodic_single. Qed.
Print Assumptions C01_cylindrical_periodic_single.

(* ===== cylindrical grids: an EMULSION of on-axis droplets (ds: list of (axial centre, radius)), each inside the z range
   and covering at least one cell centre, pairwise separated along z by rad_i + rad_j + dz <= |c_i - c_j|;
   cyl_inside_any g ds i j: cell (i, j) is covered by some droplet (Model/RenderSym.v cyl_mask).
   Exactly one candidate per original (entry cidx i for droplet i, cidx injective), volume / pi = sum of the shells of
   the cells the original covers, axial position within half an axial spacing of the original centre ===== *)
Theorem C01_cylindrical_emulsion : forall (g : cylgrid) (ds : list (Q * Q)) img_pad img,
  cg_per g = false -> cyl_ok g ->
  (forall d, In d ds -> cg_zlo g <= fst d - snd d /\ fst d + snd d <= cg_zhi g) ->
  (forall d, In d ds -> cyl_cells g (fst d) (snd d) <> []) ->
  (forall i j di dj, nth_error ds i = Some di -> nth_error ds j = Some dj -> i <> j ->
     snd di + snd dj + cg_dz g <= Qabs (fst di - fst dj)) ->
  wf_img (cyl_axes g) img -> LabelSpecImg img ->
  (forall idx, LocateCart.in_range [cg_nr g; cg_nz g] idx ->
     (lab_of img idx <> 0%nat <-> cyl_inside_any g ds (ridx idx) (zidx idx) = true)) ->
  length (cyl_candidates g img_pad img) = length ds /\
  exists cidx : nat -> nat,
    (forall i, (i < length ds)%nat -> (cidx i < length ds)%nat) /\
    (forall i j, (i < length ds)%nat -> (j < length ds)%nat -> cidx i = cidx j -> i = j) /\
    forall i c rad, nth_error ds i = Some (c, rad) ->
      exists z v, nth_error (cyl_candidates g img_pad img) (cidx i) = Some (z, v) /\
        v == Components.lsum (cyl_cells g c rad) (fun p => shell g (ridx p)) /\
        Qabs (z - c) <= cg_dz g / 2.
Proof. exact c01_cyl_multi_candidates. Qed.
Print Assumptions C01_cylindrical_emulsion.

(* the same for _locate_droplets_in_mask_cylindrical_single itself (no label spans the z range, as many labels as
   droplets), with the separation written with squares as in the Cartesian theorems: (rad_i + rad_j + hmax)^2 <=
   (c_i - c_j)^2 = squared distance of the centres (0, c_i), (0, c_j); only hmax >= dz is needed *)
Theorem C01_cylindrical_emulsion_single_pass : forall (g : cylgrid) (ds : list (Q * Q)) img hmax,
  cyl_ok g ->
  (forall d, In d ds -> cg_zlo g <= fst d - snd d /\ fst d + snd d <= cg_zhi g) ->
  (forall d, In d ds -> cyl_cells g (fst d) (snd d) <> []) ->
  0 <= hmax -> cg_dz g <= hmax ->
  (forall i j di dj, nth_error ds i = Some di -> nth_error ds j = Some dj -> i <> j ->
     (snd di + snd dj + hmax) * (snd di + snd dj + hmax) <= (fst di - fst dj) * (fst di - fst dj)) ->
  wf_img (cyl_axes g) img -> LabelSpecImg img ->
  (forall idx, LocateCart.in_range [cg_nr g; cg_nz g] idx ->
     (lab_of img idx <> 0%nat <-> cyl_inside_any g ds (ridx idx) (zidx idx) = true)) ->
  num_labels img = length ds /\
  exists out, cyl_single g img = Found out /\ length out = length ds /\
  exists cidx : nat -> nat,
    (forall i, (i < length ds)%nat -> (cidx i < length ds)%nat) /\
    (forall i j, (i < length ds)%nat -> (j < length ds)%nat -> cidx i = cidx j -> i = j) /\
    forall i c rad, nth_error ds i = Some (c, rad) ->
      exists z v, nth_error out (cidx i) = Some (z, v) /\
        v == Components.lsum (cyl_cells g c rad) (fun p => shell g (ridx p)) /\
        Qabs (z - c) <= cg_dz g / 2.
Proof. exact c01_cyl_multi_euclid. Qed.
Print Assumptions C01_cylindrical_emulsion_single_pass.

(* periodic cylinder: padded image ([nr; 3 nz] cells, cell (i, j) holds mask cell (i, j mod nz)), located on the padded
   image, the copies inside the box are kept.  Droplets inside the z range (rendering never wraps in z: F19), separated
   under the PERIODIC metric along z: rad_i + rad_j + dz <= |c_i - c_j| and rad_i + rad_j + dz + |c_i - c_j| <= L
   (the latter also for i = j: 2 rad_i + dz <= L).  One candidate per original, inside [z_lo, z_hi) *)
Theorem C01_cylindrical_periodic_emulsion : forall (g : cylgrid) (ds : list (Q * Q)) img_pad img,
  cyl_ok g -> cg_per g = true ->
  (forall d, In d ds -> cg_zlo g <= fst d - snd d /\ fst d + snd d <= cg_zhi g) ->
  (forall d, In d ds -> cyl_cells g (fst d) (snd d) <> []) ->
  (forall i j di dj, nth_error ds i = Some di -> nth_error ds j = Some dj -> i <> j ->
     snd di + snd dj + cg_dz g <= Qabs (fst di - fst dj)) ->
  (forall di dj, In di ds -> In dj ds -> snd di + snd dj + cg_dz g + Qabs (fst di - fst dj) <= cg_len g) ->
  wf_img (cyl_axes3 g) img_pad -> LabelSpecImg img_pad ->
  (forall idx, LocateCart.in_range [cg_nr g; (3 * cg_nz g)%Z] idx ->
     (lab_of img_pad idx <> 0%nat <-> cyl_inside_any g ds (ridx idx) (zidx idx mod cg_nz g) = true)) ->
  num_labels img_pad = (3 * length ds)%nat /\
  length (cyl_candidates g img_pad img) = length ds /\
  exists cidx : nat -> nat,
    (forall i, (i < length ds)%nat -> (cidx i < length ds)%nat) /\
    (forall i j, (i < length ds)%nat -> (j < length ds)%nat -> cidx i = cidx j -> i = j) /\
    forall i c rad, nth_error ds i = Some (c, rad) ->
      exists z v, nth_error (cyl_candidates g img_pad img) (cidx i) = Some (z, v) /\
        v == Components.lsum (cyl_cells g c rad) (fun p => shell g (ridx p)) /\
        Qabs (z - c) <= cg_dz g / 2 /\ cg_zlo g <= z /\ z < cg_zhi g.
Proof. exact c01_cyl_multi_periodic. Qed.
Print Assumptions C01_cylindrical_periodic_emulsion.

(* end to end on cylinders: render (Model/RenderSym.v cyl_mask; C01CylMulti.cyl_mask_pad for the padded image), label
   (Model/Label.v), locate -- no oracle premise left *)
Theorem C01_cylindrical_emulsion_end_to_end : forall (g : cylgrid) (ds : list (Q * Q)) img_pad,
  let img := mk_limage [cg_nr g; cg_nz g] (label [cg_nr g; cg_nz g] (cyl_mask g ds)) in
  cg_per g = false -> cyl_ok g ->
  (forall d, In d ds -> cg_zlo g <= fst d - snd d /\ fst d + snd d <= cg_zhi g) ->
  (forall d, In d ds -> cyl_cells g (fst d) (snd d) <> []) ->
  (forall i j di dj, nth_error ds i = Some di -> nth_error ds j = Some dj -> i <> j ->
     snd di + snd dj + cg_dz g <= Qabs (fst di - fst dj)) ->
  length (cyl_candidates g img_pad img) = length ds /\
  exists cidx : nat -> nat,
    (forall i, (i < length ds)%nat -> (cidx i < length ds)%nat) /\
    (forall i j, (i < length ds)%nat -> (j < length ds)%nat -> cidx i = cidx j -> i = j) /\
    forall i c rad, nth_error ds i = Some (c, rad) ->
      exists z v, nth_error (cyl_candidates g img_pad img) (cidx i) = Some (z, v) /\
        v == Components.lsum (cyl_cells g c rad) (fun p => shell g (ridx p)) /\
        Qabs (z - c) <= cg_dz g / 2.
Proof. exact c01_cyl_multi_label. Qed.
Print Assumptions C01_cylindrical_emulsion_end_to_end.

Theorem C01_cylindrical_periodic_emulsion_end_to_end : forall (g : cylgrid) (ds : list (Q * Q)) img,
  let shape3 := [cg_nr g; (3 * cg_nz g)%Z] in
  let img_pad := mk_limage shape3 (label shape3 (cyl_mask_pad g ds)) in
  cyl_ok g -> cg_per g = true ->
  (forall d, In d ds -> cg_zlo g <= fst d - snd d /\ fst d + snd d <= cg_zhi g) ->
  (forall d, In d ds -> cyl_cells g (fst d) (snd d) <> []) ->
  (forall i j di dj, nth_error ds i = Some di -> nth_error ds j = Some dj -> i <> j ->
     snd di + snd dj + cg_dz g <= Qabs (fst di - fst dj)) ->
  (forall di dj, In di ds -> In dj ds -> snd di + snd dj + cg_dz g + Qabs (fst di - fst dj) <= cg_len g) ->
  num_labels img_pad = (3 * length ds)%nat /\
  length (cyl_candidates g img_pad img) = length ds /\
  exists cidx : nat -> nat,
    (forall i, (i < length ds)%nat -> (cidx i < length ds)%nat) /\
    (forall i j, (i < length ds)%nat -> (j < length ds)%nat -> cidx i = cidx j -> i = j) /\
    forall i c rad, nth_error ds i = Some (c, rad) ->
      exists z v, nth_error (cyl_candidates g img_pad img) (cidx i) = Some (z, v) /\
        v == Components.lsum (cyl_cells g c rad) (fun p => shell g (ridx p)) /\
        Qabs (z - c) <= cg_dz g / 2 /\ cg_zlo g <= z /\ z < cg_zhi g.
Proof. exact c01_cyl_multi_periodic_label. Qed.
Print Assumptions C01_cylindrical_periodic_emulsion_end_to_end.

(* ===== end to end: render (Model/Render.v), label (Model/Label.v, proved to meet the specification of
   scipy.ndimage.label), locate -- no oracle premise left ===== *)
Theorem C01_cartesian_single_end_to_end : forall g c r,
  let lab := label (gshape g) (mask_sphere g c r) in
  let img := mk_limage (gshape g) lab in
  grid_ok g -> nonper g -> fits g c r -> ball_cells g c r <> [] ->
  num_labels img = 1%nat /\
  exists pos vol, candidates g lab = [(pos, vol)] /\
    vol == cell_volume g * inject_Z (Z.of_nat (length (ball_cells g c r))) /\
    length pos = length g /\
    forall k a x, nth_error g k = Some a -> nth_error c k = Some x ->
      exists pk, nth_error pos k = Some pk /\ Qabs (pk - x) <= adisc a / 2.
Proof. exact c01_single_label. Qed.
Print Assumptions C01_cartesian_single_end_to_end.

Theorem C01_cartesian_emulsion_end_to_end : forall g (ds : list sphere) hmax,
  let lab := label (gshape g) (mask_emulsion g ds) in
  let img := mk_limage (gshape g) lab in
  grid_ok g -> nonper g ->
  (forall d, In d ds -> fits g (fst d) (snd d)) ->
  (forall d, In d ds -> ball_cells g (fst d) (snd d) <> []) ->
  0 <= hmax -> Forall (fun a => adisc a <= hmax) g ->
  (forall i j di dj, nth_error ds i = Some di -> nth_error ds j = Some dj -> i <> j ->
     (snd di + snd dj + hmax) * (snd di + snd dj + hmax) <= dist2 g (fst di) (fst dj)) ->
  num_labels img = length ds /\ length (candidates g lab) = length ds /\
  exists lbl : nat -> nat,
    (forall i, (i < length ds)%nat -> (lbl i < length ds)%nat) /\
    (forall i j, (i < length ds)%nat -> (j < length ds)%nat -> lbl i = lbl j -> i = j) /\
    forall i d, nth_error ds i = Some d ->
      exists pos vol, nth_error (candidates g lab) (lbl i) = Some (pos, vol) /\
        vol == cell_volume g * inject_Z (Z.of_nat (length (ball_cells g (fst d) (snd d)))) /\
        length pos = length g /\
        forall k a x, nth_error g k = Some a -> nth_error (fst d) k = Some x ->
          exists pk, nth_error pos k = Some pk /\ Qabs (pk - x) <= adisc a / 2.
Proof. exact c01_multi_euclid_label. Qed.
Print Assumptions C01_cartesian_emulsion_end_to_end.

Theorem C01_cartesian_periodic_single_end_to_end : forall g c r,
  let lab := label (gshape g) (mask_sphere g c r) in
  grid_ok g -> pfits g c r -> ball_cells g c r <> [] ->
  exists pos vol, candidates g lab = [(pos, vol)] /\
    vol == cell_volume g * inject_Z (Z.of_nat (length (ball_cells g c r))) /\
    length pos = length g /\
    forall k a x, nth_error g k = Some a -> nth_error c k = Some x ->
      exists pk, nth_error pos k = Some pk /\ Qabs (diff1 a x pk) <= adisc a / 2 /\
                 (aper a = true -> alo a <= pk /\ pk < ahi a).
Proof. exact c01_periodic_single_label. Qed.
Print Assumptions C01_cartesian_periodic_single_end_to_end.

(* ===== polar / spherical grids: a centred droplet with dr/2 < R <= R_out ===== *)
Theorem C01_radial : forall r_lo dr R N, 0 <= r_lo -> 0 < dr -> (1 <= N)%nat ->
  r_lo + dr / 2 < R -> R <= r_lo + inject_Z (Z.of_nat N) * dr ->
  exists n, (1 <= n <= N)%nat /\
    locate_radial r_lo dr (radial_mask r_lo dr R N) = Some (r_lo + inject_Z (Z.of_nat n) * dr) /\
    Qabs (r_lo + inject_Z (Z.of_nat n) * dr - R) <= dr / 2 /\
    (forall i, (i < N)%nat -> (covered r_lo dr R i = true <-> (i < n)%nat)).
Proof. exact radial_located. Qed.
Print Assumptions C01_radial.

(* the located volume c_d * (n dr)^d equals the total volume of the n covered cells c_d * (r_{i+1}^d - r_i^d) *)
Theorem C01_radial_volume : forall r_lo dr n (p : nat),
  sumto n (fun i => edge_radius r_lo dr (S i) ^ Z.of_nat p - edge_radius r_lo dr i ^ Z.of_nat p)
  == edge_radius r_lo dr n ^ Z.of_nat p - edge_radius r_lo dr 0 ^ Z.of_nat p.
Proof. exact radial_volume_exact. Qed.
Print Assumptions C01_radial_volume.

Example C01_nonvacuous : 0 <= 0 /\ 0 < (1#2) /\ 0 + (1#2) / 2 < (9#4) /\ (9#4) <= 0 + inject_Z (Z.of_nat 8) * (1#2) /\
  locate_radial 0 (1#2) (radial_mask 0 (1#2) (9#4) 8) = Some (0 + inject_Z 4 * (1#2)).
Proof.
  split; [apply Qle_refl|]. split; [reflexivity|]. split; [reflexivity|].
  split; [vm_compute; discriminate|vm_compute; reflexivity].
Qed.
(* non-vacuity of the Cartesian theorems: Proofs/C01Cart.v c01_single_nonvacuous, c01_multi_nonvacuous,
   c01_periodic_nonvacuous (concrete grids and droplets satisfying every hypothesis); of the cylindrical emulsion theorems:
   Proofs/C01CylMulti.v c01_cyl_multi_nonvacuous, c01_cyl_multi_periodic_nonvacuous (two spheres on a 3 x 10 cylinder) *)
