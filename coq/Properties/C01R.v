(* C01 -- R-layer part: from the separation precondition to "no candidate is removed" (D i j >= 0).
   ci, cj: true centres; li, lj: located centres (within half a spacing per axis: near); ni, nj: numbers of covered
   cells (bounded by the bounding box: C01_ball_count_bound); located radii = radius_from_volume (n * prod h).
   rfv_scalar_d is GENERATED from tools/spherical.py. *)
From Coq Require Import Reals List.
Import ListNotations.
From PD Require Import Gen.Gen_spherical Proofs.C01Sep.
Local Open Scope R_scope.

Theorem C01_located_spheres_do_not_overlap : forall ci cj li lj h rhoi rhoj ri rj,
  near li ci h -> near lj cj h -> ri <= rhoi -> rj <= rhoj ->
  rhoi + rhoj + normR h <= distR ci cj ->
  0 <= distR li lj - (ri + rj).
Proof. exact located_not_overlapping. Qed.
Print Assumptions C01_located_spheres_do_not_overlap.

Theorem C01_no_overlap_3d : forall ci cj li lj h1 h2 h3 ri rj ni nj,
  near li ci [h1; h2; h3] -> near lj cj [h1; h2; h3] ->
  0 <= ni * (h1 * h2 * h3) -> ni * (h1 * h2 * h3) <= (2 * ri + h1) * (2 * ri + h2) * (2 * ri + h3) ->
  0 <= nj * (h1 * h2 * h3) -> nj * (h1 * h2 * h3) <= (2 * rj + h1) * (2 * rj + h2) * (2 * rj + h3) ->
  rfv_scalar_3 ((2 * ri + h1) * (2 * ri + h2) * (2 * ri + h3))
    + rfv_scalar_3 ((2 * rj + h1) * (2 * rj + h2) * (2 * rj + h3))
    + 2 * normR [h1; h2; h3] <= distR ci cj ->
  0 <= distR li lj - (rfv_scalar_3 (ni * (h1 * h2 * h3)) + rfv_scalar_3 (nj * (h1 * h2 * h3))).
Proof. exact c01_no_overlap_3. Qed.
Print Assumptions C01_no_overlap_3d.

Theorem C01_no_overlap_2d : forall ci cj li lj h1 h2 ri rj ni nj,
  near li ci [h1; h2] -> near lj cj [h1; h2] ->
  0 <= ni * (h1 * h2) -> ni * (h1 * h2) <= (2 * ri + h1) * (2 * ri + h2) ->
  0 <= nj * (h1 * h2) -> nj * (h1 * h2) <= (2 * rj + h1) * (2 * rj + h2) ->
  rfv_scalar_2 ((2 * ri + h1) * (2 * ri + h2)) + rfv_scalar_2 ((2 * rj + h1) * (2 * rj + h2))
    + 2 * normR [h1; h2] <= distR ci cj ->
  0 <= distR li lj - (rfv_scalar_2 (ni * (h1 * h2)) + rfv_scalar_2 (nj * (h1 * h2))).
Proof. exact c01_no_overlap_2. Qed.
Print Assumptions C01_no_overlap_2d.

Theorem C01_no_overlap_1d : forall ci cj li lj h1 ri rj ni nj,
  near li ci [h1] -> near lj cj [h1] ->
  0 <= ni * h1 -> ni * h1 <= 2 * ri + h1 ->
  0 <= nj * h1 -> nj * h1 <= 2 * rj + h1 ->
  rfv_scalar_1 (2 * ri + h1) + rfv_scalar_1 (2 * rj + h1) + 2 * normR [h1] <= distR ci cj ->
  0 <= distR li lj - (rfv_scalar_1 (ni * h1) + rfv_scalar_1 (nj * h1)).
Proof. exact c01_no_overlap_1. Qed.
Print Assumptions C01_no_overlap_1d.
