(* C12 -- property theorems only; each closed by `exact`, with Print Assumptions. *)
From Coq Require Import Reals ZArith.
From Coquelicot Require Import Coquelicot.
From PD Require Import Model.Num Model.NumZ Gen.Gen_spherical Gen.Gen_spherical_index
  Gen.Gen_droplet_basic Proofs.C12.

Local Open Scope R_scope.

Theorem C12_radius_volume_inv : forall r, 0 <= r ->
  rfv_scalar_1 (vfr_scalar_1 r) = r /\ rfv_scalar_2 (vfr_scalar_2 r) = r /\ rfv_scalar_3 (vfr_scalar_3 r) = r.
Proof. intros r Hr. exact (conj (rv_inv_1 r) (conj (rv_inv_2 r Hr) (rv_inv_3 r Hr))). Qed.
Print Assumptions C12_radius_volume_inv.

Theorem C12_volume_radius_inv : forall v, 0 <= v ->
  vfr_scalar_1 (rfv_scalar_1 v) = v /\ vfr_scalar_2 (rfv_scalar_2 v) = v /\ vfr_scalar_3 (rfv_scalar_3 v) = v.
Proof. intros v Hv. exact (conj (vr_inv_1 v) (conj (vr_inv_2 v Hv) (vr_inv_3 v Hv))). Qed.
Print Assumptions C12_volume_radius_inv.

Theorem C12_radius_surface_inv : forall r, 0 <= r ->
  rfs_scalar_2 (sfr_scalar_2 r) = r /\ rfs_scalar_3 (sfr_scalar_3 r) = r.
Proof. intros r Hr. exact (conj (rs_inv_2 r) (rs_inv_3 r Hr)). Qed.
Print Assumptions C12_radius_surface_inv.

Theorem C12_surface_radius_inv : forall s, 0 <= s ->
  sfr_scalar_2 (rfs_scalar_2 s) = s /\ sfr_scalar_3 (rfs_scalar_3 s) = s.
Proof. intros s Hs. exact (conj (sr_inv_2 s) (sr_inv_3 s Hs)). Qed.
Print Assumptions C12_surface_radius_inv.

Theorem C12_surface_is_dvolume : forall r,
  is_derive vfr_scalar_1 r (sfr_scalar_1 r) /\ is_derive vfr_scalar_2 r (sfr_scalar_2 r) /\
  is_derive vfr_scalar_3 r (sfr_scalar_3 r).
Proof. intros r. exact (conj (surf_dvol_1 r) (conj (surf_dvol_2 r) (surf_dvol_3 r))). Qed.
Print Assumptions C12_surface_is_dvolume.

Theorem C12_variants_agree : forall x,
  ((rfv_compiled_1 x = rfv_scalar_1 x /\ rfv_nd_1 x = rfv_scalar_1 x) /\
   (rfv_compiled_2 x = rfv_scalar_2 x /\ rfv_nd_2 x = rfv_scalar_2 x) /\
   (rfv_compiled_3 x = rfv_scalar_3 x /\ rfv_nd_3 x = rfv_scalar_3 x)) /\
  ((vfr_compiled_1 x = vfr_scalar_1 x /\ vfr_nd_1 x = vfr_scalar_1 x) /\
   (vfr_compiled_2 x = vfr_scalar_2 x /\ vfr_nd_2 x = vfr_scalar_2 x) /\
   (vfr_compiled_3 x = vfr_scalar_3 x /\ vfr_nd_3 x = vfr_scalar_3 x)) /\
  (sfr_compiled_1 x = sfr_scalar_1 x /\ sfr_compiled_2 x = sfr_scalar_2 x /\
   sfr_compiled_3 x = sfr_scalar_3 x).
Proof. intros x. exact (conj (variants_rfv x) (conj (variants_vfr x) (variants_sfr x))). Qed.
Print Assumptions C12_variants_agree.

Theorem C12_droplet_volume_set_get : forall v, 0 <= v ->
  drop_volume_1 (drop_set_volume_1 v) = v /\ drop_volume_2 (drop_set_volume_2 v) = v /\
  drop_volume_3 (drop_set_volume_3 v) = v.
Proof. exact droplet_volume_set_get. Qed.
Print Assumptions C12_droplet_volume_set_get.

Theorem C12_droplet_from_volume : forall v, 0 <= v ->
  drop_volume_1 (drop_from_volume_1 v) = v /\ drop_volume_2 (drop_from_volume_2 v) = v /\
  drop_volume_3 (drop_from_volume_3 v) = v.
Proof. exact droplet_from_volume_volume. Qed.
Print Assumptions C12_droplet_from_volume.

Theorem C12_droplet_surface_is_dvolume : forall r,
  is_derive drop_volume_1 r (drop_surface_1 r) /\ is_derive drop_volume_2 r (drop_surface_2 r) /\
  is_derive drop_volume_3 r (drop_surface_3 r).
Proof. exact droplet_surface_is_dvolume. Qed.
Print Assumptions C12_droplet_surface_is_dvolume.

Theorem C12_bbox_formula : forall p r, 0 <= r ->
  drop_bbox_lo p r <= p <= drop_bbox_hi p r /\ drop_bbox_hi p r - drop_bbox_lo p r = 2 * r /\
  (drop_bbox_hi p r + drop_bbox_lo p r) / 2 = p.
Proof. exact bbox_formula. Qed.
Print Assumptions C12_bbox_formula.

Theorem C12_curvature_formula : forall r, 0 < r -> drop_curvature r * r = 1 /\ 0 < drop_curvature r.
Proof. exact curvature_formula. Qed.
Print Assumptions C12_curvature_formula.

Local Open Scope Z_scope.

Theorem C12_index_lm_k : forall l m, 0 <= l -> - l <= m <= l -> index_lm (index_k l m) = (l, m).
Proof. exact index_lm_k. Qed.
Print Assumptions C12_index_lm_k.

Theorem C12_index_k_lm : forall k, 0 <= k ->
  let (l, m) := index_lm k in index_k l m = k /\ 0 <= l /\ - l <= m <= l.
Proof. exact index_k_lm. Qed.
Print Assumptions C12_index_k_lm.

Theorem C12_count_optimal_iff_square : forall k, 0 <= k ->
  index_count_optimal k = true <-> exists n, 0 <= n /\ k = n * n.
Proof. exact count_optimal_iff_square. Qed.
Print Assumptions C12_count_optimal_iff_square.

(* non-vacuity: the hypotheses are met by concrete non-trivial arguments *)
Example C12_nonvacuous : (0 <= 5 /\ - 2 <= 1 <= 2)%Z /\ (0 <= 2)%R.
Proof. split; [split; [|split]; discriminate | apply Rlt_le, Rlt_0_2]. Qed.

(* definedness: on the documented domain (radius, volume, surface >= 0; curvature: radius > 0) no generated conversion
   divides by zero or takes a root / non-integer power of a negative number.  `conversions_defined` is the conjunction
   of the obligations generated from the text of Gen_spherical.v / Gen_droplet_basic.v (Gen/Gen_spherical_def.v). *)
From PD Require Import Gen.Gen_spherical_def.
Theorem C12_conversions_defined : conversions_defined.
Proof. exact conversions_defined_holds. Qed.
Print Assumptions C12_conversions_defined.

(* ------------------------------------------------------------------------------------------------------------
   Floating-point layer (Proofs/C12Float.v, Proofs/C12Flocq.v).  Gen_spherical_fp holds the SAME expression trees
   as Gen_spherical with every arithmetic node rounded (rnd: one correctly rounded operation, rnd_pow: the library
   pow).  std_model u kp rnd rnd_pow: 0 <= u <= 2^-52, 0 <= kp <= 8, |rnd x - x| <= u |x|, |rnd_pow x - x| <= kp u |x|
   for all x (the standard model; for binary64 it holds with u = 2^-53 while no intermediate result leaves the
   normal range [2^-1022, 2^1024): that restriction is not part of the theorems, see C12_fp_model_binary64).
   rel_err K u exact computed: |computed - exact| <= K * u * |exact|. *)
From PD Require Import Gen.Gen_spherical_fp Proofs.C12Float Proofs.C12Flocq.
Local Open Scope R_scope.

Theorem C12_fp_conversions : forall u kp rnd rnd_pow, std_model u kp rnd rnd_pow -> forall x, 0 <= x ->
  (rel_err 1 u (vfr_scalar_1 x) (vfr_fp_1 rnd rnd_pow x) /\
   rel_err (3 + 1 / 1000) u (vfr_scalar_2 x) (vfr_fp_2 rnd rnd_pow x) /\
   rel_err (4 + kp + 1 / 1000) u (vfr_scalar_3 x) (vfr_fp_3 rnd rnd_pow x)) /\
  (rel_err 1 u (rfv_scalar_1 x) (rfv_fp_1 rnd rnd_pow x) /\
   rel_err (2 + 1 / 1000) u (rfv_scalar_2 x) (rfv_fp_2 rnd rnd_pow x)) /\
  (rel_err 0 u (sfr_scalar_1 x) (sfr_fp_1 rnd rnd_pow x) /\
   rel_err (3 + 1 / 1000) u (sfr_scalar_2 x) (sfr_fp_2 rnd rnd_pow x) /\
   rel_err (4 + 1 / 1000) u (sfr_scalar_3 x) (sfr_fp_3 rnd rnd_pow x)) /\
  (rel_err (3 + 1 / 1000) u (rfs_scalar_2 x) (rfs_fp_2 rnd rnd_pow x) /\
   rel_err (5 / 2 + 1 / 1000) u (rfs_scalar_3 x) (rfs_fp_3 rnd rnd_pow x)).
Proof. exact fp_conversions. Qed.
Print Assumptions C12_fp_conversions.

(* radius_from_volume in 3 dimensions is pow(3V/(4 pi), fl(1/3)): the rounded exponent alone contributes
   |ln (exact radius)| * u, so the constant depends on L >= |ln (exact radius)| *)
Theorem C12_fp_conversion_cbrt : forall u kp rnd rnd_pow L, std_model u kp rnd rnd_pow -> 0 <= L <= 710 ->
  forall v, 0 < v -> Rabs (ln (rfv_scalar_3 v)) <= L ->
  rel_err (K_rfv3 kp L) u (rfv_scalar_3 v) (rfv_fp_3 rnd rnd_pow v).
Proof. exact fp_conversion_cbrt. Qed.
Print Assumptions C12_fp_conversion_cbrt.

Theorem C12_fp_round_trips : forall u kp rnd rnd_pow, std_model u kp rnd rnd_pow -> forall x, 0 <= x ->
  (rel_err (2 + 1 / 100) u x (rfv_fp_1 rnd rnd_pow (vfr_fp_1 rnd rnd_pow x)) /\
   rel_err (7 / 2 + 1 / 100) u x (rfv_fp_2 rnd rnd_pow (vfr_fp_2 rnd rnd_pow x))) /\
  (rel_err (2 + 1 / 100) u x (vfr_fp_1 rnd rnd_pow (rfv_fp_1 rnd rnd_pow x)) /\
   rel_err (7 + 1 / 100) u x (vfr_fp_2 rnd rnd_pow (rfv_fp_2 rnd rnd_pow x))) /\
  (rel_err (6 + 1 / 100) u x (rfs_fp_2 rnd rnd_pow (sfr_fp_2 rnd rnd_pow x)) /\
   rel_err (9 / 2 + 1 / 100) u x (rfs_fp_3 rnd rnd_pow (sfr_fp_3 rnd rnd_pow x))) /\
  (rel_err (6 + 1 / 100) u x (sfr_fp_2 rnd rnd_pow (rfs_fp_2 rnd rnd_pow x)) /\
   rel_err (9 + 1 / 100) u x (sfr_fp_3 rnd rnd_pow (rfs_fp_3 rnd rnd_pow x))).
Proof. exact fp_round_trips. Qed.
Print Assumptions C12_fp_round_trips.

Theorem C12_fp_round_trips_3 : forall u kp rnd rnd_pow L, std_model u kp rnd rnd_pow -> 0 <= L <= 710 ->
  (forall r, 0 < r -> Rabs (ln r) <= L ->
     rel_err (K_rv3 kp L) u r (rfv_fp_3 rnd rnd_pow (vfr_fp_3 rnd rnd_pow r))) /\
  (forall v, 0 < v -> Rabs (ln (rfv_scalar_3 v)) <= L ->
     rel_err (K_vr3 kp L) u v (vfr_fp_3 rnd rnd_pow (rfv_fp_3 rnd rnd_pow v))).
Proof. exact fp_round_trips_3. Qed.
Print Assumptions C12_fp_round_trips_3.

(* the three L-dependent constants for a pow accurate to one unit in the last place (kp = 2), and L = 35 covers
   radii between 1e-15 and 1e15 (30 orders of magnitude) *)
Theorem C12_fp_constants :
  (forall L, 0 <= L <= 710 ->
     K_rfv3 2 L <= L + 10 / 3 + 1 / 1000 /\ K_rv3 2 L <= L + 16 / 3 + 1 / 100 /\ K_vr3 2 L <= 3 * L + 16 + 1 / 100) /\
  (forall r, / 10 ^ 15 <= r <= 10 ^ 15 -> Rabs (ln r) <= 35).
Proof.
  split; [|exact ln_30_orders].
  intros L HL. exact (conj (proj2 (K_rfv3_le L HL)) (conj (K_rv3_le L HL) (K_vr3_le L HL))).
Qed.
Print Assumptions C12_fp_constants.

(* the premise is met by binary64 arithmetic (Flocq): 53-bit round-to-nearest-even has u = 2^-53, and binary64
   rounding is that rounding on the normal range *)
Theorem C12_fp_model_binary64 :
  std_model u64 1 rnd53 rnd53 /\
  (forall pw, (forall x, Rabs (pw x - x) <= 2 * u64 * Rabs x) -> std_model u64 2 rnd53 pw) /\
  (forall x, Flocq.Core.Raux.bpow Flocq.Core.Zaux.radix2 (-1022) <= Rabs x ->
     rnd64 x = rnd53 x /\ Rabs (rnd64 x - x) <= u64 * Rabs x).
Proof.
  exact (conj std_model_binary64 (conj std_model_binary64_pow_1ulp
    (fun x H => conj (binary64_is_FLX_in_normal_range x H) (rnd64_rel x H)))).
Qed.
Print Assumptions C12_fp_model_binary64.

Example C12_fp_nonvacuous : std_model u64 1 rnd53 rnd53 /\ (0 <= 2 /\ 0 < 2 /\ 0 <= 35 <= 710).
Proof. split; [exact std_model_binary64|]. repeat split; apply Rlt_le || idtac; try apply Rlt_0_2; Lra.lra. Qed.
