(* C12 -- property theorems only; each closed by `exact`, with Print Assumptions. *)
From Coq Require Import Reals ZArith.
From Coquelicot Require Import Coquelicot.
From PD Require Import Model.Num Model.NumZ Gen.Gen_spherical Gen.Gen_spherical_index
  Gen.Gen_droplet_basic Proofs.C12.

Local Open Scope R_scope.

Theorem C12_radius_volume_inv : forall r, 0 <= r ->
  rfv_scalar_1 (vfr_scalar_1 r) = r /\ rfv_scalar_2 (vfr_scalar_2 r) = r /\ rfv_scalar_3 (vfr_scalar_3 r) = r.
Proof. intros r Hr. exact (conj (rv_inv_1 r) (conj (rv_inv_2 r Hr) (rv_inv_3 r Hr))). Qed.
Print Assumptions C12_radius_volume_inv.

Theorem C12_volume_radius_inv : forall v, 0 <= v ->
  vfr_scalar_1 (rfv_scalar_1 v) = v /\ vfr_scalar_2 (rfv_scalar_2 v) = v /\ vfr_scalar_3 (rfv_scalar_3 v) = v.
Proof. intros v Hv. exact (conj (vr_inv_1 v) (conj (vr_inv_2 v Hv) (vr_inv_3 v Hv))). Qed.
Print Assumptions C12_volume_radius_inv.

Theorem C12_radius_surface_inv : forall r, 0 <= r ->
  rfs_scalar_2 (sfr_scalar_2 r) = r /\ rfs_scalar_3 (sfr_scalar_3 r) = r.
Proof. intros r Hr. exact (conj (rs_inv_2 r) (rs_inv_3 r Hr)). Qed.
Print Assumptions C12_radius_surface_inv.

Theorem C12_surface_radius_inv : forall s, 0 <= s ->
  sfr_scalar_2 (rfs_scalar_2 s) = s /\ sfr_scalar_3 (rfs_scalar_3 s) = s.
Proof. intros s Hs. exact (conj (sr_inv_2 s) (sr_inv_3 s Hs)). Qed.
Print Assumptions C12_surface_radius_inv.

Theorem C12_surface_is_dvolume : forall r,
  is_derive vfr_scalar_1 r (sfr_scalar_1 r) /\ is_derive vfr_scalar_2 r (sfr_scalar_2 r) /\
  is_derive vfr_scalar_3 r (sfr_scalar_3 r).
Proof. intros r. exact (conj (surf_dvol_1 r) (conj (surf_dvol_2 r) (surf_dvol_3 r))). Qed.
Print Assumptions C12_surface_is_dvolume.

Theorem C12_variants_agree : forall x,
  ((rfv_compiled_1 x = rfv_scalar_1 x /\ rfv_nd_1 x = rfv_scalar_1 x) /\
   (rfv_compiled_2 x = rfv_scalar_2 x /\ rfv_nd_2 x = rfv_scalar_2 x) /\
   (rfv_compiled_3 x = rfv_scalar_3 x /\ rfv_nd_3 x = rfv_scalar_3 x)) /\
  ((vfr_compiled_1 x = vfr_scalar_1 x /\ vfr_nd_1 x = vfr_scalar_1 x) /\
   (vfr_compiled_2 x = vfr_scalar_2 x /\ vfr_nd_2 x = vfr_scalar_2 x) /\
   (vfr_compiled_3 x = vfr_scalar_3 x /\ vfr_nd_3 x = vfr_scalar_3 x)) /\
  (sfr_compiled_1 x = sfr_scalar_1 x /\ sfr_compiled_2 x = sfr_scalar_2 x /\
   sfr_compiled_3 x = sfr_scalar_3 x).
Proof. intros x. exact (conj (variants_rfv x) (conj (variants_vfr x) (variants_sfr x))). Qed.
Print Assumptions C12_variants_agree.

Theorem C12_droplet_volume_set_get : forall v, 0 <= v ->
  drop_volume_1 (drop_set_volume_1 v) = v /\ drop_volume_2 (drop_set_volume_2 v) = v /\
  drop_volume_3 (drop_set_volume_3 v) = v.
Proof. exact droplet_volume_set_get. Qed.
Print Assumptions C12_droplet_volume_set_get.

Theorem C12_droplet_from_volume : forall v, 0 <= v ->
  drop_volume_1 (drop_from_volume_1 v) = v /\ drop_volume_2 (drop_from_volume_2 v) = v /\
  drop_volume_3 (drop_from_volume_3 v) = v.
Proof. exact droplet_from_volume_volume. Qed.
Print Assumptions C12_droplet_from_volume.

Theorem C12_droplet_surface_is_dvolume : forall r,
  is_derive drop_volume_1 r (drop_surface_1 r) /\ is_derive drop_volume_2 r (drop_surface_2 r) /\
  is_derive drop_volume_3 r (drop_surface_3 r).
Proof. exact droplet_surface_is_dvolume. Qed.
Print Assumptions C12_droplet_surface_is_dvolume.

Theorem C12_bbox_formula : forall p r, 0 <= r ->
  drop_bbox_lo p r <= p <= drop_bbox_hi p r /\ drop_bbox_hi p r - drop_bbox_lo p r = 2 * r /\
  (drop_bbox_hi p r + drop_bbox_lo p r) / 2 = p.
Proof. exact bbox_formula. Qed.
Print Assumptions C12_bbox_formula.

Theorem C12_curvature_formula : forall r, 0 < r -> drop_curvature r * r = 1 /\ 0 < drop_curvature r.
Proof. exact curvature_formula. Qed.
Print Assumptions C12_curvature_formula.

Local Open Scope Z_scope.

Theorem C12_index_lm_k : forall l m, 0 <= l -> - l <= m <= l -> index_lm (index_k l m) = (l, m).
Proof. exact index_lm_k. Qed.
Print Assumptions C12_index_lm_k.

Theorem C12_index_k_lm : forall k, 0 <= k ->
  let (l, m) := index_lm k in index_k l m = k /\ 0 <= l /\ - l <= m <= l.
Proof. exact index_k_lm. Qed.
Print Assumptions C12_index_k_lm.

Theorem C12_count_optimal_iff_square : forall k, 0 <= k ->
  index_count_optimal k = true <-> exists n, 0 <= n /\ k = n * n.
Proof. exact count_optimal_iff_square. Qed.
Print Assumptions C12_count_optimal_iff_square.

(* non-vacuity: the hypotheses are met by concrete non-trivial arguments *)
Example C12_nonvacuous : (0 <= 5 /\ - 2 <= 1 <= 2)%Z /\ (0 <= 2)%R.
Proof. split; [split; [|split]; discriminate | apply Rlt_le, Rlt_0_2]. Qed.
