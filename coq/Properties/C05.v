(* C05 -- property theorems only; each closed by `exact`, with Print Assumptions.
   PARTIAL BY DESIGN: the quantitative claim of the property (relative error < 1e-4 after refinement) is a statement
   about the convergence of scipy's floating-point trust-region solver and is outside any theorem here; it is
   measured per run by harness/props/C05.py.  What is proved: (R-layer) the residual that refine_droplet builds
   (generated from `_image_deviation`) vanishes at the true parameters of an affinely rescaled rendering (generated
   from `_get_phase_field` / `get_phase_field`), for supplied and for fitted levels; in one dimension a vanishing
   residual on three suitable cells forces centre, radius and width; in EVERY dimension (any metric: symmetric,
   dist x x = 0, dist x y = 0 -> x = y; Euclidean instances d = 1, 2, 3) a residual vanishing at the two centres and
   one further point forces centre, radius and width, i.e. the zero-residual point of the fit is unique; (D-layer)
   every candidate that locate_droplets builds is a feasible start of the optimiser and its refinement returns a droplet.
   Missing (named): identifiability with FITTED levels, identifiability from grid cells alone in d >= 2, convergence. *)
From Coq Require Import Reals QArith List Bool.
Import ListNotations.
From PD Require Import Gen.Gen_shapes Gen.Gen_refine_R Proofs.Profile Proofs.C05 Proofs.C05Metric.
From PD Require Import Model.Grid Gen.Gen_refine Model.Refine Proofs.Refine Proofs.C04 Proofs.RefineCand.

Local Open Scope R_scope.

(* image = a * profile(truth) + b cell by cell, levels vmin = b, vmax = a + b (supplied: residual_plain with
   vrng = vmax - vmin; fitted: residual_adjust with the parameters (b, a)): the residual vector is identically 0,
   for the sharp, the diffuse and the perturbed profile, over any list of cells (distance, interface distance) *)
Theorem C05_truth_zero_residual : forall (a b w : R) (cells : list (R * R)),
  let vmin := b in let vmax := a + b in
  let f_s := fun c : R * R => spherical_field (fst c) (snd c) in
  let f_d := fun c : R * R => diffuse_field render_dtype_is_bool (fst c) (snd c) w in
  let f_p := fun c : R * R => perturbed_field render_dtype_is_bool (fst c) (snd c) w in
  (forall c, b + a * f_s c = spherical_value vmin vmax (fst c) (snd c)) /\
  (forall c, b + a * f_d c = diffuse_value vmin vmax (fst c) (snd c) w) /\
  (forall c, b + a * f_p c = perturbed_value vmin vmax (fst c) (snd c) w) /\
  vrng_R vmin vmax = a /\
  Forall (fun r => r = 0) (residual_vector residual_plain vmin (vrng_R vmin vmax) f_s (fun c => b + a * f_s c) cells) /\
  Forall (fun r => r = 0) (residual_vector residual_plain vmin (vrng_R vmin vmax) f_d (fun c => b + a * f_d c) cells) /\
  Forall (fun r => r = 0) (residual_vector residual_plain vmin (vrng_R vmin vmax) f_p (fun c => b + a * f_p c) cells) /\
  Forall (fun r => r = 0) (residual_vector residual_adjust b a f_s (fun c => b + a * f_s c) cells) /\
  Forall (fun r => r = 0) (residual_vector residual_adjust b a f_d (fun c => b + a * f_d c) cells) /\
  Forall (fun r => r = 0) (residual_vector residual_adjust b a f_p (fun c => b + a * f_p c) cells).
Proof. exact truth_zero_residual. Qed.
Print Assumptions C05_truth_zero_residual.

(* one dimension, levels known: zero residual on two distinct cells right of both centres and one cell left of both
   centres forces the true centre, radius and width *)
Theorem C05_identifiable_1d : forall a b c R w c' R' w' x1 x2 x3,
  a <> 0 -> 0 < w -> 0 < w' ->
  x1 <> x2 -> c < x1 -> c' < x1 -> c < x2 -> c' < x2 -> x3 < c -> x3 < c' ->
  (forall x, In x [x1; x2; x3] ->
     residual_plain b a (diffuse_profile (Rabs (x - c')) R' w')
                        (scale_value b (a + b) (diffuse_profile (Rabs (x - c)) R w)) = 0) ->
  c' = c /\ R' = R /\ w' = w.
Proof. exact identifiable_1d. Qed.
Print Assumptions C05_identifiable_1d.

(* every dimension, every metric: zero residual at the two centres and one further point forces the truth *)
Theorem C05_identifiable_metric : forall (X : Type) (dist : X -> X -> R),
  (forall x y, dist x y = dist y x) -> (forall x, dist x x = 0) -> (forall x y, dist x y = 0 -> x = y) ->
  forall a b (c c' x0 : X) R w R' w',
  a <> 0 -> 0 < w -> 0 < w' -> x0 <> c ->
  (forall x, In x [c; c'; x0] ->
     residual_plain b a (diffuse_profile (dist x c') R' w')
                        (scale_value b (a + b) (diffuse_profile (dist x c) R w)) = 0) ->
  c' = c /\ R' = R /\ w' = w.
Proof. exact identifiable_metric. Qed.
Print Assumptions C05_identifiable_metric.

Theorem C05_identifiable_euclid_2d : forall a b (c c' x0 : R * R) R w R' w',
  a <> 0 -> 0 < w -> 0 < w' -> x0 <> c ->
  (forall x, In x [c; c'; x0] ->
     residual_plain b a (diffuse_profile (euclid2 x c') R' w')
                        (scale_value b (a + b) (diffuse_profile (euclid2 x c) R w)) = 0) ->
  c' = c /\ R' = R /\ w' = w.
Proof. exact identifiable_euclid_2d. Qed.
Print Assumptions C05_identifiable_euclid_2d.

Theorem C05_identifiable_euclid_3d : forall a b (c c' x0 : R * R * R) R w R' w',
  a <> 0 -> 0 < w -> 0 < w' -> x0 <> c ->
  (forall x, In x [c; c'; x0] ->
     residual_plain b a (diffuse_profile (euclid3 x c') R' w')
                        (scale_value b (a + b) (diffuse_profile (euclid3 x c) R w)) = 0) ->
  c' = c /\ R' = R /\ w' = w.
Proof. exact identifiable_euclid_3d. Qed.
Print Assumptions C05_identifiable_euclid_3d.

(* the core: profile values at two distinct distances determine radius and width *)
Theorem C05_two_distances_determine : forall R w R' w' d1 d2, 0 < w -> 0 < w' -> d1 <> d2 ->
  tanh ((R' - d1) / w') = tanh ((R - d1) / w) -> tanh ((R' - d2) / w') = tanh ((R - d2) / w) ->
  R' = R /\ w' = w.
Proof. exact two_distances_determine. Qed.
Print Assumptions C05_two_distances_determine.

Local Open Scope Q_scope.

(* candidates of locate_droplets (radius > 0; width given >= 0 or unset with typical discretization > 0; zero
   amplitudes) meet every precondition of the optimiser, for every intensity option (fitted: vmin < vmax) *)
Theorem C05_candidate_feasible : forall g st vmin_o vmax_o adjust c p, located g c ->
  prepare g st vmin_o vmax_o adjust c = inr p ->
  (adjust = false \/ p_vmin p < p_vmax p) ->
  lsq_precondition (p_x0 p) (p_lo p) (p_hi p) = None.
Proof. exact candidate_feasible. Qed.
Print Assumptions C05_candidate_feasible.

Theorem C05_candidate_refines : forall lsq hyp dev g st vmin_o vmax_o adjust c, lsq_spec lsq -> located g c ->
  length (d_pos c) = g_dim g ->
  (adjust = false \/ level_min vmin_o st < level_max vmax_o st) ->
  exists r, refine lsq hyp dev g st vmin_o vmax_o adjust c = ROk r.
Proof. exact candidate_refines. Qed.
Print Assumptions C05_candidate_refines.

(* non-vacuity: located candidates exist (a spherical one on a Cartesian grid, an axisymmetric one with unset width
   on a cylinder); the hypotheses of identifiable_1d are met by cells 6, 7 (right) and 1 (left) of centres 3 and 3.5 *)
Example C05_nonvacuous :
  (located ex_cart ex_sph /\
   located ex_cyl {| d_cls := RP3DAxi; d_pos := [0; 0; 1]; d_rad := 1; d_width := None; d_amp := [0; 0] |}) /\
  ((6 <> 7 /\ 3 < 6 /\ 7 / 2 < 6 /\ 3 < 7 /\ 7 / 2 < 7 /\ 1 < 3 /\ 1 < 7 / 2)%R).
Proof. exact (conj ex_located ex_cells). Qed.
