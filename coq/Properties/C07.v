From PD Require Import Model.Tracking Proofs.C07.
Theorem C07_stub : True. Proof. exact stub_C07. Qed.
Print Assumptions C07_stub.
