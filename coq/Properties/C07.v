(* C07 -- tracks follow droplet identity: property theorems only.
   Model: Model/Tracking.v.  ov a b = a.overlaps(b, grid=grid) (a = last droplet of a track);
   D a b = the cdist entry for a (previous frame) and b (current frame); Wc D md a b = that distance, or
   None (inf) beyond the cut-off md (None = no cut-off).
   linked trs a b : b directly follows a in some track;  starts trs b : b is the first droplet of a
   track;  ends trs a : a is the last droplet of a track. *)
From Coq Require Import List Arith QArith Sorted.
Import ListNotations.
From PD Require Import Model.Tracking Model.Grid Proofs.Tracking Proofs.TrackingDist Proofs.C06 Proofs.C07
  Proofs.TrackingMetric.
Local Open Scope nat_scope.

(* overlap method: consecutive droplets of a track always overlap *)
Theorem C07_ov_consecutive_overlap : forall ov frames trs,
  track_all (MOverlap ov) frames = Ok trs -> forall a b, linked trs a b -> ov a b = true.
Proof. exact c07_ov_consecutive_overlap. Qed.
Print Assumptions C07_ov_consecutive_overlap.

(* a droplet overlapping no droplet of the previous frame (nor an earlier droplet of its own frame)
   starts a new track *)
Theorem C07_ov_new_if_no_overlap : forall ov frames trs,
  StronglySorted Qlt (map fst frames) -> track_all (MOverlap ov) frames = Ok trs ->
  forall b, In b (all_ids frames) ->
    (forall a, In a (all_ids frames) -> fst a + 1 = fst b -> ov a b = false) ->
    (forall j0, j0 < snd b -> ov (fst b, j0) b = false) ->
    starts trs b.
Proof. exact c07_ov_new_if_no_overlap. Qed.
Print Assumptions C07_ov_new_if_no_overlap.

(* when the overlap relation between frames f and f+1 is one-to-one, the links into frame f+1 are
   exactly that relation *)
Theorem C07_ov_follows_bijection : forall ov frames trs f t0 n0 t1 n1,
  StronglySorted Qlt (map fst frames) -> inframe_ok ov frames ->
  track_all (MOverlap ov) frames = Ok trs ->
  nth_error frames f = Some (t0, n0) -> nth_error frames (S f) = Some (t1, n1) ->
  one_to_one ov (frame_ids f n0) (frame_ids (S f) n1) ->
  forall a b, fst b = S f ->
              (linked trs a b <-> In a (frame_ids f n0) /\ In b (frame_ids (S f) n1) /\ ov a b = true).
Proof. exact c07_ov_follows_bijection. Qed.
Print Assumptions C07_ov_follows_bijection.

(* distance method: linked droplets are never farther apart than the cut-off *)
Theorem C07_dist_links_within_cutoff : forall D md frames trs,
  track_all (MDistance D md) frames = Ok trs ->
  forall a b, linked trs a b -> Wc D md a b = Some (D a b) /\ forall m, md = Some m -> (D a b <= m)%Q.
Proof. exact c07_dist_links_within_cutoff. Qed.
Print Assumptions C07_dist_links_within_cutoff.

(* no track ends in a frame in which a new track starts within the cut-off of it *)
Theorem C07_dist_maximal : forall D md frames trs,
  StronglySorted Qlt (map fst frames) -> track_all (MDistance D md) frames = Ok trs ->
  forall a b, ends trs a -> starts trs b -> fst a + 1 = fst b ->
              exists m, md = Some m /\ (m < D a b)%Q.
Proof. exact c07_dist_maximal. Qed.
Print Assumptions C07_dist_maximal.

(* the links into frame f+1 are obtained by repeatedly joining the closest remaining pair ... *)
Theorem C07_dist_greedy_exists : forall D md frames trs f t0 n0 t1 n1,
  StronglySorted Qlt (map fst frames) -> track_all (MDistance D md) frames = Ok trs ->
  nth_error frames f = Some (t0, n0) -> nth_error frames (S f) = Some (t1, n1) ->
  exists L, closest_first (Wc D md) (frame_ids f n0) (frame_ids (S f) n1) [] [] L /\
            forall a b, fst b = S f -> (linked trs a b <-> In (a, b) L).
Proof. exact c07_dist_greedy_exists. Qed.
Print Assumptions C07_dist_greedy_exists.

(* ... and when all distances are distinct that matching is unique, so the links are exactly it *)
Theorem C07_dist_greedy_spec : forall D md frames trs f t0 n0 t1 n1,
  StronglySorted Qlt (map fst frames) -> track_all (MDistance D md) frames = Ok trs ->
  nth_error frames f = Some (t0, n0) -> nth_error frames (S f) = Some (t1, n1) ->
  distinct_weights (Wc D md) (frame_ids f n0) (frame_ids (S f) n1) ->
  forall L, closest_first (Wc D md) (frame_ids f n0) (frame_ids (S f) n1) [] [] L ->
            forall a b, fst b = S f -> (linked trs a b <-> In (a, b) L).
Proof. exact c07_dist_greedy_spec. Qed.
Print Assumptions C07_dist_greedy_spec.

(* the periodic metric (Model/Grid.v, as py-pde computes it) does not change when a point is moved
   by one period *)
Theorem C07_wrap_period_invariant : forall L d, ~ (L == 0)%Q -> (wrap1 L (d + L) == wrap1 L d)%Q.
Proof. exact wrap1_plus_period. Qed.
Print Assumptions C07_wrap_period_invariant.

Theorem C07_pdist_shift_invariant : forall a p q,
  aper a = true -> ~ (asize a == 0)%Q -> (dist2 [a] [p] [q + asize a] == dist2 [a] [p] [q])%Q.
Proof. exact pdist_shift_invariant_1d. Qed.
Print Assumptions C07_pdist_shift_invariant.

(* non-vacuity: two frames with two droplets each that swap places; the overlap relation is
   one-to-one, all four distances are different *)
Example C07_nonvacuous :
  StronglySorted Qlt (map fst ex7_frames) /\ inframe_ok ex7_ov ex7_frames /\
  one_to_one ex7_ov (frame_ids 0 2) (frame_ids 1 2) /\
  track_all (MOverlap ex7_ov) ex7_frames
  = Ok [([(0%Q, (0, 0))], (1%Q, (1, 1))); ([(0%Q, (0, 1))], (1%Q, (1, 0)))] /\
  distinct_weights (Wc ex7_D (Some 4%Q)) (frame_ids 0 2) (frame_ids 1 2) /\
  track_all (MDistance ex7_D (Some 4%Q)) ex7_frames
  = Ok [([(0%Q, (0, 0))], (1%Q, (1, 0))); ([(0%Q, (0, 1))], (1%Q, (1, 1)))].
Proof.
  exact (conj ex7_sorted (conj ex7_inframe (conj ex7_one_to_one (conj ex7_ov_result
        (conj ex7_distinct ex7_dist_result))))).
Qed.
