(* C13 -- property theorems only; each closed by `exact`, with Print Assumptions.
   2-d statements are over an ARBITRARY list of (sin, cos) amplitude pairs (mode index from 1);
   3-d / axisymmetric statements take the harmonic values as an oracle `Y : nat -> R`. *)
From Coq Require Import Reals Lra List Lia ZArith.
Import ListNotations.
From Coquelicot Require Import Coquelicot.
From PD Require Import Model.Num Model.NumZ Model.Perturbed Gen.Gen_spherical Gen.Gen_spherical_index
  Gen.Gen_perturbed Proofs.PerturbedSeries Proofs.PerturbedInt Proofs.PerturbedCurv Proofs.Perturbed3d
  Proofs.PerturbedHarm Proofs.C13.
Local Open Scope R_scope.

(* interface_distance is R0 (1 + harmonic series), in all three classes *)
Theorem C13_dist2d_series : forall radius phi l2 Y l3,
  dist2d radius phi l2 = radius * (1 + series2 w_one phi 1 l2) /\
  dist3d radius Y l3 = radius * (1 + series3 w_one Y 1 l3) /\
  dist3s radius Y l3 = radius * (1 + series3 w_one Y 1 l3).
Proof. exact distance_series. Qed.
Print Assumptions C13_dist2d_series.

(* interface positions = centre + distance * unit vector; triangulation vertices are such positions *)
Theorem C13_position_on_interface :
  (forall cx cy radius phi l,
     pos2d_0 cx radius phi l = cx + dist2d radius phi l * cos phi /\
     pos2d_1 cy radius phi l = cy + dist2d radius phi l * sin phi /\
     (pos2d_0 cx radius phi l - cx) ^ 2 + (pos2d_1 cy radius phi l - cy) ^ 2 = dist2d radius phi l ^ 2) /\
  (forall cx cy radius l angles v, List.In v (triang2d_vertices cx cy radius l angles) ->
     exists phi, List.In phi angles /\
       v = (cx + dist2d radius phi l * cos phi, cy + dist2d radius phi l * sin phi) /\
       (fst v - cx) ^ 2 + (snd v - cy) ^ 2 = dist2d radius phi l ^ 2) /\
  (forall c0 c1 c2 dist theta phi,
     (pos3d_0 c0 dist theta phi - c0) ^ 2 + (pos3d_1 c1 dist theta phi - c1) ^ 2
       + (pos3d_2 c2 dist theta phi - c2) ^ 2 = dist ^ 2 /\
     (pos3s_0 c0 dist theta phi - c0) ^ 2 + (pos3s_1 c1 dist theta phi - c1) ^ 2
       + (pos3s_2 c2 dist theta phi - c2) ^ 2 = dist ^ 2) /\
  (forall c0 c1 c2 dist theta phi,
     let v := triang3d_vertex c0 c1 c2 dist theta phi in
     (fst (fst v) - c0) ^ 2 + (snd (fst v) - c1) ^ 2 + (snd v - c2) ^ 2 = dist ^ 2) /\
  (forall theta phi,
     unit2d_0 phi ^ 2 + unit2d_1 phi ^ 2 = 1 /\
     unit3d_0 theta phi ^ 2 + unit3d_1 theta phi ^ 2 + unit3d_2 theta phi ^ 2 = 1 /\
     unit3s_0 theta phi ^ 2 + unit3s_1 theta phi ^ 2 + unit3s_2 theta phi ^ 2 = 1).
Proof. exact position_on_interface. Qed.
Print Assumptions C13_position_on_interface.

(* the closed-form 2-d volume is the area integral of the shape, for any number of modes;
   the degree-4 instance the property names; volume setter/getter round trip *)
Theorem C13_volume2d_exact :
  (forall radius l, is_RInt (fun phi => (dist2d radius phi l) ^ 2 / 2) 0 (2 * PI) (vol2d radius l)) /\
  (forall radius l, vol2d radius l = PI * radius ^ 2 * (1 + sumsq l / 2)) /\
  (forall radius a1 b1 a2 b2 a3 b3 a4 b4,
     RInt (fun phi => (dist2d radius phi [(a1, b1); (a2, b2); (a3, b3); (a4, b4)]) ^ 2 / 2) 0 (2 * PI)
     = PI * radius ^ 2 * (1 + (a1 * a1 + b1 * b1 + a2 * a2 + b2 * b2 + a3 * a3 + b3 * b3
                               + a4 * a4 + b4 * b4) / 2)) /\
  (forall volume l, 0 <= volume -> vol2d (set_vol2d volume l) l = volume).
Proof. exact volume2d. Qed.
Print Assumptions C13_volume2d_exact.

(* coded curvature vs exact curvature of r(phi) = interface_distance(phi): equal at eps = 0 and
   equal first derivative in eps at eps = 0 (amplitudes eps * l), any radius > 0, any modes *)
Theorem C13_curvature2d_first_order :
  (forall radius phi l, curv2d radius phi l = 1 / (radius * (1 - series2 w_curv phi 1 l))) /\
  (forall radius phi l, 0 < radius ->
     is_derive (fun e => curv2d radius phi (scale2 e l) - exact_curv2d radius phi (scale2 e l)) 0 0) /\
  (forall radius phi l, 0 < radius ->
     curv2d radius phi (scale2 0 l) = / radius /\ exact_curv2d radius phi (scale2 0 l) = / radius).
Proof. exact curvature2d. Qed.
Print Assumptions C13_curvature2d_first_order.

(* exact_curv2d uses the polar curvature formula; it is the curvature of the parametrised curve *)
Theorem C13_curvature_polar_is_parametric : forall r r1 r2 phi,
  let x1 := r1 * cos phi - r * sin phi in
  let y1 := r1 * sin phi + r * cos phi in
  let x2 := r2 * cos phi - 2 * r1 * sin phi - r * cos phi in
  let y2 := r2 * sin phi + 2 * r1 * cos phi - r * sin phi in
  kappa_param x1 y1 x2 y2 = kappa_polar r r1 r2.
Proof. exact kappa_polar_param. Qed.
Print Assumptions C13_curvature_polar_is_parametric.

Theorem C13_sphere_limit :
  (forall radius phi l, zeros2 l -> radius <> 0 ->
     dist2d radius phi l = radius /\ curv2d radius phi l = / radius /\
     vol2d radius l = PI * radius ^ 2 /\ perim_approx2d radius l = 2 * PI * radius /\ line2d phi l = 1) /\
  (forall radius Y l, zeros3 l -> radius <> 0 ->
     dist3d radius Y l = radius /\ curv3d radius Y l = / radius /\
     volapprox3d radius l = 4 / 3 * PI * radius ^ 3 /\
     dist3s radius Y l = radius /\ curv3s radius Y l = / radius /\
     volapprox3s radius l = 4 / 3 * PI * radius ^ 3).
Proof. exact sphere_limit. Qed.
Print Assumptions C13_sphere_limit.

(* 3-d / axisymmetric curvature = 1/R + (sum_k a_k h_k Y_k)/R: additive in the amplitude vector,
   the sum of the single-mode corrections; h vanishes for degree 1 *)
Theorem C13_curvature3d_additive :
  (forall radius Y l, curv3d radius Y l = 1 / radius + series3 h3d Y 1 l / radius) /\
  (forall radius Y l, curv3s radius Y l = 1 / radius + series3 h3s Y 1 l / radius) /\
  (forall radius Y l1 l2, length l1 = length l2 ->
     curv3d radius Y (add3 l1 l2) - 1 / radius
     = (curv3d radius Y l1 - 1 / radius) + (curv3d radius Y l2 - 1 / radius)) /\
  (forall radius Y l1 l2, length l1 = length l2 ->
     curv3s radius Y (add3 l1 l2) - 1 / radius
     = (curv3s radius Y l1 - 1 / radius) + (curv3s radius Y l2 - 1 / radius)) /\
  (forall radius Y l,
     curv3d radius Y l - 1 / radius
     = sum_below (length l) (fun i => curv3d radius Y (only i l) - 1 / radius)) /\
  (forall radius Y l,
     curv3s radius Y l - 1 / radius
     = sum_below (length l) (fun i => curv3s radius Y (only i l) - 1 / radius)) /\
  (h3d 1 = 0 /\ h3d 2 = 0 /\ h3d 3 = 0) /\ (h3d 4 = 2 /\ h3d 8 = 2 /\ h3d 9 = 5) /\
  (h3s 1 = 0 /\ h3s 2 = 2 /\ h3s 3 = 5 /\ h3s 4 = 9).
Proof. exact curvature3d_additive_all. Qed.
Print Assumptions C13_curvature3d_additive.

(* H[lambda R] = H[R] / lambda *)
Theorem C13_curvature3d_homogeneous :
  (forall radius lambda Y l, 0 < lambda -> radius <> 0 ->
     curv3d (lambda * radius) Y l = curv3d radius Y l / lambda) /\
  (forall radius lambda Y l, 0 < lambda -> radius <> 0 ->
     curv3s (lambda * radius) Y l = curv3s radius Y l / lambda) /\
  (forall radius lambda Y l,
     dist3d (lambda * radius) Y l = lambda * dist3d radius Y l /\
     dist3s (lambda * radius) Y l = lambda * dist3s radius Y l).
Proof. exact curvature3d_homogeneous_all. Qed.
Print Assumptions C13_curvature3d_homogeneous.

(* volume_approx agrees with the exact volume int r^3 sin(theta)/3 to first order in the amplitudes,
   for every linear integral functional DInt over (theta, phi) of total solid angle 4 pi under which
   the harmonics of the perturbation modes (k >= 1, i.e. degree >= 1) have mean zero *)
Theorem C13_volume_approx_first_order :
  forall (DInt : (R -> R -> R) -> R),
    (forall f g, DInt (fun t p => f t p + g t p) = DInt f + DInt g) ->
    (forall c f, DInt (fun t p => c * f t p) = c * DInt f) ->
    (forall f g, (forall t p, f t p = g t p) -> DInt f = DInt g) ->
    DInt (fun t _ => sin t) = 4 * PI ->
  forall (Yf : nat -> R -> R -> R),
    (forall k, (1 <= k)%nat -> DInt (fun t p => Yf k t p * sin t) = 0) ->
  forall radius l,
    is_derive (fun e => exact_vol3d DInt Yf radius (scale3 e l) - volapprox3d radius (scale3 e l)) 0 0 /\
    exact_vol3d DInt Yf radius (scale3 0 l) = volapprox3d radius (scale3 0 l).
Proof. exact volume_approx_first_order. Qed.
Print Assumptions C13_volume_approx_first_order.

(* (a) the closed forms of the real spherical harmonics of degree <= 4 (modes k = 0..24 in the code's
   ordering; tied to the library's harmonics by sample goals) and of the axisymmetric harmonics of degree
   <= 4 satisfy the Laplace-Beltrami eigen-equation; `degree k` is the generated spherical_index_lm *)
Theorem C13_harmonics_eigen :
  (forall k theta phi, (k <= 24)%nat -> sin theta <> 0 ->
     LB (Yreal k) theta phi = - (degree k * (degree k + 1)) * Yreal k theta phi) /\
  (forall l theta phi, (l <= 4)%nat -> sin theta <> 0 ->
     LB (fun t _ => Ysym l t) theta phi = - (INR l * (INR l + 1)) * Ysym l theta).
Proof. exact (conj Yreal_eigen Ysym_eigen). Qed.
Print Assumptions C13_harmonics_eigen.

(* (b) mean curvature of the radial graph r = R0 (1 + eps g) to first order in eps:
   H = 1/R0 - eps (2 g + Laplace-Beltrami g)/(2 R0) + o(eps); H_radial is the radial-graph formula
   (a definition, see Model/Perturbed.v; compared numerically with a level-set curvature on every run) *)
Theorem C13_mean_curvature_first_order :
  (forall theta r, 0 < r -> 0 < sin theta -> H_radial theta r 0 0 0 0 0 = / r) /\
  (forall theta R0 y yt yp ytt ytp ypp, 0 < R0 -> 0 < sin theta ->
     is_derive (fun e => H_radial theta (R0 * (1 + e * y)) (R0 * (e * yt)) (R0 * (e * yp))
                                   (R0 * (e * ytt)) (R0 * (e * ytp)) (R0 * (e * ypp))) 0
               (- (2 * y + LB_jet theta yt ytt ypp) / (2 * R0))).
Proof. exact (conj H_radial_sphere H_radial_first_order). Qed.
Print Assumptions C13_mean_curvature_first_order.

(* (c), every degree, relative to the eigen-equation of the modes present (Y k, Yt k, ...: value and
   partial derivatives of the harmonic of mode k at the direction): the coded correction
   sum_k a_k (l^2 + l - 2)/2 Y_k / R0 is the true first-order term *)
Theorem C13_curvature3d_first_order_rel :
  (forall R0 theta (Y Yt Yp Ytt Ytp Ypp : nat -> R) l, 0 < R0 -> 0 < sin theta ->
     (forall k, (1 <= k < 1 + length l)%nat ->
        LB_jet theta (Yt k) (Ytt k) (Ypp k) = - (degree k * (degree k + 1)) * Y k) ->
     is_derive (fun e => curv3d R0 Y (scale3 e l)
                - H_radial theta (R0 * (1 + e * series3 w_one Y 1 l)) (R0 * (e * series3 w_one Yt 1 l))
                    (R0 * (e * series3 w_one Yp 1 l)) (R0 * (e * series3 w_one Ytt 1 l))
                    (R0 * (e * series3 w_one Ytp 1 l)) (R0 * (e * series3 w_one Ypp 1 l))) 0 0) /\
  (forall R0 theta (Y Yt Ytt : nat -> R) l, 0 < R0 -> 0 < sin theta ->
     (forall k, (1 <= k < 1 + length l)%nat -> LB_jet theta (Yt k) (Ytt k) 0 = - (INR k * (INR k + 1)) * Y k) ->
     is_derive (fun e => curv3s R0 Y (scale3 e l)
                - H_radial theta (R0 * (1 + e * series3 w_one Y 1 l)) (R0 * (e * series3 w_one Yt 1 l))
                    0 (R0 * (e * series3 w_one Ytt 1 l)) 0 0) 0 0).
Proof. exact (conj curvature3d_first_order_rel curvature3s_first_order_rel). Qed.
Print Assumptions C13_curvature3d_first_order_rel.

(* (c) discharged for the degrees the property names: any amplitude vector over the modes of degree
   <= 4 (3-d: k = 1..24; axisymmetric: orders 1..4), any radius, any direction off the poles; the exact
   curvature is the radial-graph formula applied to the generated interface_distance with the
   closed-form harmonics, all partial derivatives taken with Derive *)
Theorem C13_curvature3d_first_order :
  (forall R0 theta phi l, (length l <= 24)%nat -> 0 < R0 -> 0 < sin theta ->
     is_derive (fun e => curv3d R0 (fun k => Yreal k theta phi) (scale3 e l)
                         - H_exact3d R0 (scale3 e l) theta phi) 0 0 /\
     curv3d R0 (fun k => Yreal k theta phi) (scale3 0 l) = / R0 /\
     H_exact3d R0 (scale3 0 l) theta phi = / R0) /\
  (forall R0 theta l, (length l <= 4)%nat -> 0 < R0 -> 0 < sin theta ->
     is_derive (fun e => curv3s R0 (fun k => Ysym k theta) (scale3 e l) - H_exact3s R0 (scale3 e l) theta) 0 0 /\
     curv3s R0 (fun k => Ysym k theta) (scale3 0 l) = / R0 /\
     H_exact3s R0 (scale3 0 l) theta = / R0).
Proof. exact (conj curvature3d_first_order_l4 curvature3s_first_order_l4). Qed.
Print Assumptions C13_curvature3d_first_order.

(* PARTIAL (surface area): the quadrature of `surface_area` is the rectangle rule over a full period
   applied to the speed |d interface_position / d phi|, i.e. to the arc-length integrand; the
   quadrature error and the second-order claim of surface_area_approx are not proved (numerical
   checks in the harness) *)
Theorem C13_surface2d_partial :
  (forall radius l, perim_approx2d radius l = PI * radius * (4 + sumsq_w w_sq 1 l) / 2) /\
  (forall cx cy radius l phi, 0 <= radius -> radius * line2d phi l = speed2d cx cy radius l phi) /\
  (forall cx cy radius l, 0 <= radius ->
     exists (N : nat) (h : R), (0 < N)%nat /\ INR N * h = 2 * PI /\
       surface2d radius l = sum_below N (fun k => speed2d cx cy radius l (0 + INR k * h)) * h).
Proof. exact surface2d_partial. Qed.
Print Assumptions C13_surface2d_partial.

(* non-vacuity: a radius different from 1, two simultaneously non-zero modes, equal-length vectors,
   and an instance of the integral oracle (point evaluation at the pole, harmonics vanishing there) *)
Example C13_nonvacuous :
  0 < 2 /\ 2 <> 0 /\ 0 < 3 /\ 0 < sin (PI / 2) /\ (length [1 / 10; 0; 0; 1 / 20] <= 24)%nat /\
  length [1 / 10; 0; 0; 1 / 20] = length [0; 1 / 5; 0; 0] /\
  zeros2 [(0, 0); (0, 0)] /\ zeros3 [0; 0; 0] /\
  (exists (DInt : (R -> R -> R) -> R) (Yf : nat -> R -> R -> R),
     (forall f g, DInt (fun t p => f t p + g t p) = DInt f + DInt g) /\
     (forall c f, DInt (fun t p => c * f t p) = c * DInt f) /\
     (forall f g, (forall t p, f t p = g t p) -> DInt f = DInt g) /\
     DInt (fun t _ => sin t) = 4 * PI /\
     (forall k, (1 <= k)%nat -> DInt (fun t p => Yf k t p * sin t) = 0)).
Proof.
  split; [lra|]. split; [lra|]. split; [lra|]. split; [rewrite sin_PI2; lra|]. split; [simpl; lia|].
  split; [reflexivity|]. split; [repeat constructor|]. split; [repeat constructor|].
  exists (fun f => 4 * PI * f (PI / 2) 0), (fun _ _ _ => 0).
  repeat split.
  - intros f g. ring.
  - intros c f. ring.
  - intros f g H. rewrite H. reflexivity.
  - rewrite sin_PI2. ring.
  - intros k _. ring.
Qed.
