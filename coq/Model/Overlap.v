(* Emulsion.remove_overlapping / remove_small as the code executes them.
   Droplets are identified by their ORIGINAL index; `D i j` is the surface distance
   (centre distance minus both radii) exactly as computed by get_pairwise_distances. *)
From Coq Require Import QArith List Arith Bool.
Import ListNotations.
Local Open Scope Q_scope.

Section Overlap.
  Variable D : nat -> nat -> Q.
  Variable rad : nat -> Q.
  Variable md : Q.

  (* np.argmin over the matrix with the diagonal set to +inf: first minimum in row-major order *)
  Definition upd (best : option (nat * nat)) (x y : nat) : option (nat * nat) :=
    if Nat.eqb x y then best else
    match best with
    | None => Some (x, y)
    | Some (bx, bY) => if Qlt_le_dec (D x y) (D bx bY) then Some (x, y) else best
    end.

  Fixpoint scan_row (x : nat) (ys : list nat) (best : option (nat * nat)) : option (nat * nat) :=
    match ys with
    | [] => best
    | y :: ys' => scan_row x ys' (upd best x y)
    end.

  Fixpoint scan (xs ys : list nat) (best : option (nat * nat)) : option (nat * nat) :=
    match xs with
    | [] => best
    | x :: xs' => scan xs' ys (scan_row x ys best)
    end.

  Definition argmin (l : list nat) : option (nat * nat) := scan l l None.

  Definition remove_nat (k : nat) (l : list nat) : list nat :=
    filter (fun i => negb (Nat.eqb i k)) l.

  (* one iteration of the while loop; None = loop has stopped *)
  Definition ro_step (l : list nat) : option (list nat) :=
    match argmin l with
    | None => None                                   (* len(dists) <= 1 *)
    | Some (x, y) =>
        if Qlt_le_dec (D x y) md then
          if Qlt_le_dec (rad y) (rad x)              (* self[x].radius > self[y].radius *)
          then Some (remove_nat y l) else Some (remove_nat x l)
        else None                                    (* break *)
    end.

  Fixpoint ro_iter (fuel : nat) (l : list nat) : list nat :=
    match fuel with
    | O => l
    | S f => match ro_step l with None => l | Some l' => ro_iter f l' end
    end.

  Definition ro (l : list nat) : list nat := ro_iter (length l) l.

  (* remove_small: reversed index loop popping radius <= min_radius *)
  Fixpoint rs_loop (mn : Q) (rev_idx : list nat) (l : list nat) : list nat :=
    match rev_idx with
    | [] => l
    | i :: rest =>
        match nth_error l i with
        | Some k => if Qle_bool (rad k) mn
                    then rs_loop mn rest (firstn i l ++ skipn (S i) l)
                    else rs_loop mn rest l
        | None => rs_loop mn rest l
        end
    end.

  Definition remove_small (mn : Q) (l : list nat) : list nat :=
    rs_loop mn (rev (seq 0 (length l))) l.
End Overlap.
