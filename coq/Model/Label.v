(* An executable model of scipy.ndimage.label with the default structuring element (face
   connectivity, no periodic wrapping): the label image in raster (C) order, components numbered
   1, 2, ... in the order in which their first cell is met, 0 off the mask.
     mcells shape mask : the mask cells, in raster order;
     nbrs c            : the 2 * dim index vectors differing from c by +-1 in one coordinate;
     flood / component : work-list flood fill inside the mask cells starting from a seed;
     lab_go / label    : one pass over the cells; an unassigned mask cell takes the next label
                         together with its whole component.
   Proofs: Proofs/LabelFlood.v, Proofs/LabelSpec.v, Proofs/LabelUnique.v, Proofs/LabelClients.v. *)
From Coq Require Import ZArith List Arith Bool.
Import ListNotations.
From PD Require Import Model.Grid Model.Locate.

Definition cell_inb (c : cell) (s : list cell) : bool := existsb (cell_eqb c) s.

(* the cells whose mask entry is true, in raster order *)
Definition mcells (shape : list Z) (mask : list bool) : list cell :=
  map fst (filter snd (combine (all_cells shape) mask)).

(* all face neighbours of an index vector (range is not checked here: flood only keeps mask cells) *)
Fixpoint nbrs (c : cell) : list cell :=
  match c with
  | [] => []
  | x :: c' => ((x - 1)%Z :: c') :: ((x + 1)%Z :: c') :: map (cons x) (nbrs c')
  end.

(* work-list flood fill: `visited` contains `work`; a step takes one cell off the work list and
   adds its mask neighbours that were not visited yet to both lists *)
Fixpoint flood (mc : list cell) (fuel : nat) (work visited : list cell) : list cell :=
  match fuel with
  | O => visited
  | S f =>
      match work with
      | [] => visited
      | c :: w =>
          let new := filter (fun d => cell_inb d mc && negb (cell_inb d visited)) (nbrs c) in
          flood mc f (new ++ w) (new ++ visited)
      end
  end.

(* every step either visits a new mask cell or shortens the work list: length mc steps suffice *)
Definition component (mc : list cell) (c : cell) : list cell := flood mc (length mc) [c] [c].

(* one pass in raster order; asg is the assignment so far (cell, label), next the next free label *)
Fixpoint lab_go (mc : list cell) (cs : list cell) (ms : list bool) (next : nat) (asg : limage)
  : list nat :=
  match cs, ms with
  | c :: cs', m :: ms' =>
      if m then
        match lab_of asg c with
        | O => next :: lab_go mc cs' ms' (S next) (asg ++ map (fun d => (d, next)) (component mc c))
        | S l => S l :: lab_go mc cs' ms' next asg
        end
      else O :: lab_go mc cs' ms' next asg
  | _, _ => []
  end.

Definition label (shape : list Z) (mask : list bool) : list nat :=
  lab_go (mcells shape mask) (all_cells shape) mask 1%nat [].
