(* Threshold rules of locate_droplets over exact rationals: extrema, mean, Otsu (256-bin histogram). *)
From Coq Require Import QArith Qround Qabs ZArith List Bool.
Import ListNotations.
Local Open Scope Q_scope.

Definition qmin (a b : Q) : Q := if Qle_bool a b then a else b.
Definition qmax (a b : Q) : Q := if Qle_bool a b then b else a.

(* minimum / maximum of a non-empty field given as head + tail *)
Definition lmin (x : Q) (l : list Q) : Q := fold_left qmin l x.
Definition lmax (x : Q) (l : list Q) : Q := fold_left qmax l x.

Definition qsum (l : list Q) : Q := fold_right Qplus 0 l.
Definition lmean (x : Q) (l : list Q) : Q := qsum (x :: l) / inject_Z (Z.of_nat (S (length l))).

(* ---- Otsu ---- *)
Definition nbins : Z := 256.

(* np.histogram(data, bins=256): range (mn, mx), or (mn - 1/2, mx + 1/2) for constant data *)
Definition hist_range (mn mx : Q) : Q * Q :=
  if Qeq_bool mn mx then (mn - (1#2), mx + (1#2)) else (mn, mx).

Definition bin_index (lo hi x : Q) : Z :=
  let k := Qfloor ((x - lo) * inject_Z nbins / (hi - lo)) in
  if Z.leb nbins k then nbins - 1 else k.

Definition bin_centre (lo hi : Q) (k : Z) : Q :=
  lo + (inject_Z k + (1#2)) * ((hi - lo) / inject_Z nbins).

Definition count_bin (idx : list Z) (k : Z) : Z :=
  Z.of_nat (length (filter (Z.eqb k) idx)).

Definition bins : list Z := map Z.of_nat (seq 0 256).

(* between-class variance for the split after bin k (k = 0 .. 254), from counts and centres:
   w1 = sum_{j<=k} n_j, w2 = sum_{j>k} n_j, m1, m2 the class means of the bin centres *)
Definition wsum (cnt : Z -> Z) (ks : list Z) : Q := qsum (map (fun j => inject_Z (cnt j)) ks).
Definition msum (cnt : Z -> Z) (c : Z -> Q) (ks : list Z) : Q :=
  qsum (map (fun j => inject_Z (cnt j) * c j) ks).

Definition variance12 (cnt : Z -> Z) (c : Z -> Q) (k : Z) : Q :=
  let lo_ks := filter (fun j => Z.leb j k) bins in
  let hi_ks := filter (fun j => Z.ltb k j) bins in
  let w1 := wsum cnt lo_ks in let w2 := wsum cnt hi_ks in
  let m1 := msum cnt c lo_ks / w1 in let m2 := msum cnt c hi_ks / w2 in
  w1 * w2 * ((m1 - m2) * (m1 - m2)).

(* np.argmax: first maximum *)
Fixpoint argmax_first (f : Z -> Q) (ks : list Z) (best : Z) : Z :=
  match ks with
  | [] => best
  | k :: ks' => argmax_first f ks' (if Qle_bool (f k) (f best) then best else k)
  end.

Definition splits : list Z := map Z.of_nat (seq 0 255).

Definition otsu (x : Q) (l : list Q) : Q :=
  let mn := lmin x l in let mx := lmax x l in
  let '(lo, hi) := hist_range mn mx in
  if Qeq_bool mn mx then bin_centre lo hi 0     (* all variances are NaN: argmax returns index 0 *)
  else
    let idx := map (bin_index lo hi) (x :: l) in
    let cnt := count_bin idx in
    let c := bin_centre lo hi in
    c (argmax_first (variance12 cnt c) (tl splits) 0%Z).

(* evaluation-friendly variant of variance12: the same sums with reduced fractions
   (Proofs/C18.v: variance12r == variance12) *)
Definition qsumr (l : list Q) : Q := fold_right (fun x s => Qred (x + s)) 0 l.
Definition variance12r (cnt : Z -> Z) (c : Z -> Q) (k : Z) : Q :=
  let lo_ks := filter (fun j => Z.leb j k) bins in
  let hi_ks := filter (fun j => Z.ltb k j) bins in
  let w1 := qsumr (map (fun j => inject_Z (cnt j)) lo_ks) in
  let w2 := qsumr (map (fun j => inject_Z (cnt j)) hi_ks) in
  let m1 := Qred (qsumr (map (fun j => inject_Z (cnt j) * c j) lo_ks) / w1) in
  let m2 := Qred (qsumr (map (fun j => inject_Z (cnt j) * c j) hi_ks) / w2) in
  Qred (w1 * w2 * ((m1 - m2) * (m1 - m2))).

(* tolerant acceptance of the implementation's float result t: it is (up to 1e-12 relative) a bin
   centre whose exact between-class variance is within 1e-9 relative of the maximum *)
Definition otsu_accepts (x : Q) (l : list Q) (t : Q) : bool :=
  let mn := lmin x l in let mx := lmax x l in
  let '(lo, hi) := hist_range mn mx in
  if Qeq_bool mn mx then Qle_bool (Qabs (t - bin_centre lo hi 0)) ((1 # 1000000000000) * (Qabs t + 1))
  else
    let idx := map (bin_index lo hi) (x :: l) in
    let cnt := count_bin idx in
    let c := fun k => Qred (bin_centre lo hi k) in
    let tbl := map (fun k => (k, variance12r cnt c k)) splits in
    let v := fun k => match find (fun p => Z.eqb (fst p) k) tbl with Some p => snd p | None => 0 end in
    let kbest := argmax_first v (tl splits) 0%Z in
    existsb (fun k => Qle_bool (Qabs (t - c k)) ((1 # 1000000000000) * (Qabs t + Qabs (hi - lo)))
                      && Qle_bool ((1 - (1 # 1000000000)) * v kbest) (v k)) splits.
