(* The periodic cluster-merging loop of _locate_droplets_in_mask_cartesian (repaired version):
   quick-find over original labels with a per-label vector of period offsets.
     cl k        : representative (0-based label index) of the merged cluster original label k belongs to
     off k ax    : by how many periods along axis ax original cluster k has been shifted
     mpos i ax   : position (cell coordinates) stored for representative i
     mvol i      : volume stored for representative i
   An edge (kl, kh, ax) is a pair of boundary cells: low side labelled kl, high side labelled kh,
   connected across the periodic boundary of axis ax. *)
From Coq Require Import QArith ZArith List Arith Bool.
Import ListNotations.
Local Open Scope Q_scope.

Record mstate := { cl : nat -> nat; off : nat -> nat -> Z; mpos : nat -> nat -> Q; mvol : nat -> Q }.

Definition edge := (nat * nat * nat)%type.

Definition delta (a b : nat) : Z := if Nat.eqb a b then 1%Z else 0%Z.

Section Merge.
  Variable N : nat -> Z.     (* grid.shape *)

  Definition merge_step (st : mstate) (e : edge) : mstate :=
    let '(kl, kh, ax) := e in
    let il := cl st kl in let ih := cl st kh in
    if Nat.eqb il ih then st else
    let shift := fun a => (off st kl a - off st kh a - delta a ax)%Z in
    let vl := mvol st il in let vh := mvol st ih in
    {| cl := fun k => if Nat.eqb (cl st k) ih then il else cl st k;
       off := fun k a => if Nat.eqb (cl st k) ih then (off st k a + shift a)%Z else off st k a;
       mpos := fun i a => if Nat.eqb i il
                          then (mpos st il a * vl + (mpos st ih a + inject_Z (shift a * N a)) * vh) / (vl + vh)
                          else mpos st i a;
       mvol := fun i => if Nat.eqb i il then vl + vh else mvol st i |}.

  Definition merge_all (st : mstate) (es : list edge) : mstate := fold_left merge_step es st.

  Definition init_state (pos0 : nat -> nat -> Q) (vol0 : nat -> Q) : mstate :=
    {| cl := fun k => k; off := fun _ _ => 0%Z; mpos := pos0; mvol := vol0 |}.
End Merge.

(* np.unique(cluster) for labels 0 .. n-1: sorted representatives *)
Fixpoint insert_sorted (x : nat) (l : list nat) : list nat :=
  match l with
  | [] => [x]
  | y :: l' => if Nat.ltb x y then x :: l else if Nat.eqb x y then l else y :: insert_sorted x l'
  end.
Definition reps (st : mstate) (n : nat) : list nat :=
  fold_left (fun acc k => insert_sorted (cl st k) acc) (seq 0 n) [].
