(* C19: how locate_droplets turns the spherical candidates into droplets of the requested class.
   The decision tree (class_unrefined, class_refined, modes_guard, amplitude_count) is GENERATED. *)
From Coq Require Import QArith ZArith List Bool.
Import ListNotations.
From PD Require Import Gen.Gen_analysis.

Record request := { rq_dim : Z; rq_cyl : bool; rq_width : option Q; rq_modes : Z; rq_refine : bool }.

Record droplet := { d_cls : dclass; d_pos : list Q; d_radius : Q; d_width : option Q; d_ampl : list Q }.

Definition width_given (r : request) : bool := match rq_width r with Some _ => true | None => false end.
Definition modes_pos (r : request) : bool := Z.ltb 0 (rq_modes r).

Definition has_width (c : dclass) : bool := match c with Spherical => false | _ => true end.
Definition has_ampl (c : dclass) : bool := match c with P2D | P3D | P3DAxi => true | _ => false end.

(* from_droplet(candidate, **args): position and radius are taken from the candidate; width and
   amplitudes from args when the class has such a field *)
Definition convert (r : request) (pos : list Q) (radius : Q) : droplet :=
  let c := class_unrefined (rq_dim r) (rq_cyl r) (width_given r) (modes_pos r) in
  {| d_cls := c; d_pos := pos; d_radius := radius;
     d_width := if has_width c then rq_width r else None;
     d_ampl := if has_ampl c then repeat 0%Q (Z.to_nat (amplitude_count (rq_modes r))) else [] |}.

Inductive outcome := RaiseValueError | Located (ds : list droplet).

Definition locate_unrefined (r : request) (cands : list (list Q * Q)) : outcome :=
  if modes_guard (rq_dim r) (modes_pos r) then RaiseValueError
  else Located (map (fun c => convert r (fst c) (snd c)) cands).

Definition final_class (r : request) : dclass :=
  let c := class_unrefined (rq_dim r) (rq_cyl r) (width_given r) (modes_pos r) in
  if rq_refine r then class_refined c else c.

Definition dclass_eqb (a b : dclass) : bool :=
  match a, b with
  | Spherical, Spherical | Diffuse, Diffuse | P2D, P2D | P3D, P3D | P3DAxi, P3DAxi => true
  | _, _ => false
  end.
