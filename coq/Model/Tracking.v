(* Executable model of  DropletTrackList.from_emulsion_time_course  (droplets/droplet_tracks.py),
   both matching methods, following the Python code statement by statement.

   * a droplet is identified by  (frame index, index inside the frame's emulsion);
   * a time course is the list of its frames  (time value, number of droplets);
   * a track is a NON-EMPTY list of entries (time value, droplet id), kept as
     (earlier entries, last entry) -- the code never creates an empty track, so  track.end  and
     track.last  are total here without any default value;
   * `tracks` is the growing Python list of track objects; `tracks_alive` is a list of REFERENCES to
     some of them, modelled as the list of their positions in `tracks` (new tracks are only ever
     appended at the end, so positions are stable object identities); appending to
     `tracks_alive[i]` / `overlaps[0]` is an in-place update at that position;
   * everything that can raise in Python returns an explicit error here:
       - an out-of-range list access                          -> EIndex
       - scipy's cdist on an empty point set                  -> ECdistEmpty   (oracle precondition)
       - np.argmin of an array without elements               -> EArgminEmpty
       - the `while True` loop has no bound in Python; the model loop carries fuel and reports
         EFuel when it runs out (shown impossible in Proofs/Tracking.v).
   External behaviour enters through two oracles:  ov a b  =  a.overlaps(b, grid=grid)  and
   D a b  = the entry that cdist computes for the points of a and b (exact rationals). *)
From Coq Require Import List Bool Arith QArith.
Import ListNotations.

Inductive err := EIndex | ECdistEmpty | EArgminEmpty | EFuel.
Inductive res (A : Type) := Ok (a : A) | Err (e : err).
Arguments Ok {A} a.
Arguments Err {A} e.

Definition did := (nat * nat)%type.          (* frame index, index within the frame *)
Definition entry := (Q * did)%type.          (* time stamp, droplet *)
Definition track := (list entry * entry)%type.   (* all entries but the last, the last entry *)
Definition frame := (Q * nat)%type.          (* time, number of droplets *)

Definition entries (tr : track) : list entry := fst tr ++ [snd tr].
Definition t_end (tr : track) : Q := fst (snd tr).          (* track.end  = times[-1] *)
Definition t_last (tr : track) : did := snd (snd tr).       (* track.last = droplets[-1] *)
Definition t_append (tr : track) (e : entry) : track := (entries tr, e).   (* track.append(d, time=t) *)
Definition t_new (e : entry) : track := ([], e).            (* DropletTrack(droplets=[d], times=[t]) *)

(* DropletTrack.append(droplet, time=None) seen on the list of time codes:
       if time is None: time = 0 if len(self.times) == 0 else self.times[-1] + 1
       self.times.append(time)
   `None` = the argument was omitted (or None); every other value -- 0 included -- is stored as given.
   The frame loop below always passes the frame's time explicitly (t_append / t_new). *)
Fixpoint last_time (times : list Q) : option Q :=
  match times with
  | [] => None
  | [t] => Some t
  | _ :: r => last_time r
  end.
Definition append_time (times : list Q) (time : option Q) : Q :=
  match time with
  | Some t => t
  | None => match last_time times with None => 0 | Some l => l + 1 end
  end.
Definition append_times (times : list Q) (time : option Q) : list Q :=
  times ++ [append_time times time].
(* a whole history of appends on a fresh track *)
Definition appends (ops : list (option Q)) : list Q := fold_left append_times ops [].

(* emulsion of frame f with n droplets, in iteration order *)
Definition frame_ids (f n : nat) : list did := map (fun j => (f, j)) (seq 0 n).

(* what happens to one droplet: appended to the track at a position, or start of a new track *)
Inductive event := Append (k : nat) (d : did) | New (d : did).
Definition ev_did (e : event) : did := match e with Append _ d => d | New d => d end.

(* in-place update of the element at position k *)
Fixpoint upd {A : Type} (l : list A) (k : nat) (f : A -> A) : res (list A) :=
  match l, k with
  | [], _ => Err EIndex
  | x :: l', O => Ok (f x :: l')
  | x :: l', S k' => match upd l' k' f with Ok r => Ok (x :: r) | Err e => Err e end
  end.

Definition apply_event (t : Q) (tracks : list track) (e : event) : res (list track) :=
  match e with
  | Append k d => upd tracks k (fun tr => t_append tr (t, d))
  | New d => Ok (tracks ++ [t_new (t, d)])
  end.

(* tracks_alive = [track for track in tracks if track.end == t_last]   (t_last = None initially;
   a float never equals None) *)
Definition alive_b (t_prev : option Q) (tr : track) : bool :=
  match t_prev with None => false | Some tl => Qeq_bool (t_end tr) tl end.

Fixpoint alive_from (k : nat) (t_prev : option Q) (tracks : list track) : list nat :=
  match tracks with
  | [] => []
  | tr :: rest => if alive_b t_prev tr then k :: alive_from (S k) t_prev rest
                  else alive_from (S k) t_prev rest
  end.
Definition alive_idx := alive_from 0.

(* ------------------------------------------------------------------------------------------ *)
(* method = "overlap"                                                                           *)
(* ------------------------------------------------------------------------------------------ *)
Section Overlap.
  Variable ov : did -> did -> bool.     (* ov a b = a.overlaps(b, grid=grid), a = track.last *)

  (* overlaps = [track for track in tracks_alive if track.last.overlaps(droplet)]; `tracks` is the
     CURRENT list, so a track extended earlier in this frame is tested with its new last droplet *)
  Fixpoint ov_matches (tracks : list track) (alive : list nat) (d : did) : res (list nat) :=
    match alive with
    | [] => Ok []
    | k :: rest =>
        match nth_error tracks k with
        | None => Err EIndex
        | Some tr =>
            match ov_matches tracks rest d with
            | Err e => Err e
            | Ok l => Ok (if ov (t_last tr) d then k :: l else l)
            end
        end
    end.

  Definition ov_event (tracks : list track) (alive : list nat) (d : did) : res event :=
    match ov_matches tracks alive d with
    | Err e => Err e
    | Ok [k] => Ok (Append k d)          (* len(overlaps) == 1 *)
    | Ok _ => Ok (New d)                 (* none or several *)
    end.

  Fixpoint ov_frame (t : Q) (alive : list nat) (tracks : list track) (ds : list did)
    : res (list track) :=
    match ds with
    | [] => Ok tracks
    | d :: rest =>
        match ov_event tracks alive d with
        | Err e => Err e
        | Ok ev => match apply_event t tracks ev with
                   | Err e => Err e
                   | Ok tracks' => ov_frame t alive tracks' rest
                   end
        end
    end.
End Overlap.

(* ------------------------------------------------------------------------------------------ *)
(* method = "distance"                                                                          *)
(* ------------------------------------------------------------------------------------------ *)
Definition matrix := list (list (option Q)).     (* None = inf *)

Definition Qlt_b (x y : Q) : bool := negb (Qle_bool y x).
(* strict order on entries, inf largest *)
Definition oq_lt (a b : option Q) : bool :=
  match a, b with
  | Some x, Some y => Qlt_b x y
  | Some _, None => true
  | None, _ => false
  end.

Definition cell := (nat * nat * option Q)%type.

Fixpoint row_cells (i j : nat) (row : list (option Q)) : list cell :=
  match row with [] => [] | x :: r => (i, j, x) :: row_cells i (S j) r end.
(* elements in C (row-major) order together with their unravelled index *)
Fixpoint flat_from (i : nat) (M : matrix) : list cell :=
  match M with [] => [] | row :: rest => row_cells i 0 row ++ flat_from (S i) rest end.
Definition flat (M : matrix) : list cell := flat_from 0 M.

(* np.argmin: first minimum in C order *)
Fixpoint argmin_from (best : cell) (l : list cell) : cell :=
  match l with
  | [] => best
  | x :: l' => argmin_from (if oq_lt (snd x) (snd best) then x else best) l'
  end.
Definition argmin_cells (l : list cell) : res cell :=
  match l with [] => Err EArgminEmpty | x :: l' => Ok (argmin_from x l') end.
Definition argmin (M : matrix) : res cell := argmin_cells (flat M).

(* dists[i, :] = inf ; dists[:, j] = inf *)
Fixpoint kill_col (j : nat) (row : list (option Q)) : list (option Q) :=
  match row, j with
  | [], _ => []
  | _ :: r, O => None :: r
  | x :: r, S j' => x :: kill_col j' r
  end.
Fixpoint kill (i j : nat) (M : matrix) : matrix :=
  match M, i with
  | [], _ => []
  | row :: rest, O => map (fun _ => None) row :: map (kill_col j) rest
  | row :: rest, S i' => kill_col j row :: kill i' j rest
  end.

Definition count_finite (M : matrix) : nat :=
  length (filter (fun c : cell => match snd c with Some _ => true | None => false end) (flat M)).

Section Distance.
  Variable D : did -> did -> Q.            (* the entry cdist computes for (prev, now) *)
  Variable max_dist : option Q.            (* None = np.inf (the default) *)

  (* scipy.spatial.distance.cdist: needs two non-empty point sets *)
  Definition cdist (prev now : list did) : res (list (list Q)) :=
    match prev, now with
    | [], _ => Err ECdistEmpty
    | _, [] => Err ECdistEmpty
    | _, _ => Ok (map (fun p => map (D p) now) prev)
    end.

  (* dists[dists > max_dist] = np.inf *)
  Definition cut (d : Q) : option Q :=
    match max_dist with
    | None => Some d
    | Some m => if Qlt_b m d then None else Some d
    end.

  (* points_prev = [track.last.position for track in tracks_alive] *)
  Fixpoint lasts (tracks : list track) (alive : list nat) : res (list did) :=
    match alive with
    | [] => Ok []
    | k :: rest =>
        match nth_error tracks k with
        | None => Err EIndex
        | Some tr => match lasts tracks rest with Err e => Err e | Ok l => Ok (t_last tr :: l) end
        end
    end.

  (* the `while True` loop *)
  Fixpoint dist_loop (fuel : nat) (M : matrix) (t : Q) (f n : nat) (alive : list nat)
           (tracks : list track) (added : list nat) : res (list track * list nat) :=
    match fuel with
    | O => Err EFuel
    | S fuel' =>
        match argmin M with
        | Err e => Err e
        | Ok (_, _, None) => Ok (tracks, added)                    (* np.isinf: break *)
        | Ok (i, j, Some _) =>
            match nth_error alive i with                           (* tracks_alive[i] *)
            | None => Err EIndex
            | Some k =>
                if j <? n then                                     (* emulsion[j] *)
                  match apply_event t tracks (Append k (f, j)) with
                  | Err e => Err e
                  | Ok tracks' => dist_loop fuel' (kill i j M) t f n alive tracks' (j :: added)
                  end
                else Err EIndex
            end
        end
    end.

  Definition mem_nat (j : nat) (l : list nat) : bool := existsb (Nat.eqb j) l.

  (* for i, droplet in enumerate(emulsion): if i not in added: tracks.append(new track) *)
  Fixpoint add_new (t : Q) (f : nat) (js : list nat) (added : list nat) (tracks : list track)
    : list track :=
    match js with
    | [] => tracks
    | j :: rest =>
        add_new t f rest added (if mem_nat j added then tracks else tracks ++ [t_new (t, (f, j))])
    end.

  Definition dist_frame (t : Q) (f n : nat) (alive : list nat) (tracks : list track)
    : res (list track) :=
    match (if (match alive with [] => false | _ => true end) && (0 <? n)   (* the guard *)
           then
             match lasts tracks alive with
             | Err e => Err e
             | Ok prev =>
                 match cdist prev (frame_ids f n) with
                 | Err e => Err e
                 | Ok M0 =>
                     let M := map (map cut) M0 in
                     dist_loop (S (count_finite M)) M t f n alive tracks []
                 end
             end
           else Ok (tracks, []))
    with
    | Err e => Err e
    | Ok (tracks', added) => Ok (add_new t f (seq 0 n) added tracks')
    end.
End Distance.

(* ------------------------------------------------------------------------------------------ *)
(* the frame loop                                                                               *)
(* ------------------------------------------------------------------------------------------ *)
Inductive method :=
| MOverlap (ov : did -> did -> bool)
| MDistance (D : did -> did -> Q) (max_dist : option Q).

Definition step (m : method) (t : Q) (f n : nat) (alive : list nat) (tracks : list track)
  : res (list track) :=
  match m with
  | MOverlap ov => ov_frame ov t alive tracks (frame_ids f n)
  | MDistance D md => dist_frame D md t f n alive tracks
  end.

Fixpoint run (m : method) (frames : list frame) (f : nat) (t_prev : option Q) (tracks : list track)
  : res (list track) :=
  match frames with
  | [] => Ok tracks
  | (t, n) :: rest =>
      match step m t f n (alive_idx t_prev tracks) tracks with
      | Err e => Err e
      | Ok tracks' => run m rest (S f) (Some t) tracks'
      end
  end.

Definition track_all (m : method) (frames : list frame) : res (list track) :=
  run m frames 0 None [].

(* the same code WITHOUT the guard `if tracks_alive and len(emulsion) > 0` (the state of the
   repository before the fix "distance tracking handles frames without droplets"); used to show that
   the guard is what makes the call total *)
Definition dist_frame_unguarded (D : did -> did -> Q) (max_dist : option Q) (t : Q) (f n : nat)
           (alive : list nat) (tracks : list track) : res (list track) :=
  match lasts tracks alive with
  | Err e => Err e
  | Ok prev =>
      match cdist D prev (frame_ids f n) with
      | Err e => Err e
      | Ok M0 =>
          let M := map (map (cut max_dist)) M0 in
          match dist_loop (S (count_finite M)) M t f n alive tracks [] with
          | Err e => Err e
          | Ok (tracks', added) => Ok (add_new t f (seq 0 n) added tracks')
          end
      end
  end.

(* ------------------------------------------------------------------------------------------ *)
(* helpers used by the correspondence files (Cases/*.v)                                         *)
(* ------------------------------------------------------------------------------------------ *)
Definition did_eqb (a b : did) : bool := Nat.eqb (fst a) (fst b) && Nat.eqb (snd a) (snd b).
Definition entry_eqb (a b : entry) : bool := Qeq_bool (fst a) (fst b) && did_eqb (snd a) (snd b).

Fixpoint list_eqb {A : Type} (eqb : A -> A -> bool) (l1 l2 : list A) : bool :=
  match l1, l2 with
  | [], [] => true
  | x :: r1, y :: r2 => eqb x y && list_eqb eqb r1 r2
  | _, _ => false
  end.

(* result of the implementation in canonical form: list of tracks, each a list of entries; or the
   fact that it raised *)
Definition tracks_eqb (model : res (list track)) (impl : option (list (list entry))) : bool :=
  match model, impl with
  | Ok trs, Some l => list_eqb (list_eqb entry_eqb) (map entries trs) l
  | Err _, None => true
  | _, _ => false
  end.

(* table look-ups: the implementation's overlap relation as the list of overlapping pairs, its
   distance table as an association list; `None` = pair missing from the table *)
Definition pair_eqb (x y : did * did) : bool := did_eqb (fst x) (fst y) && did_eqb (snd x) (snd y).
Definition ov_of (tbl : list (did * did)) (a b : did) : bool := existsb (pair_eqb (a, b)) tbl.
Fixpoint dist_lookup (tbl : list (did * did * Q)) (a b : did) : option Q :=
  match tbl with
  | [] => None
  | (p, q) :: r => if pair_eqb (a, b) p then Some q else dist_lookup r a b
  end.
