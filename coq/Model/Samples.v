(* Tactic closing the translator's sample goals  Rabs (f x - y) <= tol  by interval arithmetic. *)
From Coq Require Import Reals Lra.
From Interval Require Import Tactic.
From PD Require Import Model.Num.
Local Open Scope R_scope.

Lemma tanh_exp x : tanh x = (exp x - exp (- x)) / (exp x + exp (- x)).
Proof.
  unfold tanh, sinh, cosh. pose proof (exp_pos x). pose proof (exp_pos (- x)). field. lra.
Qed.

Ltac sample_tac :=
  repeat (rewrite pow_nn_pos by (interval with (i_prec 60)));
  unfold Rpower; rewrite ?tanh_exp;
  interval with (i_prec 80).
