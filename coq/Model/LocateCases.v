(* Executable glue for the C02/C01 correspondence (Cartesian grids). *)
From Coq Require Import QArith Qabs ZArith List Arith Bool.
Import ListNotations.
From PD Require Import Model.Grid Model.MergeLoop Model.Locate Model.Overlap Model.OverlapCases Model.Label.
Local Open Scope Q_scope.

Record loc_case := {
  lc_grid : grid;
  lc_lab : list nat;                       (* scipy's label image, raster order *)
  lc_cands : list (list Q * Q);            (* implementation: candidates before overlap removal *)
  lc_rad : list Q;                         (* their radii *)
  lc_D : list (list Q);                    (* surface-distance matrix the implementation computed *)
  lc_out : list nat                        (* indices of the candidates that were returned *)
}.

Fixpoint vec_close (a b : list Q) (tol : Q) : bool :=
  match a, b with
  | [], [] => true
  | x :: a', y :: b' => close_rel x y tol && vec_close a' b' tol
  | _, _ => false
  end.

(* positions are compared modulo the period along periodic axes: a float centre of mass that is
   an ulp below the lower bound is wrapped to (an ulp below) the upper bound by normalize_point *)
Fixpoint pos_close (g : grid) (p q : list Q) (tol : Q) : bool :=
  match g, p, q with
  | [], [], [] => true
  | a :: g', x :: p', y :: q' =>
      Qle_bool (Qabs (diff1 a x y)) (tol * (Qabs x + Qabs y + Qabs (asize a) + 1)) && pos_close g' p' q' tol
  | _, _, _ => false
  end.

Fixpoint cands_close (g : grid) (a b : list (list Q * Q)) : bool :=
  match a, b with
  | [], [] => true
  | (p, v) :: a', (q, w) :: b' =>
      pos_close g p q (1 # 1000000000000) && close_rel v w (1 # 1000000000000) && cands_close g a' b'
  | _, _ => false
  end.

(* scipy's label image equals the executable labelling of its own mask (Model/Label.v): by C02_label_unique this
   is the same as scipy meeting its specification *)
Definition label_agree (g : grid) (lab : list nat) : bool :=
  list_eqb (label (gshape g) (map (fun l => Nat.ltb 0 l) lab)) lab.

Definition loc_agree (c : loc_case) : bool :=
  label_agree (lc_grid c) (lc_lab c) &&
  cands_close (lc_grid c) (candidates (lc_grid c) (lc_lab c)) (lc_cands c) &&
  list_eqb (ro (tbl (lc_D c)) (vec (lc_rad c)) 0 (seq 0 (length (lc_rad c)))) (lc_out c).

(* ---- symmetric grids ---- *)
From PD Require Import Model.LocateSym.

Record rad_case := { rd_lo : Q; rd_dr : Q; rd_mask : list bool; rd_out : option Q }.

Definition rad_agree (c : rad_case) : bool :=
  match locate_radial (rd_lo c) (rd_dr c) (rd_mask c), rd_out c with
  | None, None => true
  | Some r, Some r' => close_rel r r' (1 # 1000000000000)
  | _, _ => false
  end.

Record cyl_case := {
  cy_grid : cylgrid;
  cy_lab_pad : list nat; cy_lab : list nat;      (* scipy labels of the padded image and of the image *)
  cy_cands : list (Q * Q);                       (* implementation: (z, volume / pi) before overlap removal *)
  cy_rad : list Q; cy_D : list (list Q); cy_out : list nat
}.

Fixpoint zv_close (a b : list (Q * Q)) : bool :=
  match a, b with
  | [], [] => true
  | (z, v) :: a', (z', v') :: b' =>
      close_rel z z' (1 # 1000000000000) && close_rel v v' (1 # 100000000000) && zv_close a' b'
  | _, _ => false
  end.

Definition cyl_agree (c : cyl_case) : bool :=
  let g := cy_grid c in
  let img_pad := mk_limage [cg_nr g; (3 * cg_nz g)%Z] (cy_lab_pad c) in
  let img := mk_limage [cg_nr g; cg_nz g] (cy_lab c) in
  let cands := cyl_candidates g img_pad img in
  zv_close cands (cy_cands c) &&
  list_eqb (ro (tbl (cy_D c)) (vec (cy_rad c)) 0 (seq 0 (length (cy_rad c)))) (cy_out c).

(* ---- C01: rendered emulsions, then located ---- *)
From PD Require Import Model.Render Model.RenderSym.

Fixpoint bools_eqb (a b : list bool) : bool :=
  match a, b with
  | [], [] => true
  | x :: a', y :: b' => Bool.eqb x y && bools_eqb a' b'
  | _, _ => false
  end.

Definition lab_mask (lab : list nat) : list bool := map (fun l => Nat.ltb 0 l) lab.

(* Cartesian: the implementation's thresholded image equals the model's image of the emulsion, and
   locating agrees (loc_agree) *)
Definition c01_cart_agree (c : list sphere * loc_case) : bool :=
  let '(ds, lc) := c in
  bools_eqb (mask_emulsion (lc_grid lc) ds) (lab_mask (lc_lab lc)) && loc_agree lc.

Definition c01_rad_agree (c : Q * rad_case) : bool :=
  let '(R, rc) := c in
  bools_eqb (radial_mask (rd_lo rc) (rd_dr rc) R (length (rd_mask rc))) (rd_mask rc) && rad_agree rc.

Definition c01_cyl_agree (c : list (Q * Q) * cyl_case) : bool :=
  let '(ds, cc) := c in
  bools_eqb (cyl_mask (cy_grid cc) ds) (lab_mask (cy_lab cc)) && cyl_agree cc.
