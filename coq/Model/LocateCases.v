(* Executable glue for the C02/C01 correspondence (Cartesian grids). *)
From Coq Require Import QArith Qabs ZArith List Arith Bool.
Import ListNotations.
From PD Require Import Model.Grid Model.MergeLoop Model.Locate Model.Overlap Model.OverlapCases.
Local Open Scope Q_scope.

Record loc_case := {
  lc_grid : grid;
  lc_lab : list nat;                       (* scipy's label image, raster order *)
  lc_cands : list (list Q * Q);            (* implementation: candidates before overlap removal *)
  lc_rad : list Q;                         (* their radii *)
  lc_D : list (list Q);                    (* surface-distance matrix the implementation computed *)
  lc_out : list nat                        (* indices of the candidates that were returned *)
}.

Fixpoint vec_close (a b : list Q) (tol : Q) : bool :=
  match a, b with
  | [], [] => true
  | x :: a', y :: b' => close_rel x y tol && vec_close a' b' tol
  | _, _ => false
  end.

(* positions are compared modulo the period along periodic axes: a float centre of mass that is
   an ulp below the lower bound is wrapped to (an ulp below) the upper bound by normalize_point *)
Fixpoint pos_close (g : grid) (p q : list Q) (tol : Q) : bool :=
  match g, p, q with
  | [], [], [] => true
  | a :: g', x :: p', y :: q' =>
      Qle_bool (Qabs (diff1 a x y)) (tol * (Qabs x + Qabs y + Qabs (asize a) + 1)) && pos_close g' p' q' tol
  | _, _, _ => false
  end.

Fixpoint cands_close (g : grid) (a b : list (list Q * Q)) : bool :=
  match a, b with
  | [], [] => true
  | (p, v) :: a', (q, w) :: b' =>
      pos_close g p q (1 # 1000000000000) && close_rel v w (1 # 1000000000000) && cands_close g a' b'
  | _, _ => false
  end.

Definition loc_agree (c : loc_case) : bool :=
  cands_close (lc_grid c) (candidates (lc_grid c) (lc_lab c)) (lc_cands c) &&
  list_eqb (ro (tbl (lc_D c)) (vec (lc_rad c)) 0 (seq 0 (length (lc_rad c)))) (lc_out c).
