(* Executable glue for the C10 correspondence: compares the implementation's recorded
   results with the model inside Coq (vm_compute). *)
From Coq Require Import QArith Qabs List Arith Bool ZArith.
Import ListNotations.
From PD Require Import Model.Overlap Model.Grid.
Local Open Scope Q_scope.

Definition tbl (t : list (list Q)) (i j : nat) : Q := nth j (nth i t []) 0.
Definition vec (v : list Q) (i : nat) : Q := nth i v 0.

Fixpoint list_eqb (a b : list nat) : bool :=
  match a, b with
  | [], [] => true
  | x :: a', y :: b' => Nat.eqb x y && list_eqb a' b'
  | _, _ => false
  end.

Record ro_case := { rc_md : Q; rc_rad : list Q; rc_D : list (list Q); rc_out : list nat }.

(* the recorded matrix must have the shape n x n (a short row would otherwise read as distance 0) *)
Definition square (t : list (list Q)) (n : nat) : bool :=
  Nat.eqb (length t) n && forallb (fun r => Nat.eqb (length r) n) t.

Definition ro_agree (c : ro_case) : bool :=
  square (rc_D c) (length (rc_rad c)) &&
  list_eqb (ro (tbl (rc_D c)) (vec (rc_rad c)) (rc_md c) (seq 0 (length (rc_rad c)))) (rc_out c).

(* remove_small / copy(min_radius): survivors of the filter radius > min_radius *)
Record rs_case := { rs_mn : Q; rs_rad : list Q; rs_out : list nat }.
Definition rs_agree (c : rs_case) : bool :=
  list_eqb (remove_small (vec (rs_rad c)) (rs_mn c) (seq 0 (length (rs_rad c)))) (rs_out c).

(* distance matrix (without radii) against the grid model: M_ij^2 = dist2 up to sqrt rounding.
   `unit` is the square of the length scale of the case (1 for inputs of order one), so that the absolute part of the
   tolerance scales with the input and the comparison stays meaningful for very small / very large emulsions. *)
Definition close_rel (a b tol : Q) : bool :=
  Qle_bool (Qabs (a - b)) (tol * (Qabs a + Qabs b + 1)).

Definition close_rel_unit (a b tol unit : Q) : bool :=
  Qle_bool (Qabs (a - b)) (tol * (Qabs a + Qabs b + unit)).

(* Metrics of the non-Cartesian grids as py-pde 0.58.0 computes `grid.distance(p, q, coords="cartesian")`:
   GridBase._difference_vector loops over the periodicity list of the GRID axes and wraps the Cartesian component with
   the same index.  CylindricalSymGrid has grid axes (r, z): x is never wrapped (r is not periodic), the Cartesian *y*
   component is wrapped with the z period when periodic_z is set, the Cartesian z component is never wrapped (finding
   F19).  Polar / spherical grids (any inner radius) use the plain Euclidean difference. *)
Definition plain_axis : axis := {| ncell := 1; alo := 0; ahi := 1; aper := false |}.

Definition cyl_metric (nr nz : Z) (R z0 z1 : Q) (pz : bool) : grid :=
  [ {| ncell := nr; alo := 0; ahi := R; aper := false |};
    {| ncell := nz; alo := z0; ahi := z1; aper := pz |};
    plain_axis ].

Definition sym_metric (dim : nat) : grid := repeat plain_axis dim.

Record dist_case := { dc_grid : option grid; dc_unit : Q; dc_pos : list (list Q); dc_M : list (list Q) }.

Definition model_d2 (c : dist_case) (i j : nat) : Q :=
  let p := nth i (dc_pos c) [] in let q := nth j (dc_pos c) [] in
  match dc_grid c with Some g => dist2 g p q | None => edist2 p q end.

(* upper triangle against the model; the lower triangle must repeat the upper one exactly, the diagonal is 0 *)
Definition dist_agree (c : dist_case) : bool :=
  let n := length (dc_pos c) in
  square (dc_M c) n &&
  forallb (fun i => forallb (fun j =>
    let m := tbl (dc_M c) i j in
    if Nat.ltb i j then close_rel_unit (m * m) (model_d2 c i j) (1 # 1000000000000) (dc_unit c)
    else if Nat.eqb i j then Qeq_bool m 0
    else Qeq_bool m (tbl (dc_M c) j i))
    (seq 0 n)) (seq 0 n).
