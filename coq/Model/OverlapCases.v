(* Executable glue for the C10 correspondence: compares the implementation's recorded
   results with the model inside Coq (vm_compute). *)
From Coq Require Import QArith Qabs List Arith Bool ZArith.
Import ListNotations.
From PD Require Import Model.Overlap Model.Grid.
Local Open Scope Q_scope.

Definition tbl (t : list (list Q)) (i j : nat) : Q := nth j (nth i t []) 0.
Definition vec (v : list Q) (i : nat) : Q := nth i v 0.

Fixpoint list_eqb (a b : list nat) : bool :=
  match a, b with
  | [], [] => true
  | x :: a', y :: b' => Nat.eqb x y && list_eqb a' b'
  | _, _ => false
  end.

Record ro_case := { rc_md : Q; rc_rad : list Q; rc_D : list (list Q); rc_out : list nat }.

Definition ro_agree (c : ro_case) : bool :=
  list_eqb (ro (tbl (rc_D c)) (vec (rc_rad c)) (rc_md c) (seq 0 (length (rc_rad c)))) (rc_out c).

(* remove_small / copy(min_radius): survivors of the filter radius > min_radius *)
Record rs_case := { rs_mn : Q; rs_rad : list Q; rs_out : list nat }.
Definition rs_agree (c : rs_case) : bool :=
  list_eqb (remove_small (vec (rs_rad c)) (rs_mn c) (seq 0 (length (rs_rad c)))) (rs_out c).

(* distance matrix (without radii) against the grid model: M_ij^2 = dist2 up to sqrt rounding *)
Definition close_rel (a b tol : Q) : bool :=
  Qle_bool (Qabs (a - b)) (tol * (Qabs a + Qabs b + 1)).

Record dist_case := { dc_grid : option grid; dc_pos : list (list Q); dc_M : list (list Q) }.

Definition model_d2 (c : dist_case) (i j : nat) : Q :=
  let p := nth i (dc_pos c) [] in let q := nth j (dc_pos c) [] in
  match dc_grid c with Some g => dist2 g p q | None => edist2 p q end.

Definition dist_agree (c : dist_case) : bool :=
  let n := length (dc_pos c) in
  forallb (fun i => forallb (fun j =>
    let m := tbl (dc_M c) i j in
    close_rel (m * m) (if Nat.eqb i j then 0 else model_d2 c i j) (1 # 1000000000000))
    (seq 0 n)) (seq 0 n).
