(* C03, D-layer: the sharp image of a sphere / an emulsion on a Cartesian grid of any dimension, as
   `SphericalDroplet._get_phase_field(grid, dtype=bool)` computes it through
   `polar_coordinates` -> `grid.difference_vector(origin, cell_coords)` -> `norm(diff) < radius`,
   over exact rationals.  The comparison through the square root is modelled on squares
   (DESIGN.md 2.1(2)):  norm(diff) < r  <->  0 <= r /\ |diff|^2 < r^2  (for r < 0 never inside).
   Also: translation / roll of cell indices, and the angle computation of `polar_coordinates`
   as a partial function (None = the value numpy would make NaN). *)
From Coq Require Import ZArith QArith Qround List Bool.
From PD Require Import Model.Grid.
Import ListNotations.
Local Open Scope Q_scope.

Definition Qlt_bool (x y : Q) : bool := negb (Qle_bool y x).

(* cell `idx` of grid `g` lies inside the sphere of centre `c` (Cartesian coordinates) and radius `r` *)
Definition inside (g : grid) (c : list Q) (r : Q) (idx : list Z) : bool :=
  Qle_bool 0 r && Qlt_bool (dist2 g c (cell_centre g idx)) (r * r).

(* the boolean image in C order (last axis fastest), as `.data.ravel()` *)
Definition mask_sphere (g : grid) (c : list Q) (r : Q) : list bool :=
  map (inside g c r) (all_cells (gshape g)).

(* an emulsion of sharp droplets: clip(sum of 0/1 fields, 0, 1) > 1/2  =  cellwise OR *)
Definition sphere := (list Q * Q)%type.
Definition inside_any (g : grid) (ds : list sphere) (idx : list Z) : bool :=
  existsb (fun d => inside g (fst d) (snd d) idx) ds.
Definition mask_emulsion (g : grid) (ds : list sphere) : list bool :=
  map (inside_any g ds) (all_cells (gshape g)).

(* a cell index of the grid *)
Fixpoint in_range (g : grid) (idx : list Z) : Prop :=
  match g, idx with
  | [], [] => True
  | a :: g', i :: idx' => (0 <= i < ncell a)%Z /\ in_range g' idx'
  | _, _ => False
  end.

(* translate a point by `delta` along axis number `ax` *)
Fixpoint shift_at (ax : nat) (delta : Q) (c : list Q) : list Q :=
  match c, ax with
  | [], _ => []
  | x :: c', O => (x + delta) :: c'
  | x :: c', S ax' => x :: shift_at ax' delta c'
  end.

(* the cell from which `np.roll(field, k, axis=ax)` takes the value of cell `idx`:
   roll(f, k)[i] = f[(i - k) mod N] *)
Fixpoint roll_at (g : grid) (ax : nat) (k : Z) (idx : list Z) : list Z :=
  match g, idx, ax with
  | a :: _, i :: idx', O => ((i - k) mod ncell a)%Z :: idx'
  | _ :: g', i :: idx', S ax' => i :: roll_at g' ax' k idx'
  | _, _, _ => idx
  end.

Definition rolled_mask_sphere (g : grid) (ax : nat) (k : Z) (c : list Q) (r : Q) : list bool :=
  map (fun idx => inside g c r (roll_at g ax k idx)) (all_cells (gshape g)).

(* ---- angles of polar_coordinates ----
   1-d: np.sign(diff); 2-d: np.arctan2(dy, dx) (total, also at (0,0));
   3-d: cos_theta = np.divide(dz, dist, out=ones, where=dist > 0), theta = arccos(cos_theta),
        phi = arctan2(dy, dx).
   A float quotient with zero divisor is not a number: Qdiv_opt returns None there. *)
Definition Qdiv_opt (a b : Q) : option Q := if Qeq_bool b 0 then None else Some (a / b).

Definition cos_theta (dz dist : Q) : option Q :=
  if Qlt_bool 0 dist then Qdiv_opt dz dist else Some 1.

(* what the code did before the guard was added (kept for the record of the defect it exposed) *)
Definition cos_theta_unguarded (dz dist : Q) : option Q := Qdiv_opt dz dist.

Inductive angles :=
| Sign1 (s : Z)                      (* 1-d: -1, 0, 1 *)
| Polar2 (dy dx : Q)                 (* 2-d: arguments handed to the total arctan2 *)
| Spher3 (cos_th : Q) (dy dx : Q).   (* 3-d: argument of arccos, arguments of arctan2 *)

Definition Qsign (x : Q) : Z := Z.sgn (Qnum x).

(* None: not-a-number (3-d) or NotImplementedError (dimension outside 1..3) *)
Definition polar_angles (diff : list Q) (dist : Q) : option angles :=
  match diff with
  | [d] => Some (Sign1 (Qsign d))
  | [dx; dy] => Some (Polar2 dy dx)
  | [dx; dy; dz] =>
      match cos_theta dz dist with
      | Some ct => Some (Spher3 ct dy dx)
      | None => None
      end
  | _ => None
  end.

Definition angles_ok (a : angles) : Prop :=
  match a with
  | Sign1 s => (-1 <= s <= 1)%Z
  | Polar2 _ _ => True
  | Spher3 ct _ _ => -1 <= ct /\ ct <= 1
  end.
