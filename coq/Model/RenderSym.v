(* Sharp images of centred / on-axis spheres on grids with symmetry axes (as SphericalDroplet
   ._get_phase_field computes them through polar_coordinates), over exact rationals.
   Radial grids (inner radius r_lo): cell i has centre r_lo + (i + 1/2) dr; a droplet at the origin covers it
   iff that radius is < R.  Cylindrical grids: cell (i, j) has centre ((i + 1/2) dr, z_lo + (j + 1/2) dz);
   py-pde 0.58.0 never wraps z (F19), so the same formula holds on periodic cylinders. *)
From Coq Require Import QArith ZArith List Bool.
Import ListNotations.
From PD Require Import Model.Grid Model.Render Model.LocateSym.
Local Open Scope Q_scope.

Definition radial_centre (r_lo dr : Q) (i : nat) : Q := r_lo + (inject_Z (Z.of_nat i) + (1 # 2)) * dr.

Definition radial_mask (r_lo dr R : Q) (n : nat) : list bool :=
  map (fun i => Qle_bool 0 R && Qlt_bool (radial_centre r_lo dr i * radial_centre r_lo dr i) (R * R)) (seq 0 n).

Definition cyl_inside (g : cylgrid) (c R : Q) (i j : Z) : bool :=
  let r := (inject_Z i + (1 # 2)) * cg_dr g in
  let z := cg_zlo g + (inject_Z j + (1 # 2)) * cg_dz g in
  Qle_bool 0 R && Qlt_bool (r * r + (z - c) * (z - c)) (R * R).

(* raster order: r index slow, z index fast *)
Definition cyl_mask (g : cylgrid) (ds : list (Q * Q)) : list bool :=
  map (fun idx => existsb (fun d => cyl_inside g (fst d) (snd d) (nth 0 idx 0%Z) (nth 1 idx 0%Z)) ds)
      (all_cells [cg_nr g; cg_nz g]).
