(* C09 -- "never aborts": definitions used by the call-site precondition theorems (Proofs/C09.v) and by the
   error-kind correspondence (harness/props/C09.py).  Definitions only.

   The pipeline models return explicit error values where the code raises:
     Gen_analysis.modes_guard / Model.Request.locate_unrefined : RaiseValueError (modes > 0 in 1-d)
     Gen_shapes.render_guard                                   : Some ValueError  (droplet / grid dimension mismatch)
     Model.LocateSym.cyl_single                                : Spanning         (_SpanningDropletSignal, internal)
     Model.Tracking.track_all                                  : Err _            (cdist / argmin / index preconditions)
     Model.Refine.refine                                       : RErr _           (least_squares preconditions, empty region)
   and every division of the locate models is by a quantity that has to be shown non-zero. *)
From Coq Require Import QArith ZArith List Bool.
Import ListNotations.
From PD Require Import Model.Grid Model.Locate Model.LocateSym Model.Tracking Gen.Gen_analysis Gen.Gen_shapes
  Model.Request.
Local Open Scope Q_scope.

(* ---- cylindrical grids ---- *)
(* the label image of the mask itself (not of the 3x padded copy): every z index lies below grid.shape[1] *)
Definition unpadded (g : cylgrid) (img : limage) : Prop :=
  forall c l, In (c, l) img -> (zidx c < cg_nz g)%Z.

(* radial cell indices are not negative (array indices) *)
Definition r_nonneg (img : limage) : Prop := forall c l, In (c, l) img -> (0 <= ridx c)%Z.

(* a CylindricalSymGrid: positive shape, positive radius, z_lo < z_hi *)
Definition cyl_ok (g : cylgrid) : Prop :=
  (0 < cg_nr g)%Z /\ (0 < cg_nz g)%Z /\ 0 < cg_R g /\ cg_zlo g < cg_zhi g.

(* ---- the documented errors: one enumeration for both public entry points ---- *)
Inductive documented_error := ModesInOneDimension | DimensionMismatch.

(* locate_droplets: which error (if any) the request itself produces, before looking at the field *)
Definition locate_error (r : request) : option documented_error :=
  if modes_guard (rq_dim r) (modes_pos r) then Some ModesInOneDimension else None.

(* get_phase_field / _get_phase_field / Emulsion.get_phasefield *)
Definition render_error_of (droplet_dim grid_dim : Z) : option documented_error :=
  match render_guard droplet_dim grid_dim with Some ValueError => Some DimensionMismatch | None => None end.

(* ---- error-kind correspondence (Cases files): observed outcome of one call ---- *)
Inductive observed := ObsOk | ObsValueError | ObsOther.

Definition observed_eqb (a b : observed) : bool :=
  match a, b with ObsOk, ObsOk | ObsValueError, ObsValueError | ObsOther, ObsOther => true | _, _ => false end.

Definition expected_of (e : option documented_error) : observed :=
  match e with Some _ => ObsValueError | None => ObsOk end.

Inductive call :=
| CallLocate (dim modes : Z)              (* locate_droplets on a grid of dimension dim with `modes` modes *)
| CallRender (droplet_dim grid_dim : Z)   (* rendering a droplet on a grid *)
| CallTrack (distance : bool) (cutoff : option Q) (frames : list frame).   (* from_emulsion_time_course *)

Definition model_outcome (c : call) : observed :=
  match c with
  | CallLocate dim modes => if modes_guard dim (Z.ltb 0 modes) then ObsValueError else ObsOk
  | CallRender dd gd => expected_of (render_error_of dd gd)
  | CallTrack distance cutoff frames =>
      (* totality does not depend on the overlap relation / distance table: any instance will do *)
      let m := if distance then MDistance (fun _ _ => 1) cutoff else MOverlap (fun _ _ => false) in
      match track_all m frames with Ok _ => ObsOk | Err _ => ObsOther end
  end.

Definition outcome_agree (c : call * observed) : bool := observed_eqb (model_outcome (fst c)) (snd c).
