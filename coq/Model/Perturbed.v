(* Hand-written part of the perturbed-droplet model (C13): loop combinators used by the generated
   definitions (Gen_perturbed) and the reference series / exact curvature the theorems compare
   them with.  Definitions only. *)
From Coq Require Import Reals List.
Import ListNotations.
Local Open Scope R_scope.

(* `for n, x in enumerate(seq, n0): acc = step(n, x, acc)`  -- a left fold that carries the index *)
Fixpoint fold_modes {X A : Type} (f : nat -> X -> A -> A) (n : nat) (l : list X) (acc : A) : A :=
  match l with
  | [] => acc
  | x :: l' => fold_modes f (S n) l' (f n x acc)
  end.

(* the flat amplitude array [a1; b1; a2; b2; ...] behind a list of (sin, cos) pairs
   (`iterate_in_pairs` re-creates the pairs, filling a missing last entry with 0) *)
Definition flat_amps (l : list (R * R)) : list R := flat_map (fun ab => [fst ab; snd ab]) l.
Definition sum_list (l : list R) : R := fold_right Rplus 0 l.

(* sum_{k < N} f k   (np.linspace(0, 2 pi, N, endpoint=False) quadratures) *)
Fixpoint sum_below (N : nat) (f : nat -> R) : R :=
  match N with
  | O => 0
  | S k => sum_below k f + f k
  end.

(* ---- 2-d reference: weighted harmonic series  sum_n w(n) (a_n sin n phi + b_n cos n phi) ---- *)
Definition term2 (phi : R) (n : nat) (ab : R * R) : R :=
  fst ab * sin (INR n * phi) + snd ab * cos (INR n * phi).

(* d/dphi of term2 *)
Definition dterm2 (phi : R) (n : nat) (ab : R * R) : R :=
  INR n * (fst ab * cos (INR n * phi) - snd ab * sin (INR n * phi)).

Fixpoint series2 (w : nat -> R) (phi : R) (n : nat) (l : list (R * R)) : R :=
  match l with
  | [] => 0
  | ab :: l' => w n * term2 phi n ab + series2 w phi (S n) l'
  end.

Fixpoint dseries2 (w : nat -> R) (phi : R) (n : nat) (l : list (R * R)) : R :=
  match l with
  | [] => 0
  | ab :: l' => w n * dterm2 phi n ab + dseries2 w phi (S n) l'
  end.

Definition w_one (n : nat) : R := 1.
Definition w_curv (n : nat) : R := INR n * INR n - 1.      (* n^2 - 1 *)
Definition w_sq (n : nat) : R := INR n * INR n.            (* n^2 *)

Definition sumsq (l : list (R * R)) : R :=
  fold_right (fun ab acc => fst ab * fst ab + snd ab * snd ab + acc) 0 l.

Definition scale2 (e : R) (l : list (R * R)) : list (R * R) :=
  map (fun ab => (e * fst ab, e * snd ab)) l.

(* exact curvature of the planar curve r(phi) in polar coordinates, r1 = r', r2 = r'';
   (r^2 + r'^2)^(3/2) is written x * sqrt x *)
Definition kappa_polar (r r1 r2 : R) : R :=
  (r ^ 2 + 2 * r1 ^ 2 - r * r2) / ((r ^ 2 + r1 ^ 2) * sqrt (r ^ 2 + r1 ^ 2)).

(* signed curvature of a parametrised planar curve from its first and second derivatives *)
Definition kappa_param (x1 y1 x2 y2 : R) : R :=
  (x1 * y2 - y1 * x2) / ((x1 ^ 2 + y1 ^ 2) * sqrt (x1 ^ 2 + y1 ^ 2)).

(* ---- 3-d reference: sum_k a_k w(k) Y_k, the harmonics Y being an oracle ---- *)
Fixpoint series3 (w : nat -> R) (Y : nat -> R) (n : nat) (l : list R) : R :=
  match l with
  | [] => 0
  | a :: l' => a * w n * Y n + series3 w Y (S n) l'
  end.

Definition scale3 (e : R) (l : list R) : list R := map (fun a => e * a) l.

(* pointwise sum of two amplitude vectors of the same length *)
Fixpoint add3 (l1 l2 : list R) : list R :=
  match l1, l2 with
  | a :: l1', b :: l2' => (a + b) :: add3 l1' l2'
  | _, _ => []
  end.

(* ---- closed forms of the real spherical harmonics the code uses, degree <= 4 (mode index k =
   l (l + 1) + m as in spherical_index_k / spherical_index_lm; k = 0 is the constant mode, which
   the droplet classes skip), and of the axisymmetric harmonics Y_l0, degree <= 4.
   Yreal k = Nreal k * Pshape k: normalisation constant times an unnormalised trigonometric shape;
   Pshape_t, _p, _tt, _tp, _pp are its partial derivatives in theta / phi (proved in
   Proofs/PerturbedHarm.v).  The closed forms are tied to the library's harmonics
   (scipy sph_harm_y behind spherical_harmonic_real_k / spherical_harmonic_symmetric) by interval
   sample goals on every run. ---- *)
Definition Pshape (k : nat) (theta phi : R) : R :=
  match k with
  | 0%nat => 1
  | 1%nat => (sin phi * sin theta)
  | 2%nat => cos theta
  | 3%nat => (cos phi * sin theta)
  | 4%nat => ((sin theta ^ 2) * sin ((2 * phi)))
  | 5%nat => (cos theta * sin phi * sin theta)
  | 6%nat => ((-1) + (3 * (cos theta ^ 2)))
  | 7%nat => (cos phi * cos theta * sin theta)
  | 8%nat => ((sin theta ^ 2) * cos ((2 * phi)))
  | 9%nat => ((sin theta ^ 3) * sin ((3 * phi)))
  | 10%nat => ((sin theta ^ 2) * cos theta * sin ((2 * phi)))
  | 11%nat => (((-1) * sin phi * sin theta) + (5 * (cos theta ^ 2) * sin phi * sin theta))
  | 12%nat => (((-3) * cos theta) + (5 * (cos theta ^ 3)))
  | 13%nat => (((-1) * cos phi * sin theta) + (5 * (cos theta ^ 2) * cos phi * sin theta))
  | 14%nat => ((sin theta ^ 2) * cos theta * cos ((2 * phi)))
  | 15%nat => ((sin theta ^ 3) * cos ((3 * phi)))
  | 16%nat => ((sin theta ^ 4) * sin ((4 * phi)))
  | 17%nat => ((sin theta ^ 3) * cos theta * sin ((3 * phi)))
  | 18%nat => (((-1) * (sin theta ^ 2) * sin ((2 * phi))) + (7 * (cos theta ^ 2) * (sin theta ^ 2) * sin ((2 * phi))))
  | 19%nat => (((-3) * cos theta * sin phi * sin theta) + (7 * (cos theta ^ 3) * sin phi * sin theta))
  | 20%nat => (3 + ((-30) * (cos theta ^ 2)) + (35 * (cos theta ^ 4)))
  | 21%nat => (((-3) * cos phi * cos theta * sin theta) + (7 * (cos theta ^ 3) * cos phi * sin theta))
  | 22%nat => (((-1) * (sin theta ^ 2) * cos ((2 * phi))) + (7 * (cos theta ^ 2) * (sin theta ^ 2) * cos ((2 * phi))))
  | 23%nat => ((sin theta ^ 3) * cos theta * cos ((3 * phi)))
  | 24%nat => ((sin theta ^ 4) * cos ((4 * phi)))
  | _ => 0
  end.

Definition Pshape_t (k : nat) (theta phi : R) : R :=
  match k with
  | 0%nat => 0
  | 1%nat => (cos theta * sin phi)
  | 2%nat => ((-1) * sin theta)
  | 3%nat => (cos phi * cos theta)
  | 4%nat => (2 * cos theta * sin theta * sin ((2 * phi)))
  | 5%nat => (((cos theta ^ 2) * sin phi) + ((-1) * (sin theta ^ 2) * sin phi))
  | 6%nat => ((-6) * cos theta * sin theta)
  | 7%nat => (((cos theta ^ 2) * cos phi) + ((-1) * (sin theta ^ 2) * cos phi))
  | 8%nat => (2 * cos theta * cos ((2 * phi)) * sin theta)
  | 9%nat => (3 * (sin theta ^ 2) * cos theta * sin ((3 * phi)))
  | 10%nat => (((-1) * (sin theta ^ 3) * sin ((2 * phi))) + (2 * (cos theta ^ 2) * sin theta * sin ((2 * phi))))
  | 11%nat => (((-1) * cos theta * sin phi) + (5 * (cos theta ^ 3) * sin phi) + ((-10) * (sin theta ^ 2) * cos theta * sin phi))
  | 12%nat => ((3 * sin theta) + ((-15) * (cos theta ^ 2) * sin theta))
  | 13%nat => (((-1) * cos phi * cos theta) + (5 * (cos theta ^ 3) * cos phi) + ((-10) * (sin theta ^ 2) * cos phi * cos theta))
  | 14%nat => (((-1) * (sin theta ^ 3) * cos ((2 * phi))) + (2 * (cos theta ^ 2) * cos ((2 * phi)) * sin theta))
  | 15%nat => (3 * (sin theta ^ 2) * cos theta * cos ((3 * phi)))
  | 16%nat => (4 * (sin theta ^ 3) * cos theta * sin ((4 * phi)))
  | 17%nat => (((-1) * (sin theta ^ 4) * sin ((3 * phi))) + (3 * (cos theta ^ 2) * (sin theta ^ 2) * sin ((3 * phi))))
  | 18%nat => (((-14) * (sin theta ^ 3) * cos theta * sin ((2 * phi))) + ((-2) * cos theta * sin theta * sin ((2 * phi))) + (14 * (cos theta ^ 3) * sin theta * sin ((2 * phi))))
  | 19%nat => (((-3) * (cos theta ^ 2) * sin phi) + (3 * (sin theta ^ 2) * sin phi) + (7 * (cos theta ^ 4) * sin phi) + ((-21) * (cos theta ^ 2) * (sin theta ^ 2) * sin phi))
  | 20%nat => (((-140) * (cos theta ^ 3) * sin theta) + (60 * cos theta * sin theta))
  | 21%nat => (((-3) * (cos theta ^ 2) * cos phi) + (3 * (sin theta ^ 2) * cos phi) + (7 * (cos theta ^ 4) * cos phi) + ((-21) * (cos theta ^ 2) * (sin theta ^ 2) * cos phi))
  | 22%nat => (((-14) * (sin theta ^ 3) * cos theta * cos ((2 * phi))) + ((-2) * cos theta * cos ((2 * phi)) * sin theta) + (14 * (cos theta ^ 3) * cos ((2 * phi)) * sin theta))
  | 23%nat => (((-1) * (sin theta ^ 4) * cos ((3 * phi))) + (3 * (cos theta ^ 2) * (sin theta ^ 2) * cos ((3 * phi))))
  | 24%nat => (4 * (sin theta ^ 3) * cos theta * cos ((4 * phi)))
  | _ => 0
  end.

Definition Pshape_p (k : nat) (theta phi : R) : R :=
  match k with
  | 0%nat => 0
  | 1%nat => (cos phi * sin theta)
  | 2%nat => 0
  | 3%nat => ((-1) * sin phi * sin theta)
  | 4%nat => (2 * (sin theta ^ 2) * cos ((2 * phi)))
  | 5%nat => (cos phi * cos theta * sin theta)
  | 6%nat => 0
  | 7%nat => ((-1) * cos theta * sin phi * sin theta)
  | 8%nat => ((-2) * (sin theta ^ 2) * sin ((2 * phi)))
  | 9%nat => (3 * (sin theta ^ 3) * cos ((3 * phi)))
  | 10%nat => (2 * (sin theta ^ 2) * cos theta * cos ((2 * phi)))
  | 11%nat => (((-1) * cos phi * sin theta) + (5 * (cos theta ^ 2) * cos phi * sin theta))
  | 12%nat => 0
  | 13%nat => ((sin phi * sin theta) + ((-5) * (cos theta ^ 2) * sin phi * sin theta))
  | 14%nat => ((-2) * (sin theta ^ 2) * cos theta * sin ((2 * phi)))
  | 15%nat => ((-3) * (sin theta ^ 3) * sin ((3 * phi)))
  | 16%nat => (4 * (sin theta ^ 4) * cos ((4 * phi)))
  | 17%nat => (3 * (sin theta ^ 3) * cos theta * cos ((3 * phi)))
  | 18%nat => (((-2) * (sin theta ^ 2) * cos ((2 * phi))) + (14 * (cos theta ^ 2) * (sin theta ^ 2) * cos ((2 * phi))))
  | 19%nat => (((-3) * cos phi * cos theta * sin theta) + (7 * (cos theta ^ 3) * cos phi * sin theta))
  | 20%nat => 0
  | 21%nat => (((-7) * (cos theta ^ 3) * sin phi * sin theta) + (3 * cos theta * sin phi * sin theta))
  | 22%nat => ((2 * (sin theta ^ 2) * sin ((2 * phi))) + ((-14) * (cos theta ^ 2) * (sin theta ^ 2) * sin ((2 * phi))))
  | 23%nat => ((-3) * (sin theta ^ 3) * cos theta * sin ((3 * phi)))
  | 24%nat => ((-4) * (sin theta ^ 4) * sin ((4 * phi)))
  | _ => 0
  end.

Definition Pshape_tt (k : nat) (theta phi : R) : R :=
  match k with
  | 0%nat => 0
  | 1%nat => ((-1) * sin phi * sin theta)
  | 2%nat => ((-1) * cos theta)
  | 3%nat => ((-1) * cos phi * sin theta)
  | 4%nat => (((-2) * (sin theta ^ 2) * sin ((2 * phi))) + (2 * (cos theta ^ 2) * sin ((2 * phi))))
  | 5%nat => ((-4) * cos theta * sin phi * sin theta)
  | 6%nat => (((-6) * (cos theta ^ 2)) + (6 * (sin theta ^ 2)))
  | 7%nat => ((-4) * cos phi * cos theta * sin theta)
  | 8%nat => (((-2) * (sin theta ^ 2) * cos ((2 * phi))) + (2 * (cos theta ^ 2) * cos ((2 * phi))))
  | 9%nat => (((-3) * (sin theta ^ 3) * sin ((3 * phi))) + (6 * (cos theta ^ 2) * sin theta * sin ((3 * phi))))
  | 10%nat => ((2 * (cos theta ^ 3) * sin ((2 * phi))) + ((-7) * (sin theta ^ 2) * cos theta * sin ((2 * phi))))
  | 11%nat => ((sin phi * sin theta) + (10 * (sin theta ^ 3) * sin phi) + ((-35) * (cos theta ^ 2) * sin phi * sin theta))
  | 12%nat => (((-15) * (cos theta ^ 3)) + (3 * cos theta) + (30 * (sin theta ^ 2) * cos theta))
  | 13%nat => ((cos phi * sin theta) + (10 * (sin theta ^ 3) * cos phi) + ((-35) * (cos theta ^ 2) * cos phi * sin theta))
  | 14%nat => ((2 * (cos theta ^ 3) * cos ((2 * phi))) + ((-7) * (sin theta ^ 2) * cos theta * cos ((2 * phi))))
  | 15%nat => (((-3) * (sin theta ^ 3) * cos ((3 * phi))) + (6 * (cos theta ^ 2) * cos ((3 * phi)) * sin theta))
  | 16%nat => (((-4) * (sin theta ^ 4) * sin ((4 * phi))) + (12 * (cos theta ^ 2) * (sin theta ^ 2) * sin ((4 * phi))))
  | 17%nat => (((-10) * (sin theta ^ 3) * cos theta * sin ((3 * phi))) + (6 * (cos theta ^ 3) * sin theta * sin ((3 * phi))))
  | 18%nat => (((-2) * (cos theta ^ 2) * sin ((2 * phi))) + (2 * (sin theta ^ 2) * sin ((2 * phi))) + (14 * (cos theta ^ 4) * sin ((2 * phi))) + (14 * (sin theta ^ 4) * sin ((2 * phi))) + ((-84) * (cos theta ^ 2) * (sin theta ^ 2) * sin ((2 * phi))))
  | 19%nat => (((-70) * (cos theta ^ 3) * sin phi * sin theta) + (12 * cos theta * sin phi * sin theta) + (42 * (sin theta ^ 3) * cos theta * sin phi))
  | 20%nat => (((-140) * (cos theta ^ 4)) + ((-60) * (sin theta ^ 2)) + (60 * (cos theta ^ 2)) + (420 * (cos theta ^ 2) * (sin theta ^ 2)))
  | 21%nat => (((-70) * (cos theta ^ 3) * cos phi * sin theta) + (12 * cos phi * cos theta * sin theta) + (42 * (sin theta ^ 3) * cos phi * cos theta))
  | 22%nat => (((-2) * (cos theta ^ 2) * cos ((2 * phi))) + (2 * (sin theta ^ 2) * cos ((2 * phi))) + (14 * (cos theta ^ 4) * cos ((2 * phi))) + (14 * (sin theta ^ 4) * cos ((2 * phi))) + ((-84) * (cos theta ^ 2) * (sin theta ^ 2) * cos ((2 * phi))))
  | 23%nat => (((-10) * (sin theta ^ 3) * cos theta * cos ((3 * phi))) + (6 * (cos theta ^ 3) * cos ((3 * phi)) * sin theta))
  | 24%nat => (((-4) * (sin theta ^ 4) * cos ((4 * phi))) + (12 * (cos theta ^ 2) * (sin theta ^ 2) * cos ((4 * phi))))
  | _ => 0
  end.

Definition Pshape_tp (k : nat) (theta phi : R) : R :=
  match k with
  | 0%nat => 0
  | 1%nat => (cos phi * cos theta)
  | 2%nat => 0
  | 3%nat => ((-1) * cos theta * sin phi)
  | 4%nat => (4 * cos theta * cos ((2 * phi)) * sin theta)
  | 5%nat => (((cos theta ^ 2) * cos phi) + ((-1) * (sin theta ^ 2) * cos phi))
  | 6%nat => 0
  | 7%nat => (((sin theta ^ 2) * sin phi) + ((-1) * (cos theta ^ 2) * sin phi))
  | 8%nat => ((-4) * cos theta * sin theta * sin ((2 * phi)))
  | 9%nat => (9 * (sin theta ^ 2) * cos theta * cos ((3 * phi)))
  | 10%nat => (((-2) * (sin theta ^ 3) * cos ((2 * phi))) + (4 * (cos theta ^ 2) * cos ((2 * phi)) * sin theta))
  | 11%nat => (((-1) * cos phi * cos theta) + (5 * (cos theta ^ 3) * cos phi) + ((-10) * (sin theta ^ 2) * cos phi * cos theta))
  | 12%nat => 0
  | 13%nat => ((cos theta * sin phi) + ((-5) * (cos theta ^ 3) * sin phi) + (10 * (sin theta ^ 2) * cos theta * sin phi))
  | 14%nat => ((2 * (sin theta ^ 3) * sin ((2 * phi))) + ((-4) * (cos theta ^ 2) * sin theta * sin ((2 * phi))))
  | 15%nat => ((-9) * (sin theta ^ 2) * cos theta * sin ((3 * phi)))
  | 16%nat => (16 * (sin theta ^ 3) * cos theta * cos ((4 * phi)))
  | 17%nat => (((-3) * (sin theta ^ 4) * cos ((3 * phi))) + (9 * (cos theta ^ 2) * (sin theta ^ 2) * cos ((3 * phi))))
  | 18%nat => (((-28) * (sin theta ^ 3) * cos theta * cos ((2 * phi))) + ((-4) * cos theta * cos ((2 * phi)) * sin theta) + (28 * (cos theta ^ 3) * cos ((2 * phi)) * sin theta))
  | 19%nat => (((-3) * (cos theta ^ 2) * cos phi) + (3 * (sin theta ^ 2) * cos phi) + (7 * (cos theta ^ 4) * cos phi) + ((-21) * (cos theta ^ 2) * (sin theta ^ 2) * cos phi))
  | 20%nat => 0
  | 21%nat => (((-7) * (cos theta ^ 4) * sin phi) + ((-3) * (sin theta ^ 2) * sin phi) + (3 * (cos theta ^ 2) * sin phi) + (21 * (cos theta ^ 2) * (sin theta ^ 2) * sin phi))
  | 22%nat => (((-28) * (cos theta ^ 3) * sin theta * sin ((2 * phi))) + (4 * cos theta * sin theta * sin ((2 * phi))) + (28 * (sin theta ^ 3) * cos theta * sin ((2 * phi))))
  | 23%nat => ((3 * (sin theta ^ 4) * sin ((3 * phi))) + ((-9) * (cos theta ^ 2) * (sin theta ^ 2) * sin ((3 * phi))))
  | 24%nat => ((-16) * (sin theta ^ 3) * cos theta * sin ((4 * phi)))
  | _ => 0
  end.

Definition Pshape_pp (k : nat) (theta phi : R) : R :=
  match k with
  | 0%nat => 0
  | 1%nat => ((-1) * sin phi * sin theta)
  | 2%nat => 0
  | 3%nat => ((-1) * cos phi * sin theta)
  | 4%nat => ((-4) * (sin theta ^ 2) * sin ((2 * phi)))
  | 5%nat => ((-1) * cos theta * sin phi * sin theta)
  | 6%nat => 0
  | 7%nat => ((-1) * cos phi * cos theta * sin theta)
  | 8%nat => ((-4) * (sin theta ^ 2) * cos ((2 * phi)))
  | 9%nat => ((-9) * (sin theta ^ 3) * sin ((3 * phi)))
  | 10%nat => ((-4) * (sin theta ^ 2) * cos theta * sin ((2 * phi)))
  | 11%nat => ((sin phi * sin theta) + ((-5) * (cos theta ^ 2) * sin phi * sin theta))
  | 12%nat => 0
  | 13%nat => ((cos phi * sin theta) + ((-5) * (cos theta ^ 2) * cos phi * sin theta))
  | 14%nat => ((-4) * (sin theta ^ 2) * cos theta * cos ((2 * phi)))
  | 15%nat => ((-9) * (sin theta ^ 3) * cos ((3 * phi)))
  | 16%nat => ((-16) * (sin theta ^ 4) * sin ((4 * phi)))
  | 17%nat => ((-9) * (sin theta ^ 3) * cos theta * sin ((3 * phi)))
  | 18%nat => ((4 * (sin theta ^ 2) * sin ((2 * phi))) + ((-28) * (cos theta ^ 2) * (sin theta ^ 2) * sin ((2 * phi))))
  | 19%nat => (((-7) * (cos theta ^ 3) * sin phi * sin theta) + (3 * cos theta * sin phi * sin theta))
  | 20%nat => 0
  | 21%nat => (((-7) * (cos theta ^ 3) * cos phi * sin theta) + (3 * cos phi * cos theta * sin theta))
  | 22%nat => ((4 * (sin theta ^ 2) * cos ((2 * phi))) + ((-28) * (cos theta ^ 2) * (sin theta ^ 2) * cos ((2 * phi))))
  | 23%nat => ((-9) * (sin theta ^ 3) * cos theta * cos ((3 * phi)))
  | 24%nat => ((-16) * (sin theta ^ 4) * cos ((4 * phi)))
  | _ => 0
  end.

Definition Lshape (k : nat) (theta : R) : R :=
  match k with
  | 0%nat => 1
  | 1%nat => cos theta
  | 2%nat => ((-1) + (3 * (cos theta ^ 2)))
  | 3%nat => (((-3) * cos theta) + (5 * (cos theta ^ 3)))
  | 4%nat => (3 + ((-30) * (cos theta ^ 2)) + (35 * (cos theta ^ 4)))
  | _ => 0
  end.

Definition Lshape_t (k : nat) (theta : R) : R :=
  match k with
  | 0%nat => 0
  | 1%nat => ((-1) * sin theta)
  | 2%nat => ((-6) * cos theta * sin theta)
  | 3%nat => ((3 * sin theta) + ((-15) * (cos theta ^ 2) * sin theta))
  | 4%nat => (((-140) * (cos theta ^ 3) * sin theta) + (60 * cos theta * sin theta))
  | _ => 0
  end.

Definition Lshape_tt (k : nat) (theta : R) : R :=
  match k with
  | 0%nat => 0
  | 1%nat => ((-1) * cos theta)
  | 2%nat => (((-6) * (cos theta ^ 2)) + (6 * (sin theta ^ 2)))
  | 3%nat => (((-15) * (cos theta ^ 3)) + (3 * cos theta) + (30 * (sin theta ^ 2) * cos theta))
  | 4%nat => (((-140) * (cos theta ^ 4)) + ((-60) * (sin theta ^ 2)) + (60 * (cos theta ^ 2)) + (420 * (cos theta ^ 2) * (sin theta ^ 2)))
  | _ => 0
  end.

Definition Nreal (k : nat) : R :=
  match k with
  | 0%nat => sqrt (1 / (4 * PI))
  | 1%nat => sqrt (3 / (4 * PI))
  | 2%nat => sqrt (3 / (4 * PI))
  | 3%nat => sqrt (3 / (4 * PI))
  | 4%nat => sqrt (15 / (16 * PI))
  | 5%nat => sqrt (15 / (4 * PI))
  | 6%nat => sqrt (5 / (16 * PI))
  | 7%nat => sqrt (15 / (4 * PI))
  | 8%nat => sqrt (15 / (16 * PI))
  | 9%nat => sqrt (35 / (32 * PI))
  | 10%nat => sqrt (105 / (16 * PI))
  | 11%nat => sqrt (21 / (32 * PI))
  | 12%nat => sqrt (7 / (16 * PI))
  | 13%nat => sqrt (21 / (32 * PI))
  | 14%nat => sqrt (105 / (16 * PI))
  | 15%nat => sqrt (35 / (32 * PI))
  | 16%nat => sqrt (315 / (256 * PI))
  | 17%nat => sqrt (315 / (32 * PI))
  | 18%nat => sqrt (45 / (64 * PI))
  | 19%nat => sqrt (45 / (32 * PI))
  | 20%nat => sqrt (9 / (256 * PI))
  | 21%nat => sqrt (45 / (32 * PI))
  | 22%nat => sqrt (45 / (64 * PI))
  | 23%nat => sqrt (315 / (32 * PI))
  | 24%nat => sqrt (315 / (256 * PI))
  | _ => 0
  end.

Definition Nsym (k : nat) : R :=
  match k with
  | 0%nat => sqrt (1 / (4 * PI))
  | 1%nat => sqrt (3 / (4 * PI))
  | 2%nat => sqrt (5 / (16 * PI))
  | 3%nat => sqrt (7 / (16 * PI))
  | 4%nat => sqrt (9 / (256 * PI))
  | _ => 0
  end.

Definition Yreal (k : nat) (theta phi : R) : R := Nreal k * Pshape k theta phi.
Definition Ysym (l : nat) (theta : R) : R := Nsym l * Lshape l theta.

(* Laplace-Beltrami operator on the unit sphere in terms of the partial derivatives of Y at a point:
   1/sin(theta) d/dtheta (sin(theta) dY/dtheta) + 1/sin^2(theta) d^2Y/dphi^2 *)
Definition LB_jet (theta yt ytt ypp : R) : R :=
  ytt + cos theta / sin theta * yt + ypp / (sin theta) ^ 2.

(* Mean curvature (k1 + k2)/2 w.r.t. the outward normal of the radial graph rho = r(theta, phi), in terms
   of the value and the partial derivatives of r at (theta, phi):  H = (1/2) div (grad F / |grad F|) for the
   level-set function F = rho - r(theta, phi), evaluated in spherical coordinates at rho = r
   (grad F = (1, -r_theta/rho, -r_phi/(rho sin theta)); the divergence of (A_rho, A_theta, A_phi) is
   rho^-2 d_rho(rho^2 A_rho) + (rho sin theta)^-1 (d_theta(sin theta A_theta) + d_phi A_phi)).
   With s = sin theta, c = cos theta, Q = r^2 s^2 + r_phi^2 + r_theta^2 s^2 this gives  -N / (2 r Q^(3/2)).
   The formula is a DEFINITION here (the differential geometry is not formalised); the harness compares
   it on every run with a finite-difference mean curvature of the level set of the implementation's
   interface_distance, and the sphere (all derivatives 0) gives 1/r. *)
Definition H_radial (theta r rt rp rtt rtp rpp : R) : R :=
  let s := sin theta in
  let c := cos theta in
  let Q := r ^ 2 * s ^ 2 + rp ^ 2 + rt ^ 2 * s ^ 2 in
  let N := - 2 * r ^ 3 * s ^ 3 + r ^ 2 * rpp * s + r ^ 2 * rt * s ^ 2 * c + r ^ 2 * rtt * s ^ 3
           - 3 * r * rp ^ 2 * s - 3 * r * rt ^ 2 * s ^ 3 + 2 * rp ^ 2 * rt * c + rp ^ 2 * rtt * s
           - 2 * rp * rt * rtp * s + rpp * rt ^ 2 * s + rt ^ 3 * s ^ 2 * c in
  - N / (2 * r * (Q * sqrt Q)).
