(* Hand-written part of the perturbed-droplet model (C13): loop combinators used by the generated
   definitions (Gen_perturbed) and the reference series / exact curvature the theorems compare
   them with.  Definitions only. *)
From Coq Require Import Reals List.
Import ListNotations.
Local Open Scope R_scope.

(* `for n, x in enumerate(seq, n0): acc = step(n, x, acc)`  -- a left fold that carries the index *)
Fixpoint fold_modes {X A : Type} (f : nat -> X -> A -> A) (n : nat) (l : list X) (acc : A) : A :=
  match l with
  | [] => acc
  | x :: l' => fold_modes f (S n) l' (f n x acc)
  end.

(* the flat amplitude array [a1; b1; a2; b2; ...] behind a list of (sin, cos) pairs
   (`iterate_in_pairs` re-creates the pairs, filling a missing last entry with 0) *)
Definition flat_amps (l : list (R * R)) : list R := flat_map (fun ab => [fst ab; snd ab]) l.
Definition sum_list (l : list R) : R := fold_right Rplus 0 l.

(* sum_{k < N} f k   (np.linspace(0, 2 pi, N, endpoint=False) quadratures) *)
Fixpoint sum_below (N : nat) (f : nat -> R) : R :=
  match N with
  | O => 0
  | S k => sum_below k f + f k
  end.

(* ---- 2-d reference: weighted harmonic series  sum_n w(n) (a_n sin n phi + b_n cos n phi) ---- *)
Definition term2 (phi : R) (n : nat) (ab : R * R) : R :=
  fst ab * sin (INR n * phi) + snd ab * cos (INR n * phi).

(* d/dphi of term2 *)
Definition dterm2 (phi : R) (n : nat) (ab : R * R) : R :=
  INR n * (fst ab * cos (INR n * phi) - snd ab * sin (INR n * phi)).

Fixpoint series2 (w : nat -> R) (phi : R) (n : nat) (l : list (R * R)) : R :=
  match l with
  | [] => 0
  | ab :: l' => w n * term2 phi n ab + series2 w phi (S n) l'
  end.

Fixpoint dseries2 (w : nat -> R) (phi : R) (n : nat) (l : list (R * R)) : R :=
  match l with
  | [] => 0
  | ab :: l' => w n * dterm2 phi n ab + dseries2 w phi (S n) l'
  end.

Definition w_one (n : nat) : R := 1.
Definition w_curv (n : nat) : R := INR n * INR n - 1.      (* n^2 - 1 *)
Definition w_sq (n : nat) : R := INR n * INR n.            (* n^2 *)

Definition sumsq (l : list (R * R)) : R :=
  fold_right (fun ab acc => fst ab * fst ab + snd ab * snd ab + acc) 0 l.

Definition scale2 (e : R) (l : list (R * R)) : list (R * R) :=
  map (fun ab => (e * fst ab, e * snd ab)) l.

(* exact curvature of the planar curve r(phi) in polar coordinates, r1 = r', r2 = r'';
   (r^2 + r'^2)^(3/2) is written x * sqrt x *)
Definition kappa_polar (r r1 r2 : R) : R :=
  (r ^ 2 + 2 * r1 ^ 2 - r * r2) / ((r ^ 2 + r1 ^ 2) * sqrt (r ^ 2 + r1 ^ 2)).

(* signed curvature of a parametrised planar curve from its first and second derivatives *)
Definition kappa_param (x1 y1 x2 y2 : R) : R :=
  (x1 * y2 - y1 * x2) / ((x1 ^ 2 + y1 ^ 2) * sqrt (x1 ^ 2 + y1 ^ 2)).

(* ---- 3-d reference: sum_k a_k w(k) Y_k, the harmonics Y being an oracle ---- *)
Fixpoint series3 (w : nat -> R) (Y : nat -> R) (n : nat) (l : list R) : R :=
  match l with
  | [] => 0
  | a :: l' => a * w n * Y n + series3 w Y (S n) l'
  end.

Definition scale3 (e : R) (l : list R) : list R := map (fun a => e * a) l.

(* pointwise sum of two amplitude vectors of the same length *)
Fixpoint add3 (l1 l2 : list R) : list R :=
  match l1, l2 with
  | a :: l1', b :: l2' => (a + b) :: add3 l1' l2'
  | _, _ => []
  end.
