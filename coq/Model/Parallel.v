(* Model/Parallel.v -- C15: a process pool under an arbitrary schedule.

   `concurrent.futures.ProcessPoolExecutor(max_workers = w)`:
     * tasks are submitted in list order and carry their submission index 0, 1, ..., n-1;
     * at most w tasks run at the same time; a free worker takes the next queued task;
     * which running task finishes next is not determined by the program.  The schedule is a list
       `sigma` of task indices read as a speed ranking: among the running tasks, the one that comes
       first in sigma finishes first (tasks not named by sigma are slowest, ties go to the task
       submitted earlier).  With w >= n the completion order is sigma itself, with w = 1 it is the
       submission order; every completion order a pool with w workers can produce is produced by
       taking sigma = that order;
     * each completion stores (index, f x);
     * `executor.map` yields the results BY SUBMISSION INDEX: result 0, result 1, ...  A result that
       never arrives blocks forever: `None`.
   `gather_completion` is the other way of collecting (concurrent.futures.as_completed): results in
   the order in which the tasks finished.  The generated fact `rd_gather`/`fs_gather` (Gen_glue.v)
   says which of the two the code uses. *)
From Coq Require Import List Bool Arith.
Import ListNotations.

Inductive gather_kind : Type :=
| GatherByIndex          (* executor.map *)
| GatherCompletion.      (* as_completed *)

(* the `max_workers` expression of the parallel branch *)
Inductive mw_rule : Type :=
| MWAutoElseGiven        (* None if num_processes == "auto" else num_processes *)
| MWGiven                (* num_processes *)
| MWUnlimited            (* None *)
| MWFixed (n : nat)
| MWAutoCapped           (* min(cpu count, len(tasks)) if num_processes == "auto" else num_processes *)
| MWAutoCappedFloor.     (* max(1, min(cpu count, len(tasks))) if num_processes == "auto" else num_processes *)

(* the num_processes argument *)
Inductive nproc : Type :=
| NPInt (n : nat)
| NPAuto.

(* ------------------------------------------------------------------------------------------ *)
(* the schedule: which task finishes when (independent of what the tasks compute)               *)
(* ------------------------------------------------------------------------------------------ *)
(* position of task i in the speed ranking; tasks not named come after all named ones *)
Fixpoint rank (sigma : list nat) (i : nat) : nat :=
  match sigma with
  | [] => 0
  | j :: s => if Nat.eqb i j then 0 else S (rank s i)
  end.

(* the running task that finishes next and the tasks that keep running (in their order) *)
Fixpoint pick (sigma : list nat) (running : list nat) : option (nat * list nat) :=
  match running with
  | [] => None
  | i :: r =>
      match pick sigma r with
      | None => Some (i, [])
      | Some (j, r') => if Nat.leb (rank sigma i) (rank sigma j) then Some (i, r) else Some (j, i :: r')
      end
  end.

(* free workers take queued tasks, in submission order *)
Fixpoint fill (w : nat) (running queue : list nat) : list nat * list nat :=
  match queue with
  | [] => (running, [])
  | i :: q => if Nat.ltb (length running) w then fill w (running ++ [i]) q else (running, queue)
  end.

(* completion order; `fuel` = number of tasks still to finish *)
Fixpoint run (fuel w : nat) (sigma running queue : list nat) : list nat :=
  match fuel with
  | O => []
  | S k =>
      let (r, q) := fill w running queue in
      match pick sigma r with
      | None => []                             (* nothing is running: no worker (w = 0) *)
      | Some (i, r') => i :: run k w sigma r' q
      end
  end.

Definition completion_order (n w : nat) (sigma : list nat) : list nat := run n w sigma [] (seq 0 n).

(* ------------------------------------------------------------------------------------------ *)
(* results                                                                                      *)
(* ------------------------------------------------------------------------------------------ *)
Section Pool.
  Variables A B : Type.
  Variable f : A -> B.

  (* each completion stores (index, f x); an index that was never submitted stores nothing *)
  Fixpoint completions (xs : list A) (order : list nat) : list (nat * B) :=
    match order with
    | [] => []
    | i :: o => match nth_error xs i with
                | Some x => (i, f x) :: completions xs o
                | None => completions xs o
                end
    end.

  Fixpoint find_result (k : nat) (store : list (nat * B)) : option B :=
    match store with
    | [] => None
    | (i, y) :: s => if Nat.eqb k i then Some y else find_result k s
    end.

  (* executor.map: read the results by submission index *)
  Fixpoint gather_by_index (store : list (nat * B)) (indices : list nat) : option (list B) :=
    match indices with
    | [] => Some []
    | k :: ks => match find_result k store, gather_by_index store ks with
                 | Some y, Some ys => Some (y :: ys)
                 | _, _ => None
                 end
    end.

  (* as_completed: the results in the order in which they arrived *)
  Definition gather_completion (store : list (nat * B)) : list B := map snd store.

  Definition pool_store (xs : list A) (sigma : list nat) (w : nat) : list (nat * B) :=
    completions xs (completion_order (length xs) w sigma).

  (* list(executor.map(f, xs)) on w workers under schedule sigma *)
  Definition pool_map (xs : list A) (sigma : list nat) (w : nat) : option (list B) :=
    gather_by_index (pool_store xs sigma w) (seq 0 (length xs)).

  Definition pool_map_completion (xs : list A) (sigma : list nat) (w : nat) : list B :=
    gather_completion (pool_store xs sigma w).

  (* what the code does, by the generated gather kind; blocking forever = None *)
  Definition pool_collect (g : gather_kind) (xs : list A) (sigma : list nat) (w : nat) : option (list B) :=
    match g with
    | GatherByIndex => pool_map xs sigma w
    | GatherCompletion => Some (pool_map_completion xs sigma w)
    end.
End Pool.
Arguments completions {A B}.
Arguments find_result {B}.
Arguments gather_by_index {B}.
Arguments gather_completion {B}.
Arguments pool_store {A B}.
Arguments pool_map {A B}.
Arguments pool_map_completion {A B}.
Arguments pool_collect {A B}.

(* ------------------------------------------------------------------------------------------ *)
(* the two parallel call sites                                                                  *)
(* ------------------------------------------------------------------------------------------ *)
Inductive pool_error : Type :=
| BadWorkerCount        (* ValueError("max_workers must be greater than 0") *)
| Blocked.              (* a result never arrives *)

Inductive outcome (A : Type) : Type :=
| Done (a : A)
| Failed (e : pool_error).
Arguments Done {A} a.
Arguments Failed {A} e.

Record parallel_glue : Type := {
  p_serial_when : nat;            (* serial branch iff num_processes == <this> *)
  p_max_workers : mw_rule;
  p_gather : gather_kind;
  p_serial_filters_none : bool;
  p_parallel_filters_none : bool
}.

Definition is_serial (P : parallel_glue) (np : nproc) : bool :=
  match np with NPInt n => Nat.eqb n (p_serial_when P) | NPAuto => false end.

(* max_workers handed to ProcessPoolExecutor; None -> os.process_cpu_count() = ncpu *)
Definition workers (P : parallel_glue) (np : nproc) (ncpu ntasks : nat) : nat :=
  match p_max_workers P with
  | MWAutoElseGiven | MWGiven => match np with NPAuto => ncpu | NPInt n => n end
  | MWUnlimited => ncpu
  | MWFixed n => n
  | MWAutoCapped => match np with NPAuto => Nat.min ncpu ntasks | NPInt n => n end
  | MWAutoCappedFloor => match np with NPAuto => Nat.max 1 (Nat.min ncpu ntasks) | NPInt n => n end
  end.

Section CallSites.
  (* C: what one task returns (a droplet or None; an emulsion; an exception marker ...) *)
  Variables A C : Type.
  Variable is_none : C -> bool.
  Variable P : parallel_glue.

  Definition keep (filter_none : bool) (l : list C) : list C :=
    if filter_none then filter (fun c => negb (is_none c)) l else l.

  (* serial:    [d for x in xs if (d := f_ser x) is not None]      (or without the filter)
     parallel:  [d for d in executor.map(f_par, xs) if d is not None]
     `f_ser`, `f_par`: the worker calls of the two branches *)
  Definition mapped (f_ser f_par : A -> C) (np : nproc) (ncpu : nat) (sigma : list nat) (xs : list A)
    : outcome (list C) :=
    if is_serial P np then Done (keep (p_serial_filters_none P) (map f_ser xs))
    else
      let w := workers P np ncpu (length xs) in
      if Nat.eqb w 0 then Failed BadWorkerCount
      else match pool_collect f_par (p_gather P) xs sigma w with
           | Some ys => Done (keep (p_parallel_filters_none P) ys)
           | None => Failed Blocked
           end.
End CallSites.
Arguments mapped {A C}.
Arguments keep {C}.

(* ------------------------------------------------------------------------------------------ *)
(* tasks that receive an options object (a dict) and may write into it                          *)
(* ------------------------------------------------------------------------------------------ *)
(* `refine_droplet(phase_field, candidate, least_squares_params=o)`: `task o x` = (result, state of the dict
   the task worked on when it returns).  Whether that dict is the object the caller handed in or a copy made
   by the task before its first write is a fact about the source (`copies`, generated: Gen_glue.v).
     serial branch: ONE options object is handed to every task in turn -- what an earlier task wrote is seen by
                    the later ones, and by the caller afterwards;
     pool branch:   every task receives its own unpickled copy of the caller's object (executor.map with the
                    default chunksize 1); the caller's object is never touched. *)
Section OptionsState.
  Variables A C O : Type.
  Variable is_none : C -> bool.
  Variable P : parallel_glue.
  Variable copies : bool.
  Variable task : O -> A -> C * O.

  (* one call: result, and the state of the object that was handed in *)
  Definition call_task (o : O) (x : A) : C * O :=
    let (y, o') := task o x in (y, if copies then o else o').

  Fixpoint serial_tasks (o : O) (xs : list A) : list C * O :=
    match xs with
    | [] => ([], o)
    | x :: xs' => let (y, o1) := call_task o x in
                  let (ys, o2) := serial_tasks o1 xs' in (y :: ys, o2)
    end.

  (* results and the caller's options object after the call *)
  Definition mapped_with_options (o : O) (np : nproc) (ncpu : nat) (sigma : list nat) (xs : list A)
    : outcome (list C * O) :=
    if is_serial P np then
      let (ys, o') := serial_tasks o xs in Done (keep is_none (p_serial_filters_none P) ys, o')
    else
      let w := workers P np ncpu (length xs) in
      if Nat.eqb w 0 then Failed BadWorkerCount
      else match pool_collect (fun x => fst (call_task o x)) (p_gather P) xs sigma w with
           | Some ys => Done (keep is_none (p_parallel_filters_none P) ys, o)
           | None => Failed Blocked
           end.
End OptionsState.
Arguments call_task {A C O}.
Arguments serial_tasks {A C O}.
Arguments mapped_with_options {A C O}.

(* ------------------------------------------------------------------------------------------ *)
(* tasks that may write into the ARGUMENT object they are handed (the candidate droplet)         *)
(* ------------------------------------------------------------------------------------------ *)
(* `refine_droplet(phase_field, candidate)`: `task x` = (result, state of the object the task worked on when it
   returns).  Whether that object is the caller's candidate or a copy made before the first write is a fact
   about the source (`copies`, generated).  Serially the task works on the caller's objects; a pool task works
   on an unpickled copy.  The second component of the outcome is what the caller's candidate list looks like
   afterwards. *)
Section ArgumentsState.
  Variables A C : Type.
  Variable is_none : C -> bool.
  Variable P : parallel_glue.
  Variable copies : bool.
  Variable task : A -> C * A.

  Definition argument_after (x : A) : A := if copies then x else snd (task x).

  Definition mapped_with_arguments (np : nproc) (ncpu : nat) (sigma : list nat) (xs : list A)
    : outcome (list C * list A) :=
    if is_serial P np then
      Done (keep is_none (p_serial_filters_none P) (map (fun x => fst (task x)) xs), map argument_after xs)
    else
      let w := workers P np ncpu (length xs) in
      if Nat.eqb w 0 then Failed BadWorkerCount
      else match pool_collect (fun x => fst (task x)) (p_gather P) xs sigma w with
           | Some ys => Done (keep is_none (p_parallel_filters_none P) ys, xs)
           | None => Failed Blocked
           end.
End ArgumentsState.
Arguments argument_after {A C}.
Arguments mapped_with_arguments {A C}.

(* ------------------------------------------------------------------------------------------ *)
(* one-shot iterables (generators, iter(list), filter / map objects)                            *)
(* ------------------------------------------------------------------------------------------ *)
(* The candidates are an `Iterable`: a container that may be traversable only once.  `uses` lists, in source order,
   what a branch does with the argument before and at dispatch (generated: rd_parallel_uses_of_candidates):
   "materialise" = list(candidates) (afterwards it is a list), "dispatch" = the traversal that feeds the tasks,
   anything else that looks into the container ("other": iter / next / a truth test; "len" before materialising is
   not defined for one-shot iterables) consumes its first element (if any).  `seen_by_dispatch` = the items the
   tasks are made of. *)
Require Import Coq.Strings.String.
Fixpoint seen_by_dispatch {A : Type} (uses : list string) (materialised : bool) (xs : list A) : option (list A) :=
  match uses with
  | [] => None                                          (* never dispatched *)
  | u :: us =>
      if String.eqb u "dispatch" then Some xs
      else if String.eqb u "materialise" then seen_by_dispatch us true xs
      else if materialised then seen_by_dispatch us materialised xs
      else seen_by_dispatch us materialised (tl xs)       (* a peek consumes the first item *)
  end.
