(* Cartesian grid geometry as py-pde 0.58.0 computes it (exact rationals).
   axis i: N cells on [lo, hi], optional periodicity; h = (hi - lo) / N; cell centres lo + (i + 1/2) h. *)
From Coq Require Import ZArith QArith Qround List Bool.
Import ListNotations.
Local Open Scope Q_scope.

Record axis := { ncell : Z; alo : Q; ahi : Q; aper : bool }.
Definition grid := list axis.

Definition asize (a : axis) : Q := ahi a - alo a.
Definition adisc (a : axis) : Q := asize a / inject_Z (ncell a).

(* Python's  x % L  for L > 0 :  x - floor(x / L) * L, in [0, L) *)
Definition Qmod (x L : Q) : Q := x - inject_Z (Qfloor (x / L)) * L.

(* (d + L/2) % L - L/2 : the representative of d modulo L in [-L/2, L/2) *)
Definition wrap1 (L d : Q) : Q := Qmod (d + L / 2) L - L / 2.

Definition diff1 (a : axis) (p q : Q) : Q :=
  if aper a then wrap1 (asize a) (q - p) else q - p.

Fixpoint diff_vec (g : grid) (p q : list Q) : list Q :=
  match g, p, q with
  | a :: g', x :: p', y :: q' => diff1 a x y :: diff_vec g' p' q'
  | _, _, _ => []
  end.

Definition sumsq (v : list Q) : Q := fold_right (fun x s => x * x + s) 0 v.

(* squared distance under the grid's (periodic) metric *)
Definition dist2 (g : grid) (p q : list Q) : Q := sumsq (diff_vec g p q).

(* Euclidean squared distance (no grid supplied) *)
Fixpoint sub_vec (p q : list Q) : list Q :=
  match p, q with
  | x :: p', y :: q' => (y - x) :: sub_vec p' q'
  | _, _ => []
  end.
Definition edist2 (p q : list Q) : Q := sumsq (sub_vec p q).

Definition norm1 (a : axis) (p : Q) : Q :=
  if aper a then Qmod (p - alo a) (asize a) + alo a else p.

Fixpoint normalize (g : grid) (p : list Q) : list Q :=
  match g, p with
  | a :: g', x :: p' => norm1 a x :: normalize g' p'
  | _, _ => []
  end.

(* cell coordinates (continuous index) -> grid coordinates *)
Fixpoint cell_to_grid (g : grid) (c : list Q) : list Q :=
  match g, c with
  | a :: g', x :: c' => (alo a + x * adisc a) :: cell_to_grid g' c'
  | _, _ => []
  end.

Definition centre1 (a : axis) (i : Z) : Q := alo a + (inject_Z i + (1 # 2)) * adisc a.

Fixpoint cell_centre (g : grid) (idx : list Z) : list Q :=
  match g, idx with
  | a :: g', i :: idx' => centre1 a i :: cell_centre g' idx'
  | _, _ => []
  end.

Definition cell_volume (g : grid) : Q := fold_right (fun a v => adisc a * v) 1 g.

(* all cell indices in C (row-major, last axis fastest) order *)
Fixpoint zrange (n : nat) (start : Z) : list Z :=
  match n with O => [] | S n' => start :: zrange n' (start + 1)%Z end.

Fixpoint all_cells (shape : list Z) : list (list Z) :=
  match shape with
  | [] => [[]]
  | n :: rest => flat_map (fun i => map (cons i) (all_cells rest)) (zrange (Z.to_nat n) 0%Z)
  end.

Definition gshape (g : grid) : list Z := map ncell g.
