(* Real-number helpers shared by the R-layer (closed-form scalar mathematics). *)
From Coq Require Import Reals Lra.
Local Open Scope R_scope.

(* Python's  x ** y  for x >= 0, y > 0 :  0 ** y = 0  (Coq's Rpower 0 y = 1 would make
   radius_from_volume 0 = 1, a totalisation trap). Used only under the guard 0 <= x. *)
Definition pow_nn (x y : R) : R := if Req_EM_T x 0 then 0 else Rpower x y.

Lemma pow_nn_0 y : pow_nn 0 y = 0.
Proof. unfold pow_nn. destruct (Req_EM_T 0 0); [reflexivity|congruence]. Qed.

Lemma pow_nn_pos x y : 0 < x -> pow_nn x y = Rpower x y.
Proof. intros Hx. unfold pow_nn. destruct (Req_EM_T x 0); [lra|reflexivity]. Qed.

Lemma pow_nn_nonneg x y : 0 <= pow_nn x y.
Proof.
  unfold pow_nn. destruct (Req_EM_T x 0); [lra|]. unfold Rpower. left. apply exp_pos.
Qed.

Lemma Rpower_cube_third r : 0 < r -> Rpower (r ^ 3) (1 / 3) = r.
Proof.
  intros Hr. rewrite <- (Rpower_pow 3 r Hr). rewrite Rpower_mult.
  replace (INR 3 * (1 / 3)) with 1 by (simpl; field). apply Rpower_1. exact Hr.
Qed.

Lemma cube_Rpower_third v : 0 < v -> (Rpower v (1 / 3)) ^ 3 = v.
Proof.
  intros Hv. rewrite <- Rpower_pow by (unfold Rpower; apply exp_pos).
  rewrite Rpower_mult. replace (1 / 3 * INR 3) with 1 by (simpl; field).
  apply Rpower_1. exact Hv.
Qed.

Lemma pow_nn_cube_third r : 0 <= r -> pow_nn (r ^ 3) (1 / 3) = r.
Proof.
  intros [Hr|Hr].
  - rewrite pow_nn_pos by (apply pow_lt; exact Hr). apply Rpower_cube_third; exact Hr.
  - subst r. replace (0 ^ 3) with 0 by ring. apply pow_nn_0.
Qed.

Lemma cube_pow_nn_third v : 0 <= v -> (pow_nn v (1 / 3)) ^ 3 = v.
Proof.
  intros [Hv|Hv].
  - rewrite pow_nn_pos by exact Hv. apply cube_Rpower_third; exact Hv.
  - subst v. rewrite pow_nn_0. ring.
Qed.
