(* Model/Codec.v -- executable model of the HDF5 codec of py-droplets (property C08).

   Mirrors  droplets/emulsions.py : Emulsion.data/_write_hdf_dataset/_from_hdf_dataset/to_file/from_file,
                                    EmulsionTimeCourse.to_file/from_file/append (+ Emulsion.copy)
            droplets/droplet_tracks.py : DropletTrack.data/_write_hdf_dataset/_from_hdf_dataset/append,
                                    DropletTrackList.to_file/from_file
            droplets/droplets.py : droplet_from_data, constructors + check_data of the five classes.

   F = bit pattern of an IEEE binary64 as Z (0 <= b < 2^64): equality on F is bit identity, so
   NaN = NaN (same payload) and +0 <> -0.  Definitions only; proofs live in Proofs/Codec*.v.

   numpy / h5py behaviour determined by experiment (numpy 2.5.3, h5py 3.16), see DESIGN notes:
   * np.array of records with different dtypes -> object array -> h5py TypeError
   * zero-sized subarray field -> h5py ValueError
   * structured row assignment from a tuple broadcasts a length-1 list into a longer subarray
     (anything else of the wrong length -> ValueError); since the fix f3c9dfd DropletTrack.data rejects
     members whose dtype differs from that of the first one, so this is no longer reachable
   * int -> f8 column: correctly rounded, OverflowError beyond the double range
   * attrs["time"]: python int -> int64 (uint64 for 2^63..2^64-1, TypeError outside), float -> float64
   * group keys are listed in lexicographic (byte) order *)
From Coq Require Import ZArith List Bool String Ascii.
Import ListNotations.
Local Open Scope Z_scope.

(* ------------------------------------------------------------------------------------------ *)
(* results                                                                                    *)
(* ------------------------------------------------------------------------------------------ *)
Inductive err := EType | EValue | EOther.
Inductive result (A : Type) := Ok (a : A) | Err (e : err).
Arguments Ok {A} a.
Arguments Err {A} e.

Definition bind {A B} (r : result A) (f : A -> result B) : result B :=
  match r with Ok a => f a | Err e => Err e end.
Notation "x <- r ;; k" := (bind r (fun x => k)) (at level 61, r at next level, right associativity).

Fixpoint mapM {A B} (f : A -> result B) (l : list A) : result (list B) :=
  match l with
  | [] => Ok []
  | x :: t => y <- f x ;; ys <- mapM f t ;; Ok (y :: ys)
  end.

Fixpoint lookup {V} (k : string) (l : list (string * V)) : option V :=
  match l with
  | [] => None
  | (k', v) :: t => if String.eqb k' k then Some v else lookup k t
  end.

(* ------------------------------------------------------------------------------------------ *)
(* binary64 bit patterns                                                                      *)
(* ------------------------------------------------------------------------------------------ *)
Definition F := Z.
Definition two63 : Z := 2 ^ 63.
Definition two52 : Z := 2 ^ 52.
Definition inf_bits : Z := 2047 * 2 ^ 52.           (* 0x7FF0000000000000 *)
Definition qnan : F := 2047 * 2 ^ 52 + 2 ^ 51.      (* 0x7FF8000000000000 = math.nan *)
Definition one_bits : Z := 1023 * 2 ^ 52.           (* 1.0 *)
Definition atol_bits : Z := 4487126258331716666.    (* 1e-8 = 0x3E45798EE2308C3A, default atol of np.allclose *)

Definition f_mag (b : F) : Z := b mod two63.
Definition f_is_nan (b : F) : bool := inf_bits <? f_mag b.
(* x < 0  (false for NaN and for -0.0, true for -inf) *)
Definition f_lt0 (b : F) : bool := (two63 <? b) && (b - two63 <=? inf_bits).
(* x > -1  (Emulsion.copy(min_radius=-1) keeps droplets with radius > -1; false for NaN) *)
Definition f_gt_m1 (b : F) : bool :=
  if b <? two63 then b <=? inf_bits else b - two63 <? one_bits.
(* np.allclose(x, 0): |x| <= 1e-8 + 1e-5*0 *)
Definition f_close0 (b : F) : bool := f_mag b <=? atol_bits.

(* python int -> double, round to nearest even; None = OverflowError *)
Definition f64_of_pos (a : Z) : option F :=
  let n := Z.log2 a in
  if n <=? 52 then Some ((n + 1023) * two52 + (a * 2 ^ (52 - n) - two52))
  else
    let sh := n - 52 in
    let q := a / 2 ^ sh in
    let r := a mod 2 ^ sh in
    let half := 2 ^ (sh - 1) in
    let q' := if (half <? r) || ((half =? r) && Z.odd q) then q + 1 else q in
    let bits := (n + 1023) * two52 + (q' - two52) in
    if bits <? inf_bits then Some bits else None.

Definition f64_of_Z (z : Z) : option F :=
  if z =? 0 then Some 0
  else if 0 <? z then f64_of_pos z
  else option_map (fun b => two63 + b) (f64_of_pos (- z)).

(* magnitude bits (sign cleared) -> Some z iff the double is finite and its value is the integer z *)
Definition f64_mag_int (mg : Z) : option Z :=
  let e := mg / two52 in
  let fr := mg mod two52 in
  if e =? 2047 then None
  else
    let m := if e =? 0 then fr else two52 + fr in
    let ex := (if e =? 0 then 1 else e) - 1075 in
    if 0 <=? ex then Some (m * 2 ^ ex)
    else if m mod 2 ^ (- ex) =? 0 then Some (m / 2 ^ (- ex)) else None.

(* Some z iff the double is finite and its value is exactly the integer z *)
Definition f64_exact_int (b : F) : option Z :=
  option_map (fun x => if b / two63 =? 1 then - x else x) (f64_mag_int (f_mag b)).

(* times: python int / numpy integer  |  python float / numpy float64 *)
Inductive tval := TInt (z : Z) | TFloat (f : F).

(* python's `==` on times (exact comparison between int and float) *)
Definition time_eqb (a b : tval) : bool :=
  match a, b with
  | TInt x, TInt y => x =? y
  | TFloat x, TFloat y => (negb (f_is_nan x) && (x =? y)) || ((f_mag x =? 0) && (f_mag y =? 0))
  | TInt x, TFloat y | TFloat y, TInt x =>
      match f64_exact_int y with Some v => v =? x | None => false end
  end.

(* what h5py stores for dataset.attrs[name] = time and returns on reading *)
Definition h5_time_attr (t : tval) : result tval :=
  match t with
  | TInt z => if (- two63 <=? z) && (z <? 2 ^ 64) then Ok t else Err EType
  | TFloat _ => Ok t
  end.

(* value assigned to an 'f8' column *)
Definition time_f64 (t : tval) : result F :=
  match t with
  | TFloat f => Ok f
  | TInt z => match f64_of_Z z with Some b => Ok b | None => Err EOther end
  end.

(* ------------------------------------------------------------------------------------------ *)
(* droplets                                                                                   *)
(* ------------------------------------------------------------------------------------------ *)
Inductive dclass := Spherical | Diffuse | P2D | P3D | P3DAxi.

Definition class_eqb (a b : dclass) : bool :=
  match a, b with
  | Spherical, Spherical | Diffuse, Diffuse | P2D, P2D | P3D, P3D | P3DAxi, P3DAxi => true
  | _, _ => false
  end.

Definition class_name (c : dclass) : string :=
  match c with
  | Spherical => "SphericalDroplet"
  | Diffuse => "DiffuseDroplet"
  | P2D => "PerturbedDroplet2D"
  | P3D => "PerturbedDroplet3D"
  | P3DAxi => "PerturbedDroplet3DAxisSym"
  end.

Definition all_classes : list dclass := [Spherical; Diffuse; P2D; P3D; P3DAxi].

(* DropletBase._subclasses[name] *)
Definition class_of_name (s : string) : option dclass :=
  find (fun c => String.eqb (class_name c) s) all_classes.

Definition has_width (c : dclass) : bool := match c with Spherical => false | _ => true end.
Definition has_ampl (c : dclass) : bool :=
  match c with Spherical | Diffuse => false | _ => true end.
(* the class attribute `dim` of the perturbed classes *)
Definition class_dim (c : dclass) : option nat :=
  match c with P2D => Some 2%nat | P3D | P3DAxi => Some 3%nat | _ => None end.

(* width = None: the class has no such field; Some w with w NaN: "unset" (interface_width is None).
   ampl = [] for classes without amplitudes. *)
Record drop := { cls : dclass; dpos : list F; radius : F; width : option F; ampl : list F }.

Definition is_some {A} (o : option A) : bool := match o with Some _ => true | None => false end.
Definition is_nil {A} (l : list A) : bool := match l with [] => true | _ => false end.

Fixpoint list_eqb {A} (eqb : A -> A -> bool) (a b : list A) : bool :=
  match a, b with
  | [], [] => true
  | x :: a', y :: b' => eqb x y && list_eqb eqb a' b'
  | _, _ => false
  end.

Definition option_eqb {A} (eqb : A -> A -> bool) (a b : option A) : bool :=
  match a, b with
  | None, None => true
  | Some x, Some y => eqb x y
  | _, _ => false
  end.

(* the record is one that a constructor can produce for its class *)
Definition wf_drop (d : drop) : bool :=
  Bool.eqb (is_some (width d)) (has_width (cls d)) && (has_ampl (cls d) || is_nil (ampl d)).

(* check_data of the class (SphericalDroplet: radius, AxisSym: on the z axis) *)
Definition check_data (c : dclass) (p : list F) (r : F) : bool :=
  negb (f_lt0 r) &&
  match c with
  | P3DAxi => forallb f_close0 (firstn 2 p)
  | _ => true
  end.

Definition dim_ok (c : dclass) (p : list F) : bool :=
  match class_dim c with Some n => Nat.eqb (List.length p) n | None => true end.

Definition width_ok (w : option F) : bool :=
  match w with Some x => negb (f_lt0 x) | None => true end.

(* everything the constructors guarantee *)
Definition valid_drop (d : drop) : bool :=
  wf_drop d && check_data (cls d) (dpos d) (radius d) && width_ok (width d) && dim_ok (cls d) (dpos d).

(* dtype of droplet.data, up to the class: (dim, has interface_width, number of amplitudes) *)
Definition layout (d : drop) : nat * bool * nat :=
  (List.length (dpos d), is_some (width d), List.length (ampl d)).
Definition layout_eqb (a b : nat * bool * nat) : bool :=
  let '(d1, w1, n1) := a in let '(d2, w2, n2) := b in
  Nat.eqb d1 d2 && Bool.eqb w1 w2 && Nat.eqb n1 n2.

(* h5py refuses zero-sized subarray fields *)
Definition zero_sized (d : drop) : bool :=
  is_nil (dpos d) || (has_ampl (cls d) && is_nil (ampl d)).

(* ------------------------------------------------------------------------------------------ *)
(* records, datasets                                                                          *)
(* ------------------------------------------------------------------------------------------ *)
Inductive fval := FS (x : F) | FA (l : list F).
Definition row := list (string * fval).          (* fields in dtype order *)

Inductive aval := AStr (s : string) | ATime (t : tval).
Inductive body := BScalar | BRows (rows : list row).   (* BScalar: shape () dataset *)
Record dataset := { ds_attrs : list (string * aval); ds_body : body }.
Definition file := list (string * dataset).      (* in the order in which h5py lists the keys *)

Fixpoint set_attr (k : string) (v : aval) (l : list (string * aval)) : list (string * aval) :=
  match l with
  | [] => [(k, v)]
  | (k', v') :: t => if String.eqb k' k then (k, v) :: t else (k', v') :: set_attr k v t
  end.

(* d.data : the structured record of one droplet *)
Definition enc_drop (d : drop) : row :=
  [("position"%string, FA (dpos d)); ("radius"%string, FS (radius d))]
  ++ (match width d with Some w => [("interface_width"%string, FS w)] | None => [] end)
  ++ (if has_ampl (cls d) then [("amplitudes"%string, FA (ampl d))] else []).

(* keyword arguments accepted by the constructors *)
Definition ctor_params (c : dclass) : list string :=
  ["position"%string; "radius"%string]
  ++ (if has_width c then ["interface_width"%string] else [])
  ++ (if has_ampl c then ["amplitudes"%string] else []).

(* droplet_from_data(name, data) calls the class with one keyword argument per field of data.dtype.names *)
Definition construct (name : string) (r : row) : result drop :=
  match class_of_name name with
  | None => Err EOther                                   (* KeyError *)
  | Some c =>
    if negb (forallb (fun kv => existsb (String.eqb (fst kv)) (ctor_params c)) r)
    then Err EType                                       (* unexpected keyword argument *)
    else
      match lookup "position" r, lookup "radius" r with
      | Some (FA p), Some (FS rad) =>
        match (match lookup "interface_width" r with
               | Some (FS w) => Ok (Some w)
               | None => Ok (if has_width c then Some qnan else None)   (* interface_width=None -> nan *)
               | Some (FA _) => Err EOther
               end) with
        | Err e => Err e
        | Ok w =>
          match (match lookup "amplitudes" r with
                 | Some (FA a) => Ok a
                 | None => Ok []                                       (* amplitudes=None: no modes *)
                 | Some (FS _) => Err EOther
                 end) with
          | Err e => Err e
          | Ok a =>
            if negb (check_data c p rad) then Err EValue
            else if negb (width_ok w) then Err EValue
            else if negb (dim_ok c p) then Err EValue
            else Ok {| cls := c; dpos := p; radius := rad; width := w; ampl := a |}
          end
        end
      | None, _ | _, None => Err EType                   (* missing required argument *)
      | _, _ => Err EOther
      end
  end.

(* ------------------------------------------------------------------------------------------ *)
(* format facts read from the source by harness/gen_codec.py                                  *)
(* ------------------------------------------------------------------------------------------ *)
Inductive member_sel := First | Last.            (* self[0] / self[-1] *)

Record fmt := {
  em_key : string;            (* default key of Emulsion._write_hdf_dataset *)
  em_attr_w : string; em_attr_r : string;       (* attribute holding the class name: written / read *)
  em_none_w : string; em_none_r : string;       (* marker of the empty emulsion: written / compared *)
  em_sel : member_sel;
  tr_key : string;
  tr_attr_w : string; tr_attr_r : string;
  tr_none_w : string; tr_none_r : string;
  tr_sel : member_sel;
  tr_time_w : string;         (* name of the time column in DropletTrack.data *)
  tr_time_r : string;         (* dataset[<name>] in _from_hdf_dataset *)
  tr_time_drop : string;      (* rec_drop_fields(dataset, <name>) *)
  tr_time_first : bool;       (* time column before the droplet fields *)
  tr_layout_guard : option err;   (* DropletTrack.data raises this when member dtypes differ (None: no such check) *)
  etc_prefix : string; etc_width : Z;
  etc_time_w : string; etc_time_r : string;     (* attribute holding the time *)
  etc_sorted : bool;          (* from_file iterates sorted(fp.keys()) *)
  tl_prefix : string; tl_width : Z;
  tl_sorted : bool
}.

(* ------------------------------------------------------------------------------------------ *)
(* Emulsion                                                                                   *)
(* ------------------------------------------------------------------------------------------ *)
Definition emulsion := list drop.

Definition sel_member {A} (s : member_sel) (x0 : A) (l : list A) : A :=
  match s with First => x0 | Last => last l x0 end.

Definition none_dataset (attr marker : string) : dataset :=
  {| ds_attrs := [(attr, AStr marker)]; ds_body := BScalar |}.

(* Emulsion._write_hdf_dataset (self.data, create_dataset, attrs) *)
Definition enc_emulsion (fm : fmt) (l : emulsion) : result dataset :=
  match l with
  | [] => Ok (none_dataset (em_attr_w fm) (em_none_w fm))
  | d0 :: _ =>
    if negb (forallb (fun d => class_eqb (cls d) (cls d0)) l) then Err EType      (* Emulsion.data *)
    else if negb (forallb (fun d => layout_eqb (layout d) (layout d0)) l) then Err EType  (* object array *)
    else if zero_sized d0 then Err EValue
    else Ok {| ds_attrs := [(em_attr_w fm, AStr (class_name (cls (sel_member (em_sel fm) d0 l))))];
               ds_body := BRows (map enc_drop l) |}
  end.

(* Emulsion._from_hdf_dataset *)
Definition dec_emulsion (fm : fmt) (ds : dataset) : result emulsion :=
  match lookup (em_attr_r fm) (ds_attrs ds) with
  | Some (AStr name) =>
    if String.eqb name (em_none_r fm) then Ok []
    else match ds_body ds with
         | BScalar => Err EType                          (* cannot iterate over a scalar dataset *)
         | BRows rows => mapM (construct name) rows
         end
  | _ => Err EOther
  end.

Definition enc_emulsion_file (fm : fmt) (l : emulsion) : result file :=
  ds <- enc_emulsion fm l ;; Ok [(em_key fm, ds)].
Definition dec_emulsion_file (fm : fmt) (f : file) : result emulsion :=
  match f with [(_, ds)] => dec_emulsion fm ds | _ => Err EOther end.

(* ------------------------------------------------------------------------------------------ *)
(* DropletTrack                                                                               *)
(* ------------------------------------------------------------------------------------------ *)
Definition track := list (tval * drop).

(* assigning a python list to a subarray field of length n *)
Definition fit (n : nat) (l : list F) : result (list F) :=
  if Nat.eqb (List.length l) n then Ok l
  else match l with
       | [x] => Ok (repeat x n)                          (* numpy broadcasts a single element *)
       | _ => Err EValue
       end.

Definition place_time (fm : fmt) (t : F) (r : row) : row :=
  if tr_time_first fm then (tr_time_w fm, FS t) :: r else r ++ [(tr_time_w fm, FS t)].

(* result[i] = (self.times[i],) + self.droplets[i].data.tolist()   with the dtype of the first member *)
Definition enc_track_row (fm : fmt) (d0 : drop) (td : tval * drop) : result row :=
  let (t, d) := td in
  if negb (Bool.eqb (is_some (width d)) (is_some (width d0))) then Err EValue
  else
    tf <- time_f64 t ;;
    p <- fit (List.length (dpos d0)) (dpos d) ;;
    a <- (if has_ampl (cls d0) then fit (List.length (ampl d0)) (ampl d) else Ok []) ;;
    Ok (place_time fm tf (enc_drop {| cls := cls d0; dpos := p; radius := radius d; width := width d; ampl := a |})).

(* if any(d.data.dtype != d0.data.dtype for d in self.droplets): raise ...   (Some e = the error raised) *)
Definition layout_guard (fm : fmt) (d0 : drop) (l : track) : option err :=
  match tr_layout_guard fm with
  | Some e => if forallb (fun td => layout_eqb (layout (snd td)) (layout d0)) l then None else Some e
  | None => None
  end.

Definition enc_track (fm : fmt) (l : track) : result dataset :=
  match l with
  | [] => Ok (none_dataset (tr_attr_w fm) (tr_none_w fm))
  | td0 :: _ =>
    let d0 := snd td0 in
    if negb (forallb (fun td => class_eqb (cls (snd td)) (cls d0)) l) then Err EType   (* DropletTrack.data *)
    else
      match layout_guard fm d0 l with
      | Some e => Err e
      | None =>
        rows <- mapM (enc_track_row fm d0) l ;;
        if zero_sized d0 then Err EValue
        else Ok {| ds_attrs := [(tr_attr_w fm, AStr (class_name (cls (snd (sel_member (tr_sel fm) td0 l)))))];
                   ds_body := BRows rows |}
      end
  end.

Fixpoint remove_field (k : string) (r : row) : row :=
  match r with
  | [] => []
  | (k', v) :: t => if String.eqb k' k then remove_field k t else (k', v) :: remove_field k t
  end.

(* the loop of DropletTrack._from_hdf_dataset: construct, then obj.append (dimension check) *)
Fixpoint dec_track_rows (name : string) (last_dim : option nat) (trs : list (F * row)) : result track :=
  match trs with
  | [] => Ok []
  | (t, r) :: rest =>
    d <- construct name r ;;
    if (match last_dim with Some n => negb (Nat.eqb (List.length (dpos d)) n) | None => false end)
    then Err EValue
    else more <- dec_track_rows name (Some (List.length (dpos d))) rest ;; Ok ((TFloat t, d) :: more)
  end.

Definition dec_track (fm : fmt) (ds : dataset) : result track :=
  match lookup (tr_attr_r fm) (ds_attrs ds) with
  | Some (AStr name) =>
    if String.eqb name (tr_none_r fm) then Ok []
    else match ds_body ds with
         | BScalar => Err EValue                          (* no field access on a scalar dataset *)
         | BRows rows =>
           times <- mapM (fun r => match lookup (tr_time_r fm) r with
                                   | Some (FS t) => Ok t
                                   | _ => Err EValue end) rows ;;
           dec_track_rows name None (combine times (map (remove_field (tr_time_drop fm)) rows))
         end
  | _ => Err EOther
  end.

Definition enc_track_file (fm : fmt) (l : track) : result file :=
  ds <- enc_track fm l ;; Ok [(tr_key fm, ds)].
Definition dec_track_file (fm : fmt) (f : file) : result track :=
  match f with [(_, ds)] => dec_track fm ds | _ => Err EOther end.

(* ------------------------------------------------------------------------------------------ *)
(* keys: f"{prefix}{i:0<w>d}", lexicographic order, sorted()                                  *)
(* ------------------------------------------------------------------------------------------ *)
(* the w low decimal digits of i, most significant first (all digits when 0 <= i < 10^w) *)
Fixpoint fixed_digits (w : nat) (i : Z) : list Z :=
  match w with
  | O => []
  | S w' => i / 10 ^ Z.of_nat w' :: fixed_digits w' (i mod 10 ^ Z.of_nat w')
  end.

Fixpoint ndig (fuel : nat) (i : Z) : nat :=
  match fuel with
  | O => 1%nat
  | S f => if i <? 10 then 1%nat else S (ndig f (i / 10))
  end.
Definition numdigits (i : Z) : nat := ndig (S (Z.to_nat (Z.log2 i))) i.

(* digits of format(i, "0<w>d") for i >= 0 *)
Definition render (w : Z) (i : Z) : list Z :=
  if i <? 10 ^ w then fixed_digits (Z.to_nat w) i else fixed_digits (numdigits i) i.

Definition digit_char (d : Z) : ascii := ascii_of_N (Z.to_N (48 + d)).
Fixpoint string_of_digits (l : list Z) : string :=
  match l with [] => EmptyString | d :: t => String (digit_char d) (string_of_digits t) end.

Definition key (prefix : string) (w : Z) (i : Z) : string :=
  String.append prefix (string_of_digits (render w i)).

(* python's str comparison (by code point) *)
Fixpoint str_ltb (a b : string) : bool :=
  match a, b with
  | EmptyString, EmptyString => false
  | EmptyString, String _ _ => true
  | String _ _, EmptyString => false
  | String x a', String y b' =>
    if (N_of_ascii x <? N_of_ascii y)%N then true
    else if (N_of_ascii x =? N_of_ascii y)%N then str_ltb a' b' else false
  end.

Fixpoint insert {A} (ltb : A -> A -> bool) (x : A) (l : list A) : list A :=
  match l with
  | [] => [x]
  | y :: t => if ltb y x then y :: insert ltb x t else x :: l
  end.
(* stable insertion sort: an element is placed before the first one that is not smaller *)
Definition isort {A} (ltb : A -> A -> bool) (l : list A) : list A :=
  fold_right (insert ltb) [] l.

Definition sorted_keys (ks : list string) : list string := isort str_ltb ks.

(* the HDF5 store (oracle): datasets and attributes are returned bit for bit; the members of a
   group are listed in lexicographic order of their names *)
Definition h5_store (written : list (string * dataset)) : file :=
  isort (fun a b => str_ltb (fst a) (fst b)) written.

(* for i, x in enumerate(l): encode x under key prefix + format(i) *)
Fixpoint enc_keyed {A} (encode : A -> result dataset) (prefix : string) (w : Z) (i : Z) (l : list A)
  : result (list (string * dataset)) :=
  match l with
  | [] => Ok []
  | x :: rest =>
    ds <- encode x ;;
    more <- enc_keyed encode prefix w (i + 1) rest ;;
    Ok ((key prefix w i, ds) :: more)
  end.

(* for key in [sorted](fp.keys()): decode fp[key] *)
Definition dec_keyed {B} (decode : dataset -> result B) (sorted : bool) (f : file) : result (list B) :=
  let ks := map fst f in
  mapM (fun k => match lookup k f with Some ds => decode ds | None => Err EOther end)
       (if sorted then sorted_keys ks else ks).

(* ------------------------------------------------------------------------------------------ *)
(* EmulsionTimeCourse                                                                         *)
(* ------------------------------------------------------------------------------------------ *)
Definition etc := list (tval * emulsion).

Definition enc_frame (fm : fmt) (te : tval * emulsion) : result dataset :=
  let (t, em) := te in
  ds <- enc_emulsion fm em ;;
  a <- h5_time_attr t ;;
  Ok {| ds_attrs := set_attr (etc_time_w fm) (ATime a) (ds_attrs ds); ds_body := ds_body ds |}.

(* obj.append(Emulsion._from_hdf_dataset(dataset), time=dataset.attrs[...]); append copies with
   Emulsion.copy(), which keeps the droplets with radius > -1 *)
Definition dec_frame (fm : fmt) (ds : dataset) : result (tval * emulsion) :=
  em <- dec_emulsion fm ds ;;
  match lookup (etc_time_r fm) (ds_attrs ds) with
  | Some (ATime t) => Ok (t, filter (fun d => f_gt_m1 (radius d)) em)
  | _ => Err EOther
  end.

Definition enc_etc (fm : fmt) (x : etc) : result file :=
  w <- enc_keyed (enc_frame fm) (etc_prefix fm) (etc_width fm) 0 x ;; Ok (h5_store w).
Definition dec_etc (fm : fmt) (f : file) : result etc :=
  dec_keyed (dec_frame fm) (etc_sorted fm) f.

(* ------------------------------------------------------------------------------------------ *)
(* DropletTrackList                                                                           *)
(* ------------------------------------------------------------------------------------------ *)
Definition tracklist := list track.

Definition enc_tracklist (fm : fmt) (x : tracklist) : result file :=
  w <- enc_keyed (enc_track fm) (tl_prefix fm) (tl_width fm) 0 x ;; Ok (h5_store w).
Definition dec_tracklist (fm : fmt) (f : file) : result tracklist :=
  dec_keyed (dec_track fm) (tl_sorted fm) f.

(* ------------------------------------------------------------------------------------------ *)
(* validity of constructed collections, equality of collections                               *)
(* ------------------------------------------------------------------------------------------ *)
Definition valid_emulsion (l : emulsion) : bool := forallb valid_drop l.

(* EmulsionTimeCourse.append copies its argument: members have radius > -1 (in particular not NaN) *)
Definition valid_etc (x : etc) : bool :=
  forallb (fun te => forallb (fun d => valid_drop d && f_gt_m1 (radius d)) (snd te)) x.

(* DropletTrack.append checks the space dimension against the last member *)
Fixpoint same_dims (n : nat) (l : track) : bool :=
  match l with [] => true | (_, d) :: t => Nat.eqb (List.length (dpos d)) n && same_dims n t end.
Definition valid_track (l : track) : bool :=
  forallb (fun td => valid_drop (snd td)) l &&
  match l with [] => true | (_, d0) :: _ => same_dims (List.length (dpos d0)) l end.

(* integer times that the f8 time column holds exactly *)
Definition time_exact (t : tval) : bool :=
  match t with TInt z => Z.abs z <=? 2 ^ 53 | TFloat f => negb (f_is_nan f) end.
Definition times_exact (l : track) : bool := forallb (fun td => time_exact (fst td)) l.

(* the package's equality of tracks: same droplets (here: bit-identical), times equal under == *)
Definition track_same (a b : track) : Prop :=
  Forall2 (fun x y => time_eqb (fst x) (fst y) = true /\ snd x = snd y) a b.
Definition tracklist_same (a b : tracklist) : Prop := Forall2 track_same a b.

(* decidable structural equality, used by the correspondence runs *)
Definition fval_eqb (a b : fval) : bool :=
  match a, b with
  | FS x, FS y => x =? y
  | FA x, FA y => list_eqb Z.eqb x y
  | _, _ => false
  end.
Definition tval_eqb (a b : tval) : bool :=
  match a, b with TInt x, TInt y => x =? y | TFloat x, TFloat y => x =? y | _, _ => false end.
Definition aval_eqb (a b : aval) : bool :=
  match a, b with
  | AStr x, AStr y => String.eqb x y
  | ATime x, ATime y => tval_eqb x y
  | _, _ => false
  end.
Definition pair_eqb {A B} (ea : A -> A -> bool) (eb : B -> B -> bool) (a b : A * B) : bool :=
  ea (fst a) (fst b) && eb (snd a) (snd b).
Definition row_eqb : row -> row -> bool := list_eqb (pair_eqb String.eqb fval_eqb).
Definition body_eqb (a b : body) : bool :=
  match a, b with
  | BScalar, BScalar => true
  | BRows x, BRows y => list_eqb row_eqb x y
  | _, _ => false
  end.
(* attributes are compared as finite maps *)
Definition attrs_eqb (a b : list (string * aval)) : bool :=
  Nat.eqb (List.length a) (List.length b) &&
  forallb (fun kv => match lookup (fst kv) b with Some v => aval_eqb (snd kv) v | None => false end) a.
Definition dataset_eqb (a b : dataset) : bool :=
  attrs_eqb (ds_attrs a) (ds_attrs b) && body_eqb (ds_body a) (ds_body b).
Definition file_eqb : file -> file -> bool := list_eqb (pair_eqb String.eqb dataset_eqb).
Definition drop_eqb (a b : drop) : bool :=
  class_eqb (cls a) (cls b) && list_eqb Z.eqb (dpos a) (dpos b) && (radius a =? radius b)
  && option_eqb Z.eqb (width a) (width b) && list_eqb Z.eqb (ampl a) (ampl b).
Definition emulsion_eqb : emulsion -> emulsion -> bool := list_eqb drop_eqb.
Definition track_eqb : track -> track -> bool := list_eqb (pair_eqb tval_eqb drop_eqb).
Definition etc_eqb : etc -> etc -> bool := list_eqb (pair_eqb tval_eqb emulsion_eqb).
Definition tracklist_eqb : tracklist -> tracklist -> bool := list_eqb track_eqb.
Definition err_eqb (a b : err) : bool :=
  match a, b with EType, EType | EValue, EValue | EOther, EOther => true | _, _ => false end.
Definition result_eqb {A} (eqb : A -> A -> bool) (a b : result A) : bool :=
  match a, b with
  | Ok x, Ok y => eqb x y
  | Err x, Err y => err_eqb x y
  | _, _ => false
  end.
