(* Integer helpers shared by Z-valued generated definitions. *)
From Coq Require Import ZArith Lia.
Local Open Scope Z_scope.

(* int(np.sqrt(k) + 0.5): nearest integer to the square root (for k >= 0; exact in
   binary64 for k < 2^52, stated in DESIGN.md 5.12).  n = round(sqrt k)  iff
   (n - 1/2)^2 <= k < (n + 1/2)^2  iff  n^2 - n < k <= n^2 + n  (integers). *)
Definition sqrt_round (k : Z) : Z :=
  let s := Z.sqrt k in if Z.ltb (s * s + s) k then s + 1 else s.
