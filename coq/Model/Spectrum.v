(* Spectrum -- R-layer model pieces for C16 (structure factor) and C17 (length scales).

   Definitions only (HOWTO): finite multi-index sets as lists in C order (numpy's `.flat` order),
   list sums, index transformations (cyclic shift, reflection, adjacent axis transposition),
   numpy's documented `fftfreq`, `linspace`, `max`, `argmax`, py-pde's `SmoothData1D` (a
   Nadaraya-Watson Gaussian kernel smoother, modelled after py-pde 0.58.0) and the statement of
   the DFT oracle specification `dft_spec` (a predicate, used as a visible premise).

   The code under test (droplets/image_analysis.py) is NOT modelled here: its lines are generated
   into Gen/Gen_spectrum.v (which imports this file) and composed in Proofs/Spectrum.v. *)
From Coq Require Import Reals List ZArith Bool.
Import ListNotations.
Local Open Scope R_scope.

(* ---------------------------------------------------------------- sums over lists *)
Definition rsum (l : list R) : R := fold_right Rplus 0 l.

(* sum of f over a finite index list *)
Definition sum_over {A : Type} (idx : list A) (f : A -> R) : R := rsum (map f idx).

(* elementwise product of two arrays (numpy `a * b`), truncating like `zip` *)
Fixpoint zip_mul (a b : list R) : list R :=
  match a, b with
  | x :: a', y :: b' => x * y :: zip_mul a' b'
  | _, _ => []
  end.

(* ---------------------------------------------------------------- complex values as pairs *)
Definition cabs2 (z : R * R) : R := fst z * fst z + snd z * snd z.
Definition cabs (z : R * R) : R := sqrt (cabs2 z).          (* np.abs of a complex number *)

(* ---------------------------------------------------------------- multi-indices *)
Definition index := list nat.
Definition field := index -> R.

(* all multi-indices of an array of the given shape, in C order (last axis fastest) = `.flat` *)
Fixpoint all_idx (shape : list nat) : list index :=
  match shape with
  | [] => [[]]
  | n :: rest => flat_map (fun m => map (cons m) (all_idx rest)) (seq 0 n)
  end.

Definition zero_idx (shape : list nat) : index := map (fun _ => 0%nat) shape.

Definition valid_idx (shape : list nat) (k : index) : Prop :=
  Forall2 (fun n m => (m < n)%nat) shape k.

Definition size_of (shape : list nat) : nat := length (all_idx shape).

(* cyclic shift of the sampling positions: (shift x) n = x ((n + s) mod N) per axis
   (np.roll(x, -s)); axes without a shift entry are not shifted *)
Fixpoint shift_idx (shape s k : list nat) : index :=
  match shape, s, k with
  | n :: shape', a :: s', m :: k' => ((m + a) mod n)%nat :: shift_idx shape' s' k'
  | _, _, _ => k
  end.

(* reflection of axis `ax`:  m |-> (N - m) mod N  (the index of -m) *)
Fixpoint reflect_idx (shape : list nat) (ax : nat) (k : index) : index :=
  match shape, k with
  | n :: shape', m :: k' =>
      match ax with
      | O => ((n - m) mod n)%nat :: k'
      | S ax' => m :: reflect_idx shape' ax' k'
      end
  | _, _ => k
  end.

(* exchange of the adjacent entries i and i+1 (of a shape, a spacing vector or an index);
   every axis permutation is a product of such transpositions *)
Fixpoint swap_at {A : Type} (i : nat) (l : list A) : list A :=
  match i, l with
  | O, a :: b :: r => b :: a :: r
  | S i', a :: r => a :: swap_at i' r
  | _, _ => l
  end.

(* ---------------------------------------------------------------- numpy.fft.fftfreq *)
(* numpy:  N = (n-1)//2 + 1; results[:N] = arange(0, N); results[N:] = arange(-(n//2), 0);
   return results * (1.0 / (n * d)) *)
Definition wrap_freq (n m : nat) : Z :=
  if (m <? (n - 1) / 2 + 1)%nat then Z.of_nat m else (Z.of_nat m - Z.of_nat n)%Z.

Definition np_fftfreq (n : nat) (d : R) (m : nat) : R := IZR (wrap_freq n m) * (1 / (INR n * d)).

(* ---------------------------------------------------------------- numpy helpers on 1-d arrays *)
(* a.max(); numpy raises on an empty array: only used for non-empty lists *)
Definition list_max (l : list R) : R :=
  match l with
  | [] => 0
  | a :: r => fold_left Rmax r a
  end.

(* np.linspace(a, b, n)[j] = a + j * ((b - a) / (n - 1)) *)
Definition linspace (a b : R) (n : nat) : list R :=
  map (fun j => a + INR j * ((b - a) / INR (n - 1))) (seq 0 n).

(* np.argmax over pairs (k, sf): the FIRST maximum of the second components; returns the pair *)
Fixpoint argmax_from (best : R * R) (l : list (R * R)) : R * R :=
  match l with
  | [] => best
  | p :: r => if Rlt_dec (snd best) (snd p) then argmax_from p r else argmax_from best r
  end.

Definition argmax_pair (l : list (R * R)) : option (R * R) :=
  match l with
  | [] => None
  | p :: r => Some (argmax_from p r)
  end.

(* ---------------------------------------------------------------- pde.tools.math.SmoothData1D *)
(* scale = 0.5 * sigma**-2;  weight_i = exp(-scale * (x_i - x)**2);  weight_sum = sum weight;
   if weight_sum > 0: weight /= weight_sum;  result = y @ weight *)
Definition nw_weight (sigma x xi : R) : R := exp (- (/ 2 * / (sigma ^ 2)) * (xi - x) ^ 2).

Definition nw_smooth (sigma : R) (xs ys : list R) (x : R) : R :=
  let w := map (nw_weight sigma x) xs in
  let wsum := rsum w in
  let wn := if Rlt_dec 0 wsum then map (fun wi => wi / wsum) w else w in
  rsum (zip_mul ys wn).

(* ---------------------------------------------------------------- DFT oracle specification *)
(* F ortho shape x k : the value at multi-index k of numpy.fft.fftn(x, norm=...) for an array x of
   the given shape; the first argument says whether norm="ortho" was requested.  The identities
   below are what the theorems use; they are stated for norm="ortho" only, on a domain `dom` of
   shapes (so that a small executable instance can witness satisfiability). *)
Definition dft_oracle := bool -> list nat -> field -> index -> R * R.

Definition dft_parseval (dom : list nat -> Prop) (F : dft_oracle) : Prop :=
  forall shape x, dom shape ->
    sum_over (all_idx shape) (fun k => cabs2 (F true shape x k)) =
    sum_over (all_idx shape) (fun n => x n ^ 2).

Definition dft_zero_mode (dom : list nat -> Prop) (F : dft_oracle) : Prop :=
  forall shape x, dom shape ->
    F true shape x (zero_idx shape) =
    (sum_over (all_idx shape) x / sqrt (INR (size_of shape)), 0).

Definition dft_homogeneous (dom : list nat -> Prop) (F : dft_oracle) : Prop :=
  forall shape c x k, dom shape -> In k (all_idx shape) ->
    cabs2 (F true shape (fun n => c * x n) k) = c ^ 2 * cabs2 (F true shape x k).

Definition dft_shift (dom : list nat -> Prop) (F : dft_oracle) : Prop :=
  forall shape s x k, dom shape -> In k (all_idx shape) ->
    cabs2 (F true shape (fun n => x (shift_idx shape s n)) k) = cabs2 (F true shape x k).

Definition dft_reflect (dom : list nat -> Prop) (F : dft_oracle) : Prop :=
  forall shape ax x k, dom shape -> In k (all_idx shape) ->
    cabs2 (F true shape (fun n => x (reflect_idx shape ax n)) k) =
    cabs2 (F true shape x (reflect_idx shape ax k)).

Definition dft_axis_swap (dom : list nat -> Prop) (F : dft_oracle) : Prop :=
  forall shape i x k, dom shape -> dom (swap_at i shape) -> In k (all_idx (swap_at i shape)) ->
    cabs2 (F true (swap_at i shape) (fun n => x (swap_at i n)) k) =
    cabs2 (F true shape x (swap_at i k)).

Definition dft_spec (dom : list nat -> Prop) (F : dft_oracle) : Prop :=
  dft_parseval dom F /\ dft_zero_mode dom F /\ dft_homogeneous dom F /\
  dft_shift dom F /\ dft_reflect dom F /\ dft_axis_swap dom F.

(* ---------------------------------------------------------------- executable instance: 1-d, N = 4 *)
(* X_k = (1/2) sum_n x_n (-i)^(k n)  (norm="ortho": 1/sqrt 4);  norm="backward": no prefactor *)
Definition dft4 : dft_oracle := fun ortho shape x k =>
  let c := if ortho then / 2 else 1 in
  let x0 := x [0%nat] in let x1 := x [1%nat] in let x2 := x [2%nat] in let x3 := x [3%nat] in
  match k with
  | [0%nat] => (c * (x0 + x1 + x2 + x3), 0)
  | [1%nat] => (c * (x0 - x2), c * (x3 - x1))
  | [2%nat] => (c * (x0 - x1 + x2 - x3), 0)
  | [3%nat] => (c * (x0 - x2), c * (x1 - x3))
  | _ => (0, 0)
  end.

Definition dom4 (shape : list nat) : Prop := shape = [4%nat].

(* ---------------------------------------------------------------- scalar-minimiser oracle *)
(* scipy.optimize.minimize_scalar(f, bracket=(a, b, c)): Some x = result.x, None = it raised.
   Scale covariance (what `ls_peak_covariant` needs): minimising x |-> f (s x) from the bracket
   (a/s, b/s, c/s) returns (result of minimising f from (a, b, c)) / s. *)
Definition minimizer := (R -> R) -> R * R * R -> option R.

Definition minimizer_covariant (mini : minimizer) : Prop :=
  forall (f g : R -> R) (a b c s : R), 0 < s -> (forall x, g x = f (s * x)) ->
    mini g (a / s, b / s, c / s) = option_map (fun x => x / s) (mini f (a, b, c)).

(* the minimiser returns a point of its bracket (used by plane_wave_peak_bracket) *)
Definition minimizer_in_bracket (mini : minimizer) : Prop :=
  forall (f : R -> R) (a b c x : R), mini f (a, b, c) = Some x -> Rmin a c <= x <= Rmax a c.

(* ---------------------------------------------------------------- plane waves (1-d) *)
(* x_m = A cos(2 pi q m / N + phi) + c  on a 1-d array of N cells *)
Definition cosine_field (N q : nat) (A phi c : R) : field := fun n =>
  match n with
  | [m] => A * cos (2 * PI * INR q * INR m / INR N + phi) + c
  | _ => 0
  end.

(* orthogonality of the DFT basis, as far as the peak method needs it: the orthonormal transform of a
   resolved cosine (1 <= q, 4 q <= N) vanishes off the modes 0, q, N - q and has |X_q|^2 = |X_{N-q}|^2
   = A^2 N / 4 *)
Definition dft_cosine (dom : list nat -> Prop) (F : dft_oracle) : Prop :=
  forall N q A phi c, dom [N] -> (1 <= q)%nat -> (4 * q <= N)%nat ->
    (forall m, (m < N)%nat -> m <> 0%nat -> m <> q -> m <> (N - q)%nat ->
       cabs2 (F true [N] (cosine_field N q A phi c) [m]) = 0) /\
    cabs2 (F true [N] (cosine_field N q A phi c) [q]) = A ^ 2 * INR N / 4 /\
    cabs2 (F true [N] (cosine_field N q A phi c) [(N - q)%nat]) = A ^ 2 * INR N / 4.

(* ---------------------------------------------------------------- executable instance: shapes (2,), (4,), (2,2) *)
Definition dft2 : dft_oracle := fun ortho shape x k =>
  let c := if ortho then / sqrt 2 else 1 in
  let x0 := x [0%nat] in let x1 := x [1%nat] in
  match k with
  | [0%nat] => (c * (x0 + x1), 0)
  | [1%nat] => (c * (x0 - x1), 0)
  | _ => (0, 0)
  end.

(* X_{k1 k2} = (1/2) sum x_{n1 n2} (-1)^(k1 n1 + k2 n2) *)
Definition dft22 : dft_oracle := fun ortho shape x k =>
  let c := if ortho then / 2 else 1 in
  let a := x [0%nat; 0%nat] in let b := x [0%nat; 1%nat] in
  let d := x [1%nat; 0%nat] in let e := x [1%nat; 1%nat] in
  match k with
  | [0%nat; 0%nat] => (c * (a + b + d + e), 0)
  | [0%nat; 1%nat] => (c * (a - b + d - e), 0)
  | [1%nat; 0%nat] => (c * (a + b - d - e), 0)
  | [1%nat; 1%nat] => (c * (a - b - d + e), 0)
  | _ => (0, 0)
  end.

Definition dft_small : dft_oracle := fun ortho shape x k =>
  match shape with
  | [2%nat] => dft2 ortho shape x k
  | [4%nat] => dft4 ortho shape x k
  | [2%nat; 2%nat] => dft22 ortho shape x k
  | _ => (0, 0)
  end.

Definition dom_small (shape : list nat) : Prop :=
  shape = [2%nat] \/ shape = [4%nat] \/ shape = [2%nat; 2%nat].

(* ---------------------------------------------------------------- the mathematical DFT, general shape *)
(* complex numbers as pairs of reals *)
Definition cadd (a b : R * R) : R * R := (fst a + fst b, snd a + snd b).
Definition cmul (a b : R * R) : R * R := (fst a * fst b - snd a * snd b, fst a * snd b + snd a * fst b).
Definition cscal (c : R) (a : R * R) : R * R := (c * fst a, c * snd a).
Definition cexp (t : R) : R * R := (cos t, sin t).                       (* exp(i t) *)
Definition csum (l : list (R * R)) : R * R := fold_right cadd (0, 0) l.

(* 2 pi k n / N *)
Definition angle (N k n : nat) : R := 2 * PI * INR k * INR n / INR N.

(* orthonormal n-d transform of a complex field as iterated 1-d transforms along the axes (first axis outermost):
   X_k = prod_a N_a^(-1/2) * sum_n z_n exp(-2 pi i sum_a k_a n_a / N_a) *)
Fixpoint dftc (shape : list nat) (z : index -> R * R) (k : index) : R * R :=
  match shape, k with
  | [], [] => z []
  | N :: rest, k0 :: k' =>
      cscal (/ sqrt (INR N))
        (csum (map (fun n0 => cmul (cexp (- angle N k0 n0)) (dftc rest (fun n' => z (n0 :: n')) k')) (seq 0 N)))
  | _, _ => (0, 0)
  end.

(* numpy.fft.fftn of a real field: norm="ortho" as above; otherwise ("backward") without the prefactor *)
Definition dft_math : dft_oracle := fun ortho shape x k =>
  cscal (if ortho then 1 else sqrt (INR (size_of shape))) (dftc shape (fun n => (x n, 0)) k).

Definition dom_math (shape : list nat) : Prop := Forall (fun n => (0 < n)%nat) shape.
