(* Heap -- executable two-level heap model of the three collection types of py-droplets
   (Emulsion, EmulsionTimeCourse, DropletTrack / DropletTrackList), property C20.

   Level 1: droplet OBJECTS (locations, [loc]) point to STORAGE RECORDS ([sloc]).
   Level 2: storage records hold droplet VALUES.
   Two objects may share one record ([from_data]); a record may also be a row of a linked
   array ([Emulsion.get_linked_data]); [copy()] allocates a new object AND a new record.

   All tables are plain lists indexed by position (identifier = index, allocation = append),
   so everything is executable and closed under the global context.

   The harness (harness/props/C20.py) keeps Python lists H (caller handles), E (every
   Emulsion object that exists, including the ones owned by time courses), T, K, A, L that
   mirror [hnd], [ems], [tcs], [trs], [arrs], [tls] index by index. *)
From Coq Require Import List Arith Bool QArith Lia.
Import ListNotations.
Local Open Scope nat_scope.

Definition loc := nat.    (* droplet object *)
Definition sloc := nat.   (* storage record *)
Definition cid := nat.    (* index of a collection in its table *)
Definition tloc := nat.   (* a Python list object holding times *)

(* ------------------------------------------------------------------------------------ *)
(* droplet values                                                                         *)
(* ------------------------------------------------------------------------------------ *)

(* cls: 0 SphericalDroplet, 1 DiffuseDroplet, 2 PerturbedDroplet2D, 3 PerturbedDroplet3D,
        4 PerturbedDroplet3DAxisSym.  extra = [] | [interface_width] | interface_width :: amplitudes *)
Record value := mkV { cls : nat; pos : list Q; rad : Q; extra : list Q }.

Definition dim (v : value) : nat := length (pos v).

(* numpy dtype of the record: field layout, space dimension, number of extra scalars.
   PerturbedDroplet3D and PerturbedDroplet3DAxisSym with the same number of modes have the SAME dtype. *)
Definition layout (c : nat) : nat := match c with 0 => 0 | 1 => 1 | _ => 2 end.
Definition dtype := (nat * nat * nat)%type.
Definition dtype_of (v : value) : dtype := (layout (cls v), length (pos v), length (extra v)).
Definition dtype_eqb (a b : dtype) : bool :=
  let '(a1, a2, a3) := a in let '(b1, b2, b3) := b in
  Nat.eqb a1 b1 && Nat.eqb a2 b2 && Nat.eqb a3 b3.

(* ------------------------------------------------------------------------------------ *)
(* list helpers                                                                           *)
(* ------------------------------------------------------------------------------------ *)

Fixpoint upd {A} (l : list A) (n : nat) (x : A) : list A :=
  match l, n with
  | [], _ => []
  | _ :: r, O => x :: r
  | a :: r, S n' => a :: upd r n' x
  end.

(* Python  l[lo:hi]  for 0 <= lo, hi *)
Definition slice {A} (lo hi : nat) (l : list A) : list A := firstn (hi - lo) (skipn lo l).

(* Python  [l[i] for i in idxs] : a general slice  l[start:stop:step]  selects the entries at
   range( *slice(start, stop, step).indices(len(l)) )  (built-in list semantics; the harness computes this index
   list with Python's own slice.indices); an index out of range selects nothing *)
Definition sel {A} (idxs : list nat) (l : list A) : list A :=
  flat_map (fun i => match nth_error l i with Some x => [x] | None => [] end) idxs.

(* keep the entries whose flag is true *)
Fixpoint filter_by {A} (bs : list bool) (l : list A) : list A :=
  match bs, l with
  | b :: bs', a :: l' => if b then a :: filter_by bs' l' else filter_by bs' l'
  | _, _ => []
  end.

Fixpoint mapM {A B} (f : A -> option B) (l : list A) : option (list B) :=
  match l with
  | [] => Some []
  | a :: r => match f a, mapM f r with
              | Some b, Some bs => Some (b :: bs)
              | _, _ => None
              end
  end.

Fixpoint last_opt {A} (l : list A) : option A :=
  match l with [] => None | [a] => Some a | _ :: r => last_opt r end.

Definition range_q (n : nat) : list Q := map (fun i => inject_Z (Z.of_nat i)) (seq 0 n).

(* flat field index k:  0..dim-1 position, dim radius, dim+1.. extra *)
Definition set_flat (v : value) (k : nat) (q : Q) : option value :=
  let d := length (pos v) in
  if k <? d then Some (mkV (cls v) (upd (pos v) k q) (rad v) (extra v))
  else if k =? d then Some (mkV (cls v) (pos v) q (extra v))
  else if k - d - 1 <? length (extra v) then Some (mkV (cls v) (pos v) (rad v) (upd (extra v) (k - d - 1) q))
  else None.

(* ------------------------------------------------------------------------------------ *)
(* the heap                                                                               *)
(* ------------------------------------------------------------------------------------ *)

Record emul := mkE { e_dtype : option dtype; e_mem : list loc }.
(* times and members are TWO lists, as in the implementation; that they stay aligned is a theorem.
   The times list is an OBJECT of its own (a location in [tlists]): two collections, or a collection
   and a caller variable, could hold the same list object. *)
Record tcourse := mkTC { tc_tl : tloc; tc_ems : list cid }.
Record track := mkTR { tr_tl : tloc; tr_drops : list loc }.

Record heap := mkH {
  store : list value;        (* sloc -> value *)
  objs  : list sloc;         (* loc  -> sloc  *)
  hnd   : list loc;          (* caller handles (variables holding a droplet) *)
  ems   : list emul;         (* all emulsion objects *)
  tcs   : list tcourse;      (* time courses *)
  trs   : list track;        (* droplet tracks *)
  arrs  : list (list sloc);  (* arrays returned by get_linked_data: their rows *)
  tls   : list (list nat);   (* DropletTrackList objects: references to tracks *)
  tlists : list (list Q);    (* tloc -> content of a times list object *)
  tvars : list tloc          (* caller variables holding a Python list of times *)
}.

Definition emp : heap := mkH [] [] [] [] [] [] [] [] [] [].

Definition with_store h x := mkH x (objs h) (hnd h) (ems h) (tcs h) (trs h) (arrs h) (tls h) (tlists h) (tvars h).
Definition with_objs h x := mkH (store h) x (hnd h) (ems h) (tcs h) (trs h) (arrs h) (tls h) (tlists h) (tvars h).
Definition with_hnd h x := mkH (store h) (objs h) x (ems h) (tcs h) (trs h) (arrs h) (tls h) (tlists h) (tvars h).
Definition with_ems h x := mkH (store h) (objs h) (hnd h) x (tcs h) (trs h) (arrs h) (tls h) (tlists h) (tvars h).
Definition with_tcs h x := mkH (store h) (objs h) (hnd h) (ems h) x (trs h) (arrs h) (tls h) (tlists h) (tvars h).
Definition with_trs h x := mkH (store h) (objs h) (hnd h) (ems h) (tcs h) x (arrs h) (tls h) (tlists h) (tvars h).
Definition with_arrs h x := mkH (store h) (objs h) (hnd h) (ems h) (tcs h) (trs h) x (tls h) (tlists h) (tvars h).
Definition with_tls h x := mkH (store h) (objs h) (hnd h) (ems h) (tcs h) (trs h) (arrs h) x (tlists h) (tvars h).
Definition with_tlists h x := mkH (store h) (objs h) (hnd h) (ems h) (tcs h) (trs h) (arrs h) (tls h) x (tvars h).
Definition with_tvars h x := mkH (store h) (objs h) (hnd h) (ems h) (tcs h) (trs h) (arrs h) (tls h) (tlists h) x.

Definition obj_of (h : heap) (l : loc) : option sloc := nth_error (objs h) l.
Definition val_of (h : heap) (l : loc) : option value :=
  match obj_of h l with Some s => nth_error (store h) s | None => None end.
Definition vals_of (h : heap) (ls : list loc) : option (list value) := mapM (val_of h) ls.

(* allocate new objects with new records holding vs; the new objects are [new_locs h (length vs)] *)
Definition alloc (h : heap) (vs : list value) : heap :=
  with_objs (with_store h (store h ++ vs)) (objs h ++ seq (length (store h)) (length vs)).
Definition new_locs (h : heap) (n : nat) : list loc := seq (length (objs h)) n.

Definition push_hnd h l := with_hnd h (hnd h ++ [l]).
Definition set_em h c e := with_ems h (upd (ems h) c e).
Definition push_em h e := with_ems h (ems h ++ [e]).
Definition set_tc h t x := with_tcs h (upd (tcs h) t x).
Definition push_tc h x := with_tcs h (tcs h ++ [x]).
Definition set_tr h k x := with_trs h (upd (trs h) k x).
Definition push_tr h x := with_trs h (trs h ++ [x]).
Definition push_arr h r := with_arrs h (arrs h ++ [r]).
Definition set_store h s v := with_store h (upd (store h) s v).
Definition times_of (h : heap) (tl : tloc) : option (list Q) := nth_error (tlists h) tl.
(* a new list object; its location is [length (tlists h)] *)
Definition alloc_tl h (ts : list Q) := with_tlists h (tlists h ++ [ts]).
Definition set_tl h (tl : tloc) (ts : list Q) := with_tlists h (upd (tlists h) tl ts).

(* ------------------------------------------------------------------------------------ *)
(* operations and outcomes                                                                *)
(* ------------------------------------------------------------------------------------ *)

(* EDangling is an internal "reference out of range" outcome; [wf_no_dangling] shows it never
   occurs on heaps reachable from [emp]. *)
Inductive errk := EValue | EType | EAttr | EIndex | EOther | EDangling.
Inductive outcome := Ok | Err (e : errk).

Inductive op :=
| ONew (v : value)                                   (* H.append(cls(...)) *)
| OView (i : nat)                                    (* H.append(cls.from_data(H[i].data)): new object, SAME record *)
| OSetH (i k : nat) (q : Q)                          (* set field k of H[i] through its property setter *)
| OEmNew                                             (* E.append(Emulsion()) *)
| OAppend (c i : nat) (copy force : bool)            (* E[c].append(H[i], copy=, force_consistency=) *)
| OExtend (c : nat) (is : list nat) (copy force : bool)
| OGet (c i : nat)                                   (* H.append(E[c][i]): the member itself *)
| OSetM (c i k : nat) (q : Q)                        (* set field k of E[c][i] *)
| OCopy (c : nat) (q : Q)                            (* E.append(E[c].copy(min_radius=q)) *)
| OSlice (c lo hi : nat)                             (* E.append(E[c][lo:hi]) *)
| OAdd (c1 c2 : nat)                                 (* E.append(E[c1] + E[c2]) *)
| ORemoveSmall (c : nat) (q : Q)
| ORemoveOverlap (c : nat) (removed : list nat)      (* removed indices: recorded from the implementation *)
| OLink (c : nat)                                    (* A.append(E[c].get_linked_data()) *)
| OWriteA (a i k : nat) (q : Q)                      (* write field k of row i of A[a] *)
| OMerge (c i j : nat) (inplace : bool) (v : value)  (* E[c][i].merge(E[c][j], inplace=); v: resulting data (recorded) *)
| OTcNew (cs : list nat) (times : option (list Q))   (* T.append(EmulsionTimeCourse([E[c]...], times)) *)
| OTcAppend (t c : nat) (time : option Q) (copy : bool)
| OTcAppendBad (t : nat)                             (* T[t].append(3): not an emulsion *)
| OTcSlice (t lo hi : nat)
| OTcClear (t : nat)
| OTrNew (is : list nat) (times : option (list Q))   (* K.append(DropletTrack([H[i]...], times)) *)
| OTrAppend (k i : nat) (time : option Q)
| OTrAppendBad (k : nat)                             (* K[k].append(3): not a droplet *)
| OTrSlice (k lo hi : nat)
| OTrGet (k i : nat)                                 (* H.append(K[k][i]): the member itself *)
| OTlNew (ks : list nat)                             (* L.append(DropletTrackList([K[k]...])) *)
| OTlRemoveShort (l : nat) (q : Q)
| OTcCopy (t : nat)                                  (* T.append(EmulsionTimeCourse(T[t])): copy constructor *)
| OTcNewL (cs : list nat) (j : nat)                  (* T.append(EmulsionTimeCourse([E[c]...], times=TV[j])): caller-owned list *)
| OTrCopy (k : nat)                                  (* K.append(DropletTrack(K[k])) *)
| OTrNewL (is : list nat) (j : nat)                  (* K.append(DropletTrack([H[i]...], times=TV[j])) *)
| OTlistNew (ts : list Q)                            (* TV.append([...]): the caller creates a list of times *)
| OTlistAppend (j : nat) (q : Q)                     (* TV[j].append(q) *)
| OTlistSet (j i : nat) (q : Q)                      (* TV[j][i] = q *)
| OEmCtor (is : list nat) (dt : option nat) (copy force : bool)
      (* E.append(Emulsion([H[i]...], copy=, dtype=<taken from H[dt]>, force_consistency=)); with is = [] and
         copy = false also Emulsion.empty(H[dt]).  The dtype may be spelled as a droplet, a numpy dtype or an array *)
| OEmClone (c : nat)                                 (* E.append(copy.copy / copy.deepcopy / pickle round trip of E[c]) *)
| OSel (c : nat) (idxs : list nat)                   (* E.append(E[c][start:stop:step]), idxs = selected indices *)
| OTcSel (t : nat) (idxs : list nat)                 (* T.append(T[t][start:stop:step]) *)
| OTrSel (k : nat) (idxs : list nat)                 (* K.append(K[k][start:stop:step]) *)
| OTcClone (t : nat)                                 (* T.append(copy.deepcopy / pickle round trip of T[t]) *)
| OExtendSelf (c : nat) (copy force : bool).
      (* E[c].extend(E[c], copy=, force_consistency=): like a list, the emulsion is extended by the droplets it
         held BEFORE the call (also spelled with an alias of E[c], list(E[c]), tuple(E[c]) or the slice E[c][:]) *)

(* ---- droplets ---- *)

Definition exec_new h v : heap * outcome :=
  (with_hnd (alloc h [v]) (hnd h ++ new_locs h 1), Ok).

Definition exec_view h i : heap * outcome :=
  match nth_error (hnd h) i with
  | None => (h, Err EIndex)
  | Some l =>
    match obj_of h l with
    | None => (h, Err EDangling)
    | Some s => (push_hnd (with_objs h (objs h ++ [s])) (length (objs h)), Ok)
    end
  end.

Definition write_sloc h (s : sloc) k q : heap * outcome :=
  match nth_error (store h) s with
  | None => (h, Err EDangling)
  | Some v => match set_flat v k q with
              | None => (h, Err EIndex)
              | Some v' => (set_store h s v', Ok)
              end
  end.

Definition write_loc h (l : loc) k q : heap * outcome :=
  match obj_of h l with
  | None => (h, Err EDangling)
  | Some s => write_sloc h s k q
  end.

Definition exec_seth h i k q : heap * outcome :=
  match nth_error (hnd h) i with
  | None => (h, Err EIndex)
  | Some l => write_loc h l k q
  end.

(* ---- emulsions ---- *)

Definition new_dtype (e : emul) (v : value) : option dtype :=
  match e_dtype e with None => Some (dtype_of v) | Some d => Some d end.

Definition rejects (e : emul) (v : value) (force : bool) : bool :=
  match e_dtype e with
  | Some d => force && negb (dtype_eqb d (dtype_of v))
  | None => false
  end.

(* Emulsion.append of the droplet object l (holding v) to emulsion c = e *)
Definition em_add h c (e : emul) (l : loc) (v : value) (copy force : bool) : heap * outcome :=
  if rejects e v force then (h, Err EValue)
  else if copy then
    (set_em (alloc h [v]) c (mkE (new_dtype e v) (e_mem e ++ new_locs h 1)), Ok)
  else (set_em h c (mkE (new_dtype e v) (e_mem e ++ [l])), Ok).

Definition append_loc h c l copy force : heap * outcome :=
  match nth_error (ems h) c with
  | None => (h, Err EIndex)
  | Some e => match val_of h l with
              | None => (h, Err EDangling)
              | Some v => em_add h c e l v copy force
              end
  end.

Definition exec_append h c i copy force : heap * outcome :=
  match nth_error (hnd h) i with
  | None => (h, Err EIndex)
  | Some l => append_loc h c l copy force
  end.

(* Emulsion.extend: a loop of appends; an error stops the loop and keeps what was appended *)
Fixpoint extend_locs h c (ls : list loc) copy force : heap * outcome :=
  match ls with
  | [] => (h, Ok)
  | l :: r => match append_loc h c l copy force with
              | (h1, Ok) => extend_locs h1 c r copy force
              | (h1, Err e) => (h1, Err e)
              end
  end.

Definition exec_extend h c (is : list nat) copy force : heap * outcome :=
  match mapM (nth_error (hnd h)) is with
  | None => (h, Err EIndex)
  | Some ls => match nth_error (ems h) c with
               | None => (h, Err EIndex)
               | Some _ => extend_locs h c ls copy force
               end
  end.

(* self-extension: the argument is the member list as it was before the call *)
Definition exec_extend_self h c copy force : heap * outcome :=
  match nth_error (ems h) c with
  | None => (h, Err EIndex)
  | Some e => extend_locs h c (e_mem e) copy force
  end.

Definition exec_get h c i : heap * outcome :=
  match nth_error (ems h) c with
  | None => (h, Err EIndex)
  | Some e => match nth_error (e_mem e) i with
              | None => (h, Err EIndex)
              | Some l => (push_hnd h l, Ok)
              end
  end.

Definition exec_setm h c i k q : heap * outcome :=
  match nth_error (ems h) c with
  | None => (h, Err EIndex)
  | Some e => match nth_error (e_mem e) i with
              | None => (h, Err EIndex)
              | Some l => write_loc h l k q
              end
  end.

(* Emulsion(list_of_droplets) with the default copy=True: new objects, new records;
   dtype = dtype of the first droplet (None if there is none) *)
Definition new_em_vals h (vs : list value) : heap :=
  push_em (alloc h vs) (mkE (hd_error (map dtype_of vs)) (new_locs h (length vs))).

Definition new_em_from h (ls : list loc) : heap * outcome :=
  match vals_of h ls with
  | None => (h, Err EDangling)
  | Some vs => (new_em_vals h vs, Ok)
  end.

Definition keeps_copy (q : Q) (v : value) : bool := negb (Qle_bool (rad v) q).   (* radius > min_radius *)

Definition exec_copy h c q : heap * outcome :=
  match nth_error (ems h) c with
  | None => (h, Err EIndex)
  | Some e => match vals_of h (e_mem e) with
              | None => (h, Err EDangling)
              | Some vs => (new_em_vals h (filter (keeps_copy q) vs), Ok)
              end
  end.

Definition exec_slice h c lo hi : heap * outcome :=
  match nth_error (ems h) c with
  | None => (h, Err EIndex)
  | Some e => new_em_from h (slice lo hi (e_mem e))
  end.

Definition exec_add h c1 c2 : heap * outcome :=
  match nth_error (ems h) c1, nth_error (ems h) c2 with
  | Some e1, Some e2 => new_em_from h (e_mem e1 ++ e_mem e2)
  | _, _ => (h, Err EIndex)
  end.

Definition exec_remove_small h c q : heap * outcome :=
  match nth_error (ems h) c with
  | None => (h, Err EIndex)
  | Some e => match vals_of h (e_mem e) with
              | None => (h, Err EDangling)
              | Some vs => (set_em h c (mkE (e_dtype e) (filter_by (map (keeps_copy q) vs) (e_mem e))), Ok)
              end
  end.

(* get_pairwise_distances subtracts the position vectors of every pair: numpy broadcasting
   accepts equal lengths and length 1 against anything, otherwise ValueError *)
Definition dim_compat (a b : value) : bool :=
  Nat.eqb (dim a) (dim b) || Nat.eqb (dim a) 1 || Nat.eqb (dim b) 1.
Fixpoint pairwise_ok (vs : list value) : bool :=
  match vs with
  | [] => true
  | a :: r => forallb (dim_compat a) r && pairwise_ok r
  end.

Definition keep_flags (n : nat) (removed : list nat) : list bool :=
  map (fun i => negb (existsb (Nat.eqb i) removed)) (seq 0 n).

Definition exec_remove_overlap h c (removed : list nat) : heap * outcome :=
  match nth_error (ems h) c with
  | None => (h, Err EIndex)
  | Some e => match vals_of h (e_mem e) with
              | None => (h, Err EDangling)
              | Some vs =>
                if pairwise_ok vs
                then (set_em h c (mkE (e_dtype e) (filter_by (keep_flags (length vs) removed) (e_mem e))), Ok)
                else (h, Err EValue)
              end
  end.

(* ---- constructor, clones, general slices ---- *)

(* Emulsion(droplets, copy=, dtype=, force_consistency=): a new emulsion with the given dtype, then extend.
   When extend raises the constructor raises: no emulsion object comes into existence and (the droplets
   appended so far being copies or the caller's untouched objects) nothing else has changed *)
Definition construct h (dt : option dtype) (ls : list loc) (copy force : bool) : heap * outcome :=
  match extend_locs (push_em h (mkE dt [])) (length (ems h)) ls copy force with
  | (h1, Ok) => (h1, Ok)
  | (_, Err x) => (h, Err x)
  end.

Definition exec_emctor h (is : list nat) (dt : option nat) copy force : heap * outcome :=
  match mapM (nth_error (hnd h)) is with
  | None => (h, Err EIndex)
  | Some ls =>
    match dt with
    | None => construct h None ls copy force
    | Some i => match nth_error (hnd h) i with
                | None => (h, Err EIndex)
                | Some l => match val_of h l with
                            | None => (h, Err EDangling)
                            | Some v => construct h (Some (dtype_of v)) ls copy force
                            end
                end
    end
  end.

(* copy.copy(e), copy.deepcopy(e), pickle.loads(pickle.dumps(e)): the reconstruction goes through
   Emulsion.append / Emulsion.extend with the default copy=True (Emulsion is a list subclass), the dtype
   attribute is taken over: new emulsion, new droplet objects, new records, also for the shallow copy *)
Definition exec_emclone h c : heap * outcome :=
  match nth_error (ems h) c with
  | None => (h, Err EIndex)
  | Some e => construct h (e_dtype e) (e_mem e) true false
  end.

Definition exec_sel h c (idxs : list nat) : heap * outcome :=
  match nth_error (ems h) c with
  | None => (h, Err EIndex)
  | Some e => new_em_from h (sel idxs (e_mem e))
  end.

(* ---- linked data ---- *)

Definition all_eqb {A} (eqb : A -> A -> bool) (l : list A) : bool :=
  match l with [] => true | a :: r => forallb (eqb a) r end.

Fixpoint repoint (os : list sloc) (ls : list loc) (rows : list sloc) : list sloc :=
  match ls, rows with
  | l :: ls', s :: rows' => repoint (upd os l s) ls' rows'
  | _, _ => os
  end.

Definition exec_link h c : heap * outcome :=
  match nth_error (ems h) c with
  | None => (h, Err EIndex)
  | Some e =>
    match vals_of h (e_mem e), mapM (obj_of h) (e_mem e) with
    | Some vs, Some ss =>
      match vs with
      | [] => match e_dtype e with
              | None => (h, Err EOther)                 (* RuntimeError: empty, no dtype *)
              | Some _ => (push_arr h [], Ok)
              end
      | _ :: _ =>
        if negb (all_eqb Nat.eqb (map cls vs)) then (h, Err EType)
        else if all_eqb dtype_eqb (map dtype_of vs) then
          (* one fresh structured array; member i is re-pointed to row i *)
          let rows := seq (length (store h)) (length vs) in
          (push_arr (with_objs (with_store h (store h ++ vs)) (repoint (objs h) (e_mem e) rows)) rows, Ok)
        else
          (* same class, different dtypes: numpy builds an object array holding the records themselves *)
          (push_arr h ss, Ok)
      end
    | _, _ => (h, Err EDangling)
    end
  end.

Definition exec_writea h a i k q : heap * outcome :=
  match nth_error (arrs h) a with
  | None => (h, Err EIndex)
  | Some rows => match nth_error rows i with
                 | None => (h, Err EIndex)
                 | Some s => write_sloc h s k q
                 end
  end.

(* ---- merge of two members ---- *)

Definition merge_status (vi vj : value) : outcome :=
  if negb (Nat.eqb (dim vj) (dim vi) || Nat.eqb (dim vj) 1) then Err EValue
  else if negb (Nat.eqb (layout (cls vi)) 0) && Nat.eqb (layout (cls vj)) 0 then Err EAttr
  else Ok.

Definition exec_merge h c i j (inplace : bool) (v : value) : heap * outcome :=
  match nth_error (ems h) c with
  | None => (h, Err EIndex)
  | Some e =>
    match nth_error (e_mem e) i, nth_error (e_mem e) j with
    | Some li, Some lj =>
      match obj_of h li, val_of h li, val_of h lj with
      | Some s, Some vi, Some vj =>
        if inplace then (set_store h s v, merge_status vi vj)   (* v: data of the member after the call *)
        else match merge_status vi vj with
             | Ok => (with_hnd (alloc h [v]) (hnd h ++ new_locs h 1), Ok)
             | Err x => (h, Err x)
             end
      | _, _, _ => (h, Err EDangling)
      end
    | _, _ => (h, Err EIndex)
    end
  end.

(* ---- time courses ---- *)

(* Emulsion(e) / e.copy() for each source emulsion: fresh emulsion objects with fresh droplets *)
(* the new emulsions are [new_cids h (length es)] *)
Fixpoint copy_ems h (es : list emul) : option heap :=
  match es with
  | [] => Some h
  | e :: r => match vals_of h (e_mem e) with
              | None => None
              | Some vs => copy_ems (new_em_vals h vs) r
              end
  end.
Definition new_cids (h : heap) (n : nat) : list cid := seq (length (ems h)) n.

Definition default_time (ts : list Q) : Q :=
  match last_opt ts with None => 0%Q | Some x => (x + 1)%Q end.

(* the constructor: copies of the emulsions, then  self.times = list(times)  (a NEW list object),
   then the length check *)
Definition build_tc h (es : list emul) (ts : list Q) : heap * outcome :=
  match copy_ems h es with
  | None => (h, Err EDangling)
  | Some h1 =>
    if Nat.eqb (length ts) (length es)
    then (push_tc (alloc_tl h1 ts) (mkTC (length (tlists h)) (new_cids h (length es))), Ok)
    else (h, Err EValue)
  end.

Definition exec_tcnew h (cs : list nat) (times : option (list Q)) : heap * outcome :=
  match mapM (nth_error (ems h)) cs with
  | None => (h, Err EIndex)
  | Some es => build_tc h es (match times with None => range_q (length es) | Some ts => ts end)
  end.

(* times given as a list object the caller keeps: its CONTENT is copied *)
Definition exec_tcnewl h (cs : list nat) (j : nat) : heap * outcome :=
  match mapM (nth_error (ems h)) cs, nth_error (tvars h) j with
  | Some es, Some tl => match times_of h tl with
                        | None => (h, Err EDangling)
                        | Some ts => build_tc h es ts
                        end
  | _, _ => (h, Err EIndex)
  end.

(* EmulsionTimeCourse(other): emulsions and times are taken from the other object, both are copied *)
Definition exec_tccopy h t : heap * outcome :=
  match nth_error (tcs h) t with
  | None => (h, Err EIndex)
  | Some tc =>
    match times_of h (tc_tl tc), mapM (nth_error (ems h)) (tc_ems tc) with
    | Some ts, Some es => build_tc h es ts
    | _, _ => (h, Err EDangling)
    end
  end.

Definition exec_tcappend h t c (time : option Q) (copy : bool) : heap * outcome :=
  match nth_error (tcs h) t, nth_error (ems h) c with
  | Some tc, Some e =>
    match vals_of h (e_mem e), times_of h (tc_tl tc) with
    | Some vs, Some ts =>
      (* Emulsion(emulsion) copies; with copy=True a second copy is made of the first one:
         either way the stored emulsion and its droplets are fresh.  self.times.append(time)
         mutates the times list object in place *)
      let h1 := new_em_vals h vs in
      let tm := match time with Some q => q | None => default_time ts end in
      (set_tc (set_tl h1 (tc_tl tc) (ts ++ [tm])) t (mkTC (tc_tl tc) (tc_ems tc ++ [length (ems h)])), Ok)
    | _, _ => (h, Err EDangling)
    end
  | _, _ => (h, Err EIndex)
  end.

Definition exec_tcappend_bad h t : heap * outcome :=
  match nth_error (tcs h) t with
  | None => (h, Err EIndex)
  | Some _ => (h, Err EType)
  end.

Definition exec_tcslice h t lo hi : heap * outcome :=
  match nth_error (tcs h) t with
  | None => (h, Err EIndex)
  | Some tc =>
    match times_of h (tc_tl tc), mapM (nth_error (ems h)) (slice lo hi (tc_ems tc)) with
    | Some ts, Some es => build_tc h es (slice lo hi ts)
    | _, _ => (h, Err EDangling)
    end
  end.

(* clear():  self.emulsions = []; self.times = []  -- two NEW list objects *)
Definition exec_tcclear h t : heap * outcome :=
  match nth_error (tcs h) t with
  | None => (h, Err EIndex)
  | Some _ => (set_tc (alloc_tl h []) t (mkTC (length (tlists h)) []), Ok)
  end.

Definition exec_tcsel h t (idxs : list nat) : heap * outcome :=
  match nth_error (tcs h) t with
  | None => (h, Err EIndex)
  | Some tc =>
    match times_of h (tc_tl tc), mapM (nth_error (ems h)) (sel idxs (tc_ems tc)) with
    | Some ts, Some es => build_tc h es (sel idxs ts)
    | _, _ => (h, Err EDangling)
    end
  end.

(* copy.deepcopy(tc) / pickle round trip: every emulsion is cloned (dtype taken over), the times list is a new
   list object; no constructor runs, so there is no length check *)
Fixpoint clone_ems h (es : list emul) : heap * outcome :=
  match es with
  | [] => (h, Ok)
  | e :: r => match construct h (e_dtype e) (e_mem e) true false with
              | (h1, Ok) => clone_ems h1 r
              | (h1, Err x) => (h1, Err x)
              end
  end.

Definition exec_tcclone h t : heap * outcome :=
  match nth_error (tcs h) t with
  | None => (h, Err EIndex)
  | Some tc =>
    match times_of h (tc_tl tc), mapM (nth_error (ems h)) (tc_ems tc) with
    | Some ts, Some es =>
      match clone_ems h es with
      | (h1, Ok) => (push_tc (alloc_tl h1 ts) (mkTC (length (tlists h)) (new_cids h (length es))), Ok)
      | (_, Err x) => (h, Err x)
      end
    | _, _ => (h, Err EDangling)
    end
  end.

(* ---- tracks ---- *)

(* DropletTrack.append compares the dimension with that of the last member *)
Definition same_dims (vs : list value) : bool := all_eqb Nat.eqb (map dim vs).

(* the constructor: append (copy) every droplet, then  self.times = list(times), then the length check *)
Definition build_tr h (vs : list value) (ts : list Q) : heap * outcome :=
  if same_dims vs then
    if Nat.eqb (length ts) (length vs)
    then (push_tr (alloc_tl (alloc h vs) ts) (mkTR (length (tlists h)) (new_locs h (length vs))), Ok)
    else (h, Err EValue)
  else (h, Err EValue).

Definition exec_trnew h (is : list nat) (times : option (list Q)) : heap * outcome :=
  match mapM (nth_error (hnd h)) is with
  | None => (h, Err EIndex)
  | Some ls =>
    match vals_of h ls with
    | None => (h, Err EDangling)
    | Some vs => build_tr h vs (match times with None => range_q (length vs) | Some ts => ts end)
    end
  end.

Definition exec_trnewl h (is : list nat) (j : nat) : heap * outcome :=
  match mapM (nth_error (hnd h)) is, nth_error (tvars h) j with
  | Some ls, Some tl =>
    match vals_of h ls, times_of h tl with
    | Some vs, Some ts => build_tr h vs ts
    | _, _ => (h, Err EDangling)
    end
  | _, _ => (h, Err EIndex)
  end.

Definition exec_trcopy h k : heap * outcome :=
  match nth_error (trs h) k with
  | None => (h, Err EIndex)
  | Some tr =>
    match vals_of h (tr_drops tr), times_of h (tr_tl tr) with
    | Some vs, Some ts => build_tr h vs ts
    | _, _ => (h, Err EDangling)
    end
  end.

Definition exec_trappend h k i (time : option Q) : heap * outcome :=
  match nth_error (trs h) k, nth_error (hnd h) i with
  | Some tr, Some l =>
    match val_of h l, mapM (val_of h) (tr_drops tr), times_of h (tr_tl tr) with
    | Some v, Some dvs, Some ts =>
      let okdim := match last_opt dvs with None => true | Some vl => Nat.eqb (dim v) (dim vl) end in
      if okdim then
        let tm := match time with Some q => q | None => default_time ts end in
        (set_tr (set_tl (alloc h [v]) (tr_tl tr) (ts ++ [tm])) k (mkTR (tr_tl tr) (tr_drops tr ++ new_locs h 1)), Ok)
      else (h, Err EValue)
    | _, _, _ => (h, Err EDangling)
    end
  | _, _ => (h, Err EIndex)
  end.

Definition exec_trappend_bad h k : heap * outcome :=
  match nth_error (trs h) k with
  | None => (h, Err EIndex)
  | Some _ => (h, Err EAttr)
  end.

Definition exec_trslice h k lo hi : heap * outcome :=
  match nth_error (trs h) k with
  | None => (h, Err EIndex)
  | Some tr =>
    match vals_of h (slice lo hi (tr_drops tr)), times_of h (tr_tl tr) with
    | Some vs, Some ts => build_tr h vs (slice lo hi ts)
    | _, _ => (h, Err EDangling)
    end
  end.

Definition exec_trsel h k (idxs : list nat) : heap * outcome :=
  match nth_error (trs h) k with
  | None => (h, Err EIndex)
  | Some tr =>
    match vals_of h (sel idxs (tr_drops tr)), times_of h (tr_tl tr) with
    | Some vs, Some ts => build_tr h vs (sel idxs ts)
    | _, _ => (h, Err EDangling)
    end
  end.

Definition exec_trget h k i : heap * outcome :=
  match nth_error (trs h) k with
  | None => (h, Err EIndex)
  | Some tr => match nth_error (tr_drops tr) i with
               | None => (h, Err EIndex)
               | Some l => (push_hnd h l, Ok)
               end
  end.

(* ---- track lists ---- *)

Definition duration (ts : list Q) : Q :=
  match ts, last_opt ts with
  | t0 :: _, Some t1 => (t1 - t0)%Q
  | _, _ => 0%Q
  end.

Definition keeps_times (q : Q) (ts : list Q) : bool := negb (Qle_bool (duration ts) q).

Definition exec_tlnew h (ks : list nat) : heap * outcome :=
  match mapM (nth_error (trs h)) ks with
  | None => (h, Err EIndex)
  | Some _ => (with_tls h (tls h ++ [ks]), Ok)
  end.

Definition exec_tlremove h l q : heap * outcome :=
  match nth_error (tls h) l with
  | None => (h, Err EIndex)
  | Some ks => match mapM (nth_error (trs h)) ks with
               | None => (h, Err EDangling)
               | Some trl =>
                 match mapM (fun tr => times_of h (tr_tl tr)) trl with
                 | None => (h, Err EDangling)
                 | Some tss => (with_tls h (upd (tls h) l (filter_by (map (keeps_times q) tss) ks)), Ok)
                 end
               end
  end.

(* ---- lists of times held by the caller ---- *)

Definition exec_tlistnew h (ts : list Q) : heap * outcome :=
  (with_tvars (alloc_tl h ts) (tvars h ++ [length (tlists h)]), Ok).

Definition exec_tlistappend h j q : heap * outcome :=
  match nth_error (tvars h) j with
  | None => (h, Err EIndex)
  | Some tl => match times_of h tl with
               | None => (h, Err EDangling)
               | Some ts => (set_tl h tl (ts ++ [q]), Ok)
               end
  end.

Definition exec_tlistset h j i q : heap * outcome :=
  match nth_error (tvars h) j with
  | None => (h, Err EIndex)
  | Some tl => match times_of h tl with
               | None => (h, Err EDangling)
               | Some ts => if i <? length ts then (set_tl h tl (upd ts i q), Ok) else (h, Err EIndex)
               end
  end.

(* ---- the step function ---- *)

Definition exec (h : heap) (o : op) : heap * outcome :=
  match o with
  | ONew v => exec_new h v
  | OView i => exec_view h i
  | OSetH i k q => exec_seth h i k q
  | OEmNew => (push_em h (mkE None []), Ok)
  | OAppend c i cp f => exec_append h c i cp f
  | OExtend c is cp f => exec_extend h c is cp f
  | OGet c i => exec_get h c i
  | OSetM c i k q => exec_setm h c i k q
  | OCopy c q => exec_copy h c q
  | OSlice c lo hi => exec_slice h c lo hi
  | OAdd c1 c2 => exec_add h c1 c2
  | ORemoveSmall c q => exec_remove_small h c q
  | ORemoveOverlap c r => exec_remove_overlap h c r
  | OLink c => exec_link h c
  | OWriteA a i k q => exec_writea h a i k q
  | OMerge c i j ip v => exec_merge h c i j ip v
  | OTcNew cs ts => exec_tcnew h cs ts
  | OTcAppend t c tm cp => exec_tcappend h t c tm cp
  | OTcAppendBad t => exec_tcappend_bad h t
  | OTcSlice t lo hi => exec_tcslice h t lo hi
  | OTcClear t => exec_tcclear h t
  | OTrNew is ts => exec_trnew h is ts
  | OTrAppend k i tm => exec_trappend h k i tm
  | OTrAppendBad k => exec_trappend_bad h k
  | OTrSlice k lo hi => exec_trslice h k lo hi
  | OTrGet k i => exec_trget h k i
  | OTlNew ks => exec_tlnew h ks
  | OTlRemoveShort l q => exec_tlremove h l q
  | OTcCopy t => exec_tccopy h t
  | OTcNewL cs j => exec_tcnewl h cs j
  | OTrCopy k => exec_trcopy h k
  | OTrNewL is j => exec_trnewl h is j
  | OTlistNew ts => exec_tlistnew h ts
  | OTlistAppend j q => exec_tlistappend h j q
  | OTlistSet j i q => exec_tlistset h j i q
  | OEmCtor is dt cp f => exec_emctor h is dt cp f
  | OEmClone c => exec_emclone h c
  | OSel c idxs => exec_sel h c idxs
  | OTcSel t idxs => exec_tcsel h t idxs
  | OTrSel k idxs => exec_trsel h k idxs
  | OTcClone t => exec_tcclone h t
  | OExtendSelf c cp f => exec_extend_self h c cp f
  end.

Definition run (h : heap) (os : list op) : heap := fold_left (fun h o => fst (exec h o)) os h.

Fixpoint run_trace (h : heap) (os : list op) : list (heap * outcome) :=
  match os with
  | [] => []
  | o :: r => let ho := exec h o in ho :: run_trace (fst ho) r
  end.

(* ------------------------------------------------------------------------------------ *)
(* observation (what the harness dumps from the implementation after each operation)     *)
(* ------------------------------------------------------------------------------------ *)

(* every position through which a droplet object is reachable, in a fixed order *)
Definition roots (h : heap) : list loc :=
  hnd h ++ concat (map e_mem (ems h)) ++ concat (map tr_drops (trs h)).

Fixpoint first_index {A} (eqb : A -> A -> bool) (x : A) (l : list A) : nat :=
  match l with
  | [] => 0
  | a :: r => if eqb a x then 0 else S (first_index eqb x r)
  end.
(* canonical labelling of the partition "is the same thing": index of the first equal entry *)
Definition labels {A} (eqb : A -> A -> bool) (l : list A) : list nat := map (fun x => first_index eqb x l) l.

Record dump := mkD {
  d_hnd : list value;
  d_ems : list (option dtype * list value);
  d_tcs : list (list Q * list cid);
  d_trs : list (list Q * list value);
  d_arrs : list (list value);
  d_tls : list (list nat);
  d_objsig : list nat;     (* identity classes (Python `is`) of the droplets at [roots] *)
  d_stosig : list nat;     (* memory-sharing classes (np.shares_memory) of their records, then of all array rows *)
  d_tvars : list (list Q); (* content of the caller's lists of times *)
  d_tlsig : list nat       (* identity classes (`is`) of the times lists: time courses, tracks, caller lists *)
}.

(* an array row does not know the droplet class *)
Definition strip_cls (v : value) : value := mkV 0 (pos v) (rad v) (extra v).

(* every position holding a times list object, in a fixed order *)
Definition tl_roots (h : heap) : list tloc := map tc_tl (tcs h) ++ map tr_tl (trs h) ++ tvars h.

Definition pair_opt {A B} (a : option A) (b : option B) : option (A * B) :=
  match a, b with Some x, Some y => Some (x, y) | _, _ => None end.

Definition dump_of (h : heap) : option dump :=
  match vals_of h (hnd h),
        mapM (fun e => option_map (pair (e_dtype e)) (vals_of h (e_mem e))) (ems h),
        mapM (fun t => pair_opt (times_of h (tr_tl t)) (vals_of h (tr_drops t))) (trs h),
        mapM (mapM (fun s => option_map strip_cls (nth_error (store h) s))) (arrs h),
        mapM (obj_of h) (roots h),
        mapM (fun t => option_map (fun ts => (ts, tc_ems t)) (times_of h (tc_tl t))) (tcs h),
        mapM (times_of h) (tvars h) with
  | Some dh, Some de, Some dt, Some da, Some ss, Some dc, Some dv =>
    Some (mkD dh de dc dt da (tls h)
              (labels Nat.eqb (roots h)) (labels Nat.eqb (ss ++ concat (arrs h)))
              dv (labels Nat.eqb (tl_roots h)))
  | _, _, _, _, _, _, _ => None
  end.

(* ---- boolean equality of dumps (exact: Qeq_bool on every number) ---- *)

Fixpoint list_eqb {A} (eqb : A -> A -> bool) (a b : list A) : bool :=
  match a, b with
  | [], [] => true
  | x :: a', y :: b' => eqb x y && list_eqb eqb a' b'
  | _, _ => false
  end.

Definition value_eqb (a b : value) : bool :=
  Nat.eqb (cls a) (cls b) && list_eqb Qeq_bool (pos a) (pos b) && Qeq_bool (rad a) (rad b)
  && list_eqb Qeq_bool (extra a) (extra b).

Definition opt_eqb {A} (eqb : A -> A -> bool) (a b : option A) : bool :=
  match a, b with
  | None, None => true
  | Some x, Some y => eqb x y
  | _, _ => false
  end.

Definition pair_eqb {A B} (ea : A -> A -> bool) (eb : B -> B -> bool) (a b : A * B) : bool :=
  ea (fst a) (fst b) && eb (snd a) (snd b).

Definition dump_eqb (a b : dump) : bool :=
  list_eqb value_eqb (d_hnd a) (d_hnd b)
  && list_eqb (pair_eqb (opt_eqb dtype_eqb) (list_eqb value_eqb)) (d_ems a) (d_ems b)
  && list_eqb (pair_eqb (list_eqb Qeq_bool) (list_eqb Nat.eqb)) (d_tcs a) (d_tcs b)
  && list_eqb (pair_eqb (list_eqb Qeq_bool) (list_eqb value_eqb)) (d_trs a) (d_trs b)
  && list_eqb (list_eqb value_eqb) (d_arrs a) (d_arrs b)
  && list_eqb (list_eqb Nat.eqb) (d_tls a) (d_tls b)
  && list_eqb Nat.eqb (d_objsig a) (d_objsig b)
  && list_eqb Nat.eqb (d_stosig a) (d_stosig b)
  && list_eqb (list_eqb Qeq_bool) (d_tvars a) (d_tvars b)
  && list_eqb Nat.eqb (d_tlsig a) (d_tlsig b).

Definition errk_eqb (a b : errk) : bool :=
  match a, b with
  | EValue, EValue | EType, EType | EAttr, EAttr | EIndex, EIndex | EOther, EOther
  | EDangling, EDangling => true
  | _, _ => false
  end.
Definition outcome_eqb (a b : outcome) : bool :=
  match a, b with
  | Ok, Ok => true
  | Err x, Err y => errk_eqb x y
  | _, _ => false
  end.

(* A correspondence case: operations, and for each one the implementation's outcome and
   (optionally: exhaustive runs only dump after the last operation) its dump.  To keep the case
   files small the dump is transmitted as a DELTA against the previously transmitted dump (tables
   only grow: new length + changed entries); the full expected dump is rebuilt and compared with the
   full dump of the model after every operation. *)
Fixpoint assoc_nat {A} (i : nat) (l : list (nat * A)) : option A :=
  match l with
  | [] => None
  | (j, x) :: r => if Nat.eqb i j then Some x else assoc_nat i r
  end.

Definition tdelta A := (nat * list (nat * A))%type.

Definition patch {A} (old : list A) (d : tdelta A) : option (list A) :=
  mapM (fun i => match assoc_nat i (snd d) with Some x => Some x | None => nth_error old i end)
       (seq 0 (fst d)).

Record ddelta := mkDD {
  dd_hnd : tdelta value;
  dd_ems : tdelta (option dtype * list value);
  dd_tcs : tdelta (list Q * list cid);
  dd_trs : tdelta (list Q * list value);
  dd_arrs : tdelta (list value);
  dd_tls : tdelta (list nat);
  dd_objsig : option (list nat);
  dd_stosig : option (list nat);
  dd_tvars : tdelta (list Q);
  dd_tlsig : option (list nat)
}.

Definition apply_delta (d : dump) (dd : ddelta) : option dump :=
  match patch (d_hnd d) (dd_hnd dd), patch (d_ems d) (dd_ems dd), patch (d_tcs d) (dd_tcs dd),
        patch (d_trs d) (dd_trs dd), patch (d_arrs d) (dd_arrs dd), patch (d_tls d) (dd_tls dd),
        patch (d_tvars d) (dd_tvars dd) with
  | Some a, Some b, Some c, Some e, Some f, Some g, Some tv =>
    Some (mkD a b c e f g
              (match dd_objsig dd with Some x => x | None => d_objsig d end)
              (match dd_stosig dd with Some x => x | None => d_stosig d end)
              tv
              (match dd_tlsig dd with Some x => x | None => d_tlsig d end))
  | _, _, _, _, _, _, _ => None
  end.

Definition empty_dump : dump := mkD [] [] [] [] [] [] [] [] [] [].

Definition step_obs := (outcome * option ddelta)%type.

Fixpoint agree_from (h : heap) (ex : dump) (os : list op) (obs : list step_obs) : bool :=
  match os, obs with
  | [], [] => true
  | o :: os', (oc, dd) :: obs' =>
    let '(h1, oc1) := exec h o in
    outcome_eqb oc oc1
    && match dd with
       | None => agree_from h1 ex os' obs'
       | Some dd =>
         match apply_delta ex dd, dump_of h1 with
         | Some ex1, Some dm => dump_eqb ex1 dm && agree_from h1 ex1 os' obs'
         | _, _ => false
         end
       end
  | _, _ => false
  end.

Definition agree (c : list op * list step_obs) : bool := agree_from emp empty_dump (fst c) (snd c).

(* cases that start from a common prefix: the prefix is executed once *)
Definition agree_after (pre : list op) (ex : dump) (c : list op * list step_obs) : bool :=
  let h := run emp pre in
  match dump_of h with
  | Some dm => dump_eqb ex dm && agree_from h ex (fst c) (snd c)
  | None => false
  end.

(* ------------------------------------------------------------------------------------ *)
(* abstraction to plain value lists                                                      *)
(* ------------------------------------------------------------------------------------ *)

(* values of a list of droplet objects (a dangling reference would be dropped; [wf] heaps have none:
   Proofs.HeapSep.abs_vals_length) *)
Definition abs_vals (h : heap) (ls : list loc) : list value :=
  flat_map (fun l => match val_of h l with Some v => [v] | None => [] end) ls.

Definition abs_hnd (h : heap) (i : nat) : option value :=
  match nth_error (hnd h) i with Some l => val_of h l | None => None end.
Definition abs_em (h : heap) (c : cid) : option (list value) :=
  option_map (fun e => abs_vals h (e_mem e)) (nth_error (ems h) c).
(* content of a times list object (a dangling reference would read as []; [wf] heaps have none) *)
Definition tl_get (h : heap) (tl : tloc) : list Q :=
  match times_of h tl with Some ts => ts | None => [] end.
Definition tc_times (h : heap) (t : tcourse) : list Q := tl_get h (tc_tl t).
Definition tr_times (h : heap) (k : track) : list Q := tl_get h (tr_tl k).
Definition abs_tr (h : heap) (k : nat) : option (list (Q * value)) :=
  option_map (fun t => combine (tr_times h t) (abs_vals h (tr_drops t))) (nth_error (trs h) k).
Definition abs_tc (h : heap) (t : nat) : option (list (Q * option (list value))) :=
  option_map (fun x => combine (tc_times h x) (map (abs_em h) (tc_ems x))) (nth_error (tcs h) t).
Definition abs_tvar (h : heap) (j : nat) : option (list Q) :=
  option_map (tl_get h) (nth_error (tvars h) j).

(* operations that never make two references to one droplet object or one record
   ("default settings" in the sense of property C20); the excluded ones alias by design:
   from_data views, copy=False inserts, and indexing with an integer (returns the member itself) *)
Definition sep_op (o : op) : bool :=
  match o with
  | OView _ | OGet _ _ | OTrGet _ _ => false
  | OAppend _ _ cp _ => cp
  | OExtend _ _ cp _ => cp
  | OEmCtor _ _ cp _ => cp
  | OExtendSelf _ cp _ => cp
  | _ => true
  end.

(* ------------------------------------------------------------------------------------ *)
(* the simple list model (specification): no objects, no records, only values            *)
(* ------------------------------------------------------------------------------------ *)

Record spec := mkS {
  s_hnd : list value;                               (* value of every caller droplet *)
  s_ems : list (option dtype * list value);         (* every emulsion: dtype, member values *)
  s_tcs : list (list Q * list cid);                 (* time courses: times, emulsions (by number) *)
  s_trs : list (list Q * list value);               (* tracks: times, droplet values *)
  s_tls : list (list nat);
  s_tvars : list (list Q)                           (* the caller's lists of times *)
}.

Definition abs (h : heap) : spec :=
  mkS (abs_vals h (hnd h))
      (map (fun e => (e_dtype e, abs_vals h (e_mem e))) (ems h))
      (map (fun t => (tc_times h t, tc_ems t)) (tcs h))
      (map (fun k => (tr_times h k, abs_vals h (tr_drops k))) (trs h))
      (tls h)
      (map (tl_get h) (tvars h)).

Definition sp_hnd s x := mkS x (s_ems s) (s_tcs s) (s_trs s) (s_tls s) (s_tvars s).
Definition sp_ems s x := mkS (s_hnd s) x (s_tcs s) (s_trs s) (s_tls s) (s_tvars s).
Definition sp_tcs s x := mkS (s_hnd s) (s_ems s) x (s_trs s) (s_tls s) (s_tvars s).
Definition sp_trs s x := mkS (s_hnd s) (s_ems s) (s_tcs s) x (s_tls s) (s_tvars s).
Definition sp_tls s x := mkS (s_hnd s) (s_ems s) (s_tcs s) (s_trs s) x (s_tvars s).
Definition sp_tvars s x := mkS (s_hnd s) (s_ems s) (s_tcs s) (s_trs s) (s_tls s) x.

Definition sp_fresh (e : option dtype * list value) : option dtype * list value :=
  (hd_error (map dtype_of (snd e)), snd e).

(* constructors of the list model: a new time course / track from values *)
Definition sp_build_tc (s : spec) (es : list (option dtype * list value)) (ts : list Q) : spec * outcome :=
  if Nat.eqb (length ts) (length es)
  then (sp_tcs (sp_ems s (s_ems s ++ map sp_fresh es))
               (s_tcs s ++ [(ts, seq (length (s_ems s)) (length es))]), Ok)
  else (s, Err EValue).
Definition sp_build_tr (s : spec) (vs : list value) (ts : list Q) : spec * outcome :=
  if same_dims vs then
    if Nat.eqb (length ts) (length vs) then (sp_trs s (s_trs s ++ [(ts, vs)]), Ok) else (s, Err EValue)
  else (s, Err EValue).

Definition sp_append (s : spec) (c : nat) (v : value) (force : bool) : spec * outcome :=
  match nth_error (s_ems s) c with
  | None => (s, Err EIndex)
  | Some (d, vs) =>
    if rejects (mkE d []) v force then (s, Err EValue)
    else (sp_ems s (upd (s_ems s) c (new_dtype (mkE d []) v, vs ++ [v])), Ok)
  end.

Fixpoint sp_extend (s : spec) (c : nat) (vs : list value) (force : bool) : spec * outcome :=
  match vs with
  | [] => (s, Ok)
  | v :: r => match sp_append s c v force with
              | (s1, Ok) => sp_extend s1 c r force
              | (s1, Err e) => (s1, Err e)
              end
  end.

(* the constructor of the list model: an emulsion with the given dtype filled by extend; all or nothing *)
Definition sp_construct (s : spec) (dt : option dtype) (vs : list value) (force : bool) : spec * outcome :=
  match sp_extend (sp_ems s (s_ems s ++ [(dt, [])])) (length (s_ems s)) vs force with
  | (s1, Ok) => (s1, Ok)
  | (_, Err x) => (s, Err x)
  end.

Fixpoint sp_clone_ems (s : spec) (es : list (option dtype * list value)) : spec * outcome :=
  match es with
  | [] => (s, Ok)
  | e :: r => match sp_construct s (fst e) (snd e) false with
              | (s1, Ok) => sp_clone_ems s1 r
              | (s1, Err x) => (s1, Err x)
              end
  end.

Definition sp_new_em (s : spec) (vs : list value) : spec :=
  sp_ems s (s_ems s ++ [(hd_error (map dtype_of vs), vs)]).

Definition sp_set_member (s : spec) (c i : nat) (f : value -> option value) : spec * outcome :=
  match nth_error (s_ems s) c with
  | None => (s, Err EIndex)
  | Some (d, vs) =>
    match nth_error vs i with
    | None => (s, Err EIndex)
    | Some v => match f v with
                | None => (s, Err EIndex)
                | Some v' => (sp_ems s (upd (s_ems s) c (d, upd vs i v')), Ok)
                end
    end
  end.

Definition spec_step (s : spec) (o : op) : spec * outcome :=
  match o with
  | ONew v => (sp_hnd s (s_hnd s ++ [v]), Ok)
  | OView i => match nth_error (s_hnd s) i with
               | None => (s, Err EIndex)
               | Some v => (sp_hnd s (s_hnd s ++ [v]), Ok)
               end
  | OSetH i k q =>
    match nth_error (s_hnd s) i with
    | None => (s, Err EIndex)
    | Some v => match set_flat v k q with
                | None => (s, Err EIndex)
                | Some v' => (sp_hnd s (upd (s_hnd s) i v'), Ok)
                end
    end
  | OEmNew => (sp_ems s (s_ems s ++ [(None, [])]), Ok)
  | OAppend c i _ f =>
    match nth_error (s_hnd s) i with
    | None => (s, Err EIndex)
    | Some v => sp_append s c v f
    end
  | OExtend c is _ f =>
    match mapM (nth_error (s_hnd s)) is with
    | None => (s, Err EIndex)
    | Some vs => match nth_error (s_ems s) c with
                 | None => (s, Err EIndex)
                 | Some _ => sp_extend s c vs f
                 end
    end
  | OGet c i =>
    match nth_error (s_ems s) c with
    | None => (s, Err EIndex)
    | Some (_, vs) => match nth_error vs i with
                      | None => (s, Err EIndex)
                      | Some v => (sp_hnd s (s_hnd s ++ [v]), Ok)
                      end
    end
  | OSetM c i k q => sp_set_member s c i (fun v => set_flat v k q)
  | OCopy c q =>
    match nth_error (s_ems s) c with
    | None => (s, Err EIndex)
    | Some (_, vs) => (sp_new_em s (filter (keeps_copy q) vs), Ok)
    end
  | OSlice c lo hi =>
    match nth_error (s_ems s) c with
    | None => (s, Err EIndex)
    | Some (_, vs) => (sp_new_em s (slice lo hi vs), Ok)
    end
  | OAdd c1 c2 =>
    match nth_error (s_ems s) c1, nth_error (s_ems s) c2 with
    | Some (_, vs1), Some (_, vs2) => (sp_new_em s (vs1 ++ vs2), Ok)
    | _, _ => (s, Err EIndex)
    end
  | ORemoveSmall c q =>
    match nth_error (s_ems s) c with
    | None => (s, Err EIndex)
    | Some (d, vs) => (sp_ems s (upd (s_ems s) c (d, filter (keeps_copy q) vs)), Ok)
    end
  | ORemoveOverlap c removed =>
    match nth_error (s_ems s) c with
    | None => (s, Err EIndex)
    | Some (d, vs) =>
      if pairwise_ok vs
      then (sp_ems s (upd (s_ems s) c (d, filter_by (keep_flags (length vs) removed) vs)), Ok)
      else (s, Err EValue)
    end
  | OLink c =>
    match nth_error (s_ems s) c with
    | None => (s, Err EIndex)
    | Some (d, vs) =>
      match vs with
      | [] => match d with None => (s, Err EOther) | Some _ => (s, Ok) end
      | _ :: _ => if negb (all_eqb Nat.eqb (map cls vs)) then (s, Err EType) else (s, Ok)
      end
    end
  | OWriteA _ _ _ _ => (s, Ok)      (* not a list-model operation: the array is an alias by design *)
  | OMerge c i j inplace v =>
    match nth_error (s_ems s) c with
    | None => (s, Err EIndex)
    | Some (d, vs) =>
      match nth_error vs i, nth_error vs j with
      | Some vi, Some vj =>
        if inplace then (sp_ems s (upd (s_ems s) c (d, upd vs i v)), merge_status vi vj)
        else match merge_status vi vj with
             | Ok => (sp_hnd s (s_hnd s ++ [v]), Ok)
             | Err x => (s, Err x)
             end
      | _, _ => (s, Err EIndex)
      end
    end
  | OTcNew cs times =>
    match mapM (nth_error (s_ems s)) cs with
    | None => (s, Err EIndex)
    | Some es => sp_build_tc s es (match times with None => range_q (length es) | Some ts => ts end)
    end
  | OTcAppend t c time _ =>
    match nth_error (s_tcs s) t, nth_error (s_ems s) c with
    | Some (ts, cs), Some e =>
      let tm := match time with Some q => q | None => default_time ts end in
      (sp_tcs (sp_ems s (s_ems s ++ [sp_fresh e]))
              (upd (s_tcs s) t (ts ++ [tm], cs ++ [length (s_ems s)])), Ok)
    | _, _ => (s, Err EIndex)
    end
  | OTcAppendBad t =>
    match nth_error (s_tcs s) t with None => (s, Err EIndex) | Some _ => (s, Err EType) end
  | OTcSlice t lo hi =>
    match nth_error (s_tcs s) t with
    | None => (s, Err EIndex)
    | Some (ts, cs) =>
      match mapM (nth_error (s_ems s)) (slice lo hi cs) with
      | None => (s, Err EDangling)
      | Some es => sp_build_tc s es (slice lo hi ts)
      end
    end
  | OTcClear t =>
    match nth_error (s_tcs s) t with
    | None => (s, Err EIndex)
    | Some _ => (sp_tcs s (upd (s_tcs s) t ([], [])), Ok)
    end
  | OTrNew is times =>
    match mapM (nth_error (s_hnd s)) is with
    | None => (s, Err EIndex)
    | Some vs => sp_build_tr s vs (match times with None => range_q (length vs) | Some ts => ts end)
    end
  | OTrAppend k i time =>
    match nth_error (s_trs s) k, nth_error (s_hnd s) i with
    | Some (ts, dvs), Some v =>
      let okdim := match last_opt dvs with None => true | Some vl => Nat.eqb (dim v) (dim vl) end in
      if okdim then
        let tm := match time with Some q => q | None => default_time ts end in
        (sp_trs s (upd (s_trs s) k (ts ++ [tm], dvs ++ [v])), Ok)
      else (s, Err EValue)
    | _, _ => (s, Err EIndex)
    end
  | OTrAppendBad k =>
    match nth_error (s_trs s) k with None => (s, Err EIndex) | Some _ => (s, Err EAttr) end
  | OTrSlice k lo hi =>
    match nth_error (s_trs s) k with
    | None => (s, Err EIndex)
    | Some (ts, dvs) => sp_build_tr s (slice lo hi dvs) (slice lo hi ts)
    end
  | OTrGet k i =>
    match nth_error (s_trs s) k with
    | None => (s, Err EIndex)
    | Some (_, dvs) => match nth_error dvs i with
                       | None => (s, Err EIndex)
                       | Some v => (sp_hnd s (s_hnd s ++ [v]), Ok)
                       end
    end
  | OTlNew ks =>
    match mapM (nth_error (s_trs s)) ks with
    | None => (s, Err EIndex)
    | Some _ => (sp_tls s (s_tls s ++ [ks]), Ok)
    end
  | OTlRemoveShort l q =>
    match nth_error (s_tls s) l with
    | None => (s, Err EIndex)
    | Some ks =>
      match mapM (nth_error (s_trs s)) ks with
      | None => (s, Err EDangling)
      | Some ts => (sp_tls s (upd (s_tls s) l
                      (filter_by (map (fun t => keeps_times q (fst t)) ts) ks)), Ok)
      end
    end
  | OTcCopy t =>
    match nth_error (s_tcs s) t with
    | None => (s, Err EIndex)
    | Some (ts, cs) =>
      match mapM (nth_error (s_ems s)) cs with
      | None => (s, Err EDangling)
      | Some es => sp_build_tc s es ts
      end
    end
  | OTcNewL cs j =>
    match mapM (nth_error (s_ems s)) cs, nth_error (s_tvars s) j with
    | Some es, Some ts => sp_build_tc s es ts
    | _, _ => (s, Err EIndex)
    end
  | OTrCopy k =>
    match nth_error (s_trs s) k with
    | None => (s, Err EIndex)
    | Some (ts, dvs) => sp_build_tr s dvs ts
    end
  | OTrNewL is j =>
    match mapM (nth_error (s_hnd s)) is, nth_error (s_tvars s) j with
    | Some vs, Some ts => sp_build_tr s vs ts
    | _, _ => (s, Err EIndex)
    end
  | OTlistNew ts => (sp_tvars s (s_tvars s ++ [ts]), Ok)
  | OTlistAppend j q =>
    match nth_error (s_tvars s) j with
    | None => (s, Err EIndex)
    | Some ts => (sp_tvars s (upd (s_tvars s) j (ts ++ [q])), Ok)
    end
  | OTlistSet j i q =>
    match nth_error (s_tvars s) j with
    | None => (s, Err EIndex)
    | Some ts => if i <? length ts then (sp_tvars s (upd (s_tvars s) j (upd ts i q)), Ok) else (s, Err EIndex)
    end
  | OEmCtor is dt _ f =>
    match mapM (nth_error (s_hnd s)) is with
    | None => (s, Err EIndex)
    | Some vs =>
      match dt with
      | None => sp_construct s None vs f
      | Some i => match nth_error (s_hnd s) i with
                  | None => (s, Err EIndex)
                  | Some v => sp_construct s (Some (dtype_of v)) vs f
                  end
      end
    end
  | OEmClone c =>
    match nth_error (s_ems s) c with
    | None => (s, Err EIndex)
    | Some e => sp_construct s (fst e) (snd e) false
    end
  | OSel c idxs =>
    match nth_error (s_ems s) c with
    | None => (s, Err EIndex)
    | Some (_, vs) => (sp_new_em s (sel idxs vs), Ok)
    end
  | OTcSel t idxs =>
    match nth_error (s_tcs s) t with
    | None => (s, Err EIndex)
    | Some (ts, cs) =>
      match mapM (nth_error (s_ems s)) (sel idxs cs) with
      | None => (s, Err EDangling)
      | Some es => sp_build_tc s es (sel idxs ts)
      end
    end
  | OTrSel k idxs =>
    match nth_error (s_trs s) k with
    | None => (s, Err EIndex)
    | Some (ts, dvs) => sp_build_tr s (sel idxs dvs) (sel idxs ts)
    end
  | OTcClone t =>
    match nth_error (s_tcs s) t with
    | None => (s, Err EIndex)
    | Some (ts, cs) =>
      match mapM (nth_error (s_ems s)) cs with
      | None => (s, Err EDangling)
      | Some es =>
        match sp_clone_ems s es with
        | (s1, Ok) => (sp_tcs s1 (s_tcs s1 ++ [(ts, seq (length (s_ems s)) (length es))]), Ok)
        | (_, Err x) => (s, Err x)
        end
      end
    end
  | OExtendSelf c _ f =>
    match nth_error (s_ems s) c with
    | None => (s, Err EIndex)
    | Some (_, vs) => sp_extend s c vs f
    end
  end.

(* operations of the list model: the default-flag operations except writes through a linked array *)
Definition list_op (o : op) : bool :=
  match o with
  | OWriteA _ _ _ _ => false
  | _ => sep_op o
  end.

Definition spec_run (s : spec) (os : list op) : spec := fold_left (fun s o => fst (spec_step s o)) os s.

(* ------------------------------------------------------------------------------------ *)
(* summary queries as functions of the member values                                     *)
(* ------------------------------------------------------------------------------------ *)
(* The volume / surface area of a droplet involve pi and roots, which are not rational: the
   queries are parameterised by per-droplet functions [vol], [area] : value -> Q.  np.std is
   stated as the variance (mean of squared deviations). *)
From Coq Require Import Qminmax Qabs.

Definition qsum (l : list Q) : Q := fold_right Qplus 0%Q l.
Definition qlen {A} (l : list A) : Q := inject_Z (Z.of_nat (length l)).
Definition qmean (xs : list Q) : Q := (qsum xs / qlen xs)%Q.
Definition qvariance (xs : list Q) : Q :=
  let m := qmean xs in (qsum (map (fun x => (x - m) * (x - m))%Q xs) / qlen xs)%Q.

Definition st_count (vs : list value) : nat := length vs.
Definition st_radius_mean (vs : list value) : Q := qmean (map rad vs).
Definition st_radius_var (vs : list value) : Q := qvariance (map rad vs).
Definition st_volume_mean (vol : value -> Q) (vs : list value) : Q := qmean (map vol vs).
Definition st_volume_var (vol : value -> Q) (vs : list value) : Q := qvariance (map vol vs).
Definition st_total_volume (vol : value -> Q) (vs : list value) : Q := qsum (map vol vs).

(* Emulsion.interface_width: average of the widths weighted by surface area over the members that
   have a width; None when the total weight is zero *)
Definition width_of (v : value) : option Q := match extra v with w :: _ => Some w | [] => None end.
Definition weighted (area : value -> Q) (vs : list value) : list (Q * Q) :=
  flat_map (fun v => match width_of v with Some w => [(w, area v)] | None => [] end) vs.
Definition st_width (area : value -> Q) (vs : list value) : option Q :=
  let ws := weighted area vs in
  let a := qsum (map snd ws) in
  if Qeq_bool a 0 then None else Some (qsum (map (fun p => fst p * snd p)%Q ws) / a)%Q.

(* bounding box along axis k: [min (p_k - r), max (p_k + r)] *)
Definition lo_bound (l : list Q) : option Q :=
  fold_right (fun x acc => match acc with None => Some x | Some m => Some (Qmin x m) end) None l.
Definition hi_bound (l : list Q) : option Q :=
  fold_right (fun x acc => match acc with None => Some x | Some m => Some (Qmax x m) end) None l.
Definition axis_lows (k : nat) (vs : list value) : list Q :=
  flat_map (fun v => match nth_error (pos v) k with Some p => [(p - rad v)%Q] | None => [] end) vs.
Definition axis_highs (k : nat) (vs : list value) : list Q :=
  flat_map (fun v => match nth_error (pos v) k with Some p => [(p + rad v)%Q] | None => [] end) vs.
Definition st_bbox (k : nat) (vs : list value) : option Q * option Q :=
  (lo_bound (axis_lows k vs), hi_bound (axis_highs k vs)).

(* DropletTrack: trajectory of an attribute, duration ([duration] above) *)
Definition trajectory (vs : list value) : list (list Q) := map pos vs.
Definition radii (vs : list value) : list Q := map rad vs.

(* EmulsionTimeCourse.get_emulsion(time): index of the FIRST minimum of |t_i - time| (np.argmin) *)
Fixpoint argmin_from (best : nat * Q) (i : nat) (l : list Q) : nat :=
  match l with
  | [] => fst best
  | x :: r => if Qlt_le_dec x (snd best) then argmin_from (i, x) (S i) r else argmin_from best (S i) r
  end.
Definition nearest (ts : list Q) (t : Q) : option nat :=
  match map (fun x => Qabs (x - t)) ts with
  | [] => None
  | d :: r => Some (argmin_from (0%nat, d) 1%nat r)
  end.
