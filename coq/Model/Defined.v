(* Fixed tactics for the generated definedness obligations (Gen/Gen_spherical_def.v) and for the boundary
   evaluation of the generated conversions at the argument 0.  Coq's division and square root are total
   (x / 0 = 0 is provable), so a model that divides by its argument would satisfy the C12 theorems at the
   boundary of the domain for the wrong reason; the obligations exclude that.  Tactics only. *)
From Coq Require Import Reals Lra.
From PD Require Import Model.Num.
Local Open Scope R_scope.

Lemma PI_pos_def : 0 < PI. Proof. exact PI_RGT_0. Qed.

(* 0 < e  /  0 <= e  by structure: products, quotients, powers, roots of things that are so; leaves by lra/nra *)
Ltac def_pos :=
  lazymatch goal with
  | |- 0 < ?a * ?b => apply Rmult_lt_0_compat; def_pos
  | |- 0 < ?a / ?b => apply Rdiv_lt_0_compat; def_pos
  | |- 0 < ?a ^ _ => apply pow_lt; def_pos
  | |- 0 < sqrt ?a => apply sqrt_lt_R0; def_pos
  | |- 0 < _ => first [assumption | exact PI_pos_def | lra | nra]
  end.

Ltac def_nonneg :=
  lazymatch goal with
  | |- 0 <= ?a * ?b => apply Rmult_le_pos; def_nonneg
  | |- 0 <= ?a / ?b => unfold Rdiv at 1; apply Rmult_le_pos; [def_nonneg | left; apply Rinv_0_lt_compat; def_pos]
  | |- 0 <= ?a ^ _ => apply pow_le; def_nonneg
  | |- 0 <= sqrt _ => apply sqrt_pos
  | |- 0 <= pow_nn _ _ => apply pow_nn_nonneg
  | |- 0 <= _ => first [assumption | left; exact PI_pos_def | lra | nra]
  end.

Ltac def_tac :=
  intros; cbv zeta;
  lazymatch goal with
  | |- 0 <= _ => def_nonneg
  | |- 0 < _ => def_pos
  | |- _ <> 0 => first [ apply Rgt_not_eq; def_pos
                        | pose proof PI_pos_def; lra
                        | pose proof PI_pos_def; nra ]
  end.

(* f 0 = y for a generated conversion f (already unfolded): bring the arguments of sqrt / pow_nn to 0 *)
Ltac fld0 := field; repeat split; first [apply PI_neq0 | pose proof PI_pos_def; lra].
Ltac at0 :=
  repeat match goal with
  | |- context [sqrt ?e] =>
      lazymatch e with 0 => fail | _ => replace e with 0 by fld0 end
  | |- context [pow_nn ?e ?y] =>
      lazymatch e with 0 => fail | _ => replace e with 0 by fld0 end
  end;
  rewrite ?sqrt_0, ?pow_nn_0;
  first [reflexivity | fld0 | lra].
