(* _locate_droplets_in_mask_cartesian after ndimage.label: statistics per label, boundary edges in
   the order of itertools.product, the merge loop, np.unique, cell -> grid transform, normalize_point.
   The labelling itself (scipy.ndimage.label) is an oracle: `lab` is the label image in raster
   (C) order; its specification LabelSpec is a premise of the theorems and checked per sample. *)
From Coq Require Import QArith ZArith List Arith Bool.
Import ListNotations.
From PD Require Import Model.Grid Model.MergeLoop.
Local Open Scope Q_scope.

Definition cell := list Z.

Fixpoint cell_eqb (a b : cell) : bool :=
  match a, b with
  | [], [] => true
  | x :: a', y :: b' => Z.eqb x y && cell_eqb a' b'
  | _, _ => false
  end.

(* label image as association list in raster order *)
Definition limage := list (cell * nat).

Definition mk_limage (shape : list Z) (lab : list nat) : limage := combine (all_cells shape) lab.

Fixpoint lab_of (img : limage) (c : cell) : nat :=
  match img with
  | [] => 0%nat
  | (c', l) :: img' => if cell_eqb c c' then l else lab_of img' c
  end.

Definition num_labels (img : limage) : nat := fold_right (fun p m => Nat.max (snd p) m) 0%nat img.

(* ndimage.center_of_mass / ndimage.sum for label k+1 (k is the 0-based label index) *)
Definition members (img : limage) (k : nat) : list cell :=
  map fst (filter (fun p => Nat.eqb (snd p) (S k)) img).

Definition coordQ (c : cell) (ax : nat) : Q := inject_Z (nth ax c 0%Z).

Definition csum (cs : list cell) (f : cell -> Q) : Q := fold_right (fun c s => f c + s) 0 cs.

Definition count (cs : list cell) : Q := inject_Z (Z.of_nat (length cs)).

Definition pos0 (img : limage) (k ax : nat) : Q :=
  csum (members img k) (fun c => coordQ c ax) / count (members img k) + (1 # 2).

Definition vol0 (g : grid) (img : limage) (k : nat) : Q := count (members img k) * cell_volume g.

(* boundary pairs along axis ax in the order of itertools.product over the low and high faces *)
Fixpoint set_nth (ax : nat) (v : Z) (c : cell) : cell :=
  match ax, c with
  | O, _ :: c' => v :: c'
  | S ax', x :: c' => x :: set_nth ax' v c'
  | _, [] => []
  end.

Definition boundary_pairs (shape : list Z) (ax : nat) : list (cell * cell) :=
  map (fun c => (c, set_nth ax (nth ax shape 0%Z - 1)%Z c)) (all_cells (set_nth ax 1%Z shape)).

Definition edges_axis (shape : list Z) (img : limage) (ax : nat) : list edge :=
  flat_map (fun lh => let il := lab_of img (fst lh) in let ih := lab_of img (snd lh) in
                      if (Nat.ltb 0 il && Nat.ltb 0 ih)%bool then [(pred il, pred ih, ax)] else [])
           (boundary_pairs shape ax).

Definition periodic_axes (g : grid) : list nat :=
  map fst (filter (fun p => aper (snd p)) (combine (seq 0 (length g)) g)).

Definition edges (g : grid) (img : limage) : list edge :=
  flat_map (edges_axis (gshape g) img) (periodic_axes g).

Definition shapeN (g : grid) (ax : nat) : Z := nth ax (gshape g) 0%Z.

Definition final_state (g : grid) (img : limage) : mstate :=
  merge_all (shapeN g) (init_state (pos0 img) (vol0 g img)) (edges g img).

(* candidates before overlap removal: (position in grid coordinates, volume), ordered by representative *)
Definition candidates (g : grid) (lab : list nat) : list (list Q * Q) :=
  let img := mk_limage (gshape g) lab in
  let st := final_state g img in
  map (fun i => (normalize g (cell_to_grid g (map (mpos st i) (seq 0 (length g)))), mvol st i))
      (reps st (num_labels img)).
