(* refine_droplet: the parameter-vector plumbing around the optimiser (exact rationals, executable).

   The lines of refine_droplet that assemble the start vector, the bounds, the write-back, the intensity
   levels, the dilation count and the final position are GENERATED from the current source (Gen_refine);
   this file composes them in the order of the source and adds what belongs to py-pde / scipy:
     * grid families, `coordinate_constraints`, `typical_discretization`, `transform`, `normalize_point`
       (py-pde 0.58.0; Cartesian: no constraint; polar [0,1]; spherical [0,1,2]; cylindrical [0,1]),
     * the preconditions of scipy.optimize.least_squares in the order in which scipy tests them
       (shapes, lb < ub strictly, lb <= x0 <= ub) as explicit error values,
     * the optimiser itself (`lsq`), the Euclidean norm used by `transform` (`hyp`) and the image
       deviation over the fit region (`dev`) as Section variables (oracles). *)
From Coq Require Import String QArith Qabs Qround ZArith List Bool Arith.
Import ListNotations.
From PD Require Import Model.Grid Gen.Gen_refine.
Local Open Scope Q_scope.

(* ---------------------------------------------------------------------------------------- *)
(* grids                                                                                     *)
(* ---------------------------------------------------------------------------------------- *)
Inductive family := FCart | FPolar | FSpher | FCyl.

(* g_axes: the GRID axes (Cartesian: one per dimension; polar / spherical: [r]; cylindrical: [r; z]) *)
Record rgrid := { g_family : family; g_axes : grid }.

Definition g_dim (g : rgrid) : nat :=
  match g_family g with FCart => length (g_axes g) | FPolar => 2 | FSpher => 3 | FCyl => 3 end.

(* grid.coordinate_constraints: Cartesian coordinates that the symmetry of the grid fixes *)
Definition constraints (g : rgrid) : list nat :=
  match g_family g with FCart => [] | FPolar => [0; 1] | FSpher => [0; 1; 2] | FCyl => [0; 1] end%nat.

(* np.mean(grid.discretization) *)
Definition typical_discretization (g : rgrid) : Q :=
  fold_right Qplus 0 (map adisc (g_axes g)) / inject_Z (Z.of_nat (length (g_axes g))).

(* ---------------------------------------------------------------------------------------- *)
(* droplets as records and as flat data vectors                                              *)
(* ---------------------------------------------------------------------------------------- *)
(* d_width = None: the class has no interface width (SphericalDroplet) or it is unset (nan);
   d_amp = []: the class has no amplitudes or zero modes *)
Record droplet := { d_cls : rclass; d_pos : list Q; d_rad : Q; d_width : option Q; d_amp : list Q }.

(* structured_to_unstructured(droplet.data) of a diffuse(-derived) droplet *)
Definition flat (pos : list Q) (rad w : Q) (amp : list Q) : list Q := pos ++ rad :: w :: amp.

(* unstructured_to_structured(data_flat, dtype) *)
Definition unflat (c : rclass) (dim : nat) (v : list Q) : option droplet :=
  match skipn dim v with
  | r :: w :: amp => Some {| d_cls := c; d_pos := firstn dim v; d_rad := r; d_width := Some w; d_amp := amp |}
  | _ => None
  end.

(* DiffuseDroplet.from_droplet(droplet) for a droplet that is not a DiffuseDroplet *)
Definition promoted (c : droplet) : droplet :=
  if is_diffuse (d_cls c) then c
  else {| d_cls := promote (d_cls c); d_pos := d_pos c; d_rad := d_rad c; d_width := promoted_width; d_amp := [] |}.

(* ---------------------------------------------------------------------------------------- *)
(* bounds                                                                                    *)
(* ---------------------------------------------------------------------------------------- *)
Definition lo_le (l : ext) (x : Q) : bool :=
  match l with NegInf => true | Fin a => Qle_bool a x | PosInf => false end.
Definition le_hi (x : Q) (h : ext) : bool :=
  match h with PosInf => true | Fin b => Qle_bool x b | NegInf => false end.
Definition ext_lt (l h : ext) : bool :=
  match l, h with
  | NegInf, NegInf => false
  | NegInf, _ => true
  | Fin a, Fin b => negb (Qle_bool b a)
  | Fin _, PosInf => true
  | Fin _, NegInf => false
  | PosInf, _ => false
  end.

(* lo <= x <= hi, entry by entry (false on a length mismatch) *)
Fixpoint within (lo : list ext) (x : list Q) (hi : list ext) : bool :=
  match lo, x, hi with
  | [], [], [] => true
  | l :: lo', a :: x', h :: hi' => lo_le l a && le_hi a h && within lo' x' hi'
  | _, _, _ => false
  end.

(* lo < hi strictly, entry by entry *)
Fixpoint strict (lo hi : list ext) : bool :=
  match lo, hi with
  | [], [] => true
  | l :: lo', h :: hi' => ext_lt l h && strict lo' hi'
  | _, _ => false
  end.

(* EEmptyRegion: `np.min` of an empty region; raised by the code before the fix "falls back to the default levels
   when the droplet covers no grid point" -- the model never returns it (kept so that such a run can be written down) *)
Inductive rerr := EInfeasible | EBoundsNotStrict | EDimMismatch | EEmptyRegion | EShape.
Inductive rres := ROk (d : droplet) | RErr (e : rerr).

(* minimum and maximum of the image over the fit region; None: the region has no cell *)
Definition stats := option (Q * Q).

(* effective intensity levels: given, or min / max of the data, or the defaults for an empty region *)
Definition levels (vmin vmax : option Q) (st : stats) : Q * Q := (level_min vmin st, level_max vmax st).

(* what refine_droplet has assembled when it reaches the optimiser *)
Record prepared := {
  p_drop : droplet;            (* candidate after promotion *)
  p_dim : nat;
  p_width : Q;                 (* interface width after the default *)
  p_flat : list Q;             (* data_flat *)
  p_free : list bool;
  p_scale : Q;                 (* the unit of the intensities below (1 for a source that does not normalise) *)
  p_vmin : Q; p_vmax : Q; p_vrng : Q;   (* in units of p_scale *)
  p_x0 : list Q; p_lo : list ext; p_hi : list ext
}.

Definition prepare (g : rgrid) (st : stats) (vmin_o vmax_o : option Q) (adjust : bool) (c : droplet)
  : rerr + prepared :=
  let p := promoted c in
  let dim := length (d_pos p) in
  if negb (Nat.eqb dim (g_dim g)) then inl EDimMismatch else
  let w := width_or_default (d_width p) (typical_discretization g) in
  let data_flat := flat (d_pos p) (d_rad p) w (d_amp p) in
  let num := length data_flat in
  let free := free_mask num (constraints g) in
  let '(l, h) := data_bounds (d_cls p) dim (length (d_amp p)) num in
  let '(b0, b1) := fit_bounds free l h in
  let '(vmin0, vmax0) := levels vmin_o vmax_o st in
  let vrng0 := vrng_of vmin0 vmax0 in
  let scale := level_scale vrng0 in
  let '(vmin, vmax, vrng) := normalised_levels vmin0 vmax0 vrng0 scale in
  let '(x0, (lo, hi)) :=
    if adjust then (start_adjust free data_flat vmin vmax vrng, bounds_adjust b0 b1 vmin vmax vrng)
    else (start_plain free data_flat, (b0, b1)) in
  inr {| p_drop := p; p_dim := dim; p_width := w; p_flat := data_flat; p_free := free;
         p_scale := scale; p_vmin := vmin; p_vmax := vmax; p_vrng := vrng; p_x0 := x0; p_lo := lo; p_hi := hi |}.

(* the checks of scipy.optimize.least_squares before it starts, in its order *)
Definition lsq_precondition (x0 : list Q) (lo hi : list ext) : option rerr :=
  if negb (Nat.eqb (length lo) (length x0) && Nat.eqb (length hi) (length x0)) then Some EShape
  else if negb (strict lo hi) then Some EBoundsNotStrict
  else if negb (within lo x0 hi) then Some EInfeasible
  else None.

Definition sumsq_cost (v : list Q) : Q := sumsq v.

(* ---------------------------------------------------------------------------------------- *)
(* the options handed to the optimiser (`tolerance`, `least_squares_params`)                 *)
(* ---------------------------------------------------------------------------------------- *)
(* values of option dicts: numbers (ftol, max_nfev, ...) or strings (method, x_scale="jac", ...) *)
Inductive optval := OQ (q : Q) | OS (s : string).
(* a Python dict with string keys, in insertion order *)
Definition options := list (string * optval).

Fixpoint opt_lookup (k : string) (d : options) : option optval :=
  match d with
  | [] => None
  | (k', v) :: d' => if String.eqb k k' then Some v else opt_lookup k d'
  end.

(* d.setdefault(k, v) *)
Definition setdefault (k : string) (v : optval) (d : options) : options :=
  match opt_lookup k d with Some _ => d | None => d ++ [(k, v)] end.

(* if tolerance is not None: for key in tolerance_keys: d.setdefault(key, tolerance)   (keys: generated) *)
Definition with_tolerance (tolerance : option Q) (d : options) : options :=
  match tolerance with
  | None => d
  | Some t => fold_left (fun d k => setdefault k (OQ t) d) tolerance_keys d
  end.

(* the keyword arguments that reach least_squares besides `bounds` *)
Definition lsq_options (tolerance : option Q) (params : option options) : options :=
  with_tolerance tolerance (match params with None => [] | Some p => p end).

(* the caller's own dict after the call: untouched when refine_droplet works on a copy (generated flag), otherwise the
   very object that received the setdefault calls *)
Definition caller_params_after (tolerance : option Q) (params : option options) : option options :=
  match params with
  | None => None
  | Some p => Some (if params_copied then p else with_tolerance tolerance p)
  end.

Section Refine.
  (* scipy.optimize.least_squares(fun, x0, bounds=(lo, hi)).x *)
  Variable lsq : (list Q -> list Q) -> list Q -> list ext -> list ext -> list Q.
  (* np.hypot / np.linalg.norm of the coordinates that the grid symmetry fixes (irrational in general) *)
  Variable hyp : list Q -> Q.
  (* image deviation over the dilated mask: data vector, vmin, vrng |-> residual vector *)
  Variable dev : list Q -> Q -> Q -> list Q.

  (* _image_deviation of the adjust_values branch / of the branch with fixed intensities *)
  Definition deviation_adjust (free : list bool) (data_flat params : list Q) : list Q :=
    match scatter free data_flat (params_droplet_adjust params), params_levels_adjust params with
    | Some d, [vmin; vrng] => dev d vmin vrng
    | _, _ => []                   (* numpy raises inside the optimiser: not reachable for |params| = |x0| *)
    end.
  Definition deviation_plain (free : list bool) (data_flat : list Q) (vmin vrng : Q) (params : list Q) : list Q :=
    match scatter free data_flat (params_droplet_plain params) with
    | Some d => dev d vmin vrng
    | None => []
    end.

  Definition fit_function (adjust : bool) (p : prepared) : list Q -> list Q :=
    if adjust then deviation_adjust (p_free p) (p_flat p)
    else deviation_plain (p_free p) (p_flat p) (p_vmin p) (p_vrng p).

  (* grid.transform(position, "cartesian", "grid") *)
  Definition to_grid (g : rgrid) (pos : list Q) : list Q :=
    match g_family g with
    | FCart => pos
    | FPolar | FSpher => [hyp pos]
    | FCyl => hyp (firstn 2 pos) :: skipn 2 pos
    end.

  (* grid.transform(coords, "grid", "cartesian"): the angles of the symmetric coordinates are 0 *)
  Definition to_cart (g : rgrid) (c : list Q) : list Q :=
    match g_family g, c with
    | FCart, _ => c
    | FPolar, [r] => [r; 0]
    | FSpher, [r] => [0; 0; r]
    | FCyl, [r; z] => [r; 0; z]
    | _, _ => c                    (* wrong arity: excluded by the dimension check *)
    end.

  (* grid.normalize_point(coords) without reflection *)
  Definition norm_point (g : rgrid) (c : list Q) : list Q :=
    if normalize_reflect then c else normalize (g_axes g) c.

  Definition final_pos (g : rgrid) (old : list Q) : list Q :=
    final_position (constraints g) old (to_cart g (norm_point g (to_grid g old))).

  (* the data vector after the write-back *)
  Definition fitted (adjust : bool) (p : prepared) : rerr + list Q :=
    match lsq_precondition (p_x0 p) (p_lo p) (p_hi p) with
    | Some e => inl e
    | None =>
        let x := lsq (fit_function adjust p) (p_x0 p) (p_lo p) (p_hi p) in
        match (if adjust then writeback_adjust (p_free p) (p_flat p) x
               else writeback_plain (p_free p) (p_flat p) x) with
        | Some d => inr d
        | None => inl EShape
        end
    end.

  Definition finish (g : rgrid) (p : prepared) (d : list Q) : rres :=
    match unflat (d_cls (p_drop p)) (p_dim p) d with
    | Some r => ROk {| d_cls := d_cls r; d_pos := final_pos g (d_pos r); d_rad := d_rad r;
                       d_width := d_width r; d_amp := d_amp r |}
    | None => RErr EShape
    end.

  Definition refine (g : rgrid) (st : stats) (vmin_o vmax_o : option Q) (adjust : bool) (c : droplet) : rres :=
    match prepare g st vmin_o vmax_o adjust c with
    | inl e => RErr e
    | inr p => match fitted adjust p with
               | inl e => RErr e
               | inr d => finish g p d
               end
    end.
End Refine.

(* the caller's candidate OBJECT after the call (the model has no heap: this is its only notion of identity).  A candidate
   without interface is always rebuilt by from_droplet; a DiffuseDroplet(-derived) candidate is copied first when the
   generated flag `candidate_copied` holds, otherwise it is the object that the fit overwrites and returns *)
Definition caller_candidate_after (c : droplet) (result : rres) : droplet :=
  if is_diffuse (d_cls c) && negb candidate_copied
  then match result with ROk r => r | RErr _ => c end
  else c.

(* ... and whether the returned droplet is that very object *)
Definition result_is_candidate (c : droplet) : bool := is_diffuse (d_cls c) && negb candidate_copied.

(* ---------------------------------------------------------------------------------------- *)
(* correspondence glue (evaluated by vm_compute on recorded runs of the implementation)      *)
(* ---------------------------------------------------------------------------------------- *)
Definition close (a b : Q) : bool :=
  Qle_bool (Qabs (a - b)) ((1 # 1000000000000) * (Qabs a + Qabs b + 1)).

Definition ext_agree (exact : bool) (a b : ext) : bool :=
  match a, b with
  | NegInf, NegInf | PosInf, PosInf => true
  | Fin x, Fin y => if exact then Qeq_bool x y else close x y
  | _, _ => false
  end.

(* entry i exactly when `exact i`, otherwise closely (values the implementation computes in floating point:
   the intensity entries vmax - vmin, vmin - vrng, 3 * vrng and the default width np.mean(discretization)) *)
Fixpoint agree_vec {A : Type} (eq_exact eq_close : A -> A -> bool) (exact : nat -> bool) (i : nat) (a b : list A) : bool :=
  match a, b with
  | [], [] => true
  | x :: a', y :: b' => (if exact i then eq_exact x y else eq_close x y) && agree_vec eq_exact eq_close exact (S i) a' b'
  | _, _ => false
  end.

Definition rclass_eqb (a b : rclass) : bool :=
  match a, b with
  | RSpherical, RSpherical | RDiffuse, RDiffuse | RP2D, RP2D | RP3D, RP3D | RP3DAxi, RP3DAxi => true
  | _, _ => false
  end.

Definition rerr_eqb (a b : rerr) : bool :=
  match a, b with
  | EInfeasible, EInfeasible | EBoundsNotStrict, EBoundsNotStrict | EDimMismatch, EDimMismatch
  | EEmptyRegion, EEmptyRegion | EShape, EShape => true
  | _, _ => false
  end.

Definition opt_agree (a b : option Q) : bool :=
  match a, b with Some x, Some y => Qeq_bool x y | None, None => true | _, _ => false end.

(* positions: coordinates fixed by the symmetry exactly, the others up to the rounding of (p - lo) % L + lo *)
Fixpoint pos_agree (cs : list nat) (i : nat) (a b : list Q) : bool :=
  match a, b with
  | [], [] => true
  | x :: a', y :: b' => (if existsb (Nat.eqb i) cs then Qeq_bool x y else close x y) && pos_agree cs (S i) a' b'
  | _, _ => false
  end.

Definition droplet_agree (cs : list nat) (m r : droplet) : bool :=
  rclass_eqb (d_cls m) (d_cls r) && pos_agree cs 0 (d_pos m) (d_pos r) && Qeq_bool (d_rad m) (d_rad r)
  && opt_agree (d_width m) (d_width r) && agree_vec Qeq_bool Qeq_bool (fun _ => true) 0 (d_amp m) (d_amp r).

Definition optval_eqb (a b : optval) : bool :=
  match a, b with OQ x, OQ y => Qeq_bool x y | OS x, OS y => String.eqb x y | _, _ => false end.

Definition opt_lookup_agree (a b : options) (k : string) : bool :=
  match opt_lookup k a, opt_lookup k b with
  | Some x, Some y => optval_eqb x y
  | None, None => true
  | _, _ => false
  end.

(* equal as dicts (the order of the entries is not compared) *)
Definition options_agree (a b : options) : bool :=
  Nat.eqb (length a) (length b) && forallb (opt_lookup_agree a b) (map fst a ++ map fst b).

Definition opt_options_agree (a b : option options) : bool :=
  match a, b with Some x, Some y => options_agree x y | None, None => true | _, _ => false end.

(* bit-identical records *)
Definition droplet_same (a b : droplet) : bool :=
  rclass_eqb (d_cls a) (d_cls b) && agree_vec Qeq_bool Qeq_bool (fun _ => true) 0 (d_pos a) (d_pos b)
  && Qeq_bool (d_rad a) (d_rad b) && opt_agree (d_width a) (d_width b)
  && agree_vec Qeq_bool Qeq_bool (fun _ => true) 0 (d_amp a) (d_amp b).

Record rcase := {
  rc_grid : rgrid; rc_cand : droplet; rc_vmin : option Q; rc_vmax : option Q; rc_adjust : bool;
  rc_tol : option Q; rc_params : option options;   (* arguments `tolerance`, `least_squares_params` *)
  rc_kwargs : options;              (* recorded keyword arguments of least_squares besides `bounds` ([] when not reached) *)
  rc_params_after : option options; (* the caller's dict inspected after the call *)
  rc_cand_after : droplet;          (* the caller's candidate object inspected after the call *)
  rc_same_object : bool;            (* the returned object is the candidate object *)
  rc_stats : stats;                 (* min / max of the image over the fit region, recomputed by the harness *)
  rc_x : list Q;                    (* the recorded answer of the optimiser *)
  rc_hyp : Q;                       (* the recorded norm of the constrained coordinates *)
  rc_called : bool;                 (* least_squares was reached *)
  rc_x0 : list Q; rc_lo : list ext; rc_hi : list ext;   (* its recorded arguments *)
  rc_iter : Z;                      (* recorded `iterations` of binary_dilation (-1: not reached) *)
  rc_out : rres                     (* what refine_droplet returned / raised *)
}.

Definition agree (c : rcase) : bool :=
  let lsq := fun (_ : list Q -> list Q) (_ : list Q) (_ _ : list ext) => rc_x c in
  let hyp := fun _ : list Q => rc_hyp c in
  let dev := fun (_ : list Q) (_ _ : Q) => @nil Q in
  let model := refine lsq hyp dev (rc_grid c) (rc_stats c) (rc_vmin c) (rc_vmax c) (rc_adjust c) (rc_cand c) in
  let out_ok :=
    match model, rc_out c with
    | ROk m, ROk r => droplet_agree (constraints (rc_grid c)) m r
    | RErr a, RErr b => rerr_eqb a b
    | _, _ => false
    end in
  let args_ok :=
    match prepare (rc_grid c) (rc_stats c) (rc_vmin c) (rc_vmax c) (rc_adjust c) (rc_cand c) with
    | inr p =>
        let n := if rc_adjust c then (length (p_x0 p) - 2)%nat else length (p_x0 p) in
        (* index of the width entry among the free entries, when the width is the default *)
        let wi := S (length (select (firstn (p_dim p) (p_free p)) (d_pos (p_drop p)))) in
        let default_width := match d_width (p_drop p) with None => true | Some _ => false end in
        let exact := fun i => Nat.ltb i n && negb (default_width && Nat.eqb i wi) in
        (if rc_called c then
           agree_vec Qeq_bool close exact 0 (p_x0 p) (rc_x0 c)
           && agree_vec (ext_agree true) (ext_agree false) exact 0 (p_lo p) (rc_lo c)
           && agree_vec (ext_agree true) (ext_agree false) exact 0 (p_hi p) (rc_hi c)
         else true)
        && (Z.eqb (rc_iter c) (-1) || Z.eqb (rc_iter c) (dilation_passed (dilation_iterations (p_width p))))
    | inl _ => negb (rc_called c)
    end in
  let options_ok :=
    (if rc_called c then options_agree (lsq_options (rc_tol c) (rc_params c)) (rc_kwargs c) else true)
    && opt_options_agree (caller_params_after (rc_tol c) (rc_params c)) (rc_params_after c) in
  let identity_ok :=
    match rc_out c with
    | ROk _ =>
        (* the position of an object fitted in place has been normalised like the result's: compare with the tolerance of
           positions; a copied / rebuilt candidate must be the candidate bit by bit *)
        (if result_is_candidate (rc_cand c)
         then droplet_agree (constraints (rc_grid c)) (caller_candidate_after (rc_cand c) model) (rc_cand_after c)
         else droplet_same (rc_cand c) (rc_cand_after c))
        && Bool.eqb (result_is_candidate (rc_cand c)) (rc_same_object c)
    | RErr _ => true                (* after an exception the object may be half-way (in-place code); the oracle judges it *)
    end in
  out_ok && args_ok && options_ok && identity_ok.
