(* C01, D-layer: the digitised ball on a non-periodic Cartesian grid of any dimension.
   Definitions only: the list of covered cells (the `true` cells of Render.mask_sphere in raster order),
   the centre in cell coordinates, the "ball lies inside the box" precondition and its executable check,
   and the cell of the box nearest to the centre (used as the hub of the connectivity proof). *)
From Coq Require Import ZArith QArith Qround List Bool.
From PD Require Import Model.Grid Model.Render.
Import ListNotations.
Local Open Scope Q_scope.

(* every axis non-periodic: diff1 a p q = q - p *)
Definition nonper (g : grid) : Prop := Forall (fun a => aper a = false) g.
Definition nonperb (g : grid) : bool := forallb (fun a => negb (aper a)) g.

(* centre coordinate x of axis a expressed in (continuous) cell coordinates *)
Definition gam (a : axis) (x : Q) : Q := (x - alo a) / adisc a.

(* offset of the centre of cell i from the ball centre gamma, in units of the grid spacing;
   one lattice row: i belongs to the row iff (h (i + 1/2 - gamma))^2 < s2 *)
Definition rowoff (gamma : Q) (i : Z) : Q := inject_Z i + (1 # 2) - gamma.
Definition rowmem (h gamma s2 : Q) (i : Z) : Prop :=
  (h * rowoff gamma i) * (h * rowoff gamma i) < s2.
Definition rowb (h gamma s2 : Q) (i : Z) : bool :=
  Qlt_bool ((h * rowoff gamma i) * (h * rowoff gamma i)) s2.

(* the cells of the box covered by the sphere, in raster order *)
Definition ball_cells (g : grid) (c : list Q) (r : Q) : list (list Z) :=
  filter (inside g c r) (all_cells (gshape g)).

(* the sphere does not reach beyond the box along axis a *)
Definition fits1 (a : axis) (x r : Q) : Prop := alo a <= x - r /\ x + r <= ahi a.
Definition fits1b (a : axis) (x r : Q) : bool := Qle_bool (alo a) (x - r) && Qle_bool (x + r) (ahi a).

(* ... along every axis (also: the centre has as many coordinates as the grid has axes) *)
Definition fits (g : grid) (c : list Q) (r : Q) : Prop := Forall2 (fun a x => fits1 a x r) g c.
Fixpoint fitsb (g : grid) (c : list Q) (r : Q) : bool :=
  match g, c with
  | [], [] => true
  | a :: g', x :: c' => fits1b a x r && fitsb g' c' r
  | _, _ => false
  end.

(* the cell whose centre is nearest to c along every axis (ties: the upper one) *)
Fixpoint centre_cell (g : grid) (c : list Q) : list Z :=
  match g, c with
  | a :: g', x :: c' => Qfloor (gam a x) :: centre_cell g' c'
  | _, _ => []
  end.

(* squared distance of a cell centre from c with an arbitrary bound: the slices of a ball *)
Definition d2cell (g : grid) (c : list Q) (idx : list Z) : Q := dist2 g c (cell_centre g idx).
Definition within (g : grid) (c : list Q) (s2 : Q) (idx : list Z) : bool :=
  Qlt_bool (d2cell g c idx) s2.
