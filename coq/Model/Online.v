(* Model/Online.v -- C14: tracking during a simulation vs analysing the stored fields afterwards.

   The model is parametric in
     * the *glue tables* (which constructor parameter reaches which attribute, which attribute
       reaches which keyword of the analysis, what the offline path forwards, ...).  They are
       generated from the current source by harness/gen_glue.py (Gen/Gen_glue.v) and plugged in by
       Proofs/C14.v, so the theorems are about what the code says now;
     * the external behaviour: the analysis `locate` (droplets.image_analysis.locate_droplets),
       the field selection `extract` (pde's extract_field) and the length-scale analysis -- arbitrary
       functions (Section variables).  That they ARE functions of their arguments is the premise;
       it is part of C15 and observed per sample by the harness.

   Python objects are modelled by value: `Emulsion(e).copy()` in `append` is the identity on values
   (aliasing is the subject of C20).  Exceptions are explicit: `res` = Ok value | Err exception. *)
From Coq Require Import String List Bool Arith QArith.
Import ListNotations.
Local Open Scope string_scope.

(* ------------------------------------------------------------------------------------------ *)
(* glue tables                                                                                  *)
(* ------------------------------------------------------------------------------------------ *)
(* where a forwarded value comes from: a name (constructor parameter, `self.<attribute>`, local
   parameter -- depending on the table) or a literal written in the source *)
Inductive arg : Type :=
| FromName (name : string)
| Literal (source : string).

Definition table := list (string * arg).

Fixpoint lookup {V : Type} (k : string) (t : list (string * V)) : option V :=
  match t with
  | [] => None
  | (k', v) :: t' => if String.eqb k k' then Some v else lookup k t'
  end.

Fixpoint mem (k : string) (l : list string) : bool :=
  match l with
  | [] => false
  | k' :: l' => String.eqb k k' || mem k l'
  end.

(* ------------------------------------------------------------------------------------------ *)
(* results                                                                                      *)
(* ------------------------------------------------------------------------------------------ *)
Inductive res (E A : Type) : Type :=
| Ok (a : A)
| Err (e : E).
Arguments Ok {E A} a.
Arguments Err {E A} e.

Definition bind {E A B} (r : res E A) (f : A -> res E B) : res E B :=
  match r with Ok a => f a | Err e => Err e end.

(* `[f(x) for x in l]` where f may raise: the first exception (in list order) propagates *)
Fixpoint map_res {E A B} (f : A -> res E B) (l : list A) : res E (list B) :=
  match l with
  | [] => Ok []
  | x :: l' => bind (f x) (fun y => bind (map_res f l') (fun ys => Ok (y :: ys)))
  end.

(* a loop `for x in l: s = step(s, x)` where step may raise *)
Fixpoint fold_res {E S A} (step : S -> A -> res E S) (l : list A) (s : S) : res E S :=
  match l with
  | [] => Ok s
  | x :: l' => bind (step s x) (fold_res step l')
  end.

(* ------------------------------------------------------------------------------------------ *)
(* keyword dictionaries, option forwarding                                                      *)
(* ------------------------------------------------------------------------------------------ *)
Section Options.
  Variable value : Type.                 (* Python values of options *)
  Variable parse : string -> value.      (* meaning of a literal / default written in the source *)

  (* a call `f(k1=v1, ...)`: keyword -> value, None = not passed *)
  Definition kwdict := string -> option value.

  (* value of parameter p of a function called with `user` and the given defaults *)
  Definition param_value (defaults : list (string * string)) (user : kwdict) (p : string) : option value :=
    match user p with
    | Some v => Some v
    | None => option_map parse (lookup p defaults)
    end.

  (* value of `self.<a>` after the constructor ran *)
  Definition attr_value (assign : table) (defaults : list (string * string)) (user : kwdict) (a : string)
    : option value :=
    match lookup a assign with
    | Some (FromName p) => param_value defaults user p
    | Some (Literal s) => Some (parse s)
    | None => None
    end.

  (* keywords of a call made by a method: `callee(k = self.<a> | literal)` *)
  Definition method_call (forward assign : table) (defaults : list (string * string)) (user : kwdict) : kwdict :=
    fun k => match lookup k forward with
             | Some (FromName a) => attr_value assign defaults user a
             | Some (Literal s) => Some (parse s)
             | None => None
             end.

  (* keywords of a call made by a function `g(p1, ..., **kwargs)` that forwards
     `callee(k = <own parameter> | literal, **kwargs)` *)
  Definition function_call (forward : table) (starkwargs : bool) (own : list string)
             (defaults : list (string * string)) (user : kwdict) : kwdict :=
    fun k => match lookup k forward with
             | Some (FromName p) => param_value defaults user p
             | Some (Literal s) => Some (parse s)
             | None => if starkwargs then (if mem k own then None else user k) else None
             end.

  (* the options a callee with parameters `opts` (and defaults) effectively runs with *)
  Definition effective (opts : list string) (defaults : list (string * string)) (call : kwdict)
    : list (string * option value) :=
    map (fun k => (k, param_value defaults call k)) opts.

  (* The pairing of the property text: analysis setting of the tracker -> option of the offline
     analysis with the same meaning.  (Specification, written by hand.) *)
  Definition pairing : list (string * string) :=
    [("threshold", "threshold"); ("minimal_radius", "minimal_radius"); ("refine", "refine");
     ("refine_args", "refine_args"); ("perturbation_modes", "modes")].

  (* constructor parameters of the tracker that are not analysis settings *)
  Definition not_analysis : list string := ["interrupts"; "filename"; "emulsion_timecourse"; "source"].

  Fixpoint unpair (k : string) (l : list (string * string)) : option string :=
    match l with
    | [] => None
    | (p, k') :: l' => if String.eqb k k' then Some p else unpair k l'
    end.

  (* "the same settings" given to the offline analysis: every analysis setting the user gave the
     tracker, under the paired name; nothing else *)
  Definition same_settings (user : kwdict) : kwdict :=
    fun k => match unpair k pairing with Some p => user p | None => None end.
End Options.

(* ------------------------------------------------------------------------------------------ *)
(* EmulsionTimeCourse                                                                           *)
(* ------------------------------------------------------------------------------------------ *)
Section TimeCourse.
  Variable emulsion : Type.

  Record tc : Type := mk_tc_raw { tc_emulsions : list emulsion; tc_times : list Q }.

  Definition tc_empty : tc := mk_tc_raw [] [].

  Fixpoint last_opt {A} (l : list A) : option A :=
    match l with
    | [] => None
    | [x] => Some x
    | _ :: l' => last_opt l'
    end.

  (* EmulsionTimeCourse.append(emulsion, time=None):
       self.emulsions.append(copy); if time is None: time = 0 if len(self.times) == 0 else self.times[-1] + 1;
       self.times.append(time) *)
  Definition tc_append (s : tc) (e : emulsion) (time : option Q) : tc :=
    let t := match time with
             | Some t => t
             | None => match last_opt (tc_times s) with None => 0%Q | Some l => (l + 1)%Q end
             end in
    mk_tc_raw (tc_emulsions s ++ [e]) (tc_times s ++ [t]).

  Inductive tc_error : Type := LengthMismatch.   (* ValueError("Lists of emulsions and times must have same length") *)

  Definition range_q (n : nat) : list Q := map (fun k => inject_Z (Z.of_nat k)) (seq 0 n).

  (* EmulsionTimeCourse(emulsions, times):
       for e in emulsions: self.append(Emulsion(e))      -- default times 0, 1, 2, ...
       self.times = list(range(len(self.emulsions))) if times is None else list(times)
       if len(self.times) != len(self.emulsions): raise ValueError *)
  Definition tc_make (es : list emulsion) (times : option (list Q)) : res tc_error tc :=
    let s := fold_left (fun s e => tc_append s e None) es tc_empty in
    let ts := match times with None => range_q (length (tc_emulsions s)) | Some ts => ts end in
    if Nat.eqb (length ts) (length (tc_emulsions s)) then Ok (mk_tc_raw (tc_emulsions s) ts)
    else Err LengthMismatch.
End TimeCourse.
Arguments mk_tc_raw {emulsion}.
Arguments tc_emulsions {emulsion}.
Arguments tc_times {emulsion}.
Arguments tc_empty {emulsion}.
Arguments tc_append {emulsion}.
Arguments tc_make {emulsion}.

(* ------------------------------------------------------------------------------------------ *)
(* DropletTracker (online) and EmulsionTimeCourse.from_storage (offline)                        *)
(* ------------------------------------------------------------------------------------------ *)
Record tracker_glue : Type := {
  g_ctor_defaults : list (string * string);
  g_ctor_assign : table;
  g_source_attr : string;
  g_handle_forward : table;
  g_append_explicit_time : bool;
  g_locate_opts : list string;
  g_locate_defaults : list (string * string)
}.

Record offline_glue : Type := {
  o_params : list string;
  o_defaults : list (string * string);
  o_forward : table;
  o_starkwargs : bool;
  o_times_from_storage : bool
}.

Section Tracking.
  Variable value : Type.
  Variable parse : string -> value.
  Variables raw field emulsion exn : Type.
  (* pde.visualization.plotting.extract_field(state, source, 0): may raise (e.g. source = 1 on a scalar field) *)
  Variable extract : option value -> raw -> res exn field.
  (* droplets.image_analysis.locate_droplets(field, **options): may raise *)
  Variable locate : list (string * option value) -> field -> res exn emulsion.

  Inductive failure : Type :=
  | Raised (e : exn)                 (* exception of extract_field / locate_droplets *)
  | CtorLength.                      (* ValueError of the EmulsionTimeCourse constructor *)

  Definition lift {A} (r : res exn A) : res failure A :=
    match r with Ok a => Ok a | Err e => Err (Raised e) end.

  Variable G : tracker_glue.

  Definition tracker_options (user : kwdict value) : list (string * option value) :=
    effective value parse (g_locate_opts G) (g_locate_defaults G)
              (method_call value parse (g_handle_forward G) (g_ctor_assign G) (g_ctor_defaults G) user).

  Definition tracker_source (user : kwdict value) : option value :=
    attr_value value parse (g_ctor_assign G) (g_ctor_defaults G) user (g_source_attr G).

  (* DropletTracker.handle(state, t) *)
  Definition handle (user : kwdict value) (s : tc emulsion) (frame : raw * Q) : res failure (tc emulsion) :=
    bind (lift (extract (tracker_source user) (fst frame))) (fun f =>
    bind (lift (locate (tracker_options user) f)) (fun e =>
    Ok (tc_append s e (if g_append_explicit_time G then Some (snd frame) else None)))).

  (* the controller calls handle for every (state, t) of the history, in order; `s0` is the time
     course the tracker starts with (empty unless emulsion_timecourse is given) *)
  Definition online (user : kwdict value) (s0 : tc emulsion) (history : list (raw * Q)) : res failure (tc emulsion) :=
    fold_res (handle user) history s0.

  Variable O : offline_glue.

  Definition offline_options (user : kwdict value) : list (string * option value) :=
    effective value parse (g_locate_opts G) (g_locate_defaults G)
              (function_call value parse (o_forward O) (o_starkwargs O) (o_params O) (o_defaults O) user).

  (* EmulsionTimeCourse.from_storage(storage, **user), serial branch; storage = stored (field, time) pairs *)
  Definition from_storage (user : kwdict value) (storage : list (field * Q)) : res failure (tc emulsion) :=
    bind (lift (map_res (locate (offline_options user)) (map fst storage))) (fun es =>
    match tc_make es (if o_times_from_storage O then Some (map snd storage) else None) with
    | Ok s => Ok s
    | Err _ => Err CtorLength
    end).
End Tracking.

(* ------------------------------------------------------------------------------------------ *)
(* LengthScaleTracker                                                                           *)
(* ------------------------------------------------------------------------------------------ *)
Record length_glue : Type := {
  l_ctor_defaults : list (string * string);
  l_ctor_assign : table;
  l_source_attr : string;
  l_call_forward : table;
  l_catches : string;
  l_handler_exits : bool;
  l_pre_appends : list string;
  l_post_appends : list string
}.

Section LengthScale.
  Variable value : Type.
  Variable parse : string -> value.
  Variables raw field exn number : Type.
  Variable nan : number.                   (* math.nan *)
  Variable extract : option value -> raw -> res exn field.
  (* droplets.image_analysis.get_length_scale(field, **keywords): a number (possibly nan) or an exception *)
  Variable analysis : list (string * option value) -> field -> res exn number.
  Variable L : length_glue.

  Record ls_state : Type := mk_ls { ls_times : list Q; ls_values : list number }.

  Definition ls_empty : ls_state := mk_ls [] [].

  (* self.<name>.append(...) for the two lists of the tracker *)
  Definition ls_append (t : Q) (v : number) (s : ls_state) (name : string) : ls_state :=
    if String.eqb name "times" then mk_ls (ls_times s ++ [t]) (ls_values s)
    else if String.eqb name "length_scales" then mk_ls (ls_times s) (ls_values s ++ [v])
    else s.

  Definition ls_keywords (user : kwdict value) : list (string * option value) :=
    map (fun kf => (fst kf, method_call value parse (l_call_forward L) (l_ctor_assign L) (l_ctor_defaults L) user (fst kf)))
        (l_call_forward L).

  Definition catches_everything : bool :=
    String.eqb (l_catches L) "Exception" || String.eqb (l_catches L) "BaseException".

  (* LengthScaleTracker.handle(state, t) *)
  Definition ls_handle (user : kwdict value) (s : ls_state) (frame : raw * Q) : res exn ls_state :=
    bind (extract (attr_value value parse (l_ctor_assign L) (l_ctor_defaults L) user (l_source_attr L)) (fst frame))
      (fun f =>
         (* appends written before the try can only concern the time *)
         let s1 := fold_left (ls_append (snd frame) nan) (l_pre_appends L) s in
         match analysis (ls_keywords user) f with
         | Ok v => Ok (fold_left (ls_append (snd frame) v) (l_post_appends L) s1)
         | Err e =>
             if catches_everything then
               if l_handler_exits L then Ok s1
               else Ok (fold_left (ls_append (snd frame) nan) (l_post_appends L) s1)
             else Err e
         end).

  Definition ls_online (user : kwdict value) (history : list (raw * Q)) : res exn ls_state :=
    fold_res (ls_handle user) history ls_empty.
End LengthScale.
