(* Locating droplets on grids with symmetry axes, after ndimage.label (an oracle, see Model/Locate.v).
   Radial (PolarSymGrid / SphericalSymGrid): _locate_droplets_in_mask_spherical.
   Cylindrical: _locate_droplets_in_mask_cylindrical(_single).  Volumes are returned divided by pi
   (cell volume = pi * (r_{i+1}^2 - r_i^2) * dz), so that everything stays rational. *)
From Coq Require Import QArith ZArith List Arith Bool.
Import ListNotations.
From PD Require Import Model.Grid Model.Locate.
Local Open Scope Q_scope.

(* ---- radial ---- *)
Fixpoint leading_trues (m : list bool) : nat :=
  match m with true :: m' => S (leading_trues m') | _ => O end.

(* result: radius of the droplet at the origin, if the cluster containing the innermost cell exists.
   find_objects(labels)[k].start == 0 holds exactly for the cluster that contains cell 0; its
   slice stops after the leading run of mask cells *)
Definition locate_radial (r_lo dr : Q) (mask : list bool) : option Q :=
  match leading_trues mask with
  | O => None
  | n => Some (r_lo + inject_Z (Z.of_nat n) * dr)
  end.

(* ---- cylindrical ---- *)
Record cylgrid := { cg_nr : Z; cg_nz : Z; cg_R : Q; cg_zlo : Q; cg_zhi : Q; cg_per : bool }.

Definition cg_dr (g : cylgrid) : Q := cg_R g / inject_Z (cg_nr g).
Definition cg_dz (g : cylgrid) : Q := (cg_zhi g - cg_zlo g) / inject_Z (cg_nz g).
Definition cg_len (g : cylgrid) : Q := cg_zhi g - cg_zlo g.

Definition ridx (c : cell) : Z := nth 0 c 0%Z.
Definition zidx (c : cell) : Z := nth 1 c 0%Z.

(* volume of cell (i, .) divided by pi *)
Definition shell (g : cylgrid) (i : Z) : Q :=
  let r0 := inject_Z i * cg_dr g in let r1 := (inject_Z i + 1) * cg_dr g in (r1 * r1 - r0 * r0) * cg_dz g.

Definition on_axis (cs : list cell) : bool := existsb (fun c => Z.eqb (ridx c) 0) cs.

Definition zmin (cs : list cell) : Z := fold_right (fun c m => Z.min (zidx c) m) (zidx (hd [] cs)) cs.
Definition zmax (cs : list cell) : Z := fold_right (fun c m => Z.max (zidx c) m) (zidx (hd [] cs)) cs.

(* slices[1].start == 0 and slices[1].stop > grid.shape[1] *)
Definition spans (g : cylgrid) (cs : list cell) : bool :=
  Z.eqb (zmin cs) 0 && Z.ltb (cg_nz g) (zmax cs + 1).

Inductive cyl_result := Spanning | Found (ds : list (Q * Q)).   (* (z, volume / pi) *)

Definition cyl_droplet (g : cylgrid) (cs : list cell) : Q * Q :=
  (cg_zlo g + (csum cs (fun c => inject_Z (zidx c)) / count cs + (1 # 2)) * cg_dz g,
   csum cs (fun c => shell g (ridx c))).

(* _locate_droplets_in_mask_cylindrical_single(grid, mask) with the label image of `mask` *)
Definition cyl_single (g : cylgrid) (img : limage) : cyl_result :=
  let labs := seq 0 (num_labels img) in
  let axis_labs := filter (fun k => on_axis (members img k)) labs in
  if existsb (fun k => spans g (members img k)) axis_labs then Spanning
  else Found (map (fun k => cyl_droplet g (members img k)) axis_labs).

(* candidates of the periodic path: shifted back by one period, kept inside [z_lo, z_hi) *)
Definition cyl_window (g : cylgrid) (ds : list (Q * Q)) : list (Q * Q) :=
  filter (fun d => Qle_bool (cg_zlo g) (fst d) && negb (Qle_bool (cg_zhi g) (fst d)))
         (map (fun d => (fst d - cg_len g, snd d)) ds).

(* candidates handed to the final remove_overlapping() (every code path ends with it):
   img_pad = labels of the 3x padded image (only consulted when periodic), img = labels of the image *)
Definition cyl_candidates (g : cylgrid) (img_pad img : limage) : list (Q * Q) :=
  let plain := match cyl_single g img with Found ds => ds | Spanning => [] end in
  if cg_per g then
    match cyl_single g img_pad with
    | Found ds => cyl_window g ds
    | Spanning => plain
    end
  else plain.
