(* locate_droplets (refine = False) as a composition: threshold -> mask -> locate_in_mask -> size filter
   -> class conversion.  The threshold dispatch, the mask comparison, the filter comparison and the class
   decision tree are GENERATED from the source (Gen_analysis).  locate_in_mask is a Section variable here
   (its model is Model/Locate.v; C18 only needs that it is a function of the mask). *)
From Coq Require Import QArith ZArith List Bool.
Import ListNotations.
From PD Require Import Model.Threshold Gen.Gen_analysis.
Local Open Scope Q_scope.

Definition threshold_of (r : thr_rule) (x : Q) (l : list Q) : Q :=
  tau r (lmin x l) (lmax x l) (lmean x l) (otsu x l).

Definition mask_of (r : thr_rule) (x : Q) (l : list Q) : list bool :=
  map (fun v => mask_cell v (threshold_of r x l)) (x :: l).

(* evaluation-friendly variants used by the correspondence (Proofs/C18.v: equal to the
   specification): the threshold is computed once, and Otsu only when the rule asks for it *)
Definition threshold_eval (r : thr_rule) (x : Q) (l : list Q) : Q :=
  match r with
  | ThrOtsu => threshold_of r x l
  | _ => tau r (lmin x l) (lmax x l) (lmean x l) 0
  end.

Definition mask_eval (r : thr_rule) (x : Q) (l : list Q) : list bool :=
  let t := threshold_eval r x l in map (fun v => mask_cell v t) (x :: l).

Section Pipeline.
  Variable cand : Type.                          (* a located spherical droplet *)
  Variable locate_mask : list bool -> list cand.
  Variable radius : cand -> Q.

  Definition size_filter (mn : Q) (cs : list cand) : list cand :=
    filter (fun c => negb (small (radius c) mn)) cs.

  (* result of locate_droplets without refinement, before class conversion (which keeps
     position and radius and only adds width / zero amplitudes) *)
  Definition locate (r : thr_rule) (mn : Q) (x : Q) (l : list Q) : list cand :=
    size_filter mn (size_filter mn (locate_mask (mask_of r x l))).
End Pipeline.

Definition affine (a b : Q) (v : Q) : Q := a * v + b.
Definition map_rule (a b : Q) (r : thr_rule) : thr_rule :=
  match r with ThrNum t => ThrNum (affine a b t) | r' => r' end.
