(* Proofs/C15.v -- results do not depend on the number of worker processes or on scheduling.
   Proofs/Parallel.v instantiated with the facts generated from the CURRENT refine_droplets and
   EmulsionTimeCourse.from_storage (Gen/Gen_glue.v): how the parallel branch gathers (executor.map =
   by submission index), what it filters, how the worker count is chosen, when the serial branch runs.

   Not covered by any theorem (runtime behaviour, observed on samples by the harness only): that the
   worker function is deterministic, i.e. that calling refine_droplet / locate_droplets twice on equal
   input, in this or in a forked process, returns bit-identical output.  In the model this is the
   premise that `worker` / `locate` are functions. *)
From Coq Require Import String List Bool Arith Lia QArith Permutation.
From PD Require Import Model.Online Model.Parallel Gen.Gen_glue Proofs.Online Proofs.Parallel Proofs.C14.
Import ListNotations.
Local Open Scope nat_scope.
Local Open Scope string_scope.

Definition P_refine : parallel_glue :=
  {| p_serial_when := rd_serial_when; p_max_workers := rd_max_workers; p_gather := rd_gather;
     p_serial_filters_none := rd_serial_filters_none; p_parallel_filters_none := rd_parallel_filters_none |}.

(* from_storage keeps every result: list(executor.map(...)) / a generator over all frames.
   `progress`: truthiness of the documented `progress` argument (None and False are falsy); the generated
   facts say how the parallel branch gathers in either case *)
Definition P_storage (progress : bool) : parallel_glue :=
  {| p_serial_when := fs_serial_when; p_max_workers := fs_max_workers;
     p_gather := if progress then fs_gather_progress else fs_gather_noprogress;
     p_serial_filters_none := false; p_parallel_filters_none := false |}.

(* a usable num_processes argument: a positive integer, or "auto" on a machine with at least one cpu *)
Definition usable (np : nproc) (ncpu : nat) : Prop :=
  match np with NPInt n => 1 <= n | NPAuto => 1 <= ncpu end.

Lemma usable_valid_refine np ncpu ntasks : usable np ncpu -> valid_nproc P_refine np ncpu ntasks.
Proof. destruct np as [n|]; simpl; intros H; right; exact H. Qed.

Lemma usable_valid_storage progress np ncpu ntasks : usable np ncpu -> valid_nproc (P_storage progress) np ncpu ntasks.
Proof. destruct np as [n|]; simpl; intros H; right; exact H. Qed.

(* both settings of `progress` gather by submission index *)
Lemma storage_gathers_by_index progress : p_gather (P_storage progress) = GatherByIndex.
Proof. destruct progress; reflexivity. Qed.

(* the serial branch is taken iff num_processes == 1 *)
Lemma serial_iff_one np :
  (is_serial P_refine np = true <-> np = NPInt 1) /\
  (forall progress, is_serial (P_storage progress) np = true <-> np = NPInt 1).
Proof.
  destruct np as [n|]; simpl; (split; [|intros progress]; split; intros H; try discriminate H).
  - apply Nat.eqb_eq in H. subst. reflexivity.
  - inversion H. reflexivity.
  - apply Nat.eqb_eq in H. subst. reflexivity.
  - inversion H. reflexivity.
Qed.

(* max_workers = None if num_processes == "auto" else num_processes *)
Lemma workers_rule np ncpu ntasks :
  workers P_refine np ncpu ntasks = match np with NPAuto => ncpu | NPInt n => n end /\
  (forall progress, workers (P_storage progress) np ncpu ntasks = match np with NPAuto => ncpu | NPInt n => n end).
Proof. split; [|intros progress]; reflexivity. Qed.

(* the worker count does not depend on the number of tasks and is positive for every usable num_processes: in
   particular an empty candidate list / storage is handled by every process count *)
Lemma workers_positive np ncpu ntasks :
  usable np ncpu -> 1 <= workers P_refine np ncpu ntasks /\ forall progress, 1 <= workers (P_storage progress) np ncpu ntasks.
Proof. destruct np; simpl; intros H; (split; [|intros progress]); exact H. Qed.

(* both branches iterate over the same argument, in its order *)
Lemma iterate_same_argument :
  rd_serial_iter = rd_parallel_iter /\ fs_serial_iter = fs_parallel_iter /\ fs_times_from = fs_serial_iter.
Proof. repeat split; reflexivity. Qed.

(* ---- refine_droplets ------------------------------------------------------------------------ *)
Section Refine.
  (* candidate droplets; what refine_droplet returns for one candidate (a droplet, None, or an exception
     marker); `worker d` = the function denoted by the worker-call text d (refine_droplet with the phase
     field and the keyword arguments of this call of refine_droplets fixed) *)
  Variables candidate outcome_t : Type.
  Variable is_none : outcome_t -> bool.
  Variable worker : string -> candidate -> outcome_t.

  Definition refine_droplets (np : nproc) (ncpu : nat) (sigma : list nat) (cands : list candidate)
    : outcome (list outcome_t) :=
    mapped is_none P_refine (worker rd_serial_call) (worker rd_parallel_call) np ncpu sigma cands.

  (* the serial list comprehension *)
  Definition refine_serial (cands : list candidate) : list outcome_t :=
    filter (fun r => negb (is_none r)) (map (worker rd_serial_call) cands).

  Theorem refine_droplets_par_eq_ser np ncpu sigma cands :
    usable np ncpu -> refine_droplets np ncpu sigma cands = Done (refine_serial cands).
  Proof.
    intros Hu. unfold refine_droplets.
    change (worker rd_parallel_call) with (worker rd_serial_call).
    rewrite mapped_par_eq_ser; [reflexivity | reflexivity | reflexivity | apply usable_valid_refine; exact Hu].
  Qed.

  Corollary refine_droplets_independent np1 np2 ncpu1 ncpu2 sigma1 sigma2 cands :
    usable np1 ncpu1 -> usable np2 ncpu2 ->
    refine_droplets np1 ncpu1 sigma1 cands = refine_droplets np2 ncpu2 sigma2 cands.
  Proof. intros H1 H2. rewrite !refine_droplets_par_eq_ser by assumption. reflexivity. Qed.

  Lemma refine_droplets_zero_processes ncpu sigma cands :
    refine_droplets (NPInt 0) ncpu sigma cands = Failed BadWorkerCount.
  Proof. reflexivity. Qed.
End Refine.

(* both branches of refine_droplets hand EVERY candidate of a one-shot iterable to the tasks *)
Lemma candidates_all_dispatched {A : Type} (xs : list A) :
  rd_serial_iterates_once = true /\ rd_parallel_iterates_once = true /\
  seen_by_dispatch rd_parallel_uses_of_candidates false xs = Some xs.
Proof. repeat split; reflexivity. Qed.

(* ---- refine_droplets: option dicts handed in by the caller ----------------------------------- *)
Section RefineOptions.
  (* `options`: state of the caller's least_squares_params dict; `task d o c` = what the worker call d returns for
     candidate c when handed options o, and the state of the dict it worked on afterwards.  Whether that dict is
     the caller's object is the generated fact refine_copies_options. *)
  Variables candidate outcome_t options : Type.
  Variable is_none : outcome_t -> bool.
  Variable task : string -> options -> candidate -> outcome_t * options.

  (* results and the caller's options after refine_droplets(..., num_processes = np, least_squares_params = o) *)
  Definition refine_droplets_with_options (o : options) (np : nproc) (ncpu : nat) (sigma : list nat)
             (cands : list candidate) : outcome (list outcome_t * options) :=
    mapped_with_options is_none P_refine refine_copies_options (task rd_serial_call) o np ncpu sigma cands.

  Theorem refine_options_par_eq_ser o np ncpu sigma cands :
    usable np ncpu ->
    rd_parallel_call = rd_serial_call /\
    refine_droplets_with_options o np ncpu sigma cands
    = Done (filter (fun r => negb (is_none r)) (map (fun c => fst (task rd_serial_call o c)) cands), o).
  Proof.
    intros Hu. split; [reflexivity|]. unfold refine_droplets_with_options.
    change refine_copies_options with true.
    rewrite mapped_with_options_par_eq_ser;
      [reflexivity | reflexivity | reflexivity | apply usable_valid_refine; exact Hu].
  Qed.

  (* results AND the caller's options are the same for any two process counts and schedules; in particular a
     later analysis that reuses the options object does not depend on how this one was scheduled *)
  Corollary refine_options_independent o np1 np2 ncpu1 ncpu2 sigma1 sigma2 cands :
    usable np1 ncpu1 -> usable np2 ncpu2 ->
    refine_droplets_with_options o np1 ncpu1 sigma1 cands = refine_droplets_with_options o np2 ncpu2 sigma2 cands.
  Proof.
    intros H1 H2.
    rewrite (proj2 (refine_options_par_eq_ser o np1 ncpu1 sigma1 cands H1)).
    rewrite (proj2 (refine_options_par_eq_ser o np2 ncpu2 sigma2 cands H2)). reflexivity.
  Qed.
End RefineOptions.

(* ---- refine_droplets: the candidate objects handed in by the caller -------------------------- *)
Section RefineCandidates.
  (* `task d c` = what the worker call d returns for candidate c and the state of the droplet object it worked on
     afterwards; whether that object is the caller's candidate is the generated fact refine_copies_candidate *)
  Variables candidate outcome_t : Type.
  Variable is_none : outcome_t -> bool.
  Variable task : string -> candidate -> outcome_t * candidate.

  (* results and the caller's candidate list after refine_droplets(field, cands, num_processes = np) *)
  Definition refine_droplets_with_candidates (np : nproc) (ncpu : nat) (sigma : list nat) (cands : list candidate)
    : outcome (list outcome_t * list candidate) :=
    mapped_with_arguments is_none P_refine refine_copies_candidate (task rd_serial_call) np ncpu sigma cands.

  Theorem refine_candidates_par_eq_ser np ncpu sigma cands :
    usable np ncpu ->
    refine_droplets_with_candidates np ncpu sigma cands
    = Done (filter (fun r => negb (is_none r)) (map (fun c => fst (task rd_serial_call c)) cands), cands).
  Proof.
    intros Hu. unfold refine_droplets_with_candidates.
    change refine_copies_candidate with true.
    rewrite mapped_with_arguments_par_eq_ser;
      [reflexivity | reflexivity | reflexivity | apply usable_valid_refine; exact Hu].
  Qed.
End RefineCandidates.

(* ---- EmulsionTimeCourse.from_storage -------------------------------------------------------- *)
Section Storage.
  Variable value : Type.
  Variable parse : string -> value.
  Variables field emulsion exn : Type.
  Variable locate : list (string * option value) -> field -> res exn emulsion.

  Lemma map_res_id_map {A} (f : A -> res exn emulsion) : forall l, map_res (fun r => r) (map f l) = map_res f l.
  Proof.
    induction l as [|x l IH]; [reflexivity|]. simpl. destruct (f x); simpl; [|reflexivity].
    rewrite IH. reflexivity.
  Qed.

  (* from_storage(storage, num_processes = np, **user): per-frame results (an emulsion or the exception
     the frame raised) gathered by the branch selected by np; then the first exception in frame order
     propagates (iteration of the generator / of executor.map's result iterator), then
     cls(emulsions, times = storage.times) *)
  Definition from_storage_np (user : kwdict value) (progress : bool) (np : nproc) (ncpu : nat) (sigma : list nat)
             (storage : list (field * Q)) : outcome (res (failure exn) (tc emulsion)) :=
    match mapped (fun _ => false) (P_storage progress)
                 (locate (offline_options value parse G O_serial user))
                 (locate (offline_options value parse G O_parallel user))
                 np ncpu sigma (map fst storage) with
    | Done rs =>
        Done (bind (lift exn (map_res (fun r => r) rs)) (fun es =>
              match tc_make es (if String.eqb fs_times_from fs_serial_iter then Some (map snd storage) else None) with
              | Ok s => Ok s
              | Err _ => Err (CtorLength exn)
              end))
    | Failed e => Failed e
    end.

  Lemma offline_options_same user :
    offline_options value parse G O_parallel user = offline_options value parse G O_serial user.
  Proof. reflexivity. Qed.

  (* whatever the process count and the schedule, the result is the serial one of Model/Online.v *)
  Theorem from_storage_par_eq_ser user progress np ncpu sigma storage :
    usable np ncpu ->
    from_storage_np user progress np ncpu sigma storage
    = Done (from_storage value parse field emulsion exn locate G O_serial user storage).
  Proof.
    intros Hu. unfold from_storage_np.
    change (offline_options value parse G O_parallel user) with (offline_options value parse G O_serial user).
    rewrite mapped_par_eq_ser;
      [| apply storage_gathers_by_index | reflexivity | apply usable_valid_storage; exact Hu].
    simpl. rewrite map_res_id_map. reflexivity.
  Qed.

  Corollary from_storage_independent user progress1 progress2 np1 np2 ncpu1 ncpu2 sigma1 sigma2 storage :
    usable np1 ncpu1 -> usable np2 ncpu2 ->
    from_storage_np user progress1 np1 ncpu1 sigma1 storage = from_storage_np user progress2 np2 ncpu2 sigma2 storage.
  Proof. intros H1 H2. rewrite !from_storage_par_eq_ser by assumption. reflexivity. Qed.
End Storage.

(* the statement of pool_map_schedule_free for schedules that are permutations, as in DESIGN.md *)
Theorem pool_map_schedule_free_perm {A B} (f : A -> B) xs sigma w :
  Permutation sigma (seq 0 (length xs)) -> 1 <= w -> pool_map f xs sigma w = Some (map f xs).
Proof. intros _ Hw. apply pool_map_schedule_free. exact Hw. Qed.
