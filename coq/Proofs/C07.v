(* C07 -- tracks follow droplet identity.  Theorems about Model/Tracking.v. *)
From Coq Require Import List Bool Arith Lia QArith Permutation Sorted.
Import ListNotations.
From PD Require Import Model.Tracking Proofs.Tracking Proofs.TrackingOv Proofs.TrackingDist Proofs.C06.

Local Open Scope nat_scope.

(* ------------------------------------------------------------------------------------------ *)
(* helpers                                                                                     *)
(* ------------------------------------------------------------------------------------------ *)
Lemma track_frames_ids tr : track_frames tr = map fst (ids tr).
Proof. unfold track_frames, ids, fr_of. rewrite map_map. reflexivity. Qed.

Lemma in_ids_all trs tr a : In tr trs -> In a (ids tr) -> In a (all_ids_of trs).
Proof.
  intros Htr Ha. unfold ids in Ha. apply in_map_iff in Ha. destruct Ha as (e & <- & He).
  unfold all_ids_of. apply in_map. apply in_all_entries. eauto.
Qed.

Lemma in_all_ids_of trs a : In a (all_ids_of trs) -> exists tr, In tr trs /\ In a (ids tr).
Proof.
  unfold all_ids_of. intros H. apply in_map_iff in H. destruct H as (e & <- & He).
  apply in_all_entries in He. destruct He as (tr & Htr & He). exists tr. split; [exact Htr|].
  unfold ids. apply in_map. exact He.
Qed.

Lemma linked_in_ids trs a b : linked trs a b -> In a (all_ids_of trs) /\ In b (all_ids_of trs).
Proof.
  intros (tr & Htr & Hadj). apply adjacent_in in Hadj. destruct Hadj as [Ha Hb].
  split; eapply in_ids_all; eauto.
Qed.

Lemma in_snoc_succ_or_last {A} (l : list A) x a :
  In a (l ++ [x]) -> (exists b, adjacent (l ++ [x]) a b) \/ a = x.
Proof.
  induction l as [|y l IH]; simpl.
  - intros [<-|[]]. right. reflexivity.
  - intros [<-|Hin].
    + left. destruct l as [|z l]; simpl.
      * exists x. exists [], []. reflexivity.
      * exists z. exists [], (l ++ [x]). reflexivity.
    + destruct (IH Hin) as [(b & l1 & l2 & E)|E]; [|auto].
      left. exists b. exists (y :: l1), l2. simpl. rewrite E. reflexivity.
Qed.

Lemma in_ids_succ_or_last tr a : In a (ids tr) -> (exists b, adjacent (ids tr) a b) \/ a = t_last tr.
Proof. destruct (ids_last tr) as [l ->]. apply in_snoc_succ_or_last. Qed.

Lemma nodup_sing {A} (l : list A) k : NoDup l -> In k l -> (forall x, In x l -> x = k) -> l = [k].
Proof.
  intros Hn Hk Hall. destruct l as [|x l]; [destruct Hk|].
  assert (x = k) by (apply Hall; left; reflexivity). subst x.
  destruct l as [|y l]; [reflexivity|]. exfalso.
  assert (y = k) by (apply Hall; right; left; reflexivity). subst y.
  inversion Hn as [|? ? Hnot _]. apply Hnot. left. reflexivity.
Qed.

(* a droplet of a track that ends the track has no successor (ids are unique) *)
Lemma ends_no_succ trs a b : NoDup (all_ids_of trs) -> ends trs a -> ~ linked trs a b.
Proof.
  intros Hn (tr & Htr & Hl) (tr' & Htr' & l1 & l2 & E).
  apply In_nth_error in Htr. destruct Htr as [k Hk]. apply In_nth_error in Htr'. destruct Htr' as [k' Hk'].
  assert (k = k').
  { apply (tracks_disjoint trs k k' tr tr' a Hn Hk Hk').
    - rewrite <- Hl. apply t_last_in_ids.
    - rewrite E. apply in_or_app. right. left. reflexivity. }
  subst k'. rewrite Hk in Hk'. inversion Hk'; subst tr'. clear Hk'.
  assert (Hnd : NoDup (ids tr)).
  { rewrite all_ids_of_concat in Hn. clear - Hn Hk. revert k Hk. induction trs as [|x trs IH]; intros k Hk.
    - destruct k; discriminate.
    - simpl in Hn. destruct k as [|k]; simpl in Hk.
      + inversion Hk; subst. clear - Hn. induction (ids tr) as [|y l IHl]; [constructor|].
        simpl in Hn. inversion Hn as [|? ? Hy Hn']; subst. constructor; [|auto].
        intros Hin. apply Hy. apply in_app_iff. auto.
      + apply (IH) with (k := k); [|exact Hk]. clear - Hn. induction (ids x) as [|y l IHl]; [exact Hn|].
        simpl in Hn. inversion Hn; auto. }
  destruct (ids_last tr) as [l El]. rewrite El in E, Hnd. rewrite Hl in *.
  destruct l2 as [|z l2 _] using rev_ind.
  - replace (l1 ++ [a; b]) with ((l1 ++ [a]) ++ [b]) in E by (rewrite <- app_assoc; reflexivity).
    apply app_inj_tail in E. destruct E as [E <-]. rewrite E in Hnd.
    apply NoDup_remove_2 in Hnd. apply Hnd. rewrite app_nil_r. apply in_or_app. right. left. reflexivity.
  - replace (l1 ++ a :: b :: l2 ++ [z]) with ((l1 ++ a :: b :: l2) ++ [z]) in E
      by (rewrite <- app_assoc; reflexivity).
    apply app_inj_tail in E. destruct E as [E <-]. rewrite E in Hnd.
    apply NoDup_remove_2 in Hnd. apply Hnd. rewrite app_nil_r. apply in_or_app. right. left. reflexivity.
Qed.

Lemma last_time_of_nth done t0 n0 :
  nth_error done (length done - 1) = Some (t0, n0) -> last_time done = Some t0.
Proof.
  intros H. destruct (last_time done) as [tl|] eqn:E.
  - destruct (last_time_nth _ _ E) as [n Hn]. unfold frame in *. rewrite Hn in H. inversion H. reflexivity.
  - unfold last_time, frame in *. destruct (rev done) as [|[t n] r] eqn:R; [|discriminate].
    apply (f_equal (@rev _)) in R. rewrite rev_involutive in R. subst done. destruct (0 - 1); discriminate.
Qed.

(* every droplet of the last processed frame is the end of an alive track *)
Lemma last_frame_alive done trs t0 n0 a :
  Inv1 done trs -> nth_error done (length done - 1) = Some (t0, n0) ->
  In a (frame_ids (length done - 1) n0) ->
  exists k tr, In k (alive_idx (last_time done) trs) /\ nth_error trs k = Some tr /\ t_last tr = a.
Proof.
  intros [[Hp Hs] Hc] Hn Ha.
  assert (Hlen : length done <> 0) by (intros E; destruct done; [destruct (0 - 1); discriminate|discriminate]).
  apply in_frame_ids in Ha. destruct Ha as [Hf Hj].
  assert (Hall : In a (all_ids done)) by (apply in_all_ids; exists t0, n0; rewrite Hf; auto).
  apply (Permutation_in _ (Permutation_sym Hp)) in Hall. apply in_all_ids_of in Hall.
  destruct Hall as (tr & Htr & Hin). destruct (Hc tr Htr) as [s Hs'].
  assert (Hlt : fst (t_last tr) < length done).
  { destruct (Hs (snd tr)) as (n' & Hn' & _).
    - apply in_all_entries. exists tr. split; [exact Htr|apply last_entry_in].
    - unfold fr_of in Hn'. apply nth_error_Some. unfold t_last. congruence. }
  assert (Hlast : t_last tr = a).
  { destruct (ids_last tr) as [l El]. rewrite track_frames_ids, El, map_app in Hs'. simpl in Hs'.
    assert (Hl : length (entries tr) = S (length l)).
    { apply (f_equal (@length _)) in El. unfold ids in El. rewrite map_length, app_length in El. simpl in El.
      transitivity (length l + 1); [exact El|lia]. }
    rewrite Hl in Hs'. symmetry in Hs'. apply seq_last_eq in Hs'. destruct Hs' as [Hx Hl'].
    rewrite El in Hin. apply in_app_iff in Hin. destruct Hin as [Hin|[E|[]]]; [|exact E]. exfalso.
    assert (Hfa : In (fst a) (seq s (length l))) by (rewrite <- Hl'; apply in_map; exact Hin).
    apply in_seq in Hfa. lia. }
  apply In_nth_error in Htr. destruct Htr as [k Hk]. exists k, tr. split; [|auto].
  apply alive_idx_spec. exists tr. split; [exact Hk|].
  rewrite (last_time_of_nth _ _ _ Hn). simpl.
  destruct (Hs (snd tr)) as (n' & Hn' & _).
  { apply in_all_entries. exists tr. split; [eapply nth_error_In; eauto|apply last_entry_in]. }
  assert (E : fr_of (snd tr) = length done - 1) by (unfold fr_of; fold (t_last tr); rewrite Hlast; exact Hf).
  rewrite E, Hn in Hn'. inversion Hn'. apply Qeq_bool_iff. unfold t_end. reflexivity.
Qed.

(* ends of alive tracks are droplets of the previous frame *)
Lemma alive_last_in_frame done trs t0 n0 k tr :
  Inv0 done trs -> distinct_times done -> nth_error done (length done - 1) = Some (t0, n0) ->
  In k (alive_idx (last_time done) trs) -> nth_error trs k = Some tr ->
  In (t_last tr) (frame_ids (length done - 1) n0).
Proof.
  intros I Hd Hn Hk Htr. assert (Hf := alive_last_frame done trs k tr I Hd Hk Htr).
  destruct I as [_ Hs]. destruct (Hs (snd tr)) as (n' & Hn' & Hj).
  { apply in_all_entries. exists tr. split; [eapply nth_error_In; eauto|apply last_entry_in]. }
  apply in_frame_ids. unfold fr_of in Hn'. fold (t_last tr) in Hn', Hj.
  replace (fst (t_last tr)) with (length done - 1) in Hn' by lia. rewrite Hn in Hn'. inversion Hn'; subst.
  split; [lia|exact Hj].
Qed.

Lemma uniq_last trs k1 k2 tr1 tr2 :
  NoDup (all_ids_of trs) -> nth_error trs k1 = Some tr1 -> nth_error trs k2 = Some tr2 ->
  t_last tr1 = t_last tr2 -> k1 = k2.
Proof.
  intros Hn H1 H2 E. apply (tracks_disjoint trs k1 k2 tr1 tr2 (t_last tr1) Hn H1 H2).
  - apply t_last_in_ids.
  - rewrite E. apply t_last_in_ids.
Qed.

Lemma in_all_ids_prefix done rest a : In a (all_ids done) -> In a (all_ids (done ++ rest)).
Proof.
  intros H. apply in_all_ids in H. destruct H as (t & n & Hn & Hj). apply in_all_ids. exists t, n.
  split; [|exact Hj]. rewrite nth_error_app1; [exact Hn|]. apply nth_error_Some. congruence.
Qed.

Lemma in_all_ids_lt frames a : In a (all_ids frames) -> fst a < length frames.
Proof.
  intros H. apply in_all_ids in H. destruct H as (t & n & Hn & _). apply nth_error_Some. congruence.
Qed.

(* links created by a step point to droplets of the current frame *)
Lemma step_new_links m done t n trs trs' a b :
  Inv0 done trs -> step m t (length done) n (alive_idx (last_time done) trs) trs = Ok trs' ->
  linked trs' a b -> linked trs a b \/ fst b = length done.
Proof.
  intros I H L. destruct (Inv0_step m done t n trs trs' I H) as (_ & evs & Hap & Hperm & _).
  apply (apply_events_linked _ _ _ _ a b Hap) in L.
  destruct L as [L|(evs1 & k & evs2 & trs1 & tr & -> & _)]; [auto|]. right.
  assert (Hin : In b (frame_ids (length done) n)).
  { eapply Permutation_in; [exact Hperm|]. rewrite map_app. apply in_or_app. right. left. reflexivity. }
  apply in_frame_ids in Hin. tauto.
Qed.

Lemma step_linked_mono m done t n trs trs' a b :
  Inv0 done trs -> step m t (length done) n (alive_idx (last_time done) trs) trs = Ok trs' ->
  linked trs a b -> linked trs' a b.
Proof.
  intros I H L. destruct (Inv0_step m done t n trs trs' I H) as (_ & evs & Hap & _).
  eapply apply_events_linked_mono; eauto.
Qed.

Lemma step_starts m done t n trs trs' b :
  Inv0 done trs -> step m t (length done) n (alive_idx (last_time done) trs) trs = Ok trs' ->
  (starts trs b -> starts trs' b) /\ (starts trs' b -> starts trs b \/ fst b = length done).
Proof.
  intros I H. destruct (Inv0_step m done t n trs trs' I H) as (_ & evs & Hap & Hperm & _).
  split.
  - intros S. apply (apply_events_starts _ _ _ _ b Hap). auto.
  - intros S. apply (apply_events_starts _ _ _ _ b Hap) in S. destruct S as [S|Hin]; [auto|]. right.
    assert (Hb : In b (frame_ids (length done) n)).
    { eapply Permutation_in; [exact Hperm|]. apply in_map_iff. exists (New b). auto. }
    apply in_frame_ids in Hb. tauto.
Qed.

(* ------------------------------------------------------------------------------------------ *)
(* overlap method                                                                              *)
(* ------------------------------------------------------------------------------------------ *)
Section OverlapTheorems.
  Variable ov : did -> did -> bool.

  (* consecutive droplets of a track overlap (no hypothesis at all) *)
  Lemma ov_frame_links_overlap t alive trs ds trs' :
    (forall a b, linked trs a b -> ov a b = true) ->
    ov_frame ov t alive trs ds = Ok trs' ->
    forall a b, linked trs' a b -> ov a b = true.
  Proof.
    intros H0 H.
    apply (ov_frame_inv ov t alive (fun cur _ => forall a b, linked cur a b -> ov a b = true) ds trs H0); [|exact H].
    intros cur pre d post ev cur' _ Q Hev Hap a b L.
    apply (apply_event_linked _ _ _ _ a b Hap) in L.
    destruct L as [L|(k & tr & -> & Hn & ->)]; [auto|].
    destruct (ov_event_append ov _ _ _ _ _ Hev) as (-> & _ & tr' & Hn' & Hov).
    rewrite Hn in Hn'. inversion Hn'; subst. exact Hov.
  Qed.

  Theorem ov_consecutive_overlap frames trs :
    track_all (MOverlap ov) frames = Ok trs -> forall a b, linked trs a b -> ov a b = true.
  Proof.
    apply (run_inv (MOverlap ov) (fun _ trs => forall a b, linked trs a b -> ov a b = true)).
    - intros a b (tr & [] & _).
    - intros done t n rest trs0 trs' _ I H. simpl in H. eapply ov_frame_links_overlap; eauto.
  Qed.

  (* a droplet that overlaps no droplet of the previous frame (and no earlier droplet of its own
     frame) starts a new track *)
  Definition no_prev (frames : list frame) (b : did) : Prop :=
    (forall a, In a (all_ids frames) -> fst a + 1 = fst b -> ov a b = false) /\
    (forall j0, j0 < snd b -> ov (fst b, j0) b = false).

  Theorem ov_new_if_no_overlap frames trs :
    distinct_times frames -> track_all (MOverlap ov) frames = Ok trs ->
    forall b, In b (all_ids frames) -> no_prev frames b -> starts trs b.
  Proof.
    intros Hd H.
    set (P := fun (done : list frame) (trs : list track) =>
                Inv0 done trs /\ forall b, In b (all_ids done) -> no_prev frames b -> starts trs b).
    assert (G : P frames trs); [|apply G].
    apply (run_inv (MOverlap ov) P frames); [| |exact H].
    - split; [split; [reflexivity|intros e []]|]. intros b [].
    - intros done t n rest trs0 trs' Hfr [I Hst] Hs.
      destruct (Inv0_step _ done t n trs0 trs' I Hs) as (I' & _). split; [exact I'|].
      assert (Hdd : distinct_times done) by (subst frames; eapply distinct_times_prefix; eauto).
      set (alive := alive_idx (last_time done) trs0) in *. simpl in Hs.
      set (Q := fun (cur : list track) (pre : list did) =>
                  (forall k, In k alive -> exists tr, nth_error cur k = Some tr /\
                     ((fst (t_last tr) + 1 = length done /\ In (t_last tr) (all_ids done)) \/ In (t_last tr) pre)) /\
                  (forall b, In b (all_ids done) \/ In b pre -> no_prev frames b -> starts cur b)).
      assert (GQ : Q trs' (frame_ids (length done) n)).
      { apply (ov_frame_inv ov t alive Q (frame_ids (length done) n) trs0); [| |exact Hs].
        - split.
          + intros k Hk. assert (Hlt : k < length trs0) by (apply (alive_idx_valid _ _ k Hk)).
            destruct (nth_error trs0 k) as [tr|] eqn:E; [|apply nth_error_None in E; lia].
            exists tr. split; [reflexivity|]. left. split; [eapply alive_last_frame; eauto|].
            destruct I as [Hp _]. apply (Permutation_in _ Hp). eapply in_ids_all; [eapply nth_error_In; eauto|].
            apply t_last_in_ids.
          + intros b [Hb|[]] Hnp. auto.
        - intros cur pre d post ev cur' Hds [Qa Qs] Hev Hap.
          destruct (frame_ids_split _ _ _ _ _ Hds) as (Hfd & Hjd & Hjn & Hpre & _).
          assert (Hmono : forall b, starts cur b -> starts cur' b).
          { intros b S. apply (apply_event_starts _ _ _ _ b Hap). auto. }
          split.
          + intros k Hk. destruct (Qa k Hk) as (tr & Hn & Hor).
            destruct ev as [k' d'|d'].
            * destruct (apply_append_split _ _ _ _ _ Hap) as (l1 & tr0 & l2 & -> & Hlen & ->).
              destruct (ov_event_append ov _ _ _ _ _ Hev) as (-> & _).
              destruct (Nat.eq_dec k (length l1)) as [->|Hne].
              -- exists (t_append tr0 (t, d)). rewrite nth_error_mid. split; [reflexivity|].
                 right. apply in_or_app. right. left. reflexivity.
              -- exists tr. split; [rewrite <- Hn; apply nth_error_mid_other; exact Hne|].
                 destruct Hor; [auto|right; apply in_or_app; auto].
            * simpl in Hap. inversion Hap; subst cur'. exists tr. split.
              -- rewrite nth_error_app1; [exact Hn|]. apply nth_error_Some. congruence.
              -- destruct Hor; [auto|right; apply in_or_app; auto].
          + intros b Hb Hnp.
            assert (Hb' : (In b (all_ids done) \/ In b pre) \/ b = d).
            { destruct Hb as [Hb|Hb]; [auto|]. apply in_app_iff in Hb. destruct Hb as [Hb|[<-|[]]]; auto. }
            destruct Hb' as [Hb' | ->]; [apply Hmono; apply Qs; assumption|].
            (* d has no predecessor: nothing matches, so it starts a track *)
            destruct (ov_event_cases ov _ _ _ _ Hev) as [(k & -> & Hfil)|[-> _]].
            * exfalso. assert (Hk : In k (filter (ov_pred ov cur d) alive)) by (rewrite Hfil; left; reflexivity).
              apply filter_In in Hk. destruct Hk as [Hk Hp]. destruct (Qa k Hk) as (tr & Hn & Hor).
              unfold ov_pred in Hp. rewrite Hn in Hp. destruct Hnp as [Hnp1 Hnp2].
              destruct Hor as [[Hf Hin]|Hin].
              -- rewrite (Hnp1 (t_last tr)) in Hp; [discriminate| |lia].
                 subst frames. apply in_all_ids_prefix. exact Hin.
              -- destruct (Hpre _ Hin) as [Hf0 Hj0]. specialize (Hnp2 (snd (t_last tr)) Hj0).
                 rewrite Hfd, <- Hf0, <- surjective_pairing in Hnp2. congruence.
            * apply (apply_event_starts _ _ _ _ d Hap). right. reflexivity. }
      destruct GQ as [_ GQ]. intros b Hb Hnp. apply GQ; [|exact Hnp].
      rewrite all_ids_snoc in Hb. apply in_app_iff in Hb. tauto.
  Qed.
End OverlapTheorems.

(* ---- one-to-one overlap relation between two consecutive frames ---- *)
Section OverlapBijection.
  Variable ov : did -> did -> bool.

  Lemma ov_frame_bijection t alive trs (R C : list did) f n1 trs' :
    C = frame_ids f n1 ->
    NoDup alive ->
    (forall k, In k alive -> exists tr, nth_error trs k = Some tr /\ In (t_last tr) R) ->
    (forall a, In a R -> exists k tr, In k alive /\ nth_error trs k = Some tr /\ t_last tr = a) ->
    (forall k1 k2 tr1 tr2, nth_error trs k1 = Some tr1 -> nth_error trs k2 = Some tr2 ->
                           t_last tr1 = t_last tr2 -> k1 = k2) ->
    (forall j0 j, j0 < j -> j < n1 -> ov (f, j0) (f, j) = false) ->
    (forall a b b', In a R -> In b C -> In b' C -> ov a b = true -> ov a b' = true -> b = b') ->
    (forall a a' b, In a R -> In a' R -> In b C -> ov a b = true -> ov a' b = true -> a = a') ->
    ov_frame ov t alive trs C = Ok trs' ->
    forall a b, linked trs' a b <-> linked trs a b \/ (In a R /\ In b C /\ ov a b = true).
  Proof.
    intros HC Hnd Hlast Hall Huniq Hin Hb1 Hb2 H.
    set (Q := fun (cur : list track) (pre : list did) =>
                (forall k, In k alive ->
                   nth_error cur k = nth_error trs k \/
                   exists tr0 tr d0, nth_error trs k = Some tr0 /\ nth_error cur k = Some tr /\
                                     In (t_last tr) pre /\ In d0 pre /\ ov (t_last tr0) d0 = true) /\
                (forall a b, linked cur a b <-> linked trs a b \/ (In a R /\ In b pre /\ ov a b = true))).
    assert (G : Q trs' C); [|apply G].
    apply (ov_frame_inv ov t alive Q C trs); [| |exact H].
    - split; [intros k _; left; reflexivity|]. intros a b. split; [auto|]. intros [L|(_ & [] & _)]. exact L.
    - intros cur pre d post ev cur' Hds [Q1 Q2] Hev Hap.
      assert (HdC : In d C) by (rewrite Hds; apply in_or_app; right; left; reflexivity).
      assert (Hdpre : ~ In d pre).
      { assert (Hn : NoDup C) by (rewrite HC; apply frame_ids_nodup).
        rewrite Hds in Hn. apply NoDup_remove_2 in Hn. intros Hx. apply Hn. apply in_or_app. auto. }
      rewrite HC in Hds. destruct (frame_ids_split _ _ _ _ _ Hds) as (Hfd & Hjd & Hjn & Hpre & _).
      (* which alive tracks match d *)
      assert (Hmatch : forall k, In k (filter (ov_pred ov cur d) alive) ->
                                 In k alive /\ nth_error cur k = nth_error trs k /\
                                 exists tr, nth_error trs k = Some tr /\ ov (t_last tr) d = true).
      { intros k Hk. apply filter_In in Hk. destruct Hk as [Hk Hp]. split; [exact Hk|].
        unfold ov_pred in Hp. destruct (Q1 k Hk) as [E|(tr0 & tr & d0 & Hn0 & Hn & Hl & _)].
        - split; [exact E|]. rewrite E in Hp. destruct (nth_error trs k) as [tr|]; [|discriminate]. eauto.
        - exfalso. rewrite Hn in Hp. destruct (Hpre _ Hl) as [Hf0 Hj0].
          specialize (Hin (snd (t_last tr)) (snd d) Hj0 Hjn).
          rewrite <- Hf0 in Hin at 1. rewrite <- Hfd, <- !surjective_pairing in Hin. congruence. }
      destruct (ov_event_cases ov _ _ _ _ Hev) as [(k & -> & Hfil)|[-> Hfil]].
      + (* exactly one match: appended *)
        destruct (Hmatch k) as (Hk & Ecur & tr0 & Hn0 & Hov); [rewrite Hfil; left; reflexivity|].
        destruct (Hlast k Hk) as (tr0' & Hn0' & HR). rewrite Hn0 in Hn0'. inversion Hn0'; subst tr0'.
        destruct (apply_append_split _ _ _ _ _ Hap) as (l1 & trc & l2 & -> & Hlen & ->).
        subst k. rewrite nth_error_mid in Ecur. rewrite Hn0 in Ecur. inversion Ecur; subst trc. split.
        * intros k' Hk'. destruct (Nat.eq_dec k' (length l1)) as [->|Hne].
          -- right. exists tr0, (t_append tr0 (t, d)), d. rewrite nth_error_mid. simpl.
             repeat split; auto; apply in_or_app; right; left; reflexivity.
          -- destruct (Q1 k' Hk') as [E|(tr1 & tr & d0 & Hn1 & Hn & Hl & Hd0 & Hov0)].
             ++ left. rewrite <- E. apply nth_error_mid_other. exact Hne.
             ++ right. exists tr1, tr, d0. split; [exact Hn1|]. split.
                ** rewrite <- Hn. apply nth_error_mid_other. exact Hne.
                ** repeat split; auto; apply in_or_app; auto.
        * intros a b. rewrite (apply_event_linked _ _ _ _ a b Hap), Q2. split.
          -- intros [[L|(Ha & Hb & Hab)]|(k' & tr' & Ek & Hn' & ->)].
             ++ auto.
             ++ right. split; [exact Ha|]. split; [apply in_or_app; auto|exact Hab].
             ++ inversion Ek; subst k' b. rewrite nth_error_mid in Hn'. inversion Hn'; subst tr'.
                right. split; [exact HR|]. split; [apply in_or_app; right; left; reflexivity|exact Hov].
          -- intros [L|(Ha & Hb & Hab)]; [auto|].
             apply in_app_iff in Hb. destruct Hb as [Hb|[<-|[]]]; [left; right; auto|].
             right. exists (length l1), tr0. rewrite nth_error_mid. split; [reflexivity|]. split; [reflexivity|].
             apply (Hb2 a (t_last tr0) d); auto.
      + (* no unique match: new track; then no droplet of R overlaps d *)
        assert (Hap' := Hap). simpl in Hap'. inversion Hap'; subst cur'. clear Hap'. split.
        * intros k' Hk'. assert (Hlt : k' < length cur).
          { destruct (Q1 k' Hk') as [E|(tr1 & tr & _ & _ & Hn & _)].
            - destruct (Hlast k' Hk') as (tr & Hn & _). apply nth_error_Some. congruence.
            - apply nth_error_Some. congruence. }
          rewrite nth_error_app1 by exact Hlt.
          destruct (Q1 k' Hk') as [E|(tr1 & tr & d0 & Hn1 & Hn & Hl & Hd0 & Hov0)]; [auto|].
          right. exists tr1, tr, d0. repeat split; auto; apply in_or_app; auto.
        * intros a b. rewrite (apply_event_linked _ _ _ _ a b Hap), Q2. split.
          -- intros [[L|(Ha & Hb & Hab)]|(k' & tr' & Ek & _)]; [auto| |discriminate].
             right. split; [exact Ha|]. split; [apply in_or_app; auto|exact Hab].
          -- intros [L|(Ha & Hb & Hab)]; [auto|].
             apply in_app_iff in Hb. destruct Hb as [Hb|[<-|[]]]; [left; right; auto|]. exfalso.
             destruct (Hall a Ha) as (ka & tra & Hka & Hna & Hla).
             assert (Hunt : nth_error cur ka = nth_error trs ka).
             { destruct (Q1 ka Hka) as [E|(tr1 & tr & d0 & Hn1 & Hn & Hl & Hd0 & Hov0)]; [exact E|]. exfalso.
               rewrite Hna in Hn1. inversion Hn1; subst tr1. rewrite Hla in Hov0.
               assert (d0 = d); [|subst d0; tauto].
               apply (Hb1 a d0 d); auto. rewrite HC, Hds. apply in_or_app. auto. }
             assert (Hinf : In ka (filter (ov_pred ov cur d) alive)).
             { apply filter_In. split; [exact Hka|]. unfold ov_pred. rewrite Hunt, Hna, Hla. exact Hab. }
             apply (Hfil ka). apply nodup_sing; [apply NoDup_filter; exact Hnd|exact Hinf|].
             intros k' Hk'. destruct (Hmatch k' Hk') as (Hk'a & _ & tr' & Hn' & Hov').
             destruct (Hlast k' Hk'a) as (tr'' & Hn'' & HR'). rewrite Hn' in Hn''. inversion Hn''; subst tr''.
             assert (t_last tr' = a) by (apply (Hb2 (t_last tr') a d); auto).
             apply (Huniq k' ka tr' tra Hn' Hna). congruence.
  Qed.
End OverlapBijection.

Definition one_to_one (ov : did -> did -> bool) (R C : list did) : Prop :=
  (forall a b b', In a R -> In b C -> In b' C -> ov a b = true -> ov a b' = true -> b = b') /\
  (forall a a' b, In a R -> In a' R -> In b C -> ov a b = true -> ov a' b = true -> a = a').

Lemma linked_lt done trs a b : Inv0 done trs -> linked trs a b -> fst b < length done.
Proof.
  intros [Hp _] L. apply linked_in_ids in L. destruct L as [_ Hb].
  apply (Permutation_in _ Hp) in Hb. apply in_all_ids_lt in Hb. exact Hb.
Qed.

Theorem ov_follows_bijection ov frames trs f t0 n0 t1 n1 :
  distinct_times frames -> inframe_ok ov frames ->
  track_all (MOverlap ov) frames = Ok trs ->
  nth_error frames f = Some (t0, n0) -> nth_error frames (S f) = Some (t1, n1) ->
  one_to_one ov (frame_ids f n0) (frame_ids (S f) n1) ->
  forall a b, fst b = S f ->
              (linked trs a b <-> In a (frame_ids f n0) /\ In b (frame_ids (S f) n1) /\ ov a b = true).
Proof.
  intros Hd Hin H Hf0 Hf1 [Hb1 Hb2].
  set (P := fun (done : list frame) (trs : list track) =>
              Inv1 done trs /\
              (S f < length done -> forall a b, fst b = S f ->
                 (linked trs a b <-> In a (frame_ids f n0) /\ In b (frame_ids (S f) n1) /\ ov a b = true))).
  assert (G : P frames trs).
  { apply (run_inv (MOverlap ov) P frames); [| |exact H].
    - split; [split; [split; [reflexivity|intros e []]|intros tr []]|]. simpl. lia.
    - intros done t n rest trs0 trs' Hfr [I1 IH] Hs.
      assert (I1' : Inv1 (done ++ [(t, n)]) trs') by (eapply (Inv1_step (MOverlap ov)); eauto).
      split; [exact I1'|]. rewrite app_length. simpl. intros Hlen a b Hfb.
      destruct I1 as [I0 Hc].
      destruct (Nat.eq_dec (length done) (S f)) as [E|Hne].
      + (* this is the step that processes frame S f *)
        assert (Etn : (t, n) = (t1, n1)).
        { rewrite Hfr, <- E, nth_error_mid in Hf1. inversion Hf1. reflexivity. }
        inversion Etn; subst t n. clear Etn.
        assert (Hdf : nth_error done (length done - 1) = Some (t0, n0)).
        { rewrite Hfr in Hf0. unfold frame in *. rewrite nth_error_app1 in Hf0 by lia.
          replace (length done - 1) with f by lia. exact Hf0. }
        assert (Hdd : distinct_times done) by (subst frames; eapply distinct_times_prefix; eauto).
        assert (Hnd := Inv0_nodup _ _ I0).
        simpl in Hs. rewrite E in Hs.
        assert (Hfe : f = length done - 1) by lia.
        pose proof (ov_frame_bijection ov t1 (alive_idx (last_time done) trs0) trs0
                      (frame_ids f n0) (frame_ids (S f) n1) (S f) n1 trs' eq_refl
                      (alive_idx_nodup _ _)) as BJ.
        rewrite (BJ); clear BJ.
        * split; [|tauto]. intros [L|L]; [|exact L]. exfalso.
          apply (linked_lt done trs0 a b I0) in L. unfold frame in *. lia.
        * intros k Hk. assert (Hlt : k < length trs0) by (apply (alive_idx_valid _ _ k Hk)).
          destruct (nth_error trs0 k) as [tr|] eqn:Ek; [|apply nth_error_None in Ek; lia].
          exists tr. split; [reflexivity|]. rewrite Hfe. eapply alive_last_in_frame; eauto.
        * intros a' Ha'. rewrite Hfe in Ha'.
          destruct (last_frame_alive done trs0 t0 n0 a' (conj I0 Hc) Hdf Ha') as (k & tr & Hk & Hn & Hl).
          exists k, tr. auto.
        * intros k1 k2 tr1 tr2. apply uniq_last. exact Hnd.
        * intros j0 j Hj0 Hj. apply (Hin (S f) t1 n1 j0 j Hf1 Hj0 Hj).
        * exact Hb1.
        * exact Hb2.
        * exact Hs.
      + assert (Hgt : S f < length done) by (unfold frame in *; lia). rewrite <- (IH Hgt a b Hfb). split.
        * intros L. destruct (step_new_links _ _ _ _ _ _ a b I0 Hs L) as [L'|Hx]; [exact L'|unfold frame in *; lia].
        * intros L. eapply step_linked_mono; eauto. }
  destruct G as [_ G]. apply G. apply nth_error_Some. congruence.
Qed.

(* ------------------------------------------------------------------------------------------ *)
(* distance method                                                                             *)
(* ------------------------------------------------------------------------------------------ *)
Lemma Forall2_in_l {A B} (P : A -> B -> Prop) l1 l2 x :
  Forall2 P l1 l2 -> In x l1 -> exists y, In y l2 /\ P x y.
Proof.
  induction 1 as [|a b l1 l2 Hab F IH]; intros Hin; [destruct Hin|].
  destruct Hin as [<-|Hin]; [exists b; simpl; auto|].
  destruct (IH Hin) as (y & Hy & Hp). exists y. simpl. auto.
Qed.

Lemma Forall2_in_r {A B} (P : A -> B -> Prop) l1 l2 y :
  Forall2 P l1 l2 -> In y l2 -> exists x, In x l1 /\ P x y.
Proof.
  induction 1 as [|a b l1 l2 Hab F IH]; intros Hin; [destruct Hin|].
  destruct Hin as [<-|Hin]; [exists a; simpl; auto|].
  destruct (IH Hin) as (x & Hx & Hp). exists x. simpl. auto.
Qed.

Section DistanceTheorems.
  Variable D : did -> did -> Q.
  Variable md : option Q.

  (* one frame: the links are those of closest-pair-first matching between the ends of the alive
     tracks and the droplets of the frame; unmatched droplets start tracks *)
  Lemma dist_step_spec t f n alive trs trs' :
    dist_frame D md t f n alive trs = Ok trs' ->
    valid_idx alive trs -> NoDup alive -> NoDup (all_ids_of trs) ->
    exists prev links,
      lasts trs alive = Ok prev /\ NoDup prev /\
      closest_first (Wc D md) prev (frame_ids f n) [] [] links /\
      (forall a b, linked trs' a b <-> linked trs a b \/ In (a, b) links) /\
      (forall b, starts trs' b <-> starts trs b \/ (In b (frame_ids f n) /\ ~ In b (map snd links))).
  Proof.
    intros H V Ha Hn.
    destruct (lasts_total trs alive V) as [prev Hl].
    assert (Hnp : NoDup prev) by (eapply lasts_nodup; eauto).
    destruct (dist_frame_spec D md t f n alive trs trs' H prev Hl Hnp)
      as (links & evsA & news & Hcf & F2 & Hnews & Hnn & Hap).
    exists prev, links. split; [exact Hl|]. split; [exact Hnp|]. split; [exact Hcf|].
    assert (Hnt : NoDup (targets (evsA ++ map New news))).
    { rewrite targets_app, targets_news, app_nil_r.
      eapply nodup_targets_dist; [exact Ha|apply (cf_fst _ _ _ _ _ _ Hcf)|exact F2]. }
    assert (Hls := lasts_spec _ _ _ Hl).
    (* an Append event and the link it realises *)
    assert (Hev : forall k b, In (Append k b) (evsA ++ map New news) ->
                              exists tr, nth_error trs k = Some tr /\ In (t_last tr, b) links).
    { intros k b Hin. apply in_app_iff in Hin. destruct Hin as [Hin|Hin].
      - destruct (Forall2_in_r _ _ _ _ F2 Hin) as ([a' b'] & Hab & i & k' & Hk' & Hp & E).
        simpl in *. inversion E; subst k' b'.
        destruct (Forall2_nth _ _ _ Hls _ _ Hk') as (a'' & Hp' & tr & Hn' & Hlast).
        rewrite Hp in Hp'. injection Hp' as Ea. exists tr. split; [exact Hn'|]. rewrite Hlast, <- Ea. exact Hab.
      - apply in_map_iff in Hin. destruct Hin as (? & ? & _). discriminate. }
    split.
    - intros a b. rewrite (apply_events_linked _ _ _ _ a b Hap). split.
      + intros [L|(evs1 & k & evs2 & trs1 & tr & E & Hap1 & Hn1 & ->)]; [auto|]. right.
        destruct (Hev k b) as (tr0 & Hn0 & Hlink); [rewrite E; apply in_or_app; right; left; reflexivity|].
        assert (Hunt : nth_error trs1 k = Some tr0).
        { eapply apply_events_untouched; [exact Hap1| |exact Hn0].
          intros d Hd. rewrite E, targets_app in Hnt. simpl in Hnt. apply NoDup_remove_2 in Hnt.
          apply Hnt. apply in_or_app. left. apply in_targets. eauto. }
        rewrite Hn1 in Hunt. inversion Hunt; subst tr. exact Hlink.
      + intros [L|Hab]; [auto|]. right.
        destruct (Forall2_in_l _ _ _ _ F2 Hab) as (ev & Hin & i & k & Hk & Hp & ->). simpl in *.
        assert (Hin' : In (Append k b) (evsA ++ map New news)) by (apply in_or_app; auto).
        destruct (in_split _ _ Hin') as (evs1 & evs2 & E).
        rewrite E in Hap. destruct (apply_events_app_inv _ _ _ _ _ Hap) as (trs1 & Hap1 & _).
        destruct (Forall2_nth _ _ _ Hls _ _ Hk) as (a'' & Hp' & tr & Hn' & Hlast).
        rewrite Hp in Hp'. injection Hp' as Ea.
        exists evs1, k, evs2, trs1, tr. split; [exact E|]. split; [exact Hap1|]. split; [|congruence].
        eapply apply_events_untouched; [exact Hap1| |exact Hn'].
        intros d Hd. rewrite E, targets_app in Hnt. simpl in Hnt. apply NoDup_remove_2 in Hnt.
        apply Hnt. apply in_or_app. left. apply in_targets. eauto.
    - intros b. rewrite (apply_events_starts _ _ _ _ b Hap), <- Hnews. split.
      + intros [S|Hin]; [auto|]. right. apply in_app_iff in Hin. destruct Hin as [Hin|Hin].
        * destruct (Forall2_in_r _ _ _ _ F2 Hin) as (ab & _ & i & k & _ & _ & E). discriminate.
        * apply in_map_iff in Hin. destruct Hin as (b' & E & Hb'). inversion E; subst. exact Hb'.
      + intros [S|Hin]; [auto|]. right. apply in_or_app. right. apply in_map. exact Hin.
  Qed.
End DistanceTheorems.

Lemma cf_ext W R R' C :
  (forall a, In a R <-> In a R') ->
  forall uR uC L, closest_first W R C uR uC L -> closest_first W R' C uR uC L.
Proof.
  intros HR uR uC L H. induction H as [uR uC Hstop|uR uC a b q l Ha Hb Hua Hub Hw Hmin Hc IH].
  - apply cf_stop. intros a b Ha. apply Hstop. apply HR. exact Ha.
  - apply cf_step with (q := q); auto.
    + apply HR. exact Ha.
    + intros a' b' q' Ha'. apply Hmin. apply HR. exact Ha'.
Qed.

Lemma cut_some md d q : cut md d = Some q -> q = d /\ forall m, md = Some m -> (d <= m)%Q.
Proof.
  unfold cut. destruct md as [m|].
  - destruct (Qlt_b m d) eqn:E; [discriminate|]. intros H. inversion H. split; [reflexivity|].
    intros m' Hm. inversion Hm; subst. apply Qlt_b_false. exact E.
  - intros H. inversion H. split; [reflexivity|]. intros m Hm. discriminate.
Qed.

Lemma cut_none md d : cut md d = None -> exists m, md = Some m /\ (m < d)%Q.
Proof.
  unfold cut. destruct md as [m|]; [|discriminate].
  destruct (Qlt_b m d) eqn:E; [|discriminate]. intros _. exists m. split; [reflexivity|].
  apply Qlt_b_true. exact E.
Qed.

Section DistanceGlobal.
  Variable D : did -> did -> Q.
  Variable md : option Q.
  Notation W := (Wc D md).

  Lemma dist_step_global done t n trs trs' :
    Inv0 done trs ->
    step (MDistance D md) t (length done) n (alive_idx (last_time done) trs) trs = Ok trs' ->
    exists prev links,
      lasts trs (alive_idx (last_time done) trs) = Ok prev /\ NoDup prev /\
      closest_first W prev (frame_ids (length done) n) [] [] links /\
      (forall a b, linked trs' a b <-> linked trs a b \/ In (a, b) links) /\
      (forall b, starts trs' b <-> starts trs b \/ (In b (frame_ids (length done) n) /\ ~ In b (map snd links))).
  Proof.
    intros I H. simpl in H.
    apply (dist_step_spec D md t (length done) n _ trs trs' H (alive_idx_valid _ _) (alive_idx_nodup _ _)
                          (Inv0_nodup _ _ I)).
  Qed.

  (* linked droplets are never farther apart than the cut-off *)
  Theorem dist_links_within_cutoff frames trs :
    track_all (MDistance D md) frames = Ok trs ->
    forall a b, linked trs a b -> W a b = Some (D a b) /\ forall m, md = Some m -> (D a b <= m)%Q.
  Proof.
    intros H.
    set (P := fun (done : list frame) (trs : list track) =>
                Inv0 done trs /\ forall a b, linked trs a b -> exists q, W a b = Some q).
    assert (G : P frames trs).
    { apply (run_inv (MDistance D md) P frames); [| |exact H].
      - split; [split; [reflexivity|intros e []]|]. intros a b (tr & [] & _).
      - intros done t n rest trs0 trs' _ [I IH] Hs.
        destruct (Inv0_step _ done t n trs0 trs' I Hs) as (I' & _). split; [exact I'|].
        destruct (dist_step_global done t n trs0 trs' I Hs) as (prev & links & _ & _ & Hcf & Hl & _).
        intros a b L. apply Hl in L. destruct L as [L|L]; [auto|].
        apply (cf_in _ _ _ _ _ _ Hcf) in L. tauto. }
    destruct G as [_ G]. intros a b L. destruct (G a b L) as [q Hq]. unfold Wc in *.
    destruct (cut_some _ _ _ Hq) as [-> Hm]. auto.
  Qed.

  (* no track ends in a frame in which a new track starts within the cut-off of it *)
  Theorem dist_maximal frames trs :
    distinct_times frames -> track_all (MDistance D md) frames = Ok trs ->
    forall a b, ends trs a -> starts trs b -> fst a + 1 = fst b -> W a b = None.
  Proof.
    intros Hd H.
    set (P := fun (done : list frame) (trs : list track) =>
                Inv1 done trs /\
                forall a b, (forall b', ~ linked trs a b') -> In a (all_ids done) -> starts trs b ->
                            fst b < length done -> fst a + 1 = fst b -> W a b = None).
    assert (G : P frames trs).
    { apply (run_inv (MDistance D md) P frames); [| |exact H].
      - split; [split; [split; [reflexivity|intros e []]|intros tr []]|]. intros a b _ [].
      - intros done t n rest trs0 trs' Hfr [I1 IH] Hs.
        assert (I1' : Inv1 (done ++ [(t, n)]) trs') by (eapply (Inv1_step (MDistance D md)); simpl; eauto).
        split; [exact I1'|]. destruct I1 as [I0 Hc].
        intros a b Hns Ha Hst Hfb Hab. rewrite app_length in Hfb. simpl in Hfb.
        assert (Hns0 : forall b', ~ linked trs0 a b').
        { intros b' L. apply (Hns b'). eapply step_linked_mono; eauto. }
        destruct (step_starts _ done t n trs0 trs' b I0 Hs) as [_ Hst'].
        destruct (Nat.eq_dec (fst b) (length done)) as [E|Hne].
        + (* b is a droplet of the frame processed now *)
          destruct (dist_step_global done t n trs0 trs' I0 Hs) as (prev & links & Hl & Hnp & Hcf & Hlk & Hstt).
          assert (Ha0 : In a (all_ids done)).
          { rewrite all_ids_snoc in Ha. apply in_app_iff in Ha. destruct Ha as [Ha|Ha]; [exact Ha|].
            apply in_frame_ids in Ha. (unfold frame in *; lia). }
          apply in_all_ids in Ha0. destruct Ha0 as (t0 & n0 & Hn0 & Hj0).
          assert (Hfa : fst a = length done - 1) by (unfold frame in *; lia). rewrite Hfa in Hn0.
          assert (Hdd : distinct_times done) by (subst frames; eapply distinct_times_prefix; eauto).
          destruct (last_frame_alive done trs0 t0 n0 a (conj I0 Hc) Hn0) as (k & tr & Hk & Hn & Hlast).
          { apply in_frame_ids. split; [exact Hfa|exact Hj0]. }
          assert (Hap : In a prev).
          { destruct (Forall2_in_l _ _ _ _ (lasts_spec _ _ _ Hl) Hk) as (a' & Ha' & tr' & Hn' & Hl').
            rewrite Hn in Hn'. inversion Hn'; subst tr'. congruence. }
          apply Hstt in Hst. destruct Hst as [Hst|[Hbf Hbn]].
          * exfalso. destruct Hst as (tr' & Htr' & l & El).
            assert (Hb : In b (all_ids_of trs0)) by (eapply in_ids_all; [exact Htr'|rewrite El; left; reflexivity]).
            destruct I0 as [Hp _]. apply (Permutation_in _ Hp) in Hb. apply in_all_ids_lt in Hb. (unfold frame in *; lia).
          * apply (cf_maximal _ _ _ _ _ _ Hcf a b Hap Hbf); auto.
            intros Hin. apply in_map_iff in Hin. destruct Hin as ([a' b'] & Ea & Hin). simpl in Ea. subst a'.
            apply (Hns b'). apply Hlk. right. exact Hin.
        + apply IH; auto.
          * rewrite all_ids_snoc in Ha. apply in_app_iff in Ha. destruct Ha as [Ha|Ha]; [exact Ha|].
            apply in_frame_ids in Ha. (unfold frame in *; lia).
          * destruct (Hst' Hst) as [S|S]; [exact S|(unfold frame in *; lia)].
          * (unfold frame in *; lia). }
    destruct G as [[I0 _] G]. intros a b He Hs Hab.
    assert (Hn := Inv0_nodup _ _ I0). destruct I0 as [Hp _].
    apply G; auto.
    - intros b'. apply ends_no_succ; assumption.
    - destruct He as (tr & Htr & <-). apply (Permutation_in _ Hp). eapply in_ids_all; [exact Htr|apply t_last_in_ids].
    - destruct Hs as (tr & Htr & l & El). apply in_all_ids_lt. apply (Permutation_in _ Hp).
      eapply in_ids_all; [exact Htr|rewrite El; left; reflexivity].
  Qed.

  (* the links into frame S f are those of "repeatedly join the closest remaining pair" between the
     droplets of frame f and those of frame S f *)
  Theorem dist_greedy_exists frames trs f t0 n0 t1 n1 :
    distinct_times frames -> track_all (MDistance D md) frames = Ok trs ->
    nth_error frames f = Some (t0, n0) -> nth_error frames (S f) = Some (t1, n1) ->
    exists L, closest_first W (frame_ids f n0) (frame_ids (S f) n1) [] [] L /\
              forall a b, fst b = S f -> (linked trs a b <-> In (a, b) L).
  Proof.
    intros Hd H Hf0 Hf1.
    set (P := fun (done : list frame) (trs : list track) =>
                Inv1 done trs /\
                (S f < length done ->
                 exists L, closest_first W (frame_ids f n0) (frame_ids (S f) n1) [] [] L /\
                           forall a b, fst b = S f -> (linked trs a b <-> In (a, b) L))).
    assert (G : P frames trs).
    { apply (run_inv (MDistance D md) P frames); [| |exact H].
      - split; [split; [split; [reflexivity|intros e []]|intros tr []]|]. simpl. (unfold frame in *; lia).
      - intros done t n rest trs0 trs' Hfr [I1 IH] Hs.
        assert (I1' : Inv1 (done ++ [(t, n)]) trs') by (eapply (Inv1_step (MDistance D md)); simpl; eauto).
        split; [exact I1'|]. rewrite app_length. simpl. intros Hlen.
        destruct I1 as [I0 Hc].
        destruct (Nat.eq_dec (length done) (S f)) as [E|Hne].
        + assert (Etn : (t, n) = (t1, n1)).
          { rewrite Hfr, <- E, nth_error_mid in Hf1. inversion Hf1. reflexivity. }
          inversion Etn; subst t n. clear Etn.
          assert (Hdf : nth_error done (length done - 1) = Some (t0, n0)).
          { rewrite Hfr in Hf0. unfold frame in *. rewrite nth_error_app1 in Hf0 by (unfold frame in *; lia).
            replace (length done - 1) with f by (unfold frame in *; lia). exact Hf0. }
          assert (Hdd : distinct_times done) by (subst frames; eapply distinct_times_prefix; eauto).
          destruct (dist_step_global done t1 n1 trs0 trs' I0 Hs) as (prev & links & Hl & Hnp & Hcf & Hlk & _).
          assert (Hfe : f = length done - 1) by (unfold frame in *; lia).
          exists links. split.
          * unfold frame in *. rewrite E in Hcf. apply (cf_ext _ prev); [|exact Hcf]. intros a. split.
            -- intros Ha. destruct (Forall2_in_r _ _ _ _ (lasts_spec _ _ _ Hl) Ha) as (k & Hk & tr & Hn & <-).
               rewrite Hfe. eapply alive_last_in_frame; eauto.
            -- intros Ha. rewrite Hfe in Ha.
               destruct (last_frame_alive done trs0 t0 n0 a (conj I0 Hc) Hdf Ha) as (k & tr & Hk & Hn & Hlast).
               destruct (Forall2_in_l _ _ _ _ (lasts_spec _ _ _ Hl) Hk) as (a' & Ha' & tr' & Hn' & Hl').
               rewrite Hn in Hn'. inversion Hn'; subst tr'. congruence.
          * intros a b Hfb. rewrite Hlk. split; [|auto]. intros [L|L]; [|exact L]. exfalso.
            apply (linked_lt done trs0 a b I0) in L. unfold frame in *. lia.
        + assert (Hgt : S f < length done) by (unfold frame in *; lia).
          destruct (IH Hgt) as (L & HL1 & HL2). exists L. split; [exact HL1|].
          intros a b Hfb. rewrite <- (HL2 a b Hfb). split.
          * intros Lk. destruct (step_new_links _ _ _ _ _ _ a b I0 Hs Lk) as [L'|Hx]; [exact L'|unfold frame in *; lia].
          * intros Lk. eapply step_linked_mono; eauto. }
    destruct G as [_ G]. apply G. apply nth_error_Some. congruence.
  Qed.

  (* ... and with pairwise different finite distances that matching is unique *)
  Theorem dist_greedy_spec frames trs f t0 n0 t1 n1 :
    distinct_times frames -> track_all (MDistance D md) frames = Ok trs ->
    nth_error frames f = Some (t0, n0) -> nth_error frames (S f) = Some (t1, n1) ->
    distinct_weights W (frame_ids f n0) (frame_ids (S f) n1) ->
    forall L, closest_first W (frame_ids f n0) (frame_ids (S f) n1) [] [] L ->
              forall a b, fst b = S f -> (linked trs a b <-> In (a, b) L).
  Proof.
    intros Hd H Hf0 Hf1 Hdw L HL.
    destruct (dist_greedy_exists frames trs f t0 n0 t1 n1 Hd H Hf0 Hf1) as (L' & HL' & Hlk).
    rewrite (cf_functional _ _ _ Hdw _ _ _ HL _ HL'). exact Hlk.
  Qed.
End DistanceGlobal.

(* ------------------------------------------------------------------------------------------ *)
(* statements as used in Properties/C07.v                                                      *)
(* ------------------------------------------------------------------------------------------ *)
Lemma sorted_distinct frames : StronglySorted Qlt (map fst frames) -> distinct_times frames.
Proof. intros H. apply increasing_distinct, sorted_increasing. exact H. Qed.

Lemma c07_ov_consecutive_overlap : forall ov frames trs,
  track_all (MOverlap ov) frames = Ok trs -> forall a b, linked trs a b -> ov a b = true.
Proof. exact ov_consecutive_overlap. Qed.

Lemma c07_ov_new_if_no_overlap : forall ov frames trs,
  StronglySorted Qlt (map fst frames) -> track_all (MOverlap ov) frames = Ok trs ->
  forall b, In b (all_ids frames) ->
    (forall a, In a (all_ids frames) -> fst a + 1 = fst b -> ov a b = false) ->
    (forall j0, j0 < snd b -> ov (fst b, j0) b = false) ->
    starts trs b.
Proof.
  intros ov frames trs Hs H b Hb H1 H2.
  apply (ov_new_if_no_overlap ov frames trs (sorted_distinct _ Hs) H b Hb). split; assumption.
Qed.

Lemma c07_ov_follows_bijection : forall ov frames trs f t0 n0 t1 n1,
  StronglySorted Qlt (map fst frames) -> inframe_ok ov frames ->
  track_all (MOverlap ov) frames = Ok trs ->
  nth_error frames f = Some (t0, n0) -> nth_error frames (S f) = Some (t1, n1) ->
  one_to_one ov (frame_ids f n0) (frame_ids (S f) n1) ->
  forall a b, fst b = S f ->
              (linked trs a b <-> In a (frame_ids f n0) /\ In b (frame_ids (S f) n1) /\ ov a b = true).
Proof.
  intros ov frames trs f t0 n0 t1 n1 Hs. apply ov_follows_bijection. apply sorted_distinct. exact Hs.
Qed.

Lemma c07_dist_links_within_cutoff : forall D md frames trs,
  track_all (MDistance D md) frames = Ok trs ->
  forall a b, linked trs a b -> Wc D md a b = Some (D a b) /\ forall m, md = Some m -> (D a b <= m)%Q.
Proof. exact dist_links_within_cutoff. Qed.

Lemma c07_dist_maximal : forall D md frames trs,
  StronglySorted Qlt (map fst frames) -> track_all (MDistance D md) frames = Ok trs ->
  forall a b, ends trs a -> starts trs b -> fst a + 1 = fst b ->
              exists m, md = Some m /\ (m < D a b)%Q.
Proof.
  intros D md frames trs Hs H a b He Hst Hab. apply cut_none.
  apply (dist_maximal D md frames trs (sorted_distinct _ Hs) H a b He Hst Hab).
Qed.

Lemma c07_dist_greedy_exists : forall D md frames trs f t0 n0 t1 n1,
  StronglySorted Qlt (map fst frames) -> track_all (MDistance D md) frames = Ok trs ->
  nth_error frames f = Some (t0, n0) -> nth_error frames (S f) = Some (t1, n1) ->
  exists L, closest_first (Wc D md) (frame_ids f n0) (frame_ids (S f) n1) [] [] L /\
            forall a b, fst b = S f -> (linked trs a b <-> In (a, b) L).
Proof.
  intros D md frames trs f t0 n0 t1 n1 Hs. apply dist_greedy_exists. apply sorted_distinct. exact Hs.
Qed.

Lemma c07_dist_greedy_spec : forall D md frames trs f t0 n0 t1 n1,
  StronglySorted Qlt (map fst frames) -> track_all (MDistance D md) frames = Ok trs ->
  nth_error frames f = Some (t0, n0) -> nth_error frames (S f) = Some (t1, n1) ->
  distinct_weights (Wc D md) (frame_ids f n0) (frame_ids (S f) n1) ->
  forall L, closest_first (Wc D md) (frame_ids f n0) (frame_ids (S f) n1) [] [] L ->
            forall a b, fst b = S f -> (linked trs a b <-> In (a, b) L).
Proof.
  intros D md frames trs f t0 n0 t1 n1 Hs. apply dist_greedy_spec. apply sorted_distinct. exact Hs.
Qed.

(* ---- a concrete instance: two frames with two droplets each that swap places ---- *)
Definition ex7_frames : list frame := [(0%Q, 2); (1%Q, 2)].
Definition ex7_ov (a b : did) : bool :=
  (did_eqb a (0, 0) && did_eqb b (1, 1)) || (did_eqb a (0, 1) && did_eqb b (1, 0)).
(* distances 1, 2, 3, 4: all different; cut-off 4 *)
Definition ex7_D (a b : did) : Q := inject_Z (Z.of_nat (1 + 2 * snd a + snd b)).

Lemma ex7_sorted : StronglySorted Qlt (map fst ex7_frames).
Proof. simpl. repeat (constructor; [|repeat (constructor; try reflexivity)]). constructor. Qed.

Lemma ex7_inframe : inframe_ok ex7_ov ex7_frames.
Proof.
  intros f t n j0 j Hn Hlt Hj. destruct f as [|[|f]]; simpl in Hn; [| |destruct f; discriminate];
    inversion Hn; subst; assert (j = 1) by lia; assert (j0 = 0) by lia; subst; reflexivity.
Qed.

Lemma in_frame_ids_2 f d : In d (frame_ids f 2) -> d = (f, 0) \/ d = (f, 1).
Proof. simpl. intros [<-|[<-|[]]]; auto. Qed.

Lemma ex7_one_to_one : one_to_one ex7_ov (frame_ids 0 2) (frame_ids 1 2).
Proof.
  split.
  - intros a b b' Ha Hb Hb'. apply in_frame_ids_2 in Ha, Hb, Hb'.
    destruct Ha as [-> | ->], Hb as [-> | ->], Hb' as [-> | ->]; vm_compute; intros; congruence.
  - intros a a' b Ha Ha' Hb. apply in_frame_ids_2 in Ha, Ha', Hb.
    destruct Ha as [-> | ->], Ha' as [-> | ->], Hb as [-> | ->]; vm_compute; intros; congruence.
Qed.

Lemma ex7_ov_result :
  track_all (MOverlap ex7_ov) ex7_frames
  = Ok [([(0%Q, (0, 0))], (1%Q, (1, 1))); ([(0%Q, (0, 1))], (1%Q, (1, 0)))].
Proof. vm_compute. reflexivity. Qed.

Lemma ex7_distinct : distinct_weights (Wc ex7_D (Some 4%Q)) (frame_ids 0 2) (frame_ids 1 2).
Proof.
  intros a b a' b' q q' Ha Hb Ha' Hb'. apply in_frame_ids_2 in Ha, Hb, Ha', Hb'.
  destruct Ha as [-> | ->], Hb as [-> | ->], Ha' as [-> | ->], Hb' as [-> | ->];
    vm_compute; intros H1 H2 H3; try discriminate; inversion H1; inversion H2; subst;
    try (split; reflexivity); try discriminate H3.
Qed.

Lemma ex7_dist_result :
  track_all (MDistance ex7_D (Some 4%Q)) ex7_frames
  = Ok [([(0%Q, (0, 0))], (1%Q, (1, 0))); ([(0%Q, (0, 1))], (1%Q, (1, 1)))].
Proof. vm_compute. reflexivity. Qed.
