From PD Require Import Model.Tracking.
Lemma stub_C07 : True. Proof. exact I. Qed.
