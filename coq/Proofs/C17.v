(* C17 -- length scales are physical lengths.
   Models of the three methods of get_length_scale, composed from the generated lines
   (Gen_spectrum: ls_mean, ls_mean_flags, ls_peak, ls_peak_flags, ls_peak_bracket, ls_peak_windows,
   ls_peak_est_offset, ls_default_smoothing, ls_volume, ls_volume_per_droplet, ls_count) and the C16
   model of get_structure_factor. *)
From Coq Require Import Reals Lra List ZArith Lia Bool Permutation Arith.
Import ListNotations.
From PD Require Import Model.Num Model.Spectrum Gen.Gen_spectrum
  Proofs.SpectrumLists Proofs.SpectrumSF Proofs.SpectrumSmooth Proofs.SpectrumPeak Proofs.SpectrumDFT4 Proofs.C16.
Local Open Scope R_scope.

(* ================================================================== helpers *)
Lemma map_Rmult_scale_by s l : s <> 0 -> map (Rmult s) l = scale_by (/ s) l.
Proof. intros Hs. unfold scale_by. apply map_ext. intros a. unfold Rdiv. rewrite Rinv_inv. ring. Qed.

Lemma list_max_mult s l : 0 < s -> list_max (map (Rmult s) l) = s * list_max l.
Proof.
  intros Hs. rewrite map_Rmult_scale_by by lra.
  rewrite list_max_scale by (apply Rinv_0_lt_compat; exact Hs). unfold Rdiv. rewrite Rinv_inv. ring.
Qed.

Lemma size_max_scale s shape h : 0 < s -> size_max shape (map (Rmult s) h) = s * size_max shape h.
Proof. intros Hs. unfold size_max. rewrite extents_scale. apply list_max_mult. exact Hs. Qed.

Lemma zip_mul_scale s a b : rsum (zip_mul (scale_by s a) b) = rsum (zip_mul a b) / s.
Proof.
  revert b. induction a as [|u a IH]; intros b; [unfold rsum, Rdiv; simpl; ring|].
  destruct b as [|v b]; [unfold rsum, Rdiv; simpl; ring|].
  cbn [scale_by map zip_mul]. rewrite !rsum_cons. fold (scale_by s a). rewrite IH. unfold Rdiv. ring.
Qed.

(* ================================================================== structure_factor_mean *)
(* k_mag, sf = get_structure_factor(scalar_field);  2 pi sum(sf) / sum(k_mag * sf).
   The keyword defaults of the call are the generated ls_mean_flags; smoothing / wave_numbers are not
   passed (placeholders 0 and [] are unused under these flags). *)
Definition ls_mean_of (r : list R * list R) : R := ls_mean (rsum (snd r)) (rsum (zip_mul (fst r) (snd r))).

Definition ls_mean_model (F : dft_oracle) (shape : list nat) (h : list R) (x : field) : R :=
  let '(on, au, nw, az) := ls_mean_flags in
  ls_mean_of (gsf_model F shape h x on au nw az 0 []).

Lemma ls_mean_of_scaling s kq sfq : ls_mean_of (scale_by s kq, sfq) = s * ls_mean_of (kq, sfq).
Proof.
  unfold ls_mean_of, ls_mean. cbn [fst snd]. rewrite zip_mul_scale. unfold Rdiv.
  rewrite Rinv_mult, Rinv_inv. ring.
Qed.

Lemma gsf_model_scaling F shape h x on au nw az sm wn s : 0 < s ->
  Forall (fun n => (0 < n)%nat) shape -> Forall (fun hi => hi <> 0) h ->
  gsf_model F shape (map (Rmult s) h) x on au nw az (sm / s) (scale_by s wn) =
  (scale_by s (fst (gsf_model F shape h x on au nw az sm wn)), snd (gsf_model F shape h x on au nw az sm wn)).
Proof.
  intros Hs Hsh Hh. unfold gsf_model. rewrite size_max_scale, k_list_scaling by assumption.
  apply gsf_tail_scaling. exact Hs.
Qed.

Lemma gsf_model_scaling0 F shape h x on au nw az s : 0 < s ->
  Forall (fun n => (0 < n)%nat) shape -> Forall (fun hi => hi <> 0) h ->
  gsf_model F shape (map (Rmult s) h) x on au nw az 0 [] =
  (scale_by s (fst (gsf_model F shape h x on au nw az 0 [])), snd (gsf_model F shape h x on au nw az 0 [])).
Proof.
  intros Hs Hsh Hh. rewrite <- (gsf_model_scaling F shape h x on au nw az 0 [] s) by assumption.
  f_equal. unfold Rdiv. ring.
Qed.

Lemma ls_mean_covariant F shape h x s : 0 < s ->
  Forall (fun n => (0 < n)%nat) shape -> Forall (fun hi => hi <> 0) h ->
  ls_mean_model F shape (map (Rmult s) h) x = s * ls_mean_model F shape h x.
Proof.
  intros Hs Hsh Hh. unfold ls_mean_model. destruct ls_mean_flags as [[[on au] nw] az].
  rewrite gsf_model_scaling0 by assumption. apply ls_mean_of_scaling.
Qed.

Section FieldInvariance.
  Variable dom : list nat -> Prop.
  Variable F : dft_oracle.
  Hypothesis HF : dft_spec dom F.

  Lemma ls_mean_field_inv shape h x : dom shape -> sumsq shape x <> 0 ->
    (forall c, c <> 0 -> ls_mean_model F shape h (fun n => c * x n) = ls_mean_model F shape h x) /\
    (forall s, ls_mean_model F shape h (fun n => x (shift_idx shape s n)) = ls_mean_model F shape h x).
  Proof.
    intros Hd Hs. unfold ls_mean_model, gsf_model. split.
    - intros c Hc. rewrite (sf_list_scale_inv dom F HF) by assumption. reflexivity.
    - intros s. rewrite (sf_list_shift_inv dom F HF) by assumption. reflexivity.
  Qed.
End FieldInvariance.

(* ================================================================== structure_factor_maximum *)
Section Peak.
  Variable mini : minimizer.     (* scipy.optimize.minimize_scalar(f, bracket=...): Some result.x / None = raised *)

  (* for window_size in ls_peak_windows: try minimize -sf_smooth from the bracket; the first call that
     does not raise gives 2 pi / result.x; if all raise the result is nan (None) *)
  Fixpoint peak_loop (f : R -> R) (max_est : R) (ws : list R) : option R :=
    match ws with
    | [] => None
    | w :: ws' =>
        match mini (fun x => - f x) (ls_peak_bracket max_est w) with
        | Some x => Some (ls_peak x)
        | None => peak_loop f max_est ws'
        end
    end.

  (* max_est = k_mag[o + argmax(sf[o:])];  sf_smooth = SmoothData1D(k_mag, sf, sigma) *)
  Definition ls_peak_from (sigma : R) (ks sfs : list R) : option R :=
    match argmax_pair (skipn ls_peak_est_offset (combine ks sfs)) with
    | None => None
    | Some est => peak_loop (nw_smooth sigma ks sfs) (fst est) ls_peak_windows
    end.

  Definition ls_peak_model (F : dft_oracle) (shape : list nat) (h : list R) (x : field) (sigma : R) : option R :=
    let '(on, au, nw, az) := ls_peak_flags in
    let r := gsf_model F shape h x on au nw az 0 [] in
    ls_peak_from sigma (fst r) (snd r).

  Hypothesis Hmini : minimizer_covariant mini.

  Lemma ls_peak_scaling x s : ls_peak (x / s) = s * ls_peak x.
  Proof. unfold ls_peak, Rdiv. rewrite Rinv_mult, Rinv_inv. ring. Qed.

  Lemma bracket_scaling e w s :
    ls_peak_bracket (e / s) w =
    (fst (fst (ls_peak_bracket e w)) / s, snd (fst (ls_peak_bracket e w)) / s, snd (ls_peak_bracket e w) / s).
  Proof. unfold ls_peak_bracket. cbn [fst snd]. f_equal; [f_equal|]; unfold Rdiv; ring. Qed.

  Lemma peak_loop_scaling sigma ks sfs e ws s : 0 < s ->
    peak_loop (nw_smooth (sigma / s) (scale_by s ks) sfs) (e / s) ws =
    option_map (Rmult s) (peak_loop (nw_smooth sigma ks sfs) e ws).
  Proof.
    intros Hs. induction ws as [|w ws IH]; [reflexivity|]. cbn [peak_loop].
    rewrite bracket_scaling. destruct (ls_peak_bracket e w) as [[a b] c]. cbn [fst snd].
    rewrite (Hmini (fun x => - nw_smooth sigma ks sfs x)
               (fun x => - nw_smooth (sigma / s) (scale_by s ks) sfs x) a b c s Hs)
      by (intros q; rewrite smooth_covariant_arg by lra; reflexivity).
    destruct (mini (fun x => - nw_smooth sigma ks sfs x) (a, b, c)) as [r|]; cbn [option_map].
    - rewrite ls_peak_scaling. reflexivity.
    - exact IH.
  Qed.

  Lemma argmax_from_scaling s best l :
    argmax_from (fst best / s, snd best) (map (fun p => (fst p / s, snd p)) l) =
    (fst (argmax_from best l) / s, snd (argmax_from best l)).
  Proof.
    revert best. induction l as [|p l IH]; intros best; [reflexivity|]. cbn [map argmax_from snd].
    destruct (Rlt_dec (snd best) (snd p)); apply IH.
  Qed.

  Lemma ls_peak_from_scaling sigma ks sfs s : 0 < s ->
    ls_peak_from (sigma / s) (scale_by s ks) sfs = option_map (Rmult s) (ls_peak_from sigma ks sfs).
  Proof.
    intros Hs. unfold ls_peak_from.
    assert (Hc : combine (scale_by s ks) sfs = map (fun p => (fst p / s, snd p)) (combine ks sfs)).
    { revert sfs. induction ks as [|k ks IH]; intros sfs; [reflexivity|].
      destruct sfs as [|v sfs]; [reflexivity|]. cbn [scale_by map combine fst snd].
      fold (scale_by s ks). rewrite IH. reflexivity. }
    rewrite Hc, skipn_map.
    destruct (skipn ls_peak_est_offset (combine ks sfs)) as [|p l]; [reflexivity|].
    cbn [map argmax_pair]. rewrite (argmax_from_scaling s p l). cbn [fst].
    apply peak_loop_scaling. exact Hs.
  Qed.

  (* covariance of the peak method REQUIRES the smoothing width to scale like a wave number *)
  Lemma ls_peak_covariant F shape h x sigma s : 0 < s ->
    Forall (fun n => (0 < n)%nat) shape -> Forall (fun hi => hi <> 0) h ->
    ls_peak_model F shape (map (Rmult s) h) x (sigma / s) =
    option_map (Rmult s) (ls_peak_model F shape h x sigma).
  Proof.
    intros Hs Hsh Hh. unfold ls_peak_model. destruct ls_peak_flags as [[[on au] nw] az]. cbv zeta.
    rewrite gsf_model_scaling0 by assumption. cbn [fst snd].
    apply ls_peak_from_scaling. exact Hs.
  Qed.

  Lemma ls_peak_field_inv dom F (HF : dft_spec dom F) shape h x sigma : dom shape -> sumsq shape x <> 0 ->
    (forall c, c <> 0 -> ls_peak_model F shape h (fun n => c * x n) sigma = ls_peak_model F shape h x sigma) /\
    (forall s, ls_peak_model F shape h (fun n => x (shift_idx shape s n)) sigma = ls_peak_model F shape h x sigma).
  Proof.
    intros Hd Hs. unfold ls_peak_model, gsf_model. split.
    - intros c Hc. rewrite (sf_list_scale_inv dom F HF) by assumption. reflexivity.
    - intros s. rewrite (sf_list_shift_inv dom F HF) by assumption. reflexivity.
  Qed.
End Peak.

(* the default width is a LENGTH: under h |-> s h it is multiplied by s, whereas ls_peak_covariant
   needs it divided by s -- the premise of covariance fails for every s <> 1 (finding F7) *)
Lemma default_smoothing_scales_like_length td s :
  ls_default_smoothing (s * td) = s * ls_default_smoothing td.
Proof. unfold ls_default_smoothing. ring. Qed.

Lemma default_smoothing_not_covariant td s : 0 < td -> 0 < s -> s <> 1 ->
  ls_default_smoothing (s * td) <> ls_default_smoothing td / s.
Proof.
  intros Htd Hs Hne.
  (* the generated line is linear in the spacing with a positive coefficient c = ls_default_smoothing 1 *)
  assert (Hlin : forall u, ls_default_smoothing u = ls_default_smoothing 1 * u) by (intros u; unfold ls_default_smoothing; ring).
  assert (Hc : 0 < ls_default_smoothing 1) by (unfold ls_default_smoothing; lra).
  rewrite (Hlin (s * td)), (Hlin td). generalize dependent (ls_default_smoothing 1). intros c _ Hc E.
  assert (E2 : c * td * (s * s) = c * td).
  { apply (f_equal (fun v => v * s)) in E. unfold Rdiv in E.
    replace (c * td * / s * s) with (c * td) in E by (field; lra). lra. }
  assert (Hp : 0 < c * td) by (apply Rmult_lt_0_compat; assumption).
  assert (E3 : s * s = 1) by nra. apply Hne. nra.
Qed.

(* ================================================================== plane waves and the peak method *)
(* The peak search starts at max_est = k_mag[o + argmax(sf[o:])] of the arrays returned with add_zero, i.e. at the
   argmax over the (k, sf) pairs of the unsmoothed structure factor, and smooths the arrays (0 :: k, 1 :: sf). *)
Lemma ls_peak_model_start mini F shape h x sigma :
  ls_peak_model mini F shape h x sigma =
  match argmax_pair (sf_pairs F shape h x) with
  | None => None
  | Some est => peak_loop mini (nw_smooth sigma (0 :: k_list shape h) (1 :: sf_list F shape x)) (fst est) ls_peak_windows
  end.
Proof.
  unfold ls_peak_model, ls_peak_flags, gsf_model. rewrite add_zero_prepends, unsmoothed_returns_raw.
  reflexivity.
Qed.

Lemma ls_peak_windows_bounded : Forall (fun w => / 5 <= w <= 5) ls_peak_windows.
Proof. unfold ls_peak_windows. repeat constructor; lra. Qed.

(* whatever the minimiser does inside its bracket, the reported wave number is within the widest bracket *)
Lemma peak_loop_in_bracket mini f e ws : minimizer_in_bracket mini -> 0 < e ->
  Forall (fun w => / 5 <= w <= 5) ws ->
  forall L, peak_loop mini f e ws = Some L -> exists xk, L = ls_peak xk /\ e / 5 <= xk <= 5 * e.
Proof.
  intros Hm He Hws. induction Hws as [|w ws [Hw1 Hw2] _ IH]; intros L HL; [discriminate|].
  cbn [peak_loop] in HL. destruct (mini (fun x => - f x) (ls_peak_bracket e w)) as [r|] eqn:E; [|apply IH; exact HL].
  injection HL as <-. exists r. split; [reflexivity|].
  assert (H1 : fst (fst (ls_peak_bracket e w)) = e * / w) by (unfold ls_peak_bracket, Rdiv; cbn [fst snd]; ring).
  assert (H3 : snd (ls_peak_bracket e w) = e * w) by (unfold ls_peak_bracket, Rdiv; cbn [fst snd]; ring).
  destruct (ls_peak_bracket e w) as [[a b] c]. cbn [fst snd] in H1, H3. subst a c. apply Hm in E.
  assert (Hw0 : 0 < w) by lra.
  assert (Hi1 : / w <= 5) by (rewrite <- (Rinv_inv 5); apply Rinv_le_contravar; lra).
  assert (Hi2 : / 5 <= / w) by (apply Rinv_le_contravar; lra).
  assert (Hi0 : 0 < / w) by (apply Rinv_0_lt_compat; exact Hw0).
  unfold Rdiv in *. revert E. unfold Rmin, Rmax. destruct (Rle_dec (e * / w) (e * w)); intros [E1 E2]; split; nra.
Qed.

Section PlaneWavePeak.
  Variable mini : minimizer.
  Variable dom : list nat -> Prop.
  Variable F : dft_oracle.
  Hypothesis Hmini : minimizer_in_bracket mini.
  Hypothesis HF : dft_spec dom F.
  Hypothesis HC : dft_cosine dom F.

  (* For x_m = A cos(2 pi q m / N + phi) + c with 1 <= q, 4 q <= N, A <> 0 on N cells of ANY spacing h > 0:
     (1) the starting estimate of the peak search is the true wave number 2 pi q / (N h) exactly -- a theorem, and the
         reason why the method can be covariant at all;
     (2) if a value is returned it is 2 pi / xk with xk in [k_true / 5, 5 k_true] (the widest generated bracket), relative
         to the premise that the scalar minimiser stays inside its bracket; None is the implementation's nan.
     NOT carried by a theorem: that the minimiser does not raise (the bracket must satisfy f(b) < f(a), f(c) for the
     smoothed curve including the prepended pair (0, 1)) and that the local maximum of the smoothed curve it converges
     to stays within half a Fourier bin 2 pi / (N h) / 2 of k_true.  Both depend on the smoothing width in units of the
     bin and, for the default width, on exp underflow (DESIGN 5.17); they are the per-sample check of props/C17.py
     (finite and within half a bin for unit-consistent widths whenever the bracket of the smoothed model curve is valid;
     default width: known finding F7). *)
  Lemma plane_wave_peak_bin N q A phi c h sigma :
    dom [N] -> (1 <= q)%nat -> (4 * q <= N)%nat -> A <> 0 -> 0 < h ->
    (exists p, argmax_pair (sf_pairs F [N] [h] (cosine_field N q A phi c)) = Some p /\
               fst p = 2 * PI * INR q / (INR N * h)) /\
    (forall L, ls_peak_model mini F [N] [h] (cosine_field N q A phi c) sigma = Some L ->
       exists xk, L = ls_peak xk /\
                  2 * PI * INR q / (INR N * h) / 5 <= xk <= 5 * (2 * PI * INR q / (INR N * h))).
  Proof.
    intros Hd Hq1 Hq4 HA Hh.
    destruct (plane_wave_max_est dom F HF HC N q A phi c Hd Hq1 Hq4 HA h Hh) as [p [Ep Ek]].
    split; [exists p; split; assumption|].
    intros L HL. rewrite ls_peak_model_start, Ep, Ek in HL.
    apply (peak_loop_in_bracket mini _ _ ls_peak_windows Hmini) in HL; [exact HL| |apply ls_peak_windows_bounded].
    assert (0 < INR q) by (apply lt_0_INR; lia). assert (0 < INR N) by (apply lt_0_INR; lia).
    pose proof PI_RGT_0. apply Rdiv_lt_0_compat; [nra|]. apply Rmult_lt_0_compat; assumption.
  Qed.

  (* the starting estimate is covariant: stretching the grid by s divides it by s *)
  Lemma plane_wave_start_covariant N q A phi c h s :
    dom [N] -> (1 <= q)%nat -> (4 * q <= N)%nat -> A <> 0 -> 0 < h -> 0 < s ->
    exists p p', argmax_pair (sf_pairs F [N] [h] (cosine_field N q A phi c)) = Some p /\
                 argmax_pair (sf_pairs F [N] [s * h] (cosine_field N q A phi c)) = Some p' /\
                 fst p' = fst p / s.
  Proof.
    intros Hd Hq1 Hq4 HA Hh Hs.
    destruct (plane_wave_max_est dom F HF HC N q A phi c Hd Hq1 Hq4 HA h Hh) as [p [Ep Ek]].
    destruct (plane_wave_max_est dom F HF HC N q A phi c Hd Hq1 Hq4 HA (s * h) ltac:(nra)) as [p' [Ep' Ek']].
    exists p, p'. repeat split; try assumption. rewrite Ek, Ek'.
    assert (INR N <> 0) by (apply not_0_INR; lia). field. repeat split; lra.
  Qed.
End PlaneWavePeak.

(* both spectral length scales are 2 pi over a wave number (the docstring's convention) *)
Lemma ls_is_inverse_wave_number :
  (forall x, x <> 0 -> ls_peak x * x = 2 * PI) /\
  (forall S K, S <> 0 -> K <> 0 -> ls_mean S K * (K / S) = 2 * PI).
Proof. unfold ls_peak, ls_mean. split; intros; field; auto. Qed.

(* ================================================================== droplet_detection *)
Definition prod_extents (bounds : list (R * R)) : R :=
  fold_right (fun b p => (snd b - fst b) * p) 1 bounds.

Definition ls_count_model (bounds : list (R * R)) (n_droplets grid_dim : nat) : R :=
  ls_count (ls_volume_per_droplet (ls_volume bounds) (INR n_droplets)) (length bounds) grid_dim.

Definition scale_bounds (s : R) (bounds : list (R * R)) : list (R * R) :=
  map (fun b => (s * fst b, s * snd b)) bounds.

Lemma ls_volume_is_product bounds : ls_volume bounds = prod_extents bounds.
Proof.
  unfold ls_volume, prod_extents.
  assert (H : forall a, fold_left (fun volume b => volume * (snd b - fst b)) bounds a =
                        a * fold_right (fun b p => (snd b - fst b) * p) 1 bounds).
  { induction bounds as [|b bounds IH]; intros a; simpl; [ring|rewrite IH; ring]. }
  rewrite H. ring.
Qed.

Lemma prod_extents_pos bounds : Forall (fun b => fst b < snd b) bounds -> 0 < prod_extents bounds.
Proof.
  induction 1 as [|b bounds Hb _ IH]; simpl; [lra|]. apply Rmult_lt_0_compat; lra.
Qed.

Lemma prod_extents_scale s bounds :
  prod_extents (scale_bounds s bounds) = s ^ length bounds * prod_extents bounds.
Proof. induction bounds as [|b bounds IH]; simpl; [ring|rewrite IH; ring]. Qed.

Lemma pow_lt_strict a b d : 0 <= a -> a < b -> (0 < d)%nat -> a ^ d < b ^ d.
Proof.
  intros Ha Hab Hd. induction d as [|d IH]; [lia|]. destruct d as [|d].
  - simpl. lra.
  - assert (H : a ^ S d < b ^ S d) by (apply IH; lia).
    assert (0 <= a ^ S d) by (apply pow_le; exact Ha).
    change (a * a ^ S d < b * b ^ S d). nra.
Qed.

Lemma pow_inj_pos a b d : 0 <= a -> 0 <= b -> (0 < d)%nat -> a ^ d = b ^ d -> a = b.
Proof.
  intros Ha Hb Hd E. destruct (Rtotal_order a b) as [H|[H|H]]; [|exact H|].
  - pose proof (pow_lt_strict a b d Ha H Hd). lra.
  - pose proof (pow_lt_strict b a d Hb H Hd). lra.
Qed.

(* the d-th root of the volume per droplet, d = number of unconstrained axes (independent of grid.dim) *)
Lemma ls_count_formula bounds n g : bounds <> [] -> Forall (fun b => fst b < snd b) bounds -> (0 < n)%nat ->
  0 < ls_count_model bounds n g /\
  ls_count_model bounds n g ^ length bounds = prod_extents bounds / INR n.
Proof.
  intros Hne Hb Hn. unfold ls_count_model, ls_count, ls_volume_per_droplet.
  rewrite ls_volume_is_product.
  assert (HV : 0 < prod_extents bounds / INR n).
  { apply Rdiv_lt_0_compat; [apply prod_extents_pos; exact Hb|apply lt_0_INR; exact Hn]. }
  assert (Hd : (0 < length bounds)%nat) by (destruct bounds; [congruence|simpl; lia]).
  assert (Hd' : INR (length bounds) <> 0) by (apply not_0_INR; lia).
  rewrite pow_nn_pos by exact HV. split; [unfold Rpower; apply exp_pos|].
  rewrite <- Rpower_pow by (unfold Rpower; apply exp_pos). rewrite Rpower_mult.
  replace (1 / INR (length bounds) * INR (length bounds)) with 1 by (field; exact Hd').
  apply Rpower_1. exact HV.
Qed.

Lemma ls_count_covariant bounds n g s : 0 < s ->
  bounds <> [] -> Forall (fun b => fst b < snd b) bounds -> (0 < n)%nat ->
  ls_count_model (scale_bounds s bounds) n g = s * ls_count_model bounds n g.
Proof.
  intros Hs Hne Hb Hn.
  assert (Hne' : scale_bounds s bounds <> []) by (destruct bounds; [congruence|discriminate]).
  assert (Hb' : Forall (fun b => fst b < snd b) (scale_bounds s bounds)).
  { unfold scale_bounds. apply Forall_forall. intros b Hin. apply in_map_iff in Hin.
    destruct Hin as [b0 [<- Hin0]]. rewrite Forall_forall in Hb. specialize (Hb b0 Hin0). simpl. nra. }
  destruct (ls_count_formula bounds n g Hne Hb Hn) as [P1 E1].
  destruct (ls_count_formula (scale_bounds s bounds) n g Hne' Hb' Hn) as [P2 E2].
  assert (Hlen : length (scale_bounds s bounds) = length bounds) by (unfold scale_bounds; apply map_length).
  rewrite Hlen in E2. rewrite prod_extents_scale in E2.
  apply (pow_inj_pos _ _ (length bounds)); [lra|nra|destruct bounds; [congruence|simpl; lia]|].
  rewrite E2, Rpow_mult_distr, E1. unfold Rdiv. ring.
Qed.

(* -------- non-vacuity: a scale-covariant minimiser exists (return the middle of the bracket) *)
Definition mini_mid : minimizer := fun _ t => Some (snd (fst t)).

Lemma mini_mid_covariant : minimizer_covariant mini_mid.
Proof. intros f g a b c s Hs Hg. reflexivity. Qed.

Lemma c17_nonvacuous :
  minimizer_covariant mini_mid /\ [(0, 1)] <> [] /\ Forall (fun b : R * R => fst b < snd b) [(0, 1)] /\
  (0 < 1)%nat /\ 0 < 2 /\ 2 <> 1.
Proof.
  split; [apply mini_mid_covariant|]. split; [discriminate|]. split; [repeat constructor; simpl; lra|].
  split; [lia|]. split; lra.
Qed.

(* a minimiser that is both scale covariant and stays in its bracket: return the first bracket point *)
Definition mini_lo : minimizer := fun _ t => Some (fst (fst t)).

Lemma mini_lo_spec : minimizer_covariant mini_lo /\ minimizer_in_bracket mini_lo.
Proof.
  split.
  - intros f g a b c s Hs Hg. reflexivity.
  - intros f a b c x E. injection E as <-. cbn [fst]. split; [apply Rmin_l|apply Rmax_l].
Qed.

Lemma c17_plane_wave_nonvacuous :
  minimizer_in_bracket mini_lo /\ dft_spec dom4 dft4 /\ dft_cosine dom4 dft4 /\ dom4 [4%nat] /\
  (1 <= 1)%nat /\ (4 * 1 <= 4)%nat /\ 1 <> 0 /\ 0 < / 2.
Proof.
  split; [apply mini_lo_spec|]. split; [apply dft4_spec|]. split; [apply dft4_cosine|].
  split; [reflexivity|]. split; [lia|]. split; [lia|]. split; lra.
Qed.

Lemma ls_peak_default_refuted :
  exists td s, 0 < td /\ 0 < s /\ ~ ls_default_smoothing (s * td) = ls_default_smoothing td / s.
Proof.
  exists 1, 2. split; [lra|]. split; [lra|]. apply default_smoothing_not_covariant; lra.
Qed.
