(* C04, D-layer: the vector primitives of the generated refine_droplet lines (select / scatter / set_at /
   set_range / set_many / copy_many / drop_last / last_n) and the bound predicates of Model/Refine.v. *)
From Coq Require Import QArith Qround ZArith List Bool Arith Lia Lra.
Import ListNotations.
From PD Require Import Model.Grid Gen.Gen_refine Model.Refine.
Local Open Scope Q_scope.

(* ---------------------------------------------------------------------------------------- *)
(* select                                                                                    *)
(* ---------------------------------------------------------------------------------------- *)
Lemma select_app {A : Type} (m1 m2 : list bool) : forall (v1 v2 : list A), length m1 = length v1 ->
  select (m1 ++ m2) (v1 ++ v2) = select m1 v1 ++ select m2 v2.
Proof.
  induction m1 as [|b m1 IH]; intros v1 v2 H.
  - destruct v1; [reflexivity|discriminate].
  - destruct v1 as [|a v1]; [discriminate|]. simpl in *. injection H as H.
    destruct b; simpl; rewrite IH by exact H; reflexivity.
Qed.

Lemma select_all_true {A : Type} n : forall (v : list A), length v = n -> select (repeat true n) v = v.
Proof.
  induction n as [|n IH]; intros v H.
  - destruct v; [reflexivity|discriminate].
  - destruct v as [|a v]; [discriminate|]. simpl. f_equal. apply IH. simpl in H. lia.
Qed.

Lemma select_length_same {A B : Type} (m : list bool) : forall (v : list A) (w : list B),
  length v = length w -> length (select m v) = length (select m w).
Proof.
  induction m as [|b m IH]; intros v w H; [reflexivity|].
  destruct v as [|a v], w as [|c w]; try discriminate; [reflexivity|].
  simpl in *. injection H as H. destruct b; simpl; rewrite (IH v w H); reflexivity.
Qed.

(* ---------------------------------------------------------------------------------------- *)
(* scatter                                                                                   *)
(* ---------------------------------------------------------------------------------------- *)
Lemma scatter_length m : forall v x d, length m = length v -> scatter m v x = Some d -> length d = length v.
Proof.
  induction m as [|b m IH]; intros v x d Hl H.
  - destruct v; [|discriminate]. simpl in H. destruct x; [injection H as <-; reflexivity|discriminate].
  - destruct v as [|a v]; [discriminate|]. simpl in Hl. injection Hl as Hl. simpl in H. destruct b.
    + destruct x as [|y x]; [discriminate|].
      destruct (scatter m v x) as [d'|] eqn:E; [|discriminate]. injection H as <-. simpl. f_equal. eapply IH; eauto.
    + destruct (scatter m v x) as [d'|] eqn:E; [|discriminate]. injection H as <-. simpl. f_equal. eapply IH; eauto.
Qed.

(* writing the selected entries back changes nothing *)
Lemma scatter_select m : forall v, length m = length v -> scatter m v (select m v) = Some v.
Proof.
  induction m as [|b m IH]; intros v H.
  - destruct v; [reflexivity|discriminate].
  - destruct v as [|a v]; [discriminate|]. simpl in H. injection H as H. simpl. destruct b; simpl; rewrite IH by exact H; reflexivity.
Qed.

(* the write-back succeeds exactly when one value per free entry is supplied *)
Lemma scatter_some m : forall v x, length m = length v -> length x = length (select m v) -> exists d, scatter m v x = Some d.
Proof.
  induction m as [|b m IH]; intros v x Hl Hx.
  - destruct v; [|discriminate]. simpl in Hx. destruct x; [|discriminate]. exists []. reflexivity.
  - destruct v as [|a v]; [discriminate|]. simpl in Hl. injection Hl as Hl. simpl in *. destruct b.
    + destruct x as [|y x]; [discriminate|]. simpl in Hx. injection Hx as Hx.
      destruct (IH v x Hl Hx) as [d E]. rewrite E. eexists; reflexivity.
    + destruct (IH v x Hl Hx) as [d E]. rewrite E. eexists; reflexivity.
Qed.

Lemma scatter_consumes m : forall v x d, length m = length v -> scatter m v x = Some d -> length x = length (select m v).
Proof.
  induction m as [|b m IH]; intros v x d Hl H.
  - destruct v; [|discriminate]. simpl in H. destruct x; [reflexivity|discriminate].
  - destruct v as [|a v]; [discriminate|]. simpl in Hl. injection Hl as Hl. simpl in *. destruct b.
    + destruct x as [|y x]; [discriminate|]. destruct (scatter m v x) as [d'|] eqn:E; [|discriminate].
      simpl. f_equal. eapply IH; eauto.
    + destruct (scatter m v x) as [d'|] eqn:E; [|discriminate]. eapply IH; eauto.
Qed.

(* entries that are not free keep their value *)
Lemma scatter_keeps m : forall v x d i, length m = length v -> scatter m v x = Some d ->
  nth_error m i = Some false -> nth_error d i = nth_error v i.
Proof.
  induction m as [|b m IH]; intros v x d i Hl H Hi.
  - destruct i; discriminate.
  - destruct v as [|a v]; [discriminate|]. simpl in Hl. injection Hl as Hl. simpl in H. destruct b.
    + destruct x as [|y x]; [discriminate|]. destruct (scatter m v x) as [d'|] eqn:E; [|discriminate].
      injection H as <-. destruct i as [|i]; [discriminate|]. simpl in *. eapply IH; eauto.
    + destruct (scatter m v x) as [d'|] eqn:E; [|discriminate]. injection H as <-.
      destruct i as [|i]; [reflexivity|]. simpl in *. eapply IH; eauto.
Qed.

(* ---------------------------------------------------------------------------------------- *)
(* bounds: within / strict                                                                   *)
(* ---------------------------------------------------------------------------------------- *)
Lemma within_length lo : forall x hi, within lo x hi = true -> length lo = length x /\ length hi = length x.
Proof.
  induction lo as [|l lo IH]; intros x hi H.
  - destruct x, hi; try discriminate. split; reflexivity.
  - destruct x as [|a x], hi as [|h hi]; try discriminate. simpl in H.
    apply andb_true_iff in H. destruct H as [_ H]. destruct (IH x hi H). simpl. split; congruence.
Qed.

Lemma within_app l1 : forall x1 h1 l2 x2 h2, length l1 = length x1 -> length h1 = length x1 ->
  within (l1 ++ l2) (x1 ++ x2) (h1 ++ h2) = within l1 x1 h1 && within l2 x2 h2.
Proof.
  induction l1 as [|l l1 IH]; intros x1 h1 l2 x2 h2 H1 H2.
  - destruct x1; [|discriminate]. destruct h1; [|discriminate]. reflexivity.
  - destruct x1 as [|a x1]; [discriminate|]. destruct h1 as [|h h1]; [discriminate|].
    simpl in *. rewrite IH by congruence. rewrite !andb_assoc. reflexivity.
Qed.

Lemma strict_app l1 : forall h1 l2 h2, length l1 = length h1 ->
  strict (l1 ++ l2) (h1 ++ h2) = strict l1 h1 && strict l2 h2.
Proof.
  induction l1 as [|l l1 IH]; intros h1 l2 h2 H.
  - destruct h1; [reflexivity|discriminate].
  - destruct h1 as [|h h1]; [discriminate|]. simpl in *. rewrite IH by congruence. rewrite andb_assoc. reflexivity.
Qed.

Lemma within_select m : forall l x h, within l x h = true -> within (select m l) (select m x) (select m h) = true.
Proof.
  induction m as [|b m IH]; intros l x h H.
  - destruct l, x, h; try discriminate; reflexivity.
  - destruct l as [|a l], x as [|y x], h as [|c h]; try discriminate; [reflexivity|].
    simpl in H. apply andb_true_iff in H. destruct H as [H1 H2]. destruct b; simpl.
    + rewrite H1. simpl. apply IH; exact H2.
    + apply IH; exact H2.
Qed.

Lemma strict_select m : forall l h, strict l h = true -> strict (select m l) (select m h) = true.
Proof.
  induction m as [|b m IH]; intros l h H.
  - destruct l, h; try discriminate; reflexivity.
  - destruct l as [|a l], h as [|c h]; try discriminate; [reflexivity|].
    simpl in H. apply andb_true_iff in H. destruct H as [H1 H2]. destruct b; simpl.
    + rewrite H1. simpl. apply IH; exact H2.
    + apply IH; exact H2.
Qed.

Lemma strict_length l : forall h, strict l h = true -> length l = length h.
Proof.
  induction l as [|a l IH]; intros h H; destruct h as [|c h]; try discriminate; [reflexivity|].
  simpl in H. apply andb_true_iff in H. simpl. f_equal. apply IH. tauto.
Qed.

(* the free entries of the written-back vector satisfy the bounds of the optimiser's answer *)
Fixpoint within_masked (m : list bool) (l : list ext) (d : list Q) (h : list ext) : Prop :=
  match m, l, d, h with
  | [], [], [], [] => True
  | b :: m', a :: l', y :: d', c :: h' =>
      (b = true -> lo_le a y = true /\ le_hi y c = true) /\ within_masked m' l' d' h'
  | _, _, _, _ => False
  end.

Lemma scatter_within m : forall v x d l h, length v = length m -> length l = length m -> length h = length m ->
  scatter m v x = Some d -> within (select m l) x (select m h) = true -> within_masked m l d h.
Proof.
  induction m as [|b m IH]; intros v x d l h Hv Hl Hh H W.
  - destruct v, l, h; try discriminate. simpl in H. destruct x; [|discriminate]. injection H as <-. exact I.
  - destruct v as [|a v], l as [|la l], h as [|ha h]; try discriminate.
    simpl in Hv, Hl, Hh. injection Hv as Hv. injection Hl as Hl. injection Hh as Hh. simpl in H. destruct b.
    + destruct x as [|y x]; [discriminate|]. destruct (scatter m v x) as [d'|] eqn:E; [|discriminate].
      injection H as <-. simpl in W. apply andb_true_iff in W. destruct W as [W1 W2].
      apply andb_true_iff in W1. simpl. split; [intros _; tauto|]. eapply IH; eauto.
    + destruct (scatter m v x) as [d'|] eqn:E; [|discriminate]. injection H as <-. simpl in W.
      simpl. split; [discriminate|]. eapply IH; eauto.
Qed.

Lemma within_masked_app m1 : forall l1 d1 h1 m2 l2 d2 h2,
  length l1 = length m1 -> length d1 = length m1 -> length h1 = length m1 ->
  within_masked (m1 ++ m2) (l1 ++ l2) (d1 ++ d2) (h1 ++ h2) -> within_masked m2 l2 d2 h2.
Proof.
  induction m1 as [|b m1 IH]; intros l1 d1 h1 m2 l2 d2 h2 Hl Hd Hh H.
  - destruct l1, d1, h1; try discriminate. exact H.
  - destruct l1 as [|a l1], d1 as [|y d1], h1 as [|c h1]; try discriminate.
    simpl in Hl, Hd, Hh. injection Hl as Hl. injection Hd as Hd. injection Hh as Hh.
    simpl in H. destruct H as [_ H]. exact (IH l1 d1 h1 m2 l2 d2 h2 Hl Hd Hh H).
Qed.

Lemma within_masked_tail k : forall a b amp,
  within_masked (repeat true k) (repeat (Fin a) k) amp (repeat (Fin b) k) ->
  Forall (fun y => a <= y /\ y <= b) amp.
Proof.
  induction k as [|k IH]; intros a b amp H.
  - destruct amp; [constructor|contradiction].
  - destruct amp as [|y amp]; [contradiction|]. simpl in H. destruct H as [H1 H2].
    destruct (H1 eq_refl) as [Ha Hb]. simpl in Ha, Hb. apply Qle_bool_iff in Ha. apply Qle_bool_iff in Hb.
    constructor; [split; assumption|]. apply IH; exact H2.
Qed.

Lemma within_masked_nil_tail k : forall (amp : list Q) lt ht, within_masked (repeat true k) lt amp ht -> length amp = k.
Proof.
  induction k as [|k IH]; intros amp lt ht H.
  - destruct lt, amp, ht; try contradiction. reflexivity.
  - destruct lt, amp, ht; try contradiction. simpl in H. simpl. f_equal. eapply IH. apply H.
Qed.

(* ---------------------------------------------------------------------------------------- *)
(* set_at / set_range / set_many / copy_many                                                 *)
(* ---------------------------------------------------------------------------------------- *)
Lemma set_at_length {A : Type} (a : A) : forall v i, length (set_at i a v) = length v.
Proof. induction v as [|b v IH]; intros i; [reflexivity|]. destruct i; simpl; [reflexivity|f_equal; apply IH]. Qed.

Lemma set_at_repeat_app {A : Type} (a y : A) n : forall k b, set_at (n + k) a (repeat y n ++ b) = repeat y n ++ set_at k a b.
Proof. induction n as [|n IH]; intros k b; [reflexivity|]. simpl. f_equal. apply IH. Qed.

Lemma set_range_length {A : Type} (a : A) : forall v i j, length (set_range i j a v) = length v.
Proof. induction v as [|b v IH]; intros i j; [reflexivity|]. simpl. f_equal. apply IH. Qed.

Lemma set_range_repeat_app {A : Type} (a y : A) n : forall i j b,
  set_range (n + i) (n + j) a (repeat y n ++ b) = repeat y n ++ set_range i j a b.
Proof.
  induction n as [|n IH]; intros i j b; [reflexivity|]. simpl. f_equal. apply IH.
Qed.

Lemma set_range_all {A : Type} (a y : A) : forall m, set_range 0 m a (repeat y m) = repeat a m.
Proof. induction m as [|m IH]; [reflexivity|]. simpl. f_equal. exact IH. Qed.

Lemma nth_error_set_at {A : Type} (a : A) : forall v i j,
  nth_error (set_at i a v) j = if Nat.eqb i j then (if Nat.ltb j (length v) then Some a else None) else nth_error v j.
Proof.
  induction v as [|b v IH]; intros i j.
  - simpl. destruct (Nat.eqb i j); destruct j; reflexivity.
  - destruct i as [|i], j as [|j]; simpl; try reflexivity.
    rewrite IH. destruct (Nat.eqb i j); [|reflexivity].
    change (Nat.ltb (S j) (S (length v))) with (Nat.ltb j (length v)). reflexivity.
Qed.

Lemma set_at_app_l {A : Type} (a : A) : forall u v i, (i < length u)%nat -> set_at i a (u ++ v) = set_at i a u ++ v.
Proof.
  induction u as [|b u IH]; intros v i H; [simpl in H; lia|].
  destruct i as [|i]; simpl; [reflexivity|]. f_equal. apply IH. simpl in H. lia.
Qed.

Lemma set_many_app_l {A : Type} (a : A) idx : forall u v, Forall (fun i => (i < length u)%nat) idx ->
  set_many idx a (u ++ v) = set_many idx a u ++ v.
Proof.
  induction idx as [|i idx IH]; intros u v H; [reflexivity|].
  inversion H as [|? ? Hi Hr]; subst. simpl. rewrite set_at_app_l by exact Hi.
  apply IH. rewrite set_at_length. exact Hr.
Qed.

Lemma set_many_length {A : Type} (a : A) idx : forall v, length (set_many idx a v) = length v.
Proof. induction idx as [|i idx IH]; intros v; [reflexivity|]. simpl. rewrite IH. apply set_at_length. Qed.

Lemma nth_error_set_many_in (idx : list nat) : forall (v : list bool) i, In i idx -> (i < length v)%nat ->
  nth_error (set_many idx false v) i = Some false.
Proof.
  induction idx as [|k idx IH]; intros v i Hin Hlt; [contradiction|]. simpl.
  destruct (in_dec Nat.eq_dec i idx) as [Hi|Hi].
  - apply IH; [exact Hi|rewrite set_at_length; exact Hlt].
  - destruct Hin as [->|Hin]; [|contradiction].
    assert (G : forall idx' w, ~ In i idx' -> nth_error (set_many idx' false w) i = nth_error w i).
    { clear. induction idx' as [|k idx' IH]; intros w Hn; [reflexivity|]. simpl.
      rewrite IH by (intros H; apply Hn; right; exact H). rewrite nth_error_set_at.
      destruct (Nat.eqb k i) eqn:E; [|reflexivity]. apply Nat.eqb_eq in E. subst. exfalso. apply Hn. left. reflexivity. }
    rewrite G by exact Hi. rewrite nth_error_set_at, Nat.eqb_refl.
    destruct (Nat.ltb i (length v)) eqn:E; [reflexivity|]. apply Nat.ltb_ge in E. lia.
Qed.

Lemma copy_many_length idx : forall src dst, length (copy_many idx src dst) = length dst.
Proof.
  induction idx as [|i idx IH]; intros src dst; [reflexivity|]. simpl. rewrite IH.
  destruct (nth_error src i); [apply set_at_length|reflexivity].
Qed.

(* dst[idx] = src[idx]: the listed entries come from src, the others stay *)
Lemma nth_error_copy_many idx : forall src dst i, length src = length dst ->
  nth_error (copy_many idx src dst) i = if existsb (Nat.eqb i) idx then nth_error src i else nth_error dst i.
Proof.
  induction idx as [|k idx IH]; intros src dst i Hl; [reflexivity|]. simpl.
  destruct (nth_error src k) as [a|] eqn:Ek.
  - rewrite IH by (rewrite set_at_length; exact Hl). rewrite nth_error_set_at.
    destruct (existsb (Nat.eqb i) idx) eqn:Ex.
    + rewrite orb_true_r. reflexivity.
    + rewrite orb_false_r. rewrite (Nat.eqb_sym i k). destruct (Nat.eqb k i) eqn:E; [|reflexivity].
      apply Nat.eqb_eq in E. subst k.
      assert (Hlt : (i < length src)%nat) by (apply nth_error_Some; congruence).
      rewrite <- Hl. apply Nat.ltb_lt in Hlt. rewrite Hlt. symmetry. exact Ek.
  - rewrite IH by exact Hl. destruct (existsb (Nat.eqb i) idx) eqn:Ex.
    + rewrite orb_true_r. reflexivity.
    + rewrite orb_false_r. destruct (Nat.eqb i k) eqn:E; [|reflexivity].
      apply Nat.eqb_eq in E. subst k. rewrite Ek. apply nth_error_None.
      rewrite <- Hl. apply (proj1 (nth_error_None src i)). exact Ek.
Qed.

(* ---------------------------------------------------------------------------------------- *)
(* drop_last / last_n                                                                        *)
(* ---------------------------------------------------------------------------------------- *)
Lemma drop_last_app {A : Type} (u v : list A) : drop_last (length v) (u ++ v) = u.
Proof.
  unfold drop_last. rewrite app_length. replace (length u + length v - length v)%nat with (length u) by lia.
  rewrite firstn_app, Nat.sub_diag, firstn_all. simpl. apply app_nil_r.
Qed.

Lemma last_n_app {A : Type} (u v : list A) : last_n (length v) (u ++ v) = v.
Proof.
  unfold last_n. rewrite app_length. replace (length u + length v - length v)%nat with (length u) by lia.
  rewrite skipn_app, Nat.sub_diag, skipn_all. reflexivity.
Qed.

Lemma nth_error_firstn_lt {A : Type} : forall n (l : list A) i, (i < n)%nat -> nth_error (firstn n l) i = nth_error l i.
Proof.
  induction n as [|n IH]; intros l i H; [lia|]. destruct l as [|a l]; [destruct i; reflexivity|].
  destruct i as [|i]; [reflexivity|]. simpl. apply IH. lia.
Qed.

Lemma drop_last_app2 {A : Type} (u : list A) a b : drop_last 2 (u ++ [a; b]) = u.
Proof. exact (drop_last_app u [a; b]). Qed.

Lemma last_n_app2 {A : Type} (u : list A) a b : last_n 2 (u ++ [a; b]) = [a; b].
Proof. exact (last_n_app u [a; b]). Qed.

Lemma drop_last_last_n {A : Type} k (x : list A) : (k <= length x)%nat ->
  x = drop_last k x ++ last_n k x /\ length (last_n k x) = k.
Proof.
  intros H. unfold drop_last, last_n. split; [symmetry; apply firstn_skipn|]. rewrite skipn_length. lia.
Qed.

(* ---------------------------------------------------------------------------------------- *)
(* the integer part                                                                          *)
(* ---------------------------------------------------------------------------------------- *)
Lemma py_int_nonneg x : 0 <= x -> py_int x = Qfloor x.
Proof. intros H. unfold py_int. apply Qle_bool_iff in H. rewrite H. reflexivity. Qed.

(* ---------------------------------------------------------------------------------------- *)
(* the optimiser's preconditions on concatenated vectors                                     *)
(* ---------------------------------------------------------------------------------------- *)
Lemma eqb_add_l a b c : Nat.eqb (a + b) (a + c) = Nat.eqb b c.
Proof. induction a as [|a IH]; [reflexivity|]. simpl. exact IH. Qed.

Lemma precondition_ok x lo hi : within lo x hi = true -> strict lo hi = true -> lsq_precondition x lo hi = None.
Proof.
  intros W S. destruct (within_length _ _ _ W) as [L1 L2]. unfold lsq_precondition.
  rewrite L1, L2, !Nat.eqb_refl, S, W. reflexivity.
Qed.

Lemma precondition_app x lo hi x2 lo2 hi2 : within lo x hi = true -> strict lo hi = true ->
  lsq_precondition (x ++ x2) (lo ++ lo2) (hi ++ hi2) = lsq_precondition x2 lo2 hi2.
Proof.
  intros W S. destruct (within_length _ _ _ W) as [L1 L2]. unfold lsq_precondition.
  rewrite !app_length, L1, L2, !eqb_add_l.
  rewrite strict_app by congruence. rewrite within_app by congruence. rewrite S, W. reflexivity.
Qed.

(* when the droplet part is fine the verdict on the whole is the verdict on the appended entries *)
Lemma precondition_app_lengths x lo hi x2 lo2 hi2 : length lo = length x -> length hi = length x ->
  strict lo2 hi2 = false -> length lo2 = length x2 -> length hi2 = length x2 ->
  lsq_precondition (x ++ x2) (lo ++ lo2) (hi ++ hi2) = Some EBoundsNotStrict.
Proof.
  intros L1 L2 S M1 M2. unfold lsq_precondition.
  rewrite !app_length, L1, L2, M1, M2, !Nat.eqb_refl. simpl.
  rewrite strict_app by congruence. rewrite S, andb_false_r. reflexivity.
Qed.
