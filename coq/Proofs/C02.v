(* C02 -- each located droplet is one connected component under the grid's topology.
   Layer 1 (this file + Proofs/MergeLoop.v): the merge loop, for any edge list.
   Layer 2/3 (Proofs/Components.v, Proofs/LocateCart.v): cells, labels, torus connectivity.
   Overlap removal: Proofs/Overlap.v (C10).  Symmetric grids: statements below. *)
From Coq Require Import QArith ZArith List Arith Bool Lia Lqa.
Import ListNotations.
From PD Require Import Model.Grid Model.MergeLoop Model.Locate Model.LocateSym Model.Overlap
  Proofs.MergeLoop Proofs.Overlap.
Local Open Scope Q_scope.

(* ---- radial grids ---- *)
Lemma leading_trues_spec m : forall n, leading_trues m = n ->
  (forall i, (i < n)%nat -> nth_error m i = Some true) /\ (nth_error m n = Some false \/ nth_error m n = None).
Proof.
  induction m as [|b m IH]; intros n Hn; simpl in Hn; subst n.
  - split; [intros i Hi; lia|right; reflexivity].
  - destruct b.
    + destruct (IH _ eq_refl) as [H1 H2]. split.
      * intros [|i] Hi; [reflexivity|]. simpl. apply H1. lia.
      * exact H2.
    + split; [intros i Hi; lia|left; reflexivity].
Qed.

(* one droplet at the origin iff the innermost cell is set; its radius is the outer radius of the
   run of cells starting at the innermost cell *)
Lemma locate_radial_spec r_lo dr m :
  match locate_radial r_lo dr m with
  | None => nth_error m 0 = Some false \/ m = []
  | Some r => exists n, (0 < n)%nat /\ r = r_lo + inject_Z (Z.of_nat n) * dr /\
                        (forall i, (i < n)%nat -> nth_error m i = Some true) /\
                        (nth_error m n = Some false \/ nth_error m n = None)
  end.
Proof.
  unfold locate_radial. destruct (leading_trues m) as [|n] eqn:E.
  - destruct m as [|[|] m]; simpl in E; [right; reflexivity|discriminate|left; reflexivity].
  - exists (S n). destruct (leading_trues_spec m (S n) E) as [H1 H2].
    split; [lia|]. split; [reflexivity|]. split; assumption.
Qed.

(* ---- cylindrical grids ---- *)
Lemma cyl_single_members g img ds : cyl_single g img = Found ds ->
  forall d, In d ds -> exists k, (k < num_labels img)%nat /\ on_axis (members img k) = true /\
                                 d = cyl_droplet g (members img k).
Proof.
  unfold cyl_single. destruct (existsb _ _); [discriminate|]. intros [= <-] d Hd.
  apply in_map_iff in Hd. destruct Hd as (k & Hd & Hk). apply filter_In in Hk. destruct Hk as [Hk1 Hk2].
  exists k. apply in_seq in Hk1. split; [lia|]. split; [exact Hk2|]. symmetry. exact Hd.
Qed.

Lemma cyl_single_complete g img ds : cyl_single g img = Found ds ->
  forall k, (k < num_labels img)%nat -> on_axis (members img k) = true -> In (cyl_droplet g (members img k)) ds.
Proof.
  unfold cyl_single. destruct (existsb _ _); [discriminate|]. intros [= <-] k Hk Hax.
  apply (in_map (fun k0 => cyl_droplet g (members img k0))). apply filter_In. split; [apply in_seq; lia|exact Hax].
Qed.

(* the volume (divided by pi) of a candidate is the sum of the cell volumes of its cluster *)
Lemma cyl_droplet_volume g cs : snd (cyl_droplet g cs) = csum cs (fun c => shell g (ridx c)).
Proof. reflexivity. Qed.

(* an image without a cluster on the symmetry axis yields no candidate, on every code path *)
Lemma cyl_empty_if_off_axis g img_pad img :
  (forall k, on_axis (members img k) = false) -> (forall k, on_axis (members img_pad k) = false) ->
  cyl_candidates g img_pad img = [].
Proof.
  intros H Hp.
  assert (E : forall im, (forall k, on_axis (members im k) = false) -> cyl_single g im = Found []).
  { intros im Him. unfold cyl_single.
    assert (F : filter (fun k => on_axis (members im k)) (seq 0 (num_labels im)) = []).
    { induction (seq 0 (num_labels im)) as [|k l IH]; [reflexivity|]. simpl. rewrite Him. exact IH. }
    rewrite F. reflexivity. }
  unfold cyl_candidates. rewrite (E img H), (E img_pad Hp). destruct (cg_per g); reflexivity.
Qed.

(* candidates of the periodic path lie inside the box [z_lo, z_hi) *)
Lemma cyl_window_in_box g ds d : In d (cyl_window g ds) -> cg_zlo g <= fst d /\ fst d < cg_zhi g.
Proof.
  unfold cyl_window. intros H. apply filter_In in H. destruct H as [_ H].
  apply andb_true_iff in H. destruct H as [H1 H2]. apply Qle_bool_iff in H1.
  split; [exact H1|]. apply Qnot_le_lt. intros Hle. apply Qle_bool_iff in Hle.
  rewrite Hle in H2. discriminate.
Qed.

(* ---- the returned droplets: overlap removal on the candidates (min_distance = 0) ---- *)
(* D i j = centre distance minus both radii (the matrix the implementation computes with the
   grid's periodic metric); "i and j overlap as equal-volume spheres" is D i j < 0 *)
Lemma returned_do_not_overlap D rad l i j :
  In i (ro D rad 0 l) -> In j (ro D rad 0 l) -> i <> j -> 0 <= D i j.
Proof. apply ro_separated. Qed.

Lemma left_out_only_if_overlapped D rad l k : In k l -> ~ In k (ro D rad 0 l) ->
  exists j, In j l /\ j <> k /\ (D k j < 0 \/ D j k < 0) /\ rad k <= rad j.
Proof. apply ro_removed_reason. Qed.
