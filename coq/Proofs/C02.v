(* C02 -- placeholder, filled below *)
From PD Require Import Model.MergeLoop Model.Locate.
