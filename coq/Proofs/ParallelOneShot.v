(* Proofs/ParallelOneShot.v -- C15: one-shot iterables handed to refine_droplets. *)
From Coq Require Import String List.
From PD Require Import Model.Parallel.
Import ListNotations.
Local Open Scope string_scope.

(* a branch that looks into a one-shot iterable before dispatching it loses the first candidate *)
Theorem one_shot_peek_refuted :
  seen_by_dispatch ["other"; "dispatch"] false [1; 2; 3] = Some [2; 3] /\
  seen_by_dispatch ["dispatch"] false [1; 2; 3] = Some [1; 2; 3] /\
  seen_by_dispatch ["materialise"; "len"; "dispatch"] false [1; 2; 3] = Some [1; 2; 3].
Proof. repeat split; reflexivity. Qed.

(* a branch whose only use is the dispatch, or that materialises first, hands every item to the tasks *)
Lemma dispatch_only_sees_all {A : Type} (xs : list A) : seen_by_dispatch ["dispatch"] false xs = Some xs.
Proof. reflexivity. Qed.
