(* C13 -- 2-d: interface positions, the line element of `surface_area`, and curvature2d_first_order:
   the coded curvature 1/(R0 (1 - sum (n^2-1)(a_n sin n phi + b_n cos n phi))) agrees with the exact
   curvature of the curve r(phi) = interface_distance(phi) to first order in the amplitudes, for every
   radius R0 > 0, every angle and every list of modes. *)
From Coq Require Import Reals Lra List Lia.
Import ListNotations.
From Coquelicot Require Import Coquelicot.
From PD Require Import Model.Num Model.Perturbed Gen.Gen_perturbed Proofs.PerturbedSeries.
Local Open Scope R_scope.

(* ---- derivatives of the series with respect to the angle ---- *)
Lemma term2_derive n ab phi : is_derive (fun x => term2 x n ab) phi (dterm2 phi n ab).
Proof. unfold term2, dterm2. auto_derive; [exact I|ring]. Qed.

Lemma dterm2_derive n ab phi :
  is_derive (fun x => dterm2 x n ab) phi (- (INR n * INR n) * term2 phi n ab).
Proof. unfold term2, dterm2. auto_derive; [exact I|ring]. Qed.

Lemma series2_derive w l : forall n phi,
  is_derive (fun x => series2 w x n l) phi (dseries2 w phi n l).
Proof.
  induction l as [|ab l IH]; intros n phi; simpl.
  - apply (is_derive_const 0 phi).
  - apply (is_derive_plus (fun x => w n * term2 x n ab) (fun x => series2 w x (S n) l)).
    + apply (is_derive_scal (fun x => term2 x n ab) phi (w n)). apply term2_derive.
    + apply IH.
Qed.

Lemma dseries2_derive w l : forall n phi,
  is_derive (fun x => dseries2 w x n l) phi (- series2 (fun k => w k * w_sq k) phi n l).
Proof.
  induction l as [|ab l IH]; intros n phi; simpl.
  - replace (- 0) with 0 by ring. apply (is_derive_const 0 phi).
  - replace (- (w n * w_sq n * term2 phi n ab + series2 (fun k => w k * w_sq k) phi (S n) l))
      with (w n * (- (INR n * INR n) * term2 phi n ab) + - series2 (fun k => w k * w_sq k) phi (S n) l)
      by (unfold w_sq; ring).
    apply (is_derive_plus (fun x => w n * dterm2 x n ab) (fun x => dseries2 w x (S n) l)).
    + apply (is_derive_scal (fun x => dterm2 x n ab) phi (w n)). apply dterm2_derive.
    + apply IH.
Qed.

Lemma series2_ext w w' phi l : (forall k, w k = w' k) -> forall n, series2 w phi n l = series2 w' phi n l.
Proof. intros H. induction l as [|ab l IH]; intros n; simpl; [reflexivity|]. rewrite IH, H. reflexivity. Qed.

(* (n^2 - 1) = n^2 - 1, mode by mode *)
Lemma series2_curv_split phi l : forall n,
  series2 w_curv phi n l = series2 w_sq phi n l - series2 w_one phi n l.
Proof.
  induction l as [|ab l IH]; intros n; simpl; [ring|]. rewrite IH. unfold w_curv, w_sq, w_one. ring.
Qed.

(* interface_distance as a function of the angle: first and second derivative *)
Lemma dist2d_derive radius l phi :
  is_derive (fun x => dist2d radius x l) phi (radius * dseries2 w_one phi 1 l).
Proof.
  apply (is_derive_ext (fun x => radius * (1 + series2 w_one x 1 l))).
  - intros x. symmetry. apply dist2d_series.
  - apply (is_derive_scal (fun x => 1 + series2 w_one x 1 l) phi radius).
    replace (dseries2 w_one phi 1 l) with (0 + dseries2 w_one phi 1 l) by ring.
    apply (is_derive_plus (fun _ => 1) (fun x => series2 w_one x 1 l)).
    + apply (is_derive_const 1 phi).
    + apply series2_derive.
Qed.

Lemma dist2d_Derive radius l phi :
  Derive (fun x => dist2d radius x l) phi = radius * dseries2 w_one phi 1 l.
Proof. apply is_derive_unique. apply dist2d_derive. Qed.

Lemma dist2d_Derive2 radius l phi :
  Derive (fun x => Derive (fun y => dist2d radius y l) x) phi = radius * - series2 w_sq phi 1 l.
Proof.
  rewrite (Derive_ext _ (fun x => radius * dseries2 w_one x 1 l)) by (intros x; apply dist2d_Derive).
  apply is_derive_unique.
  apply (is_derive_scal (fun x => dseries2 w_one x 1 l) phi radius).
  rewrite (series2_ext w_sq (fun k => w_one k * w_sq k)) by (intros k; unfold w_one; ring).
  apply dseries2_derive.
Qed.

(* ---- exact curvature of the interface curve ---- *)
Definition exact_curv2d (radius phi : R) (l : list (R * R)) : R :=
  kappa_polar (dist2d radius phi l)
              (Derive (fun x => dist2d radius x l) phi)
              (Derive (fun x => Derive (fun y => dist2d radius y l) x) phi).

(* the polar formula is the curvature (x' y'' - y' x'')/(x'^2 + y'^2)^(3/2) of the parametrised curve
   (r cos phi, r sin phi) *)
Lemma kappa_polar_param r r1 r2 phi :
  let x1 := r1 * cos phi - r * sin phi in
  let y1 := r1 * sin phi + r * cos phi in
  let x2 := r2 * cos phi - 2 * r1 * sin phi - r * cos phi in
  let y2 := r2 * sin phi + 2 * r1 * cos phi - r * sin phi in
  kappa_param x1 y1 x2 y2 = kappa_polar r r1 r2.
Proof.
  cbv zeta. unfold kappa_param, kappa_polar.
  pose proof (sin2_cos2 phi) as H. unfold Rsqr in H.
  set (s := sin phi) in *. set (c := cos phi) in *.
  assert (Hn : (r1 * c - r * s) ^ 2 + (r1 * s + r * c) ^ 2 = r ^ 2 + r1 ^ 2).
  { replace ((r1 * c - r * s) ^ 2 + (r1 * s + r * c) ^ 2) with ((r ^ 2 + r1 ^ 2) * (s * s + c * c)) by ring.
    rewrite H. ring. }
  assert (Hd : (r1 * c - r * s) * (r2 * s + 2 * r1 * c - r * s) - (r1 * s + r * c) * (r2 * c - 2 * r1 * s - r * c)
               = r ^ 2 + 2 * r1 ^ 2 - r * r2).
  { replace ((r1 * c - r * s) * (r2 * s + 2 * r1 * c - r * s) - (r1 * s + r * c) * (r2 * c - 2 * r1 * s - r * c))
      with ((r ^ 2 + 2 * r1 ^ 2 - r * r2) * (s * s + c * c)) by ring.
    rewrite H. ring. }
  rewrite Hn, Hd. reflexivity.
Qed.

(* first-order agreement at the level of numbers: g, g1, g2 are the values of the perturbation and
   of its first two angular derivatives, c = -g - g2 the coded correction *)
Lemma kappa_first_order R0 g g1 g2 c : 0 < R0 -> c = - g - g2 ->
  is_derive (fun e => 1 / (R0 * (1 - e * c))
                      - kappa_polar (R0 * (1 + e * g)) (R0 * (e * g1)) (R0 * (e * g2))) 0 0.
Proof.
  intros HR Hc. unfold kappa_polar.
  assert (H2 : 0 < R0 * R0) by nra. assert (H3 : 0 < R0 * R0 * R0) by nra.
  auto_derive.
  - repeat match goal with |- context [sqrt ?s] => progress replace s with (R0 * R0) by ring end.
    rewrite sqrt_square by lra.
    replace (R0 * (1 + - (0 * c))) with R0 by ring.
    replace (R0 * (1 + 0 * g) * (R0 * (1 + 0 * g) * 1) + R0 * (0 * g1) * (R0 * (0 * g1) * 1))
      with (R0 * R0) by ring.
    repeat split; try apply Rgt_not_eq; lra.
  - repeat match goal with |- context [sqrt ?s] => progress replace s with (R0 * R0) by ring end.
    rewrite sqrt_square by lra. subst c. field. lra.
Qed.

(* curvature2d_first_order: amplitudes eps * l, derivative with respect to eps at eps = 0 *)
Theorem curvature2d_first_order radius phi l : 0 < radius ->
  is_derive (fun e => curv2d radius phi (scale2 e l) - exact_curv2d radius phi (scale2 e l)) 0 0.
Proof.
  intros HR.
  set (g := series2 w_one phi 1 l). set (g1 := dseries2 w_one phi 1 l).
  set (g2 := - series2 w_sq phi 1 l). set (c := series2 w_curv phi 1 l).
  apply (is_derive_ext (fun e => 1 / (radius * (1 - e * c))
                       - kappa_polar (radius * (1 + e * g)) (radius * (e * g1)) (radius * (e * g2)))).
  - intros e. unfold exact_curv2d.
    rewrite curv2d_series, dist2d_series, dist2d_Derive, dist2d_Derive2.
    rewrite !series2_scale, dseries2_scale. fold g g1 c. unfold g2.
    replace (radius * - (e * series2 w_sq phi 1 l)) with (radius * (e * - series2 w_sq phi 1 l)) by ring.
    reflexivity.
  - apply kappa_first_order; [exact HR|]. unfold c, g, g2. rewrite series2_curv_split. ring.
Qed.

(* and at zeroth order both are the curvature of the circle *)
Lemma curvature2d_zeroth_order radius phi l : 0 < radius ->
  curv2d radius phi (scale2 0 l) = / radius /\ exact_curv2d radius phi (scale2 0 l) = / radius.
Proof.
  intros HR. unfold exact_curv2d.
  rewrite curv2d_series, dist2d_series, dist2d_Derive, dist2d_Derive2, !series2_scale, dseries2_scale.
  split; [field; lra|]. unfold kappa_polar.
  replace ((radius * (1 + 0 * series2 w_one phi 1 l)) ^ 2 + (radius * (0 * dseries2 w_one phi 1 l)) ^ 2)
    with (radius * radius) by ring.
  rewrite sqrt_square by lra. field. lra.
Qed.

(* ---- positions ---- *)
Lemma unit2d_norm phi : unit2d_0 phi ^ 2 + unit2d_1 phi ^ 2 = 1.
Proof.
  unfold unit2d_0, unit2d_1. pose proof (sin2_cos2 phi) as H. unfold Rsqr in H. nra.
Qed.

(* position_on_interface (2-d): position = centre + interface_distance * (cos phi, sin phi) *)
Lemma position2d_on_interface cx cy radius phi l :
  pos2d_0 cx radius phi l = cx + dist2d radius phi l * cos phi /\
  pos2d_1 cy radius phi l = cy + dist2d radius phi l * sin phi /\
  (pos2d_0 cx radius phi l - cx) ^ 2 + (pos2d_1 cy radius phi l - cy) ^ 2 = dist2d radius phi l ^ 2.
Proof.
  unfold pos2d_0, pos2d_1. split; [reflexivity|]. split; [reflexivity|].
  pose proof (unit2d_norm phi) as H. nra.
Qed.

(* triangulation vertices are interface positions, hence at interface distance from the centre *)
Lemma triangulation2d_on_interface cx cy radius l angles v :
  In v (triang2d_vertices cx cy radius l angles) ->
  exists phi, In phi angles /\
    v = (cx + dist2d radius phi l * cos phi, cy + dist2d radius phi l * sin phi) /\
    (fst v - cx) ^ 2 + (snd v - cy) ^ 2 = dist2d radius phi l ^ 2.
Proof.
  unfold triang2d_vertices. intros Hin. apply in_map_iff in Hin. destruct Hin as [phi [Hv Hphi]].
  exists phi. split; [exact Hphi|]. subst v. cbn [fst snd].
  destruct (position2d_on_interface cx cy radius phi l) as [H0 [H1 H2]].
  split; [rewrite H0, H1; reflexivity|exact H2].
Qed.

Lemma triangulation2d_length cx cy radius l angles :
  length (triang2d_vertices cx cy radius l angles) = length angles.
Proof. unfold triang2d_vertices. apply map_length. Qed.

(* ---- surface_area: the summand is the speed |d position / d phi| of the interface curve ---- *)
Lemma is_derive_val (f : R -> R) (x u v : R) : u = v -> is_derive f x u -> is_derive f x v.
Proof. intros ->. exact (fun H => H). Qed.

Lemma pos2d_derive c radius l phi :
  is_derive (fun x => pos2d_0 c radius x l) phi
            (radius * (dseries2 w_one phi 1 l * cos phi - (1 + series2 w_one phi 1 l) * sin phi)) /\
  is_derive (fun x => pos2d_1 c radius x l) phi
            (radius * (dseries2 w_one phi 1 l * sin phi + (1 + series2 w_one phi 1 l) * cos phi)).
Proof.
  pose (d := fun x => dist2d radius x l).
  assert (Hex : ex_derive d phi).
  { exists (radius * dseries2 w_one phi 1 l). exact (dist2d_derive radius l phi). }
  assert (HD : Derive d phi = radius * dseries2 w_one phi 1 l) by exact (dist2d_Derive radius l phi).
  assert (Hd : d phi = radius * (1 + series2 w_one phi 1 l)) by exact (dist2d_series radius phi l).
  unfold pos2d_0, pos2d_1, unit2d_0, unit2d_1. split.
  - change (is_derive (fun x => c + d x * cos x) phi
              (radius * (dseries2 w_one phi 1 l * cos phi - (1 + series2 w_one phi 1 l) * sin phi))).
    auto_derive; [first [exact Hex | split; [exact Hex|exact I]]|]. change (Derive (fun x : R => d x) phi) with (Derive d phi). rewrite HD, Hd. ring.
  - change (is_derive (fun x => c + d x * sin x) phi
              (radius * (dseries2 w_one phi 1 l * sin phi + (1 + series2 w_one phi 1 l) * cos phi))).
    auto_derive; [first [exact Hex | split; [exact Hex|exact I]]|]. change (Derive (fun x : R => d x) phi) with (Derive d phi). rewrite HD, Hd. ring.
Qed.

(* the summand of the quadrature in `surface_area`, times the radius, is the speed of the curve
   phi |-> interface_position(phi) *)
Lemma line2d_closed phi l :
  line2d phi l = sqrt ((dseries2 w_one phi 1 l * cos phi - (1 + series2 w_one phi 1 l) * sin phi) ^ 2
                     + (dseries2 w_one phi 1 l * sin phi + (1 + series2 w_one phi 1 l) * cos phi) ^ 2).
Proof.
  unfold line2d. change (fold_modes (line2d_step phi) 1 l (1, 0)) with (line2d_acc phi l).
  rewrite line2d_acc_series. cbv zeta. cbn [fst snd]. f_equal. ring.
Qed.

Definition speed2d (cx cy radius : R) (l : list (R * R)) (phi : R) : R :=
  sqrt (Derive (fun x => pos2d_0 cx radius x l) phi ^ 2 + Derive (fun x => pos2d_1 cy radius x l) phi ^ 2).

Lemma line2d_is_speed cx cy radius l phi : 0 <= radius ->
  radius * line2d phi l = speed2d cx cy radius l phi.
Proof.
  intros HR. unfold speed2d. destruct (pos2d_derive cx radius l phi) as [Hx _].
  destruct (pos2d_derive cy radius l phi) as [_ Hy].
  rewrite line2d_closed.
  replace (Derive (fun x => pos2d_0 cx radius x l) phi)
    with (radius * (dseries2 w_one phi 1 l * cos phi - (1 + series2 w_one phi 1 l) * sin phi))
    by (symmetry; apply is_derive_unique; exact Hx).
  replace (Derive (fun x => pos2d_1 cy radius x l) phi)
    with (radius * (dseries2 w_one phi 1 l * sin phi + (1 + series2 w_one phi 1 l) * cos phi))
    by (symmetry; apply is_derive_unique; exact Hy).
  set (dx := dseries2 w_one phi 1 l * cos phi - (1 + series2 w_one phi 1 l) * sin phi).
  set (dy := dseries2 w_one phi 1 l * sin phi + (1 + series2 w_one phi 1 l) * cos phi).
  replace ((radius * dx) ^ 2 + (radius * dy) ^ 2) with ((radius * radius) * (dx ^ 2 + dy ^ 2)) by ring.
  rewrite sqrt_mult_alt by nra. rewrite sqrt_square by exact HR. reflexivity.
Qed.

(* surface_area is the N-point rectangle rule (N and the nodes as in the source) applied to the
   speed of the interface curve, i.e. to the integrand of its arc length.  PARTIAL: the quadrature
   error is not bounded here (checked numerically by the harness). *)
Lemma surface2d_riemann_partial cx cy radius l : 0 <= radius ->
  exists (N : nat) (h : R), (0 < N)%nat /\ INR N * h = 2 * PI /\
    surface2d radius l = sum_below N (fun k => speed2d cx cy radius l (0 + INR k * h)) * h.
Proof.
  intros HR. unfold surface2d. cbv zeta.
  match goal with |- context [sum_below ?N (fun k => line2d (0 + INR k * ?h) l)] => exists N, h end.
  split; [lia|]. split.
  - rewrite INR_IZR_INZ. simpl Z.of_nat. field.
  - match goal with |- radius * sum_below ?N ?f * ?h = _ =>
      assert (Hs : forall n, radius * sum_below n f
                   = sum_below n (fun k => speed2d cx cy radius l (0 + INR k * h)))
    end.
    { induction n as [|n IH]; simpl; [ring|]. rewrite <- IH, <- (line2d_is_speed cx cy radius l _ HR). ring. }
    rewrite Hs. reflexivity.
Qed.
