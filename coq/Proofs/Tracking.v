(* Generic facts about the tracking model: in-place updates, events, the frame loop invariant
   principle.  Everything here is independent of the matching method. *)
From Coq Require Import List Bool Arith Lia QArith Permutation Sorted.
Import ListNotations.
From PD Require Import Model.Tracking.

Local Open Scope nat_scope.

Definition did_eq_dec : forall a b : did, {a = b} + {a <> b}.
Proof. decide equality; apply Nat.eq_dec. Defined.

(* ------------------------------------------------------------------------------------------ *)
(* upd                                                                                         *)
(* ------------------------------------------------------------------------------------------ *)
Lemma upd_split {A} (l : list A) k f l' :
  upd l k f = Ok l' ->
  exists l1 x l2, l = l1 ++ x :: l2 /\ length l1 = k /\ l' = l1 ++ f x :: l2.
Proof.
  revert k l'. induction l as [|a l IH]; intros k l' H; simpl in H.
  - destruct k; discriminate.
  - destruct k as [|k].
    + inversion H; subst. exists [], a, l. auto.
    + destruct (upd l k f) as [r|e] eqn:E; [|discriminate]. inversion H; subst.
      destruct (IH _ _ E) as (l1 & x & l2 & -> & Hlen & ->).
      exists (a :: l1), x, l2. simpl. auto.
Qed.

Lemma upd_total {A} (l : list A) k f x :
  nth_error l k = Some x -> exists l', upd l k f = Ok l'.
Proof.
  revert k. induction l as [|a l IH]; intros k H.
  - destruct k; discriminate.
  - destruct k as [|k]; simpl.
    + eauto.
    + simpl in H. destruct (IH _ H) as [l' ->]. eauto.
Qed.

Lemma upd_app {A} (l1 : list A) x l2 f :
  upd (l1 ++ x :: l2) (length l1) f = Ok (l1 ++ f x :: l2).
Proof. induction l1 as [|a l1 IH]; simpl; [reflexivity|]. rewrite IH. reflexivity. Qed.

Lemma nth_error_mid {A} (l1 : list A) x l2 : nth_error (l1 ++ x :: l2) (length l1) = Some x.
Proof. rewrite nth_error_app2 by lia. rewrite Nat.sub_diag. reflexivity. Qed.

Lemma nth_error_mid_other {A} (l1 : list A) x y l2 k :
  k <> length l1 -> nth_error (l1 ++ x :: l2) k = nth_error (l1 ++ y :: l2) k.
Proof.
  intros Hk. destruct (Nat.lt_ge_cases k (length l1)) as [Hlt|Hge].
  - rewrite !nth_error_app1 by lia. reflexivity.
  - rewrite !nth_error_app2 by lia. destruct (k - length l1) eqn:E; [lia|]. reflexivity.
Qed.

Lemma nth_error_split_at {A} (l : list A) k x :
  nth_error l k = Some x -> exists l1 l2, l = l1 ++ x :: l2 /\ length l1 = k.
Proof.
  intros H. destruct (nth_error_split _ _ H) as (l1 & l2 & -> & Hl). eauto.
Qed.

(* ------------------------------------------------------------------------------------------ *)
(* tracks, entries                                                                             *)
(* ------------------------------------------------------------------------------------------ *)
Definition all_entries (trs : list track) : list entry := concat (map entries trs).
Definition ids (tr : track) : list did := map snd (entries tr).
Definition all_ids_of (trs : list track) : list did := map snd (all_entries trs).

Lemma entries_append tr e : entries (t_append tr e) = entries tr ++ [e].
Proof. reflexivity. Qed.

Lemma entries_new e : entries (t_new e) = [e].
Proof. reflexivity. Qed.

Lemma entries_nonempty tr : entries tr <> [].
Proof. unfold entries. destruct (fst tr); discriminate. Qed.

Lemma ids_append tr e : ids (t_append tr e) = ids tr ++ [snd e].
Proof. unfold ids. rewrite entries_append, map_app. reflexivity. Qed.

Lemma ids_last tr : exists l, ids tr = l ++ [t_last tr].
Proof. unfold ids, entries, t_last. rewrite map_app. simpl. eauto. Qed.

Lemma t_last_append tr e : t_last (t_append tr e) = snd e.
Proof. reflexivity. Qed.

Lemma t_end_append tr e : t_end (t_append tr e) = fst e.
Proof. reflexivity. Qed.

(* DropletTrack.append on the list of time codes: an explicitly given time code -- 0 included -- is
   stored as given (it becomes track.end, which the frame loop compares with the previous frame's
   time); only an omitted one is replaced by the default *)
Lemma last_time_app ts t : last_time (ts ++ [t]) = Some t.
Proof.
  induction ts as [|a ts IH]; [reflexivity|].
  simpl. destruct (ts ++ [t]) eqn:E; [destruct ts; discriminate|]. exact IH.
Qed.

Lemma append_times_explicit ts t : last_time (append_times ts (Some t)) = Some t.
Proof. unfold append_times, append_time. apply last_time_app. Qed.

Lemma append_times_explicit_zero ts : last_time (append_times ts (Some 0%Q)) = Some 0%Q.
Proof. apply append_times_explicit. Qed.

Lemma append_times_default ts t :
  last_time ts = Some t -> last_time (append_times ts None) = Some (t + 1)%Q.
Proof. intros H. unfold append_times, append_time. rewrite H. apply last_time_app. Qed.

Lemma append_times_length ts o : length (append_times ts o) = S (length ts).
Proof. unfold append_times. rewrite app_length. simpl. apply Nat.add_1_r. Qed.

Lemma last_entry_in tr : In (snd tr) (entries tr).
Proof. unfold entries. apply in_or_app. right. left. reflexivity. Qed.

Lemma all_entries_app a b : all_entries (a ++ b) = all_entries a ++ all_entries b.
Proof. unfold all_entries. rewrite map_app, concat_app. reflexivity. Qed.

Lemma all_entries_cons tr l : all_entries (tr :: l) = entries tr ++ all_entries l.
Proof. reflexivity. Qed.

Lemma in_all_entries e trs : In e (all_entries trs) <-> exists tr, In tr trs /\ In e (entries tr).
Proof.
  unfold all_entries. rewrite in_concat. split.
  - intros (l & Hl & He). apply in_map_iff in Hl. destruct Hl as (tr & <- & Htr). eauto.
  - intros (tr & Htr & He). exists (entries tr). split; [apply in_map; exact Htr|exact He].
Qed.

(* ------------------------------------------------------------------------------------------ *)
(* adjacency inside a list, links, starts                                                      *)
(* ------------------------------------------------------------------------------------------ *)
Definition adjacent {A} (l : list A) (a b : A) : Prop := exists l1 l2, l = l1 ++ a :: b :: l2.

Lemma adjacent_nil {A} (a b : A) : ~ adjacent [] a b.
Proof. intros (l1 & l2 & H). destruct l1; discriminate. Qed.

Lemma adjacent_single {A} (x a b : A) : ~ adjacent [x] a b.
Proof. intros (l1 & l2 & H). destruct l1 as [|y [|z l1]]; discriminate. Qed.

Lemma adjacent_snoc {A} (l : list A) x d a b :
  adjacent ((l ++ [x]) ++ [d]) a b <-> adjacent (l ++ [x]) a b \/ (a = x /\ b = d).
Proof.
  split.
  - intros (l1 & l2 & H). destruct l2 as [|z l2' _] using rev_ind.
    + right. replace (l1 ++ [a; b]) with ((l1 ++ [a]) ++ [b]) in H by (rewrite <- app_assoc; reflexivity).
      apply app_inj_tail in H. destruct H as [H ->]. apply app_inj_tail in H. destruct H as [_ ->]. auto.
    + left. replace (l1 ++ a :: b :: l2' ++ [z]) with ((l1 ++ a :: b :: l2') ++ [z]) in H
        by (rewrite <- app_assoc; reflexivity).
      apply app_inj_tail in H. destruct H as [H _]. exists l1, l2'. exact H.
  - intros [(l1 & l2 & H)|[-> ->]].
    + exists l1, (l2 ++ [d]). rewrite H, <- !app_assoc. reflexivity.
    + exists l, []. rewrite <- app_assoc. reflexivity.
Qed.

Lemma adjacent_in {A} (l : list A) a b : adjacent l a b -> In a l /\ In b l.
Proof.
  intros (l1 & l2 & ->). split; apply in_or_app; right; simpl; auto.
Qed.

Definition linked (trs : list track) (a b : did) : Prop :=
  exists tr, In tr trs /\ adjacent (ids tr) a b.
Definition starts (trs : list track) (b : did) : Prop :=
  exists tr, In tr trs /\ exists l, ids tr = b :: l.
Definition ends (trs : list track) (a : did) : Prop :=
  exists tr, In tr trs /\ t_last tr = a.

Lemma linked_append tr e a b :
  adjacent (ids (t_append tr e)) a b <-> adjacent (ids tr) a b \/ (a = t_last tr /\ b = snd e).
Proof.
  rewrite ids_append. destruct (ids_last tr) as (l & ->). apply adjacent_snoc.
Qed.

Lemma head_append tr e b : (exists l, ids (t_append tr e) = b :: l) <-> (exists l, ids tr = b :: l).
Proof.
  rewrite ids_append. destruct (ids_last tr) as (l & ->).
  destruct l as [|x l]; simpl; split; intros (l' & H); inversion H; eauto.
Qed.

(* ------------------------------------------------------------------------------------------ *)
(* events                                                                                      *)
(* ------------------------------------------------------------------------------------------ *)
Fixpoint apply_events (t : Q) (trs : list track) (evs : list event) : res (list track) :=
  match evs with
  | [] => Ok trs
  | ev :: r => match apply_event t trs ev with
               | Ok trs1 => apply_events t trs1 r
               | Err e => Err e
               end
  end.

Lemma apply_events_app t trs evs1 evs2 trs1 :
  apply_events t trs evs1 = Ok trs1 ->
  apply_events t trs (evs1 ++ evs2) = apply_events t trs1 evs2.
Proof.
  revert trs. induction evs1 as [|ev evs1 IH]; intros trs H; simpl in *.
  - inversion H. reflexivity.
  - destruct (apply_event t trs ev) as [trs'|e]; [|discriminate]. apply IH. exact H.
Qed.

Lemma apply_events_app_inv t trs evs1 evs2 trs2 :
  apply_events t trs (evs1 ++ evs2) = Ok trs2 ->
  exists trs1, apply_events t trs evs1 = Ok trs1 /\ apply_events t trs1 evs2 = Ok trs2.
Proof.
  revert trs. induction evs1 as [|ev evs1 IH]; intros trs H; simpl in *.
  - eauto.
  - destruct (apply_event t trs ev) as [trs'|e]; [|discriminate]. apply IH. exact H.
Qed.

(* shape of one event *)
Lemma apply_append_split t trs k d trs' :
  apply_event t trs (Append k d) = Ok trs' ->
  exists l1 tr l2, trs = l1 ++ tr :: l2 /\ length l1 = k /\ trs' = l1 ++ t_append tr (t, d) :: l2.
Proof. simpl. apply upd_split. Qed.

Lemma apply_event_length t trs ev trs' :
  apply_event t trs ev = Ok trs' ->
  length trs' = match ev with Append _ _ => length trs | New _ => S (length trs) end.
Proof.
  destruct ev as [k d|d]; intros H.
  - destruct (apply_append_split _ _ _ _ _ H) as (l1 & tr & l2 & -> & _ & ->).
    rewrite !app_length. reflexivity.
  - simpl in H. inversion H. rewrite app_length. simpl. lia.
Qed.

Lemma apply_event_entries t trs ev trs' :
  apply_event t trs ev = Ok trs' ->
  Permutation (all_entries trs') (all_entries trs ++ [(t, ev_did ev)]).
Proof.
  destruct ev as [k d|d]; intros H.
  - destruct (apply_append_split _ _ _ _ _ H) as (l1 & tr & l2 & -> & _ & ->).
    rewrite !all_entries_app, !all_entries_cons, entries_append. simpl.
    rewrite <- !app_assoc. apply Permutation_app_head. apply Permutation_app_head.
    simpl. rewrite Permutation_app_comm. reflexivity.
  - simpl in H. inversion H. rewrite all_entries_app. reflexivity.
Qed.

Lemma apply_events_entries t trs evs trs' :
  apply_events t trs evs = Ok trs' ->
  Permutation (all_entries trs') (all_entries trs ++ map (fun ev => (t, ev_did ev)) evs).
Proof.
  revert trs. induction evs as [|ev evs IH]; intros trs H; simpl in *.
  - inversion H. rewrite app_nil_r. reflexivity.
  - destruct (apply_event t trs ev) as [trs1|e] eqn:E; [|discriminate].
    rewrite (IH _ H). rewrite (apply_event_entries _ _ _ _ E). rewrite <- app_assoc. reflexivity.
Qed.

(* prefix property: position k keeps its track, which only grows at the end *)
Definition ext (trs trs' : list track) : Prop :=
  length trs <= length trs' /\
  forall k tr, nth_error trs k = Some tr ->
               exists tr' suf, nth_error trs' k = Some tr' /\ entries tr' = entries tr ++ suf.

Lemma ext_refl trs : ext trs trs.
Proof. split; [lia|]. intros k tr H. exists tr, []. rewrite app_nil_r. auto. Qed.

Lemma ext_trans a b c : ext a b -> ext b c -> ext a c.
Proof.
  intros [L1 H1] [L2 H2]. split; [lia|]. intros k tr H.
  destruct (H1 _ _ H) as (tr1 & s1 & Hn1 & E1). destruct (H2 _ _ Hn1) as (tr2 & s2 & Hn2 & E2).
  exists tr2, (s1 ++ s2). split; [exact Hn2|]. rewrite E2, E1, app_assoc. reflexivity.
Qed.

Lemma apply_event_ext t trs ev trs' : apply_event t trs ev = Ok trs' -> ext trs trs'.
Proof.
  destruct ev as [k d|d]; intros H.
  - destruct (apply_append_split _ _ _ _ _ H) as (l1 & tr & l2 & -> & Hk & ->).
    split; [rewrite !app_length; simpl; lia|]. intros i tri Hi.
    destruct (Nat.eq_dec i (length l1)) as [->|Hne].
    + rewrite nth_error_mid in Hi. inversion Hi; subst tri.
      exists (t_append tr (t, d)), [(t, d)]. rewrite nth_error_mid. auto.
    + exists tri, []. rewrite app_nil_r. split; [|reflexivity].
      rewrite <- Hi. apply nth_error_mid_other. exact Hne.
  - simpl in H. inversion H. split; [rewrite app_length; lia|]. intros i tri Hi.
    exists tri, []. rewrite app_nil_r. split; [|reflexivity].
    rewrite nth_error_app1; [exact Hi|]. apply nth_error_Some. congruence.
Qed.

Lemma apply_events_ext t trs evs trs' : apply_events t trs evs = Ok trs' -> ext trs trs'.
Proof.
  revert trs. induction evs as [|ev evs IH]; intros trs H; simpl in *.
  - inversion H. apply ext_refl.
  - destruct (apply_event t trs ev) as [trs1|e] eqn:E; [|discriminate].
    eapply ext_trans; [eapply apply_event_ext; exact E|apply IH; exact H].
Qed.

(* the track at position k is untouched by events that do not append to k *)
Lemma apply_event_untouched t trs ev trs' k tr :
  apply_event t trs ev = Ok trs' -> (forall d, ev <> Append k d) ->
  nth_error trs k = Some tr -> nth_error trs' k = Some tr.
Proof.
  destruct ev as [k' d|d]; intros H Hne Hk.
  - destruct (apply_append_split _ _ _ _ _ H) as (l1 & tr0 & l2 & -> & Hk' & ->).
    rewrite <- Hk. apply nth_error_mid_other. intros ->. apply (Hne d). congruence.
  - simpl in H. inversion H. rewrite nth_error_app1; [exact Hk|]. apply nth_error_Some. congruence.
Qed.

Lemma apply_events_untouched t trs evs trs' k tr :
  apply_events t trs evs = Ok trs' -> (forall d, ~ In (Append k d) evs) ->
  nth_error trs k = Some tr -> nth_error trs' k = Some tr.
Proof.
  revert trs. induction evs as [|ev evs IH]; intros trs H Hne Hk; simpl in *.
  - inversion H; subst. exact Hk.
  - destruct (apply_event t trs ev) as [trs1|e] eqn:E; [|discriminate].
    apply (IH trs1 H).
    + intros d Hd. apply (Hne d). right. exact Hd.
    + eapply apply_event_untouched; [exact E| |exact Hk]. intros d ->. apply (Hne d). left. reflexivity.
Qed.

(* links and starts created by one event *)
Lemma in_mid_iff {A} (l1 : list A) x l2 y : In y (l1 ++ x :: l2) <-> y = x \/ In y (l1 ++ l2).
Proof.
  rewrite !in_app_iff. simpl. split; intros H; intuition congruence.
Qed.

Lemma apply_event_linked t trs ev trs' a b :
  apply_event t trs ev = Ok trs' ->
  (linked trs' a b <->
   linked trs a b \/ exists k tr, ev = Append k b /\ nth_error trs k = Some tr /\ a = t_last tr).
Proof.
  destruct ev as [k d|d]; intros H.
  - destruct (apply_append_split _ _ _ _ _ H) as (l1 & tr & l2 & -> & Hk & ->).
    unfold linked. split.
    + intros (tr' & Hin & Hadj). apply in_mid_iff in Hin. destruct Hin as [->|Hin].
      * apply linked_append in Hadj. destruct Hadj as [Hadj|[-> Hb]].
        -- left. exists tr. split; [apply in_mid_iff; auto|exact Hadj].
        -- right. simpl in Hb. subst b. exists k, tr. subst k. rewrite nth_error_mid. auto.
      * left. exists tr'. split; [apply in_mid_iff; auto|exact Hadj].
    + intros [(tr' & Hin & Hadj)|(k' & tr' & Hev & Hn & ->)].
      * apply in_mid_iff in Hin. destruct Hin as [->|Hin].
        -- exists (t_append tr (t, d)). split; [apply in_mid_iff; auto|].
           apply linked_append. left. exact Hadj.
        -- exists tr'. split; [apply in_mid_iff; auto|exact Hadj].
      * inversion Hev; subst k' d. subst k. rewrite nth_error_mid in Hn. inversion Hn; subst tr'.
        exists (t_append tr (t, b)). split; [apply in_mid_iff; auto|].
        apply linked_append. right. auto.
  - simpl in H. inversion H; subst trs'. unfold linked. split.
    + intros (tr & Hin & Hadj). apply in_app_iff in Hin. destruct Hin as [Hin|[<-|[]]].
      * left. eauto.
      * exfalso. unfold ids in Hadj. simpl in Hadj. eapply adjacent_single. exact Hadj.
    + intros [(tr & Hin & Hadj)|(k & tr & Hev & _)]; [|discriminate].
      exists tr. split; [apply in_app_iff; auto|exact Hadj].
Qed.

Lemma apply_event_starts t trs ev trs' b :
  apply_event t trs ev = Ok trs' -> (starts trs' b <-> starts trs b \/ ev = New b).
Proof.
  destruct ev as [k d|d]; intros H.
  - destruct (apply_append_split _ _ _ _ _ H) as (l1 & tr & l2 & -> & Hk & ->).
    unfold starts. split.
    + intros (tr' & Hin & Hh). left. apply in_mid_iff in Hin. destruct Hin as [->|Hin].
      * exists tr. split; [apply in_mid_iff; auto|]. exact (proj1 (head_append tr (t, d) b) Hh).
      * exists tr'. split; [apply in_mid_iff; auto|exact Hh].
    + intros [(tr' & Hin & Hh)|Hev]; [|discriminate].
      apply in_mid_iff in Hin. destruct Hin as [->|Hin].
      * exists (t_append tr (t, d)). split; [apply in_mid_iff; auto|]. exact (proj2 (head_append tr (t, d) b) Hh).
      * exists tr'. split; [apply in_mid_iff; auto|exact Hh].
  - simpl in H. inversion H; subst trs'. unfold starts. split.
    + intros (tr & Hin & (l & Hl)). apply in_app_iff in Hin. destruct Hin as [Hin|[<-|[]]].
      * left. eauto.
      * right. unfold ids in Hl. simpl in Hl. inversion Hl. reflexivity.
    + intros [(tr & Hin & Hh)|Hev].
      * exists tr. split; [apply in_app_iff; auto|exact Hh].
      * inversion Hev; subst d. exists (t_new (t, b)). split; [apply in_app_iff; right; left; reflexivity|].
        exists []. reflexivity.
Qed.

Lemma apply_events_starts t trs evs trs' b :
  apply_events t trs evs = Ok trs' -> (starts trs' b <-> starts trs b \/ In (New b) evs).
Proof.
  revert trs. induction evs as [|ev evs IH]; intros trs H; simpl in *.
  - inversion H; subst. tauto.
  - destruct (apply_event t trs ev) as [trs1|e] eqn:E; [|discriminate].
    rewrite (IH _ H). rewrite (apply_event_starts _ _ _ _ _ E). tauto.
Qed.

(* links only grow *)
Lemma apply_event_linked_mono t trs ev trs' a b :
  apply_event t trs ev = Ok trs' -> linked trs a b -> linked trs' a b.
Proof. intros H L. apply (apply_event_linked _ _ _ _ a b H). left. exact L. Qed.

Lemma apply_events_linked_mono t trs evs trs' a b :
  apply_events t trs evs = Ok trs' -> linked trs a b -> linked trs' a b.
Proof.
  revert trs. induction evs as [|ev evs IH]; intros trs H L; simpl in *.
  - inversion H; subst. exact L.
  - destruct (apply_event t trs ev) as [trs1|e] eqn:E; [|discriminate].
    apply (IH _ H). eapply apply_event_linked_mono; eauto.
Qed.

(* a new link always points to the droplet of the event that created it *)
Lemma apply_events_linked t trs evs trs' a b :
  apply_events t trs evs = Ok trs' ->
  (linked trs' a b <->
   linked trs a b \/
   exists evs1 k evs2 trs1 tr, evs = evs1 ++ Append k b :: evs2 /\ apply_events t trs evs1 = Ok trs1 /\
                               nth_error trs1 k = Some tr /\ a = t_last tr).
Proof.
  revert trs. induction evs as [|ev evs IH]; intros trs H; simpl in *.
  - inversion H; subst. split; [auto|]. intros [L|(evs1 & k & evs2 & ? & ? & E & _)]; [exact L|].
    destruct evs1; discriminate.
  - destruct (apply_event t trs ev) as [trs1|e] eqn:E; [|discriminate].
    rewrite (IH _ H). rewrite (apply_event_linked _ _ _ _ a b E). split.
    + intros [[L|(k & tr & -> & Hn & ->)]|(evs1 & k & evs2 & trs2 & tr & -> & Hap & Hn & ->)].
      * left. exact L.
      * right. exists [], k, evs, trs, tr. simpl. auto.
      * right. exists (ev :: evs1), k, evs2, trs2, tr. simpl. rewrite E. auto.
    + intros [L|(evs1 & k & evs2 & trs2 & tr & Hev & Hap & Hn & ->)]; [auto|].
      destruct evs1 as [|ev' evs1]; simpl in Hev; inversion Hev; subst.
      * simpl in Hap. inversion Hap; subst. left. right. eauto.
      * simpl in Hap. rewrite E in Hap. right. exists evs1, k, evs2, trs2, tr. auto.
Qed.

(* ------------------------------------------------------------------------------------------ *)
(* alive indices                                                                               *)
(* ------------------------------------------------------------------------------------------ *)
Lemma alive_from_spec k0 tp trs k :
  In k (alive_from k0 tp trs) <->
  exists tr, k0 <= k /\ nth_error trs (k - k0) = Some tr /\ alive_b tp tr = true.
Proof.
  revert k0. induction trs as [|tr0 trs IH]; intros k0; simpl.
  - split; [tauto|]. intros (tr & _ & H & _). destruct (k - k0); discriminate.
  - destruct (alive_b tp tr0) eqn:A; simpl; rewrite IH; split.
    + intros [<-|(tr & Hle & Hn & Ha)].
      * exists tr0. rewrite Nat.sub_diag. auto.
      * exists tr. split; [lia|]. replace (k - k0) with (S (k - S k0)) by lia. auto.
    + intros (tr & Hle & Hn & Ha). destruct (Nat.eq_dec k k0) as [->|Hne]; [auto|].
      right. exists tr. split; [lia|]. replace (k - k0) with (S (k - S k0)) in Hn by lia. auto.
    + intros (tr & Hle & Hn & Ha). exists tr. split; [lia|].
      replace (k - k0) with (S (k - S k0)) by lia. auto.
    + intros (tr & Hle & Hn & Ha). destruct (Nat.eq_dec k k0) as [->|Hne].
      * rewrite Nat.sub_diag in Hn. simpl in Hn. inversion Hn; subst. congruence.
      * exists tr. split; [lia|]. replace (k - k0) with (S (k - S k0)) in Hn by lia. auto.
Qed.

Lemma alive_idx_spec tp trs k :
  In k (alive_idx tp trs) <-> exists tr, nth_error trs k = Some tr /\ alive_b tp tr = true.
Proof.
  unfold alive_idx. rewrite alive_from_spec. rewrite Nat.sub_0_r. split.
  - intros (tr & _ & H). eauto.
  - intros (tr & H). exists tr. split; [lia|exact H].
Qed.

Lemma alive_from_sorted k0 tp trs : forall k, In k (alive_from k0 tp trs) -> k0 <= k.
Proof. intros k H. apply alive_from_spec in H. destruct H as (_ & H & _). exact H. Qed.

Lemma alive_from_nodup k0 tp trs : NoDup (alive_from k0 tp trs).
Proof.
  revert k0. induction trs as [|tr trs IH]; intros k0; simpl; [constructor|].
  destruct (alive_b tp tr); [|apply IH]. constructor; [|apply IH].
  intros H. apply alive_from_sorted in H. lia.
Qed.

Lemma alive_idx_nodup tp trs : NoDup (alive_idx tp trs).
Proof. apply alive_from_nodup. Qed.

Lemma alive_idx_none trs : alive_idx None trs = [].
Proof.
  unfold alive_idx. generalize 0. induction trs as [|tr trs IH]; intros k; simpl; auto.
Qed.

(* all indices valid *)
Definition valid_idx (alive : list nat) (trs : list track) : Prop :=
  forall k, In k alive -> k < length trs.

Lemma alive_idx_valid tp trs : valid_idx (alive_idx tp trs) trs.
Proof.
  intros k H. apply alive_idx_spec in H. destruct H as (tr & H & _).
  apply nth_error_Some. congruence.
Qed.

Lemma valid_idx_ext alive trs trs' : valid_idx alive trs -> ext trs trs' -> valid_idx alive trs'.
Proof. intros V [L _] k H. specialize (V k H). lia. Qed.

(* ------------------------------------------------------------------------------------------ *)
(* frame ids                                                                                   *)
(* ------------------------------------------------------------------------------------------ *)
Lemma in_frame_ids f n d : In d (frame_ids f n) <-> fst d = f /\ snd d < n.
Proof.
  unfold frame_ids. rewrite in_map_iff. split.
  - intros (j & <- & Hj). apply in_seq in Hj. simpl. lia.
  - intros [Hf Hj]. exists (snd d). split; [destruct d; simpl in *; congruence|apply in_seq; lia].
Qed.

Lemma frame_ids_nodup f n : NoDup (frame_ids f n).
Proof.
  unfold frame_ids. apply FinFun.Injective_map_NoDup; [|apply seq_NoDup].
  intros x y H. inversion H. reflexivity.
Qed.

Lemma frame_ids_length f n : length (frame_ids f n) = n.
Proof. unfold frame_ids. rewrite map_length, seq_length. reflexivity. Qed.

(* ids of a whole time course *)
Fixpoint all_ids_from (f : nat) (frames : list frame) : list did :=
  match frames with
  | [] => []
  | (_, n) :: rest => frame_ids f n ++ all_ids_from (S f) rest
  end.
Definition all_ids (frames : list frame) : list did := all_ids_from 0 frames.

Lemma all_ids_from_app f a b :
  all_ids_from f (a ++ b) = all_ids_from f a ++ all_ids_from (length a + f) b.
Proof.
  revert f. induction a as [|[t n] a IH]; intros f; simpl; [reflexivity|].
  rewrite IH, <- app_assoc. repeat f_equal. lia.
Qed.

Lemma in_all_ids_from f0 frames d :
  In d (all_ids_from f0 frames) <->
  exists t n, f0 <= fst d /\ nth_error frames (fst d - f0) = Some (t, n) /\ snd d < n.
Proof.
  revert f0. induction frames as [|[t n] frames IH]; intros f0; simpl.
  - split; [tauto|]. intros (t & n & _ & H & _). destruct (fst d - f0); discriminate.
  - rewrite in_app_iff, in_frame_ids, IH. split.
    + intros [[Hf Hj]|(t' & n' & Hle & Hn & Hj)].
      * exists t, n. rewrite Hf, Nat.sub_diag. simpl. auto.
      * exists t', n'. split; [lia|]. replace (fst d - f0) with (S (fst d - S f0)) by lia. auto.
    + intros (t' & n' & Hle & Hn & Hj). destruct (Nat.eq_dec (fst d) f0) as [E|Hne].
      * left. rewrite E, Nat.sub_diag in Hn. simpl in Hn. inversion Hn; subst. auto.
      * right. exists t', n'. split; [lia|].
        replace (fst d - f0) with (S (fst d - S f0)) in Hn by lia. auto.
Qed.

Lemma in_all_ids frames d :
  In d (all_ids frames) <-> exists t n, nth_error frames (fst d) = Some (t, n) /\ snd d < n.
Proof.
  unfold all_ids. rewrite in_all_ids_from. rewrite Nat.sub_0_r. split.
  - intros (t & n & _ & H). eauto.
  - intros (t & n & H). exists t, n. split; [lia|exact H].
Qed.

Lemma NoDup_app_intro {A} (l1 l2 : list A) :
  NoDup l1 -> NoDup l2 -> (forall x, In x l1 -> In x l2 -> False) -> NoDup (l1 ++ l2).
Proof.
  intros H1 H2 Hd. induction H1 as [|x l1 Hx H1 IH]; simpl; [exact H2|].
  constructor.
  - intros Hin. apply in_app_iff in Hin. destruct Hin as [Hin|Hin]; [auto|].
    apply (Hd x); [left; reflexivity|exact Hin].
  - apply IH. intros y Hy1 Hy2. apply (Hd y); [right; exact Hy1|exact Hy2].
Qed.

Lemma all_ids_from_nodup f frames : NoDup (all_ids_from f frames).
Proof.
  revert f. induction frames as [|[t n] frames IH]; intros f; simpl; [constructor|].
  apply NoDup_app_intro; [apply frame_ids_nodup|apply IH|].
  intros d H1 H2. apply in_frame_ids in H1. apply in_all_ids_from in H2.
  destruct H2 as (_ & _ & Hle & _). lia.
Qed.

(* ------------------------------------------------------------------------------------------ *)
(* the frame loop: invariant principle                                                         *)
(* ------------------------------------------------------------------------------------------ *)
Definition last_time (done : list frame) : option Q :=
  match rev done with [] => None | (t, _) :: _ => Some t end.

Lemma last_time_snoc done t n : last_time (done ++ [(t, n)]) = Some t.
Proof. unfold last_time. rewrite rev_app_distr. reflexivity. Qed.

Lemma run_inv_gen m (P : list frame -> list track -> Prop) frames :
  (forall done t n rest trs trs',
      frames = done ++ (t, n) :: rest -> P done trs ->
      step m t (length done) n (alive_idx (last_time done) trs) trs = Ok trs' ->
      P (done ++ [(t, n)]) trs') ->
  forall rest done trs trs',
    frames = done ++ rest -> P done trs ->
    run m rest (length done) (last_time done) trs = Ok trs' -> P frames trs'.
Proof.
  intros Hstep rest. induction rest as [|[t n] rest IH]; intros done trs trs' Hf HP Hrun; simpl in Hrun.
  - inversion Hrun; subst. rewrite app_nil_r. exact HP.
  - destruct (step m t (length done) n (alive_idx (last_time done) trs) trs) as [trs1|e] eqn:E; [|discriminate].
    apply (IH (done ++ [(t, n)]) trs1 trs').
    + rewrite <- app_assoc. exact Hf.
    + eapply Hstep; eauto.
    + rewrite app_length, last_time_snoc. simpl. rewrite Nat.add_1_r. exact Hrun.
Qed.

Lemma run_inv m (P : list frame -> list track -> Prop) frames :
  P [] [] ->
  (forall done t n rest trs trs',
      frames = done ++ (t, n) :: rest -> P done trs ->
      step m t (length done) n (alive_idx (last_time done) trs) trs = Ok trs' ->
      P (done ++ [(t, n)]) trs') ->
  forall trs, track_all m frames = Ok trs -> P frames trs.
Proof.
  intros H0 Hstep trs Hrun. eapply (run_inv_gen m P frames Hstep frames [] []); eauto.
Qed.

(* running a longer time course passes through the result of the shorter one *)
Lemma run_app m fr1 fr2 f tp trs trs2 :
  run m (fr1 ++ fr2) f tp trs = Ok trs2 ->
  exists trs1, run m fr1 f tp trs = Ok trs1 /\
               run m fr2 (length fr1 + f) (match rev fr1 with [] => tp | (t, _) :: _ => Some t end) trs1 = Ok trs2.
Proof.
  revert f tp trs. induction fr1 as [|[t n] fr1 IH]; intros f tp trs H; simpl in *.
  - eauto.
  - destruct (step m t f n (alive_idx tp trs) trs) as [trs'|e]; [|discriminate].
    destruct (IH _ _ _ H) as (trs1 & H1 & H2). exists trs1. split; [exact H1|].
    replace (S (length fr1 + f)) with (length fr1 + S f) by lia.
    destruct (rev fr1) as [|[t' n'] r] eqn:R; simpl.
    + exact H2.
    + exact H2.
Qed.

(* ------------------------------------------------------------------------------------------ *)
(* droplets of a frame                                                                         *)
(* ------------------------------------------------------------------------------------------ *)
Definition fr_of (e : entry) : nat := fst (snd e).
Definition track_frames (tr : track) : list nat := map fr_of (entries tr).

Lemma track_frames_append tr e : track_frames (t_append tr e) = track_frames tr ++ [fr_of e].
Proof. unfold track_frames. rewrite entries_append, map_app. reflexivity. Qed.

Lemma track_frames_last tr : exists l, track_frames tr = l ++ [fst (t_last tr)].
Proof. unfold track_frames, entries, t_last. rewrite map_app. simpl. eauto. Qed.

Lemma seq_snoc s n : seq s (S n) = seq s n ++ [s + n].
Proof. rewrite seq_S. reflexivity. Qed.

Lemma seq_last_eq s n l x : seq s (S n) = l ++ [x] -> x = s + n /\ l = seq s n.
Proof.
  rewrite seq_snoc. intros H. apply app_inj_tail in H. destruct H; auto.
Qed.

(* strictly increasing times are pairwise different *)
Definition times (frames : list frame) : list Q := map fst frames.
Definition distinct_times (frames : list frame) : Prop :=
  forall f g tf tg, nth_error (times frames) f = Some tf -> nth_error (times frames) g = Some tg ->
                    Qeq tf tg -> f = g.
Definition increasing_times (frames : list frame) : Prop :=
  forall f g tf tg, nth_error (times frames) f = Some tf -> nth_error (times frames) g = Some tg ->
                    f < g -> Qlt tf tg.

Lemma increasing_distinct frames : increasing_times frames -> distinct_times frames.
Proof.
  intros Hi f g tf tg Hf Hg Heq.
  destruct (Nat.lt_trichotomy f g) as [Hlt|[->|Hgt]]; [|reflexivity|].
  - specialize (Hi _ _ _ _ Hf Hg Hlt). rewrite Heq in Hi. exfalso. eapply Qlt_irrefl; eauto.
  - specialize (Hi _ _ _ _ Hg Hf Hgt). rewrite Heq in Hi. exfalso. eapply Qlt_irrefl; eauto.
Qed.

Lemma sorted_increasing frames : StronglySorted Qlt (times frames) -> increasing_times frames.
Proof.
  unfold increasing_times. generalize (times frames). intros l H.
  induction H as [|x l Hs IH Hall]; intros f g tf tg Hf Hg Hlt.
  - destruct f; discriminate.
  - destruct g as [|g]; [lia|]. simpl in Hg. destruct f as [|f]; simpl in Hf.
    + inversion Hf; subst. rewrite Forall_forall in Hall. apply Hall. eapply nth_error_In; eauto.
    + eapply IH; eauto. lia.
Qed.

Lemma distinct_times_prefix a b : distinct_times (a ++ b) -> distinct_times a.
Proof.
  unfold distinct_times, times. intros H f g tf tg Hf Hg. apply H; rewrite map_app.
  - rewrite nth_error_app1; [exact Hf|]. apply (proj1 (nth_error_Some (map fst a) f)). rewrite Hf. discriminate.
  - rewrite nth_error_app1; [exact Hg|]. apply (proj1 (nth_error_Some (map fst a) g)). rewrite Hg. discriminate.
Qed.

Lemma nth_error_times frames f t n : nth_error frames f = Some (t, n) -> nth_error (times frames) f = Some t.
Proof. intros H. unfold times. rewrite nth_error_map, H. reflexivity. Qed.
