From PD Require Import Model.Tracking.
Lemma stub_C06 : True. Proof. exact I. Qed.
