(* C06 -- tracking neither loses, duplicates nor alters droplets.
   Theorems about Model/Tracking.v (both methods), for any number of frames and droplets. *)
From Coq Require Import List Bool Arith Lia QArith Permutation Sorted.
Import ListNotations.
From PD Require Import Model.Tracking Proofs.Tracking Proofs.TrackingOv Proofs.TrackingDist.

Local Open Scope nat_scope.

(* ------------------------------------------------------------------------------------------ *)
(* auxiliary: ids of different tracks are different                                            *)
(* ------------------------------------------------------------------------------------------ *)
Lemma all_ids_of_concat trs : all_ids_of trs = concat (map ids trs).
Proof. unfold all_ids_of, all_entries, ids. rewrite concat_map, map_map. reflexivity. Qed.

Lemma concat_nodup_disjoint {A} (ls : list (list A)) : forall i j l1 l2 a,
  NoDup (concat ls) -> nth_error ls i = Some l1 -> nth_error ls j = Some l2 -> i < j ->
  In a l1 -> In a l2 -> False.
Proof.
  induction ls as [|l ls IH]; intros i j l1 l2 a Hn Hi Hj Hlt H1 H2; [destruct i; discriminate|].
  simpl in Hn. destruct j as [|j]; [lia|]. simpl in Hj.
  destruct i as [|i]; simpl in Hi.
  - inversion Hi; subst l1. clear Hi.
    assert (Hin : In a (concat ls)) by (apply in_concat; exists l2; split; [eapply nth_error_In; eauto|exact H2]).
    clear - Hn H1 Hin. induction l as [|x l IHl]; [destruct H1|].
    simpl in Hn. inversion Hn as [|? ? Hx Hn']; subst. destruct H1 as [->|H1].
    + apply Hx. apply in_app_iff. auto.
    + apply IHl; assumption.
  - apply (IH i j l1 l2 a); auto; [|lia]. clear - Hn. induction l as [|x l IHl]; [exact Hn|].
    simpl in Hn. inversion Hn; auto.
Qed.

Lemma tracks_disjoint trs k1 k2 tr1 tr2 a :
  NoDup (all_ids_of trs) -> nth_error trs k1 = Some tr1 -> nth_error trs k2 = Some tr2 ->
  In a (ids tr1) -> In a (ids tr2) -> k1 = k2.
Proof.
  intros Hn H1 H2 I1 I2. rewrite all_ids_of_concat in Hn.
  destruct (Nat.lt_trichotomy k1 k2) as [Hlt|[E|Hgt]]; [|exact E|]; exfalso.
  - apply (concat_nodup_disjoint (map ids trs) k1 k2 (ids tr1) (ids tr2) a Hn);
      [rewrite nth_error_map, H1; reflexivity|rewrite nth_error_map, H2; reflexivity|exact Hlt|exact I1|exact I2].
  - apply (concat_nodup_disjoint (map ids trs) k2 k1 (ids tr2) (ids tr1) a Hn);
      [rewrite nth_error_map, H2; reflexivity|rewrite nth_error_map, H1; reflexivity|exact Hgt|exact I2|exact I1].
Qed.

Lemma t_last_in_ids tr : In (t_last tr) (ids tr).
Proof. destruct (ids_last tr) as [l ->]. apply in_or_app. right. left. reflexivity. Qed.

Lemma lasts_nodup trs alive prev :
  NoDup (all_ids_of trs) -> NoDup alive -> lasts trs alive = Ok prev -> NoDup prev.
Proof.
  intros Hn Ha Hl. apply lasts_spec in Hl. apply NoDup_nth_error. intros i j Hi Hij.
  destruct (nth_error prev i) as [a|] eqn:Ei; [|apply nth_error_None in Ei; lia].
  symmetry in Hij.
  destruct (Forall2_nth_r _ _ _ Hl _ _ Ei) as (k1 & Hk1 & tr1 & Ht1 & L1).
  destruct (Forall2_nth_r _ _ _ Hl _ _ Hij) as (k2 & Hk2 & tr2 & Ht2 & L2).
  assert (k1 = k2).
  { eapply (tracks_disjoint trs k1 k2 tr1 tr2 a); eauto.
    - rewrite <- L1. apply t_last_in_ids.
    - rewrite <- L2. apply t_last_in_ids. }
  subst k2. rewrite NoDup_nth_error in Ha. apply Ha; [apply nth_error_Some; congruence|congruence].
Qed.

(* ------------------------------------------------------------------------------------------ *)
(* one frame = a sequence of events, one per droplet of the frame                              *)
(* ------------------------------------------------------------------------------------------ *)
Lemma step_events m t f n alive trs trs' :
  step m t f n alive trs = Ok trs' ->
  valid_idx alive trs -> NoDup alive -> NoDup (all_ids_of trs) ->
  exists evs, apply_events t trs evs = Ok trs' /\ Permutation (map ev_did evs) (frame_ids f n) /\
              forall k d, In (Append k d) evs -> In k alive.
Proof.
  intros H V Ha Hn. destruct m as [ov|D md]; simpl in H.
  - destruct (ov_frame_events ov t alive _ _ _ H) as (evs & Hap & Hm & Hal).
    exists evs. rewrite Hm. auto.
  - destruct (lasts_total trs alive V) as [prev Hl].
    assert (Hnp : NoDup prev) by (eapply lasts_nodup; eauto).
    destruct (dist_frame_spec D md t f n alive trs trs' H prev Hl Hnp)
      as (links & evsA & news & Hcf & F2 & Hnews & Hnn & Hap).
    exists (evsA ++ map New news). split; [exact Hap|]. split.
    + rewrite map_app, map_map. simpl. rewrite map_id.
      assert (E : map ev_did evsA = map snd links).
      { clear - F2. induction F2 as [|ab ev l1 l2 (i & k & _ & _ & ->) F IH]; simpl; [reflexivity|].
        rewrite IH. reflexivity. }
      rewrite E. apply NoDup_Permutation.
      * apply NoDup_app_intro; [apply (cf_snd _ _ _ _ _ _ Hcf)|exact Hnn|].
        intros b H1 H2. apply Hnews in H2. tauto.
      * apply frame_ids_nodup.
      * intros b. rewrite in_app_iff, Hnews. split.
        -- intros [Hb|[Hb _]]; [|exact Hb]. apply in_map_iff in Hb. destruct Hb as ([a b'] & <- & Hab).
           apply (cf_in _ _ _ _ _ _ Hcf) in Hab. tauto.
        -- intros Hb. destruct (in_dec did_eq_dec b (map snd links)); auto.
    + intros k d Hin. apply in_app_iff in Hin. destruct Hin as [Hin|Hin].
      * clear - F2 Hin. induction F2 as [|ab ev l1 l2 (i & k' & Hk & _ & ->) F IH]; [destruct Hin|].
        destruct Hin as [E|Hin]; [inversion E; subst; eapply nth_error_In; eauto|auto].
      * apply in_map_iff in Hin. destruct Hin as (? & ? & _). discriminate.
Qed.

(* ------------------------------------------------------------------------------------------ *)
(* the basic invariant: partition and time stamps                                              *)
(* ------------------------------------------------------------------------------------------ *)
Definition stamped (frames : list frame) (trs : list track) : Prop :=
  forall e, In e (all_entries trs) ->
            exists n, nth_error frames (fr_of e) = Some (fst e, n) /\ snd (snd e) < n.

Definition Inv0 (done : list frame) (trs : list track) : Prop :=
  Permutation (all_ids_of trs) (all_ids done) /\ stamped done trs.

Lemma Inv0_nodup done trs : Inv0 done trs -> NoDup (all_ids_of trs).
Proof.
  intros [Hp _]. eapply Permutation_NoDup; [symmetry; exact Hp|]. apply all_ids_from_nodup.
Qed.

Lemma all_ids_snoc done t n : all_ids (done ++ [(t, n)]) = all_ids done ++ frame_ids (length done) n.
Proof.
  unfold all_ids. rewrite all_ids_from_app. simpl. rewrite app_nil_r, Nat.add_0_r. reflexivity.
Qed.

Lemma Inv0_step m done t n trs trs' :
  Inv0 done trs ->
  step m t (length done) n (alive_idx (last_time done) trs) trs = Ok trs' ->
  Inv0 (done ++ [(t, n)]) trs' /\
  exists evs, apply_events t trs evs = Ok trs' /\
              Permutation (map ev_did evs) (frame_ids (length done) n) /\
              forall k d, In (Append k d) evs -> In k (alive_idx (last_time done) trs).
Proof.
  intros I H. assert (Hn := Inv0_nodup _ _ I). destruct I as [Hp Hs].
  destruct (step_events _ _ _ _ _ _ _ H (alive_idx_valid _ _) (alive_idx_nodup _ _) Hn)
    as (evs & Hap & Hperm & Hal).
  split; [|eauto]. split.
  - unfold all_ids_of. rewrite (apply_events_entries _ _ _ _ Hap), map_app, map_map. simpl.
    rewrite all_ids_snoc. apply Permutation_app; [exact Hp|exact Hperm].
  - intros e He. apply (Permutation_in _ (apply_events_entries _ _ _ _ Hap)) in He.
    apply in_app_iff in He. destruct He as [He|He].
    + destruct (Hs e He) as (n' & Hn' & Hj). exists n'. split; [|exact Hj].
      rewrite nth_error_app1; [exact Hn'|]. apply nth_error_Some. congruence.
    + apply in_map_iff in He. destruct He as (ev & <- & Hev).
      assert (Hd : In (ev_did ev) (frame_ids (length done) n)).
      { eapply Permutation_in; [exact Hperm|]. apply in_map. exact Hev. }
      apply in_frame_ids in Hd. destruct Hd as [Hf Hj]. unfold fr_of. simpl. exists n.
      rewrite Hf, nth_error_mid. auto.
Qed.

Lemma Inv0_final m frames trs : track_all m frames = Ok trs -> Inv0 frames trs.
Proof.
  apply (run_inv m Inv0).
  - split; [reflexivity|]. intros e [].
  - intros done t n rest trs0 trs' _ I H. apply (Inv0_step m done t n trs0 trs' I H).
Qed.

(* ------------------------------------------------------------------------------------------ *)
(* Theorems: partition, time stamps, totality, prefix                                          *)
(* ------------------------------------------------------------------------------------------ *)
Theorem track_partition m frames trs :
  track_all m frames = Ok trs ->
  Permutation (all_ids_of trs) (all_ids frames) /\ NoDup (all_ids_of trs).
Proof.
  intros H. assert (I := Inv0_final _ _ _ H). split; [apply I|eapply Inv0_nodup; eauto].
Qed.

Theorem track_time_stamp m frames trs :
  track_all m frames = Ok trs ->
  forall tr t d, In tr trs -> In (t, d) (entries tr) ->
                 exists n, nth_error frames (fst d) = Some (t, n) /\ snd d < n.
Proof.
  intros H tr t d Htr He. destruct (Inv0_final _ _ _ H) as [_ Hs].
  apply (Hs (t, d)). apply in_all_entries. eauto.
Qed.

Lemma step_total m t f n alive trs :
  valid_idx alive trs -> exists trs', step m t f n alive trs = Ok trs'.
Proof.
  intros V. destruct m as [ov|D md]; simpl.
  - apply ov_frame_total. exact V.
  - apply dist_frame_total. exact V.
Qed.

Theorem track_total m frames : exists trs, track_all m frames = Ok trs.
Proof.
  unfold track_all. generalize 0 (@None Q) (@nil track).
  induction frames as [|[t n] frames IH]; intros f tp trs; simpl; [eauto|].
  destruct (step_total m t f n (alive_idx tp trs) trs (alive_idx_valid _ _)) as [trs' ->]. apply IH.
Qed.

(* the guard of the distance method is what makes it total: without it, cdist is called with an
   empty point set as soon as a frame without droplets follows a frame with droplets *)
Example unguarded_fails :
  dist_frame_unguarded (fun _ _ => 1%Q) None 1%Q 1 0 [0] [t_new (0%Q, (0, 0))] = Err ECdistEmpty.
Proof. reflexivity. Qed.

(* tracking a longer time course extends the tracks of the shorter one: earlier entries are never
   changed, tracks keep their position *)
Theorem track_prefix m fr1 fr2 trs2 :
  track_all m (fr1 ++ fr2) = Ok trs2 ->
  exists trs1, track_all m fr1 = Ok trs1 /\ ext trs1 trs2.
Proof.
  intros H. unfold track_all in H. destruct (run_app _ _ _ _ _ _ _ H) as (trs1 & H1 & H2).
  exists trs1. split; [exact H1|].
  assert (I1 : Inv0 fr1 trs1) by (apply (Inv0_final m); exact H1).
  set (P := fun (done : list frame) (trs : list track) => Inv0 done trs /\ ext trs1 trs).
  assert (G : P (fr1 ++ fr2) trs2).
  { apply (run_inv_gen m P (fr1 ++ fr2)) with (rest := fr2) (done := fr1) (trs := trs1).
    - intros done t n rest trs trs' _ [I E] Hs.
      destruct (Inv0_step m done t n trs trs' I Hs) as (I' & evs & Hap & _).
      split; [exact I'|]. eapply ext_trans; [exact E|]. eapply apply_events_ext; eauto.
    - reflexivity.
    - split; [exact I1|apply ext_refl].
    - rewrite Nat.add_0_r in H2. unfold last_time. exact H2. }
  apply G.
Qed.

(* ------------------------------------------------------------------------------------------ *)
(* one droplet per frame, gap-free                                                             *)
(* ------------------------------------------------------------------------------------------ *)
Definition consec (tr : track) : Prop := exists s, track_frames tr = seq s (length (entries tr)).

(* droplets of one frame do not overlap an EARLIER droplet of the same frame (what the code needs;
   implied by "the droplets within each frame do not overlap one another") *)
Definition inframe_ok (ov : did -> did -> bool) (frames : list frame) : Prop :=
  forall f t n j0 j, nth_error frames f = Some (t, n) -> j0 < j -> j < n -> ov (f, j0) (f, j) = false.

Definition method_ok (m : method) (frames : list frame) : Prop :=
  match m with MOverlap ov => inframe_ok ov frames | MDistance _ _ => True end.

Lemma consec_new e : consec (t_new e).
Proof. exists (fr_of e). reflexivity. Qed.

Lemma consec_append tr e : consec tr -> fst (t_last tr) + 1 = fr_of e -> consec (t_append tr e).
Proof.
  intros [s Hs] Hl. exists s. rewrite track_frames_append, entries_append, app_length. simpl.
  rewrite Nat.add_1_r, seq_snoc, Hs. f_equal. f_equal.
  destruct (track_frames_last tr) as [l Hl']. rewrite Hl' in Hs.
  assert (Hlen : length (entries tr) = S (length l)).
  { apply (f_equal (@length _)) in Hl'. unfold track_frames in Hl'.
    rewrite map_length, app_length in Hl'. simpl in Hl'. lia. }
  rewrite Hlen in Hs. symmetry in Hs. apply seq_last_eq in Hs. destruct Hs as [Hx _]. lia.
Qed.

Lemma last_time_nth done tl :
  last_time done = Some tl -> exists n, nth_error done (length done - 1) = Some (tl, n).
Proof.
  unfold last_time. destruct done as [|x done _] using rev_ind; [discriminate|].
  rewrite rev_app_distr. simpl. destruct x as [t n]. intros E. inversion E; subst.
  exists n. rewrite app_length. simpl. replace (length done + 1 - 1) with (length done) by lia.
  apply nth_error_mid.
Qed.

(* with pairwise different times, "alive" means: the last droplet is from the previous frame *)
Lemma alive_last_frame done trs k tr :
  Inv0 done trs -> distinct_times done ->
  In k (alive_idx (last_time done) trs) -> nth_error trs k = Some tr ->
  fst (t_last tr) + 1 = length done.
Proof.
  intros [_ Hs] Hd Hk Htr. apply alive_idx_spec in Hk. destruct Hk as (tr' & Htr' & Ha).
  rewrite Htr in Htr'. inversion Htr'; subst tr'. unfold alive_b in Ha.
  destruct (last_time done) as [tl|] eqn:E; [|discriminate].
  apply Qeq_bool_iff in Ha. destruct (last_time_nth _ _ E) as [n Hn].
  destruct (Hs (snd tr)) as (n' & Hn' & _).
  { apply in_all_entries. exists tr. split; [eapply nth_error_In; eauto|apply last_entry_in]. }
  assert (Hlen : length done <> 0) by (intros E0; destruct done; [discriminate|discriminate]).
  assert (fr_of (snd tr) = length done - 1).
  { apply (Hd _ _ (t_end tr) tl); [eapply nth_error_times; eauto|eapply nth_error_times; eauto|exact Ha]. }
  unfold fr_of, t_last in *. lia.
Qed.

(* appending, each alive track at most once, to tracks that end in the previous frame *)
Fixpoint targets (evs : list event) : list nat :=
  match evs with
  | [] => []
  | Append k _ :: r => k :: targets r
  | New _ :: r => targets r
  end.

Lemma in_targets k evs : In k (targets evs) <-> exists d, In (Append k d) evs.
Proof.
  induction evs as [|[k' d'|d'] evs IH]; simpl.
  - split; [tauto|]. intros (d & []).
  - rewrite IH. split.
    + intros [->|(d & Hd)]; eauto.
    + intros (d & [E|Hd]); [inversion E; auto|eauto].
  - rewrite IH. split.
    + intros (d & Hd). eauto.
    + intros (d & [E|Hd]); [discriminate|eauto].
Qed.

Lemma consec_events t f evs : forall trs trs',
  apply_events t trs evs = Ok trs' ->
  (forall tr, In tr trs -> consec tr) ->
  NoDup (targets evs) ->
  (forall ev, In ev evs -> fst (ev_did ev) = f) ->
  (forall k d, In (Append k d) evs -> exists tr, nth_error trs k = Some tr /\ fst (t_last tr) + 1 = f) ->
  forall tr, In tr trs' -> consec tr.
Proof.
  induction evs as [|ev evs IH]; intros trs trs' H Hc Hnd Hf Hst; simpl in H.
  - inversion H; subst. exact Hc.
  - destruct (apply_event t trs ev) as [trs1|e] eqn:E; [|discriminate].
    apply (IH trs1 trs' H).
    + destruct ev as [k d|d].
      * destruct (apply_append_split _ _ _ _ _ E) as (l1 & tr0 & l2 & -> & Hk & ->).
        intros tr Hin. apply in_mid_iff in Hin. destruct Hin as [->|Hin].
        -- apply consec_append; [apply Hc; apply in_mid_iff; auto|].
           destruct (Hst k d (or_introl eq_refl)) as (tr1 & Hn1 & Hl1).
           subst k. rewrite nth_error_mid in Hn1. inversion Hn1; subst tr1.
           pose proof (Hf (Append (length l1) d) (or_introl eq_refl)) as Hfd. unfold fr_of. simpl in *. lia.
        -- apply Hc. apply in_mid_iff. auto.
      * simpl in E. inversion E; subst trs1. intros tr Hin. apply in_app_iff in Hin.
        destruct Hin as [Hin|[<-|[]]]; [auto|apply consec_new].
    + destruct ev; simpl in Hnd; [inversion Hnd; assumption|exact Hnd].
    + intros ev' Hin. apply Hf. right. exact Hin.
    + intros k d Hin. destruct (Hst k d (or_intror Hin)) as (tr & Hn & Hl). exists tr. split; [|exact Hl].
      eapply apply_event_untouched; [exact E| |exact Hn].
      intros d' ->. simpl in Hnd. inversion Hnd as [|? ? Hnotin _]; subst. apply Hnotin.
      apply in_targets. eauto.
Qed.

Definition Inv1 (done : list frame) (trs : list track) : Prop :=
  Inv0 done trs /\ forall tr, In tr trs -> consec tr.

Lemma nodup_targets_dist (alive : list nat) (prev : list did) links evsA :
  NoDup alive -> NoDup (map fst links) ->
  Forall2 (fun (ab : did * did) ev => exists i k, nth_error alive i = Some k /\ nth_error prev i = Some (fst ab) /\
                                    ev = Append k (snd ab)) links evsA ->
  NoDup (targets evsA).
Proof.
  intros Ha Hl F. induction F as [|ab ev l1 l2 (i & k & Hk & Hp & ->) F IH]; simpl; [constructor|].
  simpl in Hl. inversion Hl as [|? ? Hnotin Hl']; subst. constructor; [|apply IH; exact Hl'].
  intros Hin. apply Hnotin. clear - Ha Hk Hp F Hin.
  induction F as [|ab' ev' l1 l2 (i' & k' & Hk' & Hp' & ->) F IH]; simpl in *; [destruct Hin|].
  destruct Hin as [->|Hin]; [|right; apply IH; exact Hin].
  left. assert (i' = i) by (eapply nodup_nth_inj; eauto). subst i'. congruence.
Qed.

Lemma targets_app a b : targets (a ++ b) = targets a ++ targets b.
Proof. induction a as [|[k d|d] a IH]; simpl; congruence. Qed.

Lemma targets_news ds : targets (map New ds) = [].
Proof. induction ds; simpl; auto. Qed.

Lemma Inv1_step m frames done t n rest trs trs' :
  distinct_times frames -> method_ok m frames ->
  frames = done ++ (t, n) :: rest -> Inv1 done trs ->
  step m t (length done) n (alive_idx (last_time done) trs) trs = Ok trs' ->
  Inv1 (done ++ [(t, n)]) trs'.
Proof.
  intros Hd Hm Hfr [I Hc] H.
  destruct (Inv0_step m done t n trs trs' I H) as (I' & _). split; [exact I'|].
  assert (Hdd : distinct_times done).
  { subst frames. eapply distinct_times_prefix; eauto. }
  assert (Hal : forall k tr, In k (alive_idx (last_time done) trs) -> nth_error trs k = Some tr ->
                             fst (t_last tr) + 1 = length done).
  { intros k tr. apply alive_last_frame; assumption. }
  set (alive := alive_idx (last_time done) trs) in *.
  destruct m as [ov|D md]; simpl in H.
  - (* overlap *)
    simpl in Hm.
    set (Q := fun (cur : list track) (pre : list did) =>
                (forall tr, In tr cur -> consec tr) /\
                forall k, In k alive -> exists tr, nth_error cur k = Some tr /\
                                                 (fst (t_last tr) + 1 = length done \/ In (t_last tr) pre)).
    assert (G : Q trs' (frame_ids (length done) n)); [|apply G].
    apply (ov_frame_inv ov t alive Q (frame_ids (length done) n) trs); [| |exact H].
    + split; [exact Hc|]. intros k Hk.
      assert (Hlt : k < length trs) by (apply (alive_idx_valid _ _ k Hk)).
      destruct (nth_error trs k) as [tr|] eqn:E; [|apply nth_error_None in E; lia].
      exists tr. split; [reflexivity|]. left. eapply Hal; eauto.
    + intros cur pre d post ev cur' Hds [Qc Qa] Hev Hap.
      destruct (frame_ids_split _ _ _ _ _ Hds) as (Hfd & Hjd & Hjn & Hpre & _).
      destruct (ov_event_cases ov _ _ _ _ Hev) as [(k & -> & Hfil)|[-> _]].
      * destruct (ov_event_append ov _ _ _ _ _ Hev) as (_ & Hk & tr & Hn & Hov).
        destruct (apply_append_split _ _ _ _ _ Hap) as (l1 & tr0 & l2 & -> & Hlen & ->).
        subst k. rewrite nth_error_mid in Hn. inversion Hn; subst tr0. clear Hn.
        destruct (Qa _ Hk) as (tr1 & Hn1 & Hor). rewrite nth_error_mid in Hn1. inversion Hn1; subst tr1.
        assert (Hfr1 : fst (t_last tr) + 1 = length done).
        { destruct Hor as [Hor|Hor]; [exact Hor|]. exfalso.
          destruct (Hpre _ Hor) as [Hf0 Hj0].
          assert (Hnf : nth_error frames (length done) = Some (t, n)) by (subst frames; apply nth_error_mid).
          specialize (Hm (length done) t n (snd (t_last tr)) (snd d) Hnf Hj0 Hjn).
          rewrite <- Hf0 in Hm at 1. rewrite <- Hfd in Hm. rewrite <- !surjective_pairing in Hm. congruence. }
        split.
        -- intros tr' Hin. apply in_mid_iff in Hin. destruct Hin as [->|Hin].
           ++ apply consec_append; [apply Qc; apply in_mid_iff; auto|]. unfold fr_of. simpl. lia.
           ++ apply Qc. apply in_mid_iff. auto.
        -- intros k' Hk'. destruct (Nat.eq_dec k' (length l1)) as [->|Hne].
           ++ exists (t_append tr (t, d)). rewrite nth_error_mid. split; [reflexivity|].
              right. apply in_or_app. right. left. reflexivity.
           ++ destruct (Qa _ Hk') as (tr' & Hn' & Hor').
              exists tr'. split.
              ** rewrite <- Hn'. apply nth_error_mid_other. exact Hne.
              ** destruct Hor'; [auto|right; apply in_or_app; auto].
      * simpl in Hap. inversion Hap; subst cur'. split.
        -- intros tr Hin. apply in_app_iff in Hin. destruct Hin as [Hin|[<-|[]]]; [auto|apply consec_new].
        -- intros k Hk. destruct (Qa _ Hk) as (tr & Hn & Hor). exists tr. split.
           ++ rewrite nth_error_app1; [exact Hn|]. apply nth_error_Some. congruence.
           ++ destruct Hor; [auto|right; apply in_or_app; auto].
  - (* distance *)
    assert (Hn0 := Inv0_nodup _ _ I).
    destruct (lasts_total trs alive (alive_idx_valid _ _)) as [prev Hl].
    assert (Hnp : NoDup prev) by (eapply lasts_nodup; eauto; apply alive_idx_nodup).
    destruct (dist_frame_spec D md t (length done) n alive trs trs' H prev Hl Hnp)
      as (links & evsA & news & Hcf & F2 & Hnews & Hnn & Hap).
    apply (consec_events t (length done) _ _ _ Hap Hc).
    + rewrite targets_app, targets_news, app_nil_r.
      eapply nodup_targets_dist; [apply alive_idx_nodup|apply (cf_fst _ _ _ _ _ _ Hcf)|exact F2].
    + intros ev Hin. apply in_app_iff in Hin. destruct Hin as [Hin|Hin].
      * assert (Hx : exists ab, In ab links /\ ev_did ev = snd ab).
        { clear - F2 Hin. induction F2 as [|ab ev' l1 l2 (i & k & _ & _ & ->) F IH]; [destruct Hin|].
          destruct Hin as [<-|Hin]; [exists ab; simpl; auto|].
          destruct (IH Hin) as (ab' & H1 & H2). exists ab'. simpl. auto. }
        destruct Hx as ([a b] & Hab & ->). apply (cf_in _ _ _ _ _ _ Hcf) in Hab.
        destruct Hab as (_ & Hb & _). apply in_frame_ids in Hb. tauto.
      * apply in_map_iff in Hin. destruct Hin as (b & <- & Hb). apply Hnews in Hb.
        destruct Hb as [Hb _]. apply in_frame_ids in Hb. tauto.
    + intros k d Hin. apply in_app_iff in Hin. destruct Hin as [Hin|Hin].
      * assert (Hk : In k alive).
        { clear - F2 Hin. induction F2 as [|ab ev l1 l2 (i & k' & Hk & _ & ->) F IH]; [destruct Hin|].
          destruct Hin as [E|Hin]; [inversion E; subst; eapply nth_error_In; eauto|auto]. }
        assert (Hlt : k < length trs) by (apply (alive_idx_valid _ _ k Hk)).
        destruct (nth_error trs k) as [tr|] eqn:E; [|apply nth_error_None in E; lia].
        exists tr. split; [reflexivity|]. eapply Hal; eauto.
      * apply in_map_iff in Hin. destruct Hin as (? & ? & _). discriminate.
Qed.

Theorem track_consecutive m frames trs :
  distinct_times frames -> method_ok m frames ->
  track_all m frames = Ok trs ->
  forall tr, In tr trs -> exists s, track_frames tr = seq s (length (entries tr)).
Proof.
  intros Hd Hm H.
  assert (G : Inv1 frames trs); [|apply G].
  apply (run_inv m Inv1 frames); [| |exact H].
  - split; [split; [reflexivity|intros e []]|intros tr []].
  - intros done t n rest trs0 trs' Hfr I Hs. eapply Inv1_step; eauto.
Qed.

(* at most one droplet per frame ... *)
Theorem track_one_per_frame m frames trs :
  increasing_times frames -> method_ok m frames -> track_all m frames = Ok trs ->
  forall tr, In tr trs -> NoDup (track_frames tr).
Proof.
  intros Hi Hm H tr Htr.
  destruct (track_consecutive m frames trs (increasing_distinct _ Hi) Hm H tr Htr) as [s ->].
  apply seq_NoDup.
Qed.

(* ... covering a gap-free run of consecutive frames *)
Theorem track_gap_free m frames trs :
  increasing_times frames -> method_ok m frames -> track_all m frames = Ok trs ->
  forall tr f1 f2 g, In tr trs -> In f1 (track_frames tr) -> In f2 (track_frames tr) ->
                     f1 <= g <= f2 -> In g (track_frames tr).
Proof.
  intros Hi Hm H tr f1 f2 g Htr H1 H2 Hg.
  destruct (track_consecutive m frames trs (increasing_distinct _ Hi) Hm H tr Htr) as [s E].
  rewrite E in *. apply in_seq in H1. apply in_seq in H2. apply in_seq. lia.
Qed.

(* without the in-frame hypothesis the overlap method can put two droplets of one frame into one
   track: a droplet that overlaps the droplet appended just before it follows it *)
Definition ov_chain (a b : did) : bool :=
  (did_eqb a (0, 0) && did_eqb b (1, 0)) || (did_eqb a (1, 0) && did_eqb b (1, 1)).

Example overlap_two_per_frame_without_hypothesis :
  track_all (MOverlap ov_chain) [(0%Q, 1); (1%Q, 2)]
  = Ok [([(0%Q, (0, 0)); (1%Q, (1, 0))], (1%Q, (1, 1)))].
Proof. vm_compute. reflexivity. Qed.

(* ------------------------------------------------------------------------------------------ *)
(* statements as used in Properties/C06.v (times strictly increasing = StronglySorted Qlt)     *)
(* ------------------------------------------------------------------------------------------ *)
Definition times_increasing (frames : list frame) : Prop := StronglySorted Qlt (times frames).

Lemma c06_partition : forall m frames trs,
  track_all m frames = Ok trs ->
  Permutation (all_ids_of trs) (all_ids frames) /\ NoDup (all_ids_of trs).
Proof. exact track_partition. Qed.

Lemma c06_time_stamp : forall m frames trs,
  track_all m frames = Ok trs ->
  forall tr t d, In tr trs -> In (t, d) (entries tr) ->
                 exists n, nth_error frames (fst d) = Some (t, n) /\ snd d < n.
Proof. exact track_time_stamp. Qed.

Lemma c06_total : forall m frames, exists trs, track_all m frames = Ok trs.
Proof. exact track_total. Qed.

Lemma c06_prefix : forall m fr1 fr2 trs2,
  track_all m (fr1 ++ fr2) = Ok trs2 ->
  exists trs1, track_all m fr1 = Ok trs1 /\
    length trs1 <= length trs2 /\
    forall k tr, nth_error trs1 k = Some tr ->
                 exists tr' suf, nth_error trs2 k = Some tr' /\ entries tr' = entries tr ++ suf.
Proof. exact track_prefix. Qed.

Lemma c06_one_per_frame : forall m frames trs,
  times_increasing frames -> method_ok m frames -> track_all m frames = Ok trs ->
  forall tr, In tr trs -> NoDup (track_frames tr).
Proof.
  intros m frames trs Hs. apply track_one_per_frame. apply sorted_increasing. exact Hs.
Qed.

Lemma c06_gap_free : forall m frames trs,
  times_increasing frames -> method_ok m frames -> track_all m frames = Ok trs ->
  forall tr, In tr trs -> exists s, track_frames tr = seq s (length (entries tr)).
Proof.
  intros m frames trs Hs. apply track_consecutive. apply increasing_distinct, sorted_increasing. exact Hs.
Qed.

Lemma c06_gap_free_between : forall m frames trs,
  times_increasing frames -> method_ok m frames -> track_all m frames = Ok trs ->
  forall tr f1 f2 g, In tr trs -> In f1 (track_frames tr) -> In f2 (track_frames tr) ->
                     f1 <= g <= f2 -> In g (track_frames tr).
Proof.
  intros m frames trs Hs. apply track_gap_free. apply sorted_increasing. exact Hs.
Qed.

(* a concrete time course satisfying the hypotheses: 4 frames, one of them empty, a droplet that
   continues, one that disappears, one that appears *)
Definition ex_frames : list frame := [(0%Q, 2); ((1 # 2)%Q, 1); (2%Q, 0); (3%Q, 1)].
Definition ex_ov (a b : did) : bool := did_eqb a (0, 0) && did_eqb b (1, 0).

Lemma ex_increasing : times_increasing ex_frames.
Proof.
  unfold times_increasing, ex_frames, times. simpl.
  repeat (constructor; [|repeat (constructor; try reflexivity)]). constructor.
Qed.

Lemma ex_inframe : method_ok (MOverlap ex_ov) ex_frames.
Proof.
  intros f t n j0 j Hn Hlt Hj. unfold ex_ov.
  destruct f as [|[|[|[|f]]]]; simpl in Hn; inversion Hn; subst; try lia.
  - assert (j = 1) by lia. assert (j0 = 0) by lia. subst. reflexivity.
  - destruct f; discriminate.
Qed.

Lemma ex_result :
  track_all (MOverlap ex_ov) ex_frames
  = Ok [([(0%Q, (0, 0))], ((1 # 2)%Q, (1, 0))); ([], (0%Q, (0, 1))); ([], (3%Q, (3, 0)))].
Proof. vm_compute. reflexivity. Qed.

Lemma ex_result_dist :
  track_all (MDistance (fun a b => if did_eqb a (0, 0) then 1%Q else 3%Q) (Some 2%Q)) ex_frames
  = Ok [([(0%Q, (0, 0))], ((1 # 2)%Q, (1, 0))); ([], (0%Q, (0, 1))); ([], (3%Q, (3, 0)))].
Proof. vm_compute. reflexivity. Qed.

Lemma overlap_two_per_frame_witness :
  exists ov frames trs tr, track_all (MOverlap ov) frames = Ok trs /\ In tr trs /\
                           ~ NoDup (track_frames tr).
Proof.
  exists ov_chain, [(0%Q, 1); (1%Q, 2)], [([(0%Q, (0, 0)); (1%Q, (1, 0))], (1%Q, (1, 1)))],
         ([(0%Q, (0, 0)); (1%Q, (1, 0))], (1%Q, (1, 1))).
  split; [exact overlap_two_per_frame_without_hypothesis|]. split; [left; reflexivity|].
  intros H. unfold track_frames, entries, fr_of in H. simpl in H.
  inversion H as [|? ? _ H']; subst. inversion H' as [|? ? Hn _]; subst. apply Hn. left. reflexivity.
Qed.
