(* C20 -- collections stay aligned and own their droplets under any sequence of edits.
   Statements in the form used by Properties/C20.v; the work is in Proofs/Heap*.v. *)
From Coq Require Import List Arith Bool QArith Lia Permutation.
Import ListNotations.
From PD Require Import Model.Heap Proofs.Heap Proofs.HeapWf Proofs.HeapSep Proofs.HeapTimes Proofs.HeapNI Proofs.HeapRefine
  Proofs.HeapStats.
Local Open Scope nat_scope.

(* ---- invariants of all heaps reachable from the empty heap ---- *)

Theorem reachable_wf_aligned os : wf (run emp os) /\ Aligned (run emp os).
Proof. split; [apply wf_run, wf_emp|apply aligned_run; [apply wf_emp|apply Aligned_emp]]. Qed.

(* times and members have equal length, for every time course and every track, and no times list
   object is held twice (by two collections, or by a collection and a caller variable), after ANY
   operation sequence (default flags or not, failing operations included) *)
Theorem times_members_aligned os :
  let h := run emp os in
  (forall t tc, nth_error (tcs h) t = Some tc -> length (tc_times h tc) = length (tc_ems tc)) /\
  (forall k tr, nth_error (trs h) k = Some tr -> length (tr_times h tr) = length (tr_drops tr)) /\
  NoDup (tl_roots h).
Proof.
  destruct (reachable_wf_aligned os) as [_ (S & A1 & A2)]. cbn zeta. split; [|split].
  - intros t tc H. eapply Forall_nth_error in H; [|exact A1]. exact H.
  - intros k tr H. eapply Forall_nth_error in H; [|exact A2]. exact H.
  - exact S.
Qed.

(* a failing operation on a time course or track leaves both of its lists untouched *)
Theorem failed_insert_keeps_alignment h t k :
  fst (exec h (OTcAppendBad t)) = h /\ fst (exec h (OTrAppendBad k)) = h.
Proof.
  split; simpl.
  - unfold exec_tcappend_bad. destruct (nth_error (tcs h) t); reflexivity.
  - unfold exec_trappend_bad. destruct (nth_error (trs h) k); reflexivity.
Qed.

Theorem reachable_sep os : Forall (fun o => sep_op o = true) os -> Sep (run emp os).
Proof. apply Sep_run; [apply wf_emp|apply Sep_emp]. Qed.

Theorem reachable_no_dangling os o : snd (exec (run emp os) o) <> Err EDangling.
Proof. apply wf_no_dangling. apply wf_run, wf_emp. Qed.

(* ---- force_consistency ---- *)

Theorem consistency_rejects h c i cp e d l v :
  nth_error (ems h) c = Some e -> e_dtype e = Some d ->
  nth_error (hnd h) i = Some l -> val_of h l = Some v ->
  dtype_eqb d (dtype_of v) = false ->
  exec h (OAppend c i cp true) = (h, Err EValue).
Proof.
  intros Ee Ed Ei Hv Hd. simpl. unfold exec_append. rewrite Ei. unfold append_loc. rewrite Ee, Hv.
  unfold em_add, rejects. rewrite Ed, Hd. reflexivity.
Qed.

(* extend stops at the first rejected droplet: the droplets before it are in, it and the rest are not *)
Theorem consistency_rejects_extend h c ls l rest cp h1 e d v :
  extend_locs h c ls cp true = (h1, Ok) ->
  nth_error (ems h1) c = Some e -> e_dtype e = Some d -> val_of h1 l = Some v ->
  dtype_eqb d (dtype_of v) = false ->
  extend_locs h c (ls ++ l :: rest) cp true = (h1, Err EValue).
Proof.
  revert h; induction ls as [|l0 ls IH]; intros h H Ee Ed Hv Hd; simpl in *.
  - inversion H; subst. unfold append_loc. rewrite Ee, Hv. unfold em_add, rejects. rewrite Ed, Hd. reflexivity.
  - destruct (append_loc h c l0 cp true) as [h0 [|x]]; [|discriminate]. apply IH; auto.
Qed.

(* a droplet whose dtype matches, or any droplet when consistency is not requested, is accepted *)
Theorem consistency_accepts h c i cp f e l v :
  nth_error (ems h) c = Some e -> nth_error (hnd h) i = Some l -> val_of h l = Some v ->
  (f = false \/ e_dtype e = None \/ e_dtype e = Some (dtype_of v)) ->
  snd (exec h (OAppend c i cp f)) = Ok.
Proof.
  intros Ee Ei Hv H. simpl. unfold exec_append. rewrite Ei. unfold append_loc. rewrite Ee, Hv.
  unfold em_add. assert (R : rejects e v f = false).
  { unfold rejects. destruct H as [-> | [-> | ->]]; auto.
    - destruct (e_dtype e); reflexivity.
    - destruct (dtype_of v) as [[a b] c0]. simpl. rewrite !Nat.eqb_refl. destruct f; reflexivity. }
  rewrite R. destruct cp; reflexivity.
Qed.

(* ---- the operations that alias by design are not list-model operations ---- *)

Definition vA : value := mkV 0 [0%Q; 0%Q] 1%Q [].

(* e.append(d, copy=False); d.radius = 3  changes the emulsion: the heap model follows the
   implementation, the plain list model does not (documented behaviour of copy=False) *)
Theorem aliasing_ops_not_list_model :
  exists os, abs (run emp os) <> spec_run (abs emp) os.
Proof.
  exists [ONew vA; OEmNew; OAppend 0 0 false false; OSetH 0 2 3%Q].
  intros H. apply (f_equal s_ems) in H. vm_compute in H. discriminate H.
Qed.

(* ---- non-vacuity: a concrete default-flag history ---- *)

Definition vB : value := mkV 1 [1%Q; 2%Q] 2%Q [(1#2)%Q].
Definition demo_ops : list op :=
  [ONew vA; ONew vB; OEmNew; OAppend 0 0 true false; OAppend 0 1 true false; OSlice 0 0 1;
   OTcNew [0; 1] None; OTrNew [0] None; OTrAppend 0 0 None; OLink 1; OSetH 0 2 (5#1)%Q; OSetM 0 0 2 (7#1)%Q;
   OTlistNew [(1#2)%Q]; OTrNewL [1] 0; OTcCopy 0; OTcAppend 1 0 None true; OTlistAppend 0 (9#1)%Q].

Lemma demo_ops_default : Forall (fun o => list_op o = true) demo_ops.
Proof. repeat constructor. Qed.

Lemma demo_facts :
  let h := run emp demo_ops in
  abs_em h 0 = Some [mkV 0 [0%Q; 0%Q] (7#1)%Q []; vB] /\
  abs_hnd h 0 = Some (mkV 0 [0%Q; 0%Q] (5#1)%Q []) /\
  abs_em h 1 = Some [vA] /\
  length (ems h) = 7 /\ length (tcs h) = 2 /\ length (trs h) = 2 /\ length (arrs h) = 1 /\
  option_map fst (nth_error (s_tcs (abs h)) 0) = Some [0%Q; 1%Q] /\
  option_map (fun x => length (fst x)) (nth_error (s_tcs (abs h)) 1) = Some 3 /\
  option_map fst (nth_error (s_trs (abs h)) 1) = Some [(1#2)%Q] /\
  s_tvars (abs h) = [[(1#2)%Q; (9#1)%Q]].
Proof. vm_compute. repeat split; reflexivity. Qed.
