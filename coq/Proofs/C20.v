(* C20 -- collections stay aligned and own their droplets under any sequence of edits.
   Statements in the form used by Properties/C20.v; the work is in Proofs/Heap*.v. *)
From Coq Require Import List Arith Bool QArith Lia Permutation.
Import ListNotations.
From PD Require Import Model.Heap Proofs.Heap Proofs.HeapWf Proofs.HeapSep Proofs.HeapTimes Proofs.HeapNI Proofs.HeapRefine
  Proofs.HeapStats.
Local Open Scope nat_scope.

(* ---- invariants of all heaps reachable from the empty heap ---- *)

Theorem reachable_wf_aligned os : wf (run emp os) /\ Aligned (run emp os).
Proof. split; [apply wf_run, wf_emp|apply aligned_run; [apply wf_emp|apply Aligned_emp]]. Qed.

(* times and members have equal length, for every time course and every track, and no times list
   object is held twice (by two collections, or by a collection and a caller variable), after ANY
   operation sequence (default flags or not, failing operations included) *)
Theorem times_members_aligned os :
  let h := run emp os in
  (forall t tc, nth_error (tcs h) t = Some tc -> length (tc_times h tc) = length (tc_ems tc)) /\
  (forall k tr, nth_error (trs h) k = Some tr -> length (tr_times h tr) = length (tr_drops tr)) /\
  NoDup (tl_roots h).
Proof.
  destruct (reachable_wf_aligned os) as [_ (S & A1 & A2)]. cbn zeta. split; [|split].
  - intros t tc H. eapply Forall_nth_error in H; [|exact A1]. exact H.
  - intros k tr H. eapply Forall_nth_error in H; [|exact A2]. exact H.
  - exact S.
Qed.

(* a failing operation on a time course or track leaves both of its lists untouched *)
Theorem failed_insert_keeps_alignment h t k :
  fst (exec h (OTcAppendBad t)) = h /\ fst (exec h (OTrAppendBad k)) = h.
Proof.
  split; simpl.
  - unfold exec_tcappend_bad. destruct (nth_error (tcs h) t); reflexivity.
  - unfold exec_trappend_bad. destruct (nth_error (trs h) k); reflexivity.
Qed.

Theorem reachable_sep os : Forall (fun o => sep_op o = true) os -> Sep (run emp os).
Proof. apply Sep_run; [apply wf_emp|apply Sep_emp]. Qed.

Theorem reachable_no_dangling os o : snd (exec (run emp os) o) <> Err EDangling.
Proof. apply wf_no_dangling. apply wf_run, wf_emp. Qed.

(* ---- force_consistency ---- *)

Theorem consistency_rejects h c i cp e d l v :
  nth_error (ems h) c = Some e -> e_dtype e = Some d ->
  nth_error (hnd h) i = Some l -> val_of h l = Some v ->
  dtype_eqb d (dtype_of v) = false ->
  exec h (OAppend c i cp true) = (h, Err EValue).
Proof.
  intros Ee Ed Ei Hv Hd. simpl. unfold exec_append. rewrite Ei. unfold append_loc. rewrite Ee, Hv.
  unfold em_add, rejects. rewrite Ed, Hd. reflexivity.
Qed.

(* extend stops at the first rejected droplet: the droplets before it are in, it and the rest are not *)
Theorem consistency_rejects_extend h c ls l rest cp h1 e d v :
  extend_locs h c ls cp true = (h1, Ok) ->
  nth_error (ems h1) c = Some e -> e_dtype e = Some d -> val_of h1 l = Some v ->
  dtype_eqb d (dtype_of v) = false ->
  extend_locs h c (ls ++ l :: rest) cp true = (h1, Err EValue).
Proof.
  revert h; induction ls as [|l0 ls IH]; intros h H Ee Ed Hv Hd; simpl in *.
  - inversion H; subst. unfold append_loc. rewrite Ee, Hv. unfold em_add, rejects. rewrite Ed, Hd. reflexivity.
  - destruct (append_loc h c l0 cp true) as [h0 [|x]]; [|discriminate]. apply IH; auto.
Qed.

(* a droplet whose dtype matches, or any droplet when consistency is not requested, is accepted *)
Theorem consistency_accepts h c i cp f e l v :
  nth_error (ems h) c = Some e -> nth_error (hnd h) i = Some l -> val_of h l = Some v ->
  (f = false \/ e_dtype e = None \/ e_dtype e = Some (dtype_of v)) ->
  snd (exec h (OAppend c i cp f)) = Ok.
Proof.
  intros Ee Ei Hv H. simpl. unfold exec_append. rewrite Ei. unfold append_loc. rewrite Ee, Hv.
  unfold em_add. assert (R : rejects e v f = false).
  { unfold rejects. destruct H as [-> | [-> | ->]]; auto.
    - destruct (e_dtype e); reflexivity.
    - destruct (dtype_of v) as [[a b] c0]. simpl. rewrite !Nat.eqb_refl. destruct f; reflexivity. }
  rewrite R. destruct cp; reflexivity.
Qed.

(* every way two layouts can differ: droplet class family (plain / with interface width / with amplitudes),
   space dimension, number of stored extra scalars (i.e. number of modes) *)
Theorem dtype_differs a b :
  dtype_eqb (dtype_of a) (dtype_of b) = false <->
  (layout (cls a) <> layout (cls b) \/ dim a <> dim b \/ length (extra a) <> length (extra b)).
Proof.
  unfold dtype_of, dtype_eqb, dim. split.
  - intros H. apply andb_false_iff in H as [H|H]; [apply andb_false_iff in H as [H|H]|];
      apply Nat.eqb_neq in H; auto.
  - intros [H|[H|H]]; apply Nat.eqb_neq in H; rewrite H.
    + reflexivity.
    + rewrite andb_false_r. reflexivity.
    + apply andb_false_r.
Qed.

Lemma append_loc_accept h c l cp e d v :
  nth_error (ems h) c = Some e -> e_dtype e = Some d -> val_of h l = Some v ->
  dtype_eqb d (dtype_of v) = true ->
  snd (append_loc h c l cp true) = Ok /\
  exists e', nth_error (ems (fst (append_loc h c l cp true))) c = Some e' /\ e_dtype e' = Some d.
Proof.
  intros Ee Ed Hv B. unfold append_loc. rewrite Ee, Hv. unfold em_add, rejects, new_dtype. rewrite Ed, B. simpl.
  pose proof (nth_error_Some_lt _ _ _ Ee) as Hc.
  destruct cp; simpl; (split; [reflexivity|]); eexists; (split; [apply nth_error_upd_eq; exact Hc|reflexivity]).
Qed.

Lemma append_loc_reject h c l cp e d v :
  nth_error (ems h) c = Some e -> e_dtype e = Some d -> val_of h l = Some v ->
  dtype_eqb d (dtype_of v) = false ->
  append_loc h c l cp true = (h, Err EValue).
Proof.
  intros Ee Ed Hv B. unfold append_loc. rewrite Ee, Hv. unfold em_add, rejects. rewrite Ed, B. reflexivity.
Qed.

(* extend with force_consistency meets a droplet of another layout somewhere in the list: ValueError *)
Lemma extend_rejects_mismatch h c ls cp d :
  wf h -> locs_ok h ls ->
  (exists e, nth_error (ems h) c = Some e /\ e_dtype e = Some d) ->
  Exists (fun l => exists v, val_of h l = Some v /\ dtype_eqb d (dtype_of v) = false) ls ->
  snd (extend_locs h c ls cp true) = Err EValue.
Proof.
  revert h; induction ls as [|l ls IH]; intros h W H (e & Ee & Ed) X; [inversion X|].
  inversion H as [|? ? Hl Hls]; subst. simpl.
  destruct (val_of_ok h l W Hl) as [v Hv].
  destruct (dtype_eqb d (dtype_of v)) eqn:B.
  - assert (Xt : Exists (fun l0 => exists v0, val_of h l0 = Some v0 /\ dtype_eqb d (dtype_of v0) = false) ls).
    { inversion X as [? ? (v' & Hv' & B')|]; subst; auto. rewrite Hv in Hv'. inversion Hv'; subst. congruence. }
    destruct (append_loc_accept h c l cp e d v Ee Ed Hv B) as (Ok1 & E1).
    destruct (wf_append_loc h c l cp true W Hl) as (W1 & Hle & _).
    pose proof (fun l' => append_loc_val h c l cp true l' W) as V.
    destruct (append_loc h c l cp true) as [h1 oc]; simpl in *. subst oc.
    apply IH; auto.
    + eapply Forall_lt_mono with (f := fun x => x); [|exact Hls]. exact Hle.
    + apply Exists_exists in Xt as (l0 & Hin & v0 & Hv0 & B0). apply Exists_exists. exists l0. split; auto.
      exists v0. split; auto. rewrite V; auto. unfold locs_ok in Hls. rewrite Forall_forall in Hls. auto.
  - rewrite (append_loc_reject h c l cp e d v Ee Ed Hv B). reflexivity.
Qed.

(* the constructor is all or nothing: when it raises, nothing has changed *)
Theorem ctor_all_or_nothing h is dt cp f :
  snd (exec h (OEmCtor is dt cp f)) <> Ok -> fst (exec h (OEmCtor is dt cp f)) = h.
Proof.
  simpl. unfold exec_emctor. destruct (mapM (nth_error (hnd h)) is) as [ls|]; simpl; auto.
  assert (C : forall d, snd (construct h d ls cp f) <> Ok -> fst (construct h d ls cp f) = h).
  { intros d. destruct (construct h d ls cp f) as [h1 [|x]] eqn:E; simpl; [congruence|].
    intros _. eapply construct_err; eauto. }
  destruct dt as [i|]; auto. destruct (nth_error (hnd h) i) as [l|]; simpl; auto.
  destruct (val_of h l); simpl; auto.
Qed.

(* Emulsion(droplets, dtype=<layout of H[i0]>, force_consistency=True), also after Emulsion.empty(H[i0]):
   a droplet of another layout anywhere in the list makes the constructor raise, nothing changes *)
Theorem consistency_rejects_ctor h is i0 cp ls l0 v0 :
  wf h -> mapM (nth_error (hnd h)) is = Some ls -> nth_error (hnd h) i0 = Some l0 -> val_of h l0 = Some v0 ->
  Exists (fun l => exists v, val_of h l = Some v /\ dtype_eqb (dtype_of v0) (dtype_of v) = false) ls ->
  exec h (OEmCtor is (Some i0) cp true) = (h, Err EValue).
Proof.
  intros W E E0 Hv0 X. simpl. unfold exec_emctor. rewrite E, E0, Hv0. unfold construct.
  pose proof (locs_ok_mapM_hnd _ _ _ W E) as Hls.
  pose proof (extend_rejects_mismatch (push_em h (mkE (Some (dtype_of v0)) [])) (length (ems h)) ls cp (dtype_of v0)
                (wf_push_em_empty h _ W) Hls) as R.
  destruct (extend_locs (push_em h (mkE (Some (dtype_of v0)) [])) (length (ems h)) ls cp true) as [h1 oc].
  simpl in R. rewrite R; auto.
  exists (mkE (Some (dtype_of v0)) []). split; auto. simpl. rewrite nth_error_app2 by lia.
  rewrite Nat.sub_diag. reflexivity.
Qed.

(* without an explicit dtype the first droplet fixes the layout *)
Theorem consistency_rejects_ctor_first h i1 is cp l1 v1 ls :
  wf h -> nth_error (hnd h) i1 = Some l1 -> val_of h l1 = Some v1 -> mapM (nth_error (hnd h)) is = Some ls ->
  Exists (fun l => exists v, val_of h l = Some v /\ dtype_eqb (dtype_of v1) (dtype_of v) = false) ls ->
  exec h (OEmCtor (i1 :: is) None cp true) = (h, Err EValue).
Proof.
  intros W E1 Hv1 E X. simpl. unfold exec_emctor. simpl. rewrite E1, E. unfold construct. simpl.
  set (hp := push_em h (mkE None [])).
  assert (Wp : wf hp) by (apply wf_push_em_empty; auto).
  pose proof (wf_hnd_lt _ _ _ W E1) as Hl1.
  pose proof (locs_ok_mapM_hnd _ _ _ W E) as Hls.
  destruct (wf_append_loc hp (length (ems h)) l1 cp true Wp Hl1) as (W1 & Hle & _).
  pose proof (fun l' => append_loc_val hp (length (ems h)) l1 cp true l' Wp) as V.
  assert (A : snd (append_loc hp (length (ems h)) l1 cp true) = Ok /\
              exists e', nth_error (ems (fst (append_loc hp (length (ems h)) l1 cp true))) (length (ems h)) = Some e'
                         /\ e_dtype e' = Some (dtype_of v1)).
  { unfold append_loc. unfold hp at 1 3. simpl. rewrite nth_error_app2 by lia. rewrite Nat.sub_diag. simpl.
    change (val_of hp l1) with (val_of h l1). rewrite Hv1. unfold em_add, rejects, new_dtype. simpl.
    destruct cp; simpl; (split; [reflexivity|]); eexists;
      (split; [apply nth_error_upd_eq; rewrite app_length; simpl; lia|reflexivity]). }
  destruct A as (A1 & A2).
  destruct (append_loc hp (length (ems h)) l1 cp true) as [h1 oc]; simpl in *. subst oc.
  pose proof (extend_rejects_mismatch h1 (length (ems h)) ls cp (dtype_of v1) W1) as R.
  destruct (extend_locs h1 (length (ems h)) ls cp true) as [h2 oc]. simpl in R. rewrite R; auto.
  - eapply Forall_lt_mono with (f := fun x => x); [|exact Hls]. exact Hle.
  - apply Exists_exists in X as (l0 & Hin & v0 & Hv0 & B0). apply Exists_exists. exists l0. split; auto.
    exists v0. split; auto. rewrite V; auto. unfold locs_ok in Hls. rewrite Forall_forall in Hls. auto.
Qed.

(* clones (copy.copy, copy.deepcopy, pickle round trip) never fail on a well-formed heap and take the dtype over *)
Theorem clone_keeps_dtype h c e :
  wf h -> nth_error (ems h) c = Some e ->
  snd (exec h (OEmClone c)) = Ok /\
  exists e', nth_error (ems (fst (exec h (OEmClone c)))) (length (ems h)) = Some e' /\
             (e_dtype e <> None -> e_dtype e' = e_dtype e) /\ length (e_mem e') = length (e_mem e).
Proof.
  intros W Ee. simpl. unfold exec_emclone. rewrite Ee. unfold construct.
  pose proof (wf_em _ _ _ W Ee) as He.
  assert (G : forall ls h0 (e0 : emul), wf h0 -> locs_ok h0 ls -> nth_error (ems h0) (length (ems h)) = Some e0 ->
              snd (extend_locs h0 (length (ems h)) ls true false) = Ok /\
              exists e', nth_error (ems (fst (extend_locs h0 (length (ems h)) ls true false))) (length (ems h)) = Some e' /\
                         (e_dtype e0 <> None -> e_dtype e' = e_dtype e0) /\ length (e_mem e') = length (e_mem e0) + length ls).
  { induction ls as [|l ls IH]; intros h0 e0 W0 H0 E0; simpl.
    - split; auto. exists e0. repeat split; auto.
    - inversion H0 as [|? ? Hl Hls]; subst.
      destruct (val_of_ok h0 l W0 Hl) as [v Hv].
      destruct (wf_append_loc h0 (length (ems h)) l true false W0 Hl) as (W1 & Hle & _).
      assert (A : append_loc h0 (length (ems h)) l true false =
                  (set_em (alloc h0 [v]) (length (ems h)) (mkE (new_dtype e0 v) (e_mem e0 ++ new_locs h0 1)), Ok)).
      { unfold append_loc. rewrite E0, Hv. unfold em_add, rejects. destruct (e_dtype e0); reflexivity. }
      rewrite A in *. simpl in W1, Hle |- *.
      destruct (IH _ (mkE (new_dtype e0 v) (e_mem e0 ++ new_locs h0 1)) W1) as (I1 & e' & I2 & I3 & I4).
      + eapply Forall_lt_mono with (f := fun x => x); [|exact Hls]. exact Hle.
      + simpl. apply nth_error_upd_eq. eapply nth_error_Some_lt; eauto.
      + split; auto. exists e'. split; auto. split.
        * intros Hn. rewrite I3; simpl; unfold new_dtype; destruct (e_dtype e0); congruence.
        * rewrite I4. simpl. rewrite app_length. simpl. lia. }
  destruct (G (e_mem e) (push_em h (mkE (e_dtype e) [])) (mkE (e_dtype e) []) (wf_push_em_empty h _ W) He)
    as (G1 & e' & G2 & G3 & G4).
  { simpl. rewrite nth_error_app2 by lia. rewrite Nat.sub_diag. reflexivity. }
  destruct (extend_locs (push_em h (mkE (e_dtype e) [])) (length (ems h)) (e_mem e) true false) as [h1 oc].
  simpl in *. subst oc. split; auto. exists e'. repeat split; auto.
Qed.

(* ---- self-extension: e.extend(e) doubles the emulsion, like a list ---- *)

Lemma sp_extend_noforce ws : forall s c d vs,
  nth_error (s_ems s) c = Some (d, vs) ->
  exists d', sp_extend s c ws false = (sp_ems s (upd (s_ems s) c (d', vs ++ ws)), Ok).
Proof.
  induction ws as [|v ws IH]; intros s c d vs E; simpl.
  - exists d. rewrite app_nil_r, (upd_same _ _ _ E). destruct s; reflexivity.
  - unfold sp_append. rewrite E.
    assert (R : rejects (mkE d []) v false = false) by (unfold rejects; simpl; destruct d; reflexivity).
    rewrite R.
    set (s1 := sp_ems s (upd (s_ems s) c (new_dtype (mkE d []) v, vs ++ [v]))).
    assert (E1 : nth_error (s_ems s1) c = Some (new_dtype (mkE d []) v, vs ++ [v])).
    { unfold s1. simpl. apply nth_error_upd_eq. eapply nth_error_Some_lt; eauto. }
    destruct (IH s1 c _ _ E1) as [d' H]. exists d'. rewrite H. unfold s1. simpl.
    rewrite upd_upd, <- app_assoc. reflexivity.
Qed.

(* on any reachable heap: e.extend(e) with the default flags succeeds and the emulsion then holds its former
   members twice (fresh copies; ownership: C20_sep_preserved covers OExtendSelf) *)
Theorem self_extend_doubles h c e :
  wf h -> Sep h -> Aligned h -> nth_error (ems h) c = Some e ->
  let r := exec h (OExtendSelf c true false) in
  snd r = Ok /\
  option_map snd (nth_error (s_ems (abs (fst r))) c) = Some (abs_vals h (e_mem e) ++ abs_vals h (e_mem e)).
Proof.
  intros W S A Ee r.
  pose proof (abs_refines_list h (OExtendSelf c true false) W S A eq_refl) as R.
  assert (E0 : nth_error (s_ems (abs h)) c = Some (e_dtype e, abs_vals h (e_mem e))).
  { rewrite abs_ems_nth, Ee. reflexivity. }
  change (spec_step (abs h) (OExtendSelf c true false))
    with (match nth_error (s_ems (abs h)) c with
          | None => (abs h, Err EIndex)
          | Some (_, vs) => sp_extend (abs h) c vs false
          end) in R.
  rewrite E0 in R.
  destruct (sp_extend_noforce (abs_vals h (e_mem e)) (abs h) c _ _ E0) as [d' H].
  rewrite H in R. pose proof (f_equal fst R) as R1. pose proof (f_equal snd R) as R2.
  cbn [fst snd] in R1, R2. unfold r. split; [symmetry; exact R2|].
  rewrite <- R1. cbn [s_ems sp_ems]. rewrite nth_error_upd_eq by (eapply nth_error_Some_lt; eauto). reflexivity.
Qed.

(* ---- the operations that alias by design are not list-model operations ---- *)

Definition vA : value := mkV 0 [0%Q; 0%Q] 1%Q [].

(* e.append(d, copy=False); d.radius = 3  changes the emulsion: the heap model follows the
   implementation, the plain list model does not (documented behaviour of copy=False) *)
Theorem aliasing_ops_not_list_model :
  exists os, abs (run emp os) <> spec_run (abs emp) os.
Proof.
  exists [ONew vA; OEmNew; OAppend 0 0 false false; OSetH 0 2 3%Q].
  intros H. apply (f_equal s_ems) in H. vm_compute in H. discriminate H.
Qed.

(* ---- non-vacuity: a concrete default-flag history ---- *)

Definition vB : value := mkV 1 [1%Q; 2%Q] 2%Q [(1#2)%Q].
Definition demo_ops : list op :=
  [ONew vA; ONew vB; OEmNew; OAppend 0 0 true false; OAppend 0 1 true false; OSlice 0 0 1;
   OTcNew [0; 1] None; OTrNew [0] None; OTrAppend 0 0 None; OLink 1; OSetH 0 2 (5#1)%Q; OSetM 0 0 2 (7#1)%Q;
   OTlistNew [(1#2)%Q]; OTrNewL [1] 0; OTcCopy 0; OTcAppend 1 0 None true; OTlistAppend 0 (9#1)%Q].

Lemma demo_ops_default : Forall (fun o => list_op o = true) demo_ops.
Proof. repeat constructor. Qed.

Lemma demo_facts :
  let h := run emp demo_ops in
  abs_em h 0 = Some [mkV 0 [0%Q; 0%Q] (7#1)%Q []; vB] /\
  abs_hnd h 0 = Some (mkV 0 [0%Q; 0%Q] (5#1)%Q []) /\
  abs_em h 1 = Some [vA] /\
  length (ems h) = 7 /\ length (tcs h) = 2 /\ length (trs h) = 2 /\ length (arrs h) = 1 /\
  option_map fst (nth_error (s_tcs (abs h)) 0) = Some [0%Q; 1%Q] /\
  option_map (fun x => length (fst x)) (nth_error (s_tcs (abs h)) 1) = Some 3 /\
  option_map fst (nth_error (s_trs (abs h)) 1) = Some [(1#2)%Q] /\
  s_tvars (abs h) = [[(1#2)%Q; (9#1)%Q]].
Proof. vm_compute. repeat split; reflexivity. Qed.

(* ---- non-vacuity for the constructor, clones and general slices ---- *)
Definition vP2 : value := mkV 2 [0%Q; 0%Q] 1%Q [(1#2)%Q; (1#8)%Q; (1#8)%Q].                       (* PerturbedDroplet2D, 2 modes *)
Definition vP4 : value := mkV 2 [0%Q; 0%Q] 1%Q [(1#2)%Q; (1#8)%Q; (1#8)%Q; (1#8)%Q; (1#8)%Q].     (* ... 4 modes *)
Definition demo_ops2 : list op :=
  [ONew vP2; ONew vP4; ONew vA;
   OEmCtor [0; 2] None true false;        (* E0 = Emulsion([P2, A]) *)
   OEmCtor [] (Some 0) false false;       (* E1 = Emulsion.empty(P2) *)
   OEmCtor [0; 0] (Some 0) true true;     (* E2: explicit dtype, consistent droplets *)
   OEmClone 1;                            (* E3 = pickle round trip of the empty emulsion: dtype kept *)
   OSel 0 [1; 0];                         (* E4 = E0[::-1] *)
   OTcNew [0; 2] (Some [0%Q; (5#1)%Q]);   (* T0 = [E5, E6] *)
   OTcSel 0 [1; 0];                       (* T1 = T0[::-1] = [E7, E8], times [5, 0] *)
   OTcClone 1;                            (* T2 = deepcopy(T1) = [E9, E10] *)
   OTrNew [0; 1] None; OTrSel 0 [1]].

Lemma demo_ops2_default : Forall (fun o => list_op o = true) (OEmClone 1 :: OSel 0 [1; 0] :: OTcSel 0 [1; 0] :: [OTcClone 1]).
Proof. repeat constructor. Qed.

Lemma demo_facts2 :
  let h := run emp demo_ops2 in
  length (ems h) = 11 /\ length (tcs h) = 3 /\ length (trs h) = 2 /\
  abs_em h 4 = Some [vA; vP2] /\
  option_map fst (nth_error (s_ems (abs h)) 3) = Some (Some (2, 2, 3)) /\
  abs_em h 3 = Some [] /\
  nth_error (s_tcs (abs h)) 1 = Some ([(5#1)%Q; 0%Q], [7; 8]) /\
  nth_error (s_tcs (abs h)) 2 = Some ([(5#1)%Q; 0%Q], [9; 10]) /\
  abs_em h 9 = Some [vP2; vP2] /\ abs_em h 10 = Some [vP2; vA] /\
  nth_error (s_trs (abs h)) 1 = Some ([1%Q], [vP4]) /\
  (* 2 modes then 4 modes with force_consistency: constructor, append after Emulsion.empty, extend *)
  exec h (OEmCtor [0; 1] None true true) = (h, Err EValue) /\
  exec h (OEmCtor [1] (Some 0) false true) = (h, Err EValue) /\
  exec h (OAppend 1 1 true true) = (h, Err EValue) /\
  snd (exec h (OExtend 2 [0; 1; 0] true true)) = Err EValue.
Proof. vm_compute. repeat split; reflexivity. Qed.
