(* C12 -- sphere volume, surface and radius conversions are mutually consistent.
   Theorems are about the definitions generated from tools/spherical.py (Gen_spherical,
   Gen_spherical_index), i.e. about what the code says now. *)
From Coq Require Import Reals Lra ZArith Lia.
From Coquelicot Require Import Coquelicot.
From PD Require Import Model.Num Model.NumZ Gen.Gen_spherical Gen.Gen_spherical_index.
Local Open Scope R_scope.

Ltac unf := unfold rfv_scalar_1, rfv_scalar_2, rfv_scalar_3, vfr_scalar_1, vfr_scalar_2, vfr_scalar_3,
  sfr_scalar_1, sfr_scalar_2, sfr_scalar_3, rfs_scalar_2, rfs_scalar_3,
  rfv_compiled_1, rfv_compiled_2, rfv_compiled_3, vfr_compiled_1, vfr_compiled_2, vfr_compiled_3,
  sfr_compiled_1, sfr_compiled_2, sfr_compiled_3, rfv_nd_1, rfv_nd_2, rfv_nd_3,
  vfr_nd_1, vfr_nd_2, vfr_nd_3.

Lemma PI_neq0' : PI <> 0. Proof. apply PI_neq0. Qed.
Lemma PI_pos : 0 < PI. Proof. apply PI_RGT_0. Qed.

(* The generated right-hand sides are only used up to equality in the field R: every step below first
   brings the generated sub-expression into a normal form of OUR choice with `field` (so `2 * PI * r`,
   `r * (2 * PI)`, `4 * PI / 3 * r ^ 3`, `r ^ 3 * (4 * PI / 3)` ... are all accepted) and only then applies
   the lemma about sqrt / pow_nn.  No step matches on the shape of a product or quotient. *)
Ltac fld := field; repeat split; first [apply PI_neq0' | lra].
Ltac eqf := first [reflexivity | fld | f_equal; first [reflexivity | fld]].

(* replace the argument of the sqrt in the goal by [t] *)
Ltac sqrt_arg t :=
  match goal with |- context [sqrt ?e] =>
    first [constr_eq e t | replace e with t by fld] end.
(* replace base and exponent of the pow_nn in the goal by [t] and [1 / 3] *)
Ltac pow_nn_arg t :=
  match goal with |- context [pow_nn ?e ?y] =>
    first [constr_eq y (1 / 3) | replace y with (1 / 3) by fld];
    first [constr_eq e t | replace e with t by fld] end.

(* s = sqrt e  and  s * s = e : continue with a goal that is polynomial in s *)
Ltac name_sqrt s Hs tac :=
  match goal with |- context [sqrt ?e] =>
    let He := fresh "He" in
    assert (He : 0 <= e) by tac;
    pose proof (sqrt_sqrt e He) as Hs; set (s := sqrt e) in * end.

(* ---- all variants of each conversion are the same real function ---- *)
Lemma variants_rfv v :
  (rfv_compiled_1 v = rfv_scalar_1 v /\ rfv_nd_1 v = rfv_scalar_1 v) /\
  (rfv_compiled_2 v = rfv_scalar_2 v /\ rfv_nd_2 v = rfv_scalar_2 v) /\
  (rfv_compiled_3 v = rfv_scalar_3 v /\ rfv_nd_3 v = rfv_scalar_3 v).
Proof. unf. repeat split; eqf. Qed.

Lemma variants_vfr r :
  (vfr_compiled_1 r = vfr_scalar_1 r /\ vfr_nd_1 r = vfr_scalar_1 r) /\
  (vfr_compiled_2 r = vfr_scalar_2 r /\ vfr_nd_2 r = vfr_scalar_2 r) /\
  (vfr_compiled_3 r = vfr_scalar_3 r /\ vfr_nd_3 r = vfr_scalar_3 r).
Proof. unf. repeat split; eqf. Qed.

Lemma variants_sfr r :
  sfr_compiled_1 r = sfr_scalar_1 r /\ sfr_compiled_2 r = sfr_scalar_2 r /\
  sfr_compiled_3 r = sfr_scalar_3 r.
Proof. unf. repeat split; eqf. Qed.

(* ---- radius -> volume -> radius ---- *)
Lemma rv_inv_1 r : rfv_scalar_1 (vfr_scalar_1 r) = r.
Proof. unf. fld. Qed.

Lemma rv_inv_2 r : 0 <= r -> rfv_scalar_2 (vfr_scalar_2 r) = r.
Proof.
  intros Hr. unf. sqrt_arg (r * r). rewrite (sqrt_square r Hr). eqf.
Qed.

Lemma rv_inv_3 r : 0 <= r -> rfv_scalar_3 (vfr_scalar_3 r) = r.
Proof.
  intros Hr. unf. pow_nn_arg (r ^ 3). rewrite (pow_nn_cube_third r Hr). eqf.
Qed.

(* ---- volume -> radius -> volume ---- *)
Lemma vr_inv_1 v : vfr_scalar_1 (rfv_scalar_1 v) = v.
Proof. unf. fld. Qed.

Lemma vr_inv_2 v : 0 <= v -> vfr_scalar_2 (rfv_scalar_2 v) = v.
Proof.
  intros Hv. unf. pose proof PI_pos as HP. sqrt_arg (v * / PI).
  name_sqrt s Hs ltac:(apply Rmult_le_pos; [exact Hv|left; apply Rinv_0_lt_compat; exact HP]).
  transitivity (PI * (s * s)); [fld|rewrite Hs; fld].
Qed.

Lemma vr_inv_3 v : 0 <= v -> vfr_scalar_3 (rfv_scalar_3 v) = v.
Proof.
  intros Hv. unf. pose proof PI_pos as HP. pow_nn_arg (v * (3 / (4 * PI))).
  assert (He : 0 <= v * (3 / (4 * PI)))
    by (apply Rmult_le_pos; [exact Hv|left; apply Rdiv_lt_0_compat; lra]).
  pose proof (cube_pow_nn_third _ He) as Hs. set (s := pow_nn _ _) in *.
  transitivity (4 * PI / 3 * s ^ 3); [fld|rewrite Hs; fld].
Qed.

(* ---- surface ---- *)
Lemma rs_inv_2 r : rfs_scalar_2 (sfr_scalar_2 r) = r.
Proof. unf. fld. Qed.

Lemma rs_inv_3 r : 0 <= r -> rfs_scalar_3 (sfr_scalar_3 r) = r.
Proof.
  intros Hr. unf. sqrt_arg (r * r). rewrite (sqrt_square r Hr). eqf.
Qed.

Lemma sr_inv_2 s : sfr_scalar_2 (rfs_scalar_2 s) = s.
Proof. unf. fld. Qed.

Lemma sr_inv_3 s : 0 <= s -> sfr_scalar_3 (rfs_scalar_3 s) = s.
Proof.
  intros Hs. unf. pose proof PI_pos as HP. sqrt_arg (s * / (4 * PI)).
  name_sqrt q Hq ltac:(apply Rmult_le_pos; [exact Hs|left; apply Rinv_0_lt_compat; lra]).
  transitivity (4 * PI * (q * q)); [fld|rewrite Hq; fld].
Qed.

(* ---- surface area is the derivative of the volume ---- *)
Ltac dside := first [exact I | repeat split; first [exact I | apply PI_neq0' | lra]].

Lemma surf_dvol_1 r : is_derive vfr_scalar_1 r (sfr_scalar_1 r).
Proof. unfold vfr_scalar_1, sfr_scalar_1. auto_derive; [dside|fld]. Qed.

Lemma surf_dvol_2 r : is_derive vfr_scalar_2 r (sfr_scalar_2 r).
Proof. unfold vfr_scalar_2, sfr_scalar_2. auto_derive; [dside|fld]. Qed.

Lemma surf_dvol_3 r : is_derive vfr_scalar_3 r (sfr_scalar_3 r).
Proof. unfold vfr_scalar_3, sfr_scalar_3. auto_derive; [dside|fld]. Qed.

(* ---- monotonicity (used by C01/C10: larger volume <-> larger radius) ---- *)
Lemma vfr_2_mono r1 r2 : 0 <= r1 -> r1 <= r2 -> vfr_scalar_2 r1 <= vfr_scalar_2 r2.
Proof.
  intros H1 H2. unf. pose proof PI_pos as HP.
  assert (Hp : r1 ^ 2 <= r2 ^ 2) by (apply pow_incr; lra).
  assert (Hd : 0 <= PI * (r2 ^ 2 - r1 ^ 2)) by (apply Rmult_le_pos; lra).
  match goal with |- ?a <= ?b => replace b with (a + PI * (r2 ^ 2 - r1 ^ 2)) by fld end. lra.
Qed.

Lemma vfr_3_mono r1 r2 : 0 <= r1 -> r1 <= r2 -> vfr_scalar_3 r1 <= vfr_scalar_3 r2.
Proof.
  intros H1 H2. unf. pose proof PI_pos as HP.
  assert (Hp : r1 ^ 3 <= r2 ^ 3) by (apply pow_incr; lra).
  assert (Hd : 0 <= 4 * PI / 3 * (r2 ^ 3 - r1 ^ 3)) by (apply Rmult_le_pos; lra).
  match goal with |- ?a <= ?b => replace b with (a + 4 * PI / 3 * (r2 ^ 3 - r1 ^ 3)) by fld end. lra.
Qed.

(* ---- spherical index arithmetic (Z) ---- *)
Local Open Scope Z_scope.

Lemma sqrt_between l m : 0 <= l -> - l <= m <= l -> Z.sqrt (l * (l + 1) + m) = l.
Proof.
  intros Hl Hm. apply Z.sqrt_unique. split; nia.
Qed.

Lemma index_lm_k l m : 0 <= l -> - l <= m <= l -> index_lm (index_k l m) = (l, m).
Proof.
  intros Hl Hm. unfold index_lm, index_k. cbv zeta.
  match goal with |- context [Z.sqrt ?e] =>
    first [constr_eq e (l * (l + 1) + m) | replace e with (l * (l + 1) + m) by ring] end.
  rewrite (sqrt_between l m Hl Hm). f_equal; ring.
Qed.

Lemma index_k_lm k : 0 <= k ->
  let (l, m) := index_lm k in index_k l m = k /\ 0 <= l /\ - l <= m <= l.
Proof.
  intros Hk. unfold index_lm, index_k. pose proof (Z.sqrt_spec k Hk) as Hs.
  pose proof (Z.sqrt_nonneg k) as Hn. cbv zeta. split; [ring|]. split; [exact Hn|].
  unfold Z.succ in Hs. set (s := Z.sqrt k) in *. split; nia.
Qed.

Lemma index_count_is_square l : index_count l = (l + 1) * (l + 1).
Proof. unfold index_count. ring. Qed.

Lemma sqrt_round_spec k : 0 <= k ->
  let n := sqrt_round k in 0 <= n /\ n * n - n < k + (if Z.eqb k 0 then 1 else 0) /\ k <= n * n + n.
Proof.
  intros Hk. unfold sqrt_round. pose proof (Z.sqrt_spec k Hk) as Hs.
  pose proof (Z.sqrt_nonneg k) as Hn. cbv zeta. unfold Z.succ in Hs. set (s := Z.sqrt k) in *.
  destruct (Z.ltb_spec (s * s + s) k) as [H|H];
  destruct (Z.eqb_spec k 0) as [E|E]; repeat split; try nia.
Qed.

Lemma count_optimal_iff_square k : 0 <= k ->
  index_count_optimal k = true <-> exists n, 0 <= n /\ k = n * n.
Proof.
  intros Hk. unfold index_count_optimal. rewrite Z.eqb_eq. split.
  - intros H. exists (sqrt_round k). pose proof (sqrt_round_spec k Hk) as [H0 _].
    split; [exact H0|]. transitivity (sqrt_round k ^ 2); [symmetry; exact H|ring].
  - intros [n [Hn ->]]. unfold sqrt_round. rewrite Z.sqrt_square by exact Hn.
    destruct (Z.ltb_spec (n * n + n) (n * n)) as [H|H]; [lia|]. ring.
Qed.

(* ---- droplet-level consequences (definitions generated from droplets.py) ---- *)
From PD Require Import Gen.Gen_droplet_basic.
Local Open Scope R_scope.

Lemma droplet_volume_set_get v : 0 <= v ->
  drop_volume_1 (drop_set_volume_1 v) = v /\
  drop_volume_2 (drop_set_volume_2 v) = v /\
  drop_volume_3 (drop_set_volume_3 v) = v.
Proof.
  intros Hv. unfold drop_volume_1, drop_volume_2, drop_volume_3,
    drop_set_volume_1, drop_set_volume_2, drop_set_volume_3. cbv zeta.
  repeat split; [apply vr_inv_1|apply vr_inv_2; exact Hv|apply vr_inv_3; exact Hv].
Qed.

Lemma droplet_from_volume_volume v : 0 <= v ->
  drop_volume_1 (drop_from_volume_1 v) = v /\
  drop_volume_2 (drop_from_volume_2 v) = v /\
  drop_volume_3 (drop_from_volume_3 v) = v.
Proof.
  intros Hv. unfold drop_volume_1, drop_volume_2, drop_volume_3,
    drop_from_volume_1, drop_from_volume_2, drop_from_volume_3. cbv zeta.
  repeat split; [apply vr_inv_1|apply vr_inv_2; exact Hv|apply vr_inv_3; exact Hv].
Qed.

Lemma droplet_surface_is_dvolume r :
  is_derive drop_volume_1 r (drop_surface_1 r) /\
  is_derive drop_volume_2 r (drop_surface_2 r) /\
  is_derive drop_volume_3 r (drop_surface_3 r).
Proof.
  unfold drop_volume_1, drop_volume_2, drop_volume_3, drop_surface_1, drop_surface_2, drop_surface_3. cbv zeta.
  split; [|split]; [apply surf_dvol_1|apply surf_dvol_2|apply surf_dvol_3].
Qed.

Lemma bbox_formula p r : 0 <= r ->
  drop_bbox_lo p r <= p <= drop_bbox_hi p r /\
  drop_bbox_hi p r - drop_bbox_lo p r = 2 * r /\
  (drop_bbox_hi p r + drop_bbox_lo p r) / 2 = p.
Proof. intros Hr. unfold drop_bbox_lo, drop_bbox_hi. repeat split; first [lra | fld]. Qed.

(* mean curvature of a sphere of radius r (d = 2: 1/r is the curvature of the circle) *)
Lemma curvature_formula r : 0 < r -> drop_curvature r * r = 1 /\ 0 < drop_curvature r.
Proof.
  intros Hr. unfold drop_curvature.
  assert (H1 : 1 / r * r = 1) by (field; lra).
  assert (H2 : 0 < 1 / r) by (apply Rdiv_lt_0_compat; lra).
  match goal with |- ?c * r = 1 /\ 0 < ?c => replace c with (1 / r) by fld end.
  split; assumption.
Qed.
