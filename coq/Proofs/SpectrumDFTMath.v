(* Spectrum, part 7b: the mathematical DFT (Model.Spectrum.dftc / dft_math) for general shapes satisfies the oracle
   specification dft_spec: Parseval, zero mode, homogeneity, cyclic shift, reflection, axis transposition. *)
From Coq Require Import Reals Lra List ZArith Lia Bool Permutation Arith.
Import ListNotations.
From PD Require Import Model.Spectrum Proofs.SpectrumLists Proofs.SpectrumDFTAlg.
Local Open Scope R_scope.

(* ------------------------------------------------------------------ 1-d transform (unnormalised) and Parseval *)
Definition T1 (N : nat) (z : nat -> R * R) (k : nat) : R * R :=
  csum (map (fun n => cmul (cexp (- angle N k n)) (z n)) (seq 0 N)).

Lemma cdot_rotated a b p q :
  cdot (cmul (cexp (- a)) p) (cmul (cexp (- b)) q) = cdot p q * cos (a - b) - ccross p q * sin (a - b).
Proof.
  unfold cdot, ccross, cmul, cexp. cbn [fst snd]. rewrite cos_minus, sin_minus, !cos_neg, !sin_neg. ring.
Qed.

Lemma rsum_delta {A} (dec : forall x y : A, {x = y} + {x <> y}) (g : A -> R) l n : NoDup l -> In n l ->
  rsum (map (fun m => if dec n m then g m else 0) l) = g n.
Proof.
  induction 1 as [|a l Ha Hl IH]; intros Hin; [destruct Hin|]. cbn [map]. rewrite rsum_cons.
  destruct Hin as [->|Hin].
  - destruct (dec n n) as [_|C]; [|congruence].
    rewrite (rsum_map_ext_in _ (fun _ => 0)); [rewrite rsum_map_zero; ring|].
    intros m Hm. destruct (dec n m) as [->|_]; [contradiction|reflexivity].
  - destruct (dec n a) as [->|_]; [contradiction|]. rewrite IH by exact Hin. ring.
Qed.

Lemma parseval_1d N z : (0 < N)%nat ->
  rsum (map (fun k => cabs2 (T1 N z k)) (seq 0 N)) = INR N * rsum (map (fun n => cabs2 (z n)) (seq 0 N)).
Proof.
  intros HN. unfold T1.
  rewrite (rsum_map_ext_in _ (fun k => rsum (map (fun n => rsum (map (fun m =>
             cdot (z n) (z m) * cos (angle N k n - angle N k m) - ccross (z n) (z m) * sin (angle N k n - angle N k m))
             (seq 0 N))) (seq 0 N)))).
  2:{ intros k _. rewrite cabs2_csum. apply rsum_map_ext_in. intros n _. apply rsum_map_ext_in. intros m _.
      apply cdot_rotated. }
  rewrite rsum_exchange.
  rewrite (rsum_map_ext_in _ (fun n => INR N * cabs2 (z n))); [apply rsum_map_scale|].
  intros n Hn. rewrite rsum_exchange.
  rewrite (rsum_map_ext_in _ (fun m => if Nat.eq_dec n m then INR N * cdot (z n) (z m) else 0)).
  - rewrite (rsum_delta Nat.eq_dec (fun m => INR N * cdot (z n) (z m))); [reflexivity|apply seq_NoDup|exact Hn].
  - intros m Hm. apply in_seq in Hn. apply in_seq in Hm.
    destruct (character_orthogonality N n m ltac:(lia) ltac:(lia)) as [Hc Hs].
    rewrite (rsum_map_ext_in _ (fun k => cdot (z n) (z m) * cos (angle N k n - angle N k m) +
                                         (- ccross (z n) (z m)) * sin (angle N k n - angle N k m)))
      by (intros; ring).
    rewrite rsum_map_plus, !rsum_map_scale, Hc, Hs. destruct (Nat.eq_dec n m); ring.
Qed.

(* ------------------------------------------------------------------ sums over the n-d index set, axis by axis *)
Lemma rsum_flat_cons (g : index -> R) (L : list index) (l : list nat) :
  rsum (map g (flat_map (fun m => map (cons m) L) l)) = rsum (map (fun m => rsum (map (fun n' => g (m :: n')) L)) l).
Proof.
  induction l as [|a l IH]; [reflexivity|]. cbn [flat_map map]. rewrite map_app, rsum_app, rsum_cons.
  f_equal; [rewrite map_map; reflexivity|exact IH].
Qed.

Lemma sum_all_idx_cons N rest (g : index -> R) :
  sum_over (all_idx (N :: rest)) g = rsum (map (fun n0 => sum_over (all_idx rest) (fun n' => g (n0 :: n'))) (seq 0 N)).
Proof. unfold sum_over. cbn [all_idx]. apply rsum_flat_cons. Qed.

Lemma csum_flat_cons (g : index -> R * R) (L : list index) (l : list nat) :
  csum (map g (flat_map (fun m => map (cons m) L) l)) = csum (map (fun m => csum (map (fun n' => g (m :: n')) L)) l).
Proof.
  induction l as [|a l IH]; [reflexivity|]. cbn [flat_map map]. rewrite map_app, csum_app, csum_cons.
  f_equal; [rewrite map_map; reflexivity|exact IH].
Qed.

Lemma csum_all_idx_cons N rest (g : index -> R * R) :
  csum (map g (all_idx (N :: rest))) = csum (map (fun n0 => csum (map (fun n' => g (n0 :: n')) (all_idx rest))) (seq 0 N)).
Proof. cbn [all_idx]. apply csum_flat_cons. Qed.

Lemma size_of_cons N rest : size_of (N :: rest) = (N * size_of rest)%nat.
Proof.
  unfold size_of. cbn [all_idx]. generalize (all_idx rest) as L. intros L.
  assert (H : forall l, length (flat_map (fun m : nat => map (cons m) L) l) = (length l * length L)%nat).
  { induction l as [|a l IH]; [reflexivity|]. cbn [flat_map]. rewrite app_length, map_length, IH. cbn [length]. rewrite Nat.mul_succ_l. apply Nat.add_comm. }
  rewrite H, seq_length. reflexivity.
Qed.

Lemma dftc_cons N rest z k0 k' :
  dftc (N :: rest) z (k0 :: k') = cscal (/ sqrt (INR N)) (T1 N (fun n0 => dftc rest (fun n' => z (n0 :: n')) k') k0).
Proof. reflexivity. Qed.

Lemma inv_sqrt_sq N : (0 < N)%nat -> (/ sqrt (INR N)) ^ 2 = / INR N.
Proof.
  intros HN. assert (H : 0 < INR N) by (apply lt_0_INR; exact HN).
  assert (Hs : sqrt (INR N) * sqrt (INR N) = INR N) by (apply sqrt_sqrt; lra).
  assert (Hs0 : sqrt (INR N) <> 0) by (intros Z; rewrite Z in Hs; lra).
  rewrite <- Hs at 2. field. exact Hs0.
Qed.

(* ------------------------------------------------------------------ Parseval in n dimensions *)
Lemma dftc_parseval shape : Forall (fun n => (0 < n)%nat) shape -> forall z,
  sum_over (all_idx shape) (fun k => cabs2 (dftc shape z k)) = sum_over (all_idx shape) (fun n => cabs2 (z n)).
Proof.
  induction 1 as [|N rest HN _ IH]; intros z.
  - unfold sum_over. reflexivity.
  - rewrite !sum_all_idx_cons.
    rewrite (rsum_map_ext_in _ (fun k0 => sum_over (all_idx rest) (fun k' =>
               / INR N * cabs2 (T1 N (fun n0 => dftc rest (fun n' => z (n0 :: n')) k') k0))))
      by (intros k0 _; unfold sum_over; apply rsum_map_ext_in; intros k' _;
          rewrite dftc_cons, cabs2_cscal, inv_sqrt_sq by exact HN; reflexivity).
    unfold sum_over at 1. rewrite rsum_exchange.
    rewrite (rsum_map_ext_in _ (fun k' => rsum (map (fun n0 => cabs2 (dftc rest (fun n' => z (n0 :: n')) k')) (seq 0 N)))).
    2:{ intros k' _. rewrite rsum_map_scale, (parseval_1d N _ HN).
        assert (INR N <> 0) by (apply not_0_INR; lia). field. assumption. }
    rewrite <- rsum_exchange. apply rsum_map_ext_in. intros n0 _. apply (IH (fun n' => z (n0 :: n'))).
Qed.

(* ------------------------------------------------------------------ linearity and the zero mode *)
Lemma dftc_cscal shape : forall c z k, dftc shape (fun n => cscal c (z n)) k = cscal c (dftc shape z k).
Proof.
  induction shape as [|N rest IH]; intros c z k.
  - destruct k; [reflexivity|cbn [dftc]; calg].
  - destruct k as [|k0 k']; [cbn [dftc]; calg|]. rewrite !dftc_cons. unfold T1.
    rewrite (csum_map_ext_in _ (fun n0 => cscal c (cmul (cexp (- angle N k0 n0)) (dftc rest (fun n' => z (n0 :: n')) k'))))
      by (intros n0 _; rewrite (IH c (fun n' => z (n0 :: n')) k'); apply cmul_cscal_r).
    rewrite csum_map_cscal, !cscal_cscal. f_equal. ring.
Qed.

Lemma angle_0_l N n : angle N 0 n = 0.
Proof. unfold angle. simpl INR. unfold Rdiv. ring. Qed.

Lemma dftc_zero_mode shape : Forall (fun n => (0 < n)%nat) shape -> forall z,
  dftc shape z (zero_idx shape) = cscal (/ sqrt (INR (size_of shape))) (csum (map z (all_idx shape))).
Proof.
  induction 1 as [|N rest HN Hrest IH]; intros z.
  - unfold size_of. cbn [all_idx zero_idx map length dftc]. simpl INR. rewrite sqrt_1, Rinv_1. unfold csum. simpl. calg.
  - cbn [zero_idx map]. rewrite dftc_cons. unfold T1.
    rewrite (csum_map_ext_in _ (fun n0 => cscal (/ sqrt (INR (size_of rest)))
                                            (csum (map (fun n' => z (n0 :: n')) (all_idx rest))))).
    2:{ intros n0 _. rewrite angle_0_l, Ropp_0, cexp_0, cmul_1_l. apply (IH (fun n' => z (n0 :: n'))). }
    rewrite csum_map_cscal, cscal_cscal, <- csum_all_idx_cons. f_equal.
    rewrite size_of_cons, mult_INR, sqrt_mult by apply pos_INR. rewrite Rinv_mult. reflexivity.
Qed.

(* ------------------------------------------------------------------ cyclic shift: a unimodular phase *)
Lemma shift1_perm N a : (0 < N)%nat -> Permutation (map (fun n => ((n + a) mod N)%nat) (seq 0 N)) (seq 0 N).
Proof.
  intros HN. apply perm_of_injection.
  - apply seq_NoDup.
  - intros n _. apply in_seq. pose proof (Nat.mod_upper_bound (n + a) N ltac:(lia)). lia.
  - intros n m Hn Hm. apply in_seq in Hn. apply in_seq in Hm. apply shift_mod_inj; lia.
Qed.

Lemma cexp_shift_phase N k n a : (0 < N)%nat ->
  cexp (- angle N k n) = cmul (cexp (angle N k a)) (cexp (- angle N k ((n + a) mod N))).
Proof.
  intros HN. assert (HN' : INR N <> 0) by (apply not_0_INR; lia).
  pose proof (Nat.div_mod (n + a) N ltac:(lia)) as D.
  set (q := ((n + a) / N)%nat) in *. set (r := ((n + a) mod N)%nat) in *.
  assert (E : INR n + INR a = INR N * INR q + INR r) by (rewrite <- plus_INR, D, plus_INR, mult_INR; reflexivity).
  rewrite <- cexp_plus.
  rewrite <- (cexp_period_nat_minus (angle N k a + - angle N k r) (k * q)). f_equal.
  unfold angle. rewrite mult_INR.
  replace (INR n) with (INR N * INR q + INR r - INR a) by lra. field. exact HN'.
Qed.

Lemma dftc_shift shape : Forall (fun n => (0 < n)%nat) shape -> forall s k,
  exists u, cabs2 u = 1 /\ forall z, dftc shape (fun n => z (shift_idx shape s n)) k = cmul u (dftc shape z k).
Proof.
  induction 1 as [|N rest HN _ IH]; intros s k.
  - exists (1, 0). split; [unfold cabs2; cbn [fst snd]; ring|]. intros z. rewrite cmul_1_l.
    destruct s; reflexivity.
  - destruct s as [|a s'].
    + exists (1, 0). split; [unfold cabs2; cbn [fst snd]; ring|]. intros z. rewrite cmul_1_l. reflexivity.
    + destruct k as [|k0 k'].
      * exists (1, 0). split; [unfold cabs2; cbn [fst snd]; ring|]. intros z. cbn [dftc]. calg.
      * destruct (IH s' k') as [u' [Hu' IHz]].
        exists (cmul (cexp (angle N k0 a)) u'). split; [rewrite cabs2_cmul, cabs2_cexp, Hu'; ring|].
        intros z. rewrite !dftc_cons. unfold T1.
        set (G := fun m => dftc rest (fun n' => z (m :: n')) k').
        rewrite (csum_map_ext_in _ (fun n0 => cmul (cmul (cexp (angle N k0 a)) u')
                   ((fun m => cmul (cexp (- angle N k0 m)) (G m)) ((n0 + a) mod N)%nat))).
        2:{ intros n0 _. cbn [shift_idx]. rewrite (IHz (fun n' => z (((n0 + a) mod N)%nat :: n'))).
            rewrite (cexp_shift_phase N k0 n0 a HN). fold (G ((n0 + a) mod N)%nat). calg. }
        rewrite csum_map_cmul_l.
        rewrite (csum_reindex (seq 0 N) (seq 0 N) (fun n => ((n + a) mod N)%nat)
                   (fun m => cmul (cexp (- angle N k0 m)) (G m)) (shift1_perm N a HN)).
        rewrite cmul_cscal_r. reflexivity.
Qed.

(* ------------------------------------------------------------------ reflection *)
Lemma refl1_perm N : (0 < N)%nat -> Permutation (map (fun n => ((N - n) mod N)%nat) (seq 0 N)) (seq 0 N).
Proof.
  intros HN. apply (perm_of_bijection _ (fun n => ((N - n) mod N)%nat)); try apply seq_NoDup.
  - intros n Hn. apply in_seq in Hn. split; [|apply refl_mod_invol; lia].
    apply in_seq. pose proof (refl_mod_lt N n ltac:(lia)). lia.
  - intros n Hn. apply in_seq in Hn. split; [|apply refl_mod_invol; lia].
    apply in_seq. pose proof (refl_mod_lt N n ltac:(lia)). lia.
Qed.

(* exp(-2 pi i k n / N) = exp(-2 pi i (-k) (-n) / N) with -x = (N - x) mod N *)
Lemma cexp_reflect_phase N k n : (k < N)%nat -> (n < N)%nat ->
  cexp (- angle N k n) = cexp (- angle N ((N - k) mod N) ((N - n) mod N)).
Proof.
  intros Hk Hn. assert (HN : INR N <> 0) by (apply not_0_INR; lia).
  destruct k as [|k].
  - rewrite Nat.sub_0_r, Nat.mod_same by lia. rewrite !angle_0_l. reflexivity.
  - destruct n as [|n].
    + rewrite Nat.sub_0_r, (Nat.mod_same N) by lia. unfold angle. simpl (INR 0). f_equal. unfold Rdiv. ring.
    + rewrite !Nat.mod_small by lia.
      destruct (le_lt_dec (S k + S n) N) as [Hle|Hgt].
      * rewrite <- (cexp_period_nat_minus (- angle N (S k) (S n)) (N - (S k + S n))). f_equal.
        unfold angle. rewrite !minus_INR, plus_INR by lia. field. exact HN.
      * rewrite <- (cexp_period_nat (- angle N (S k) (S n)) (S k + S n - N)). f_equal.
        unfold angle. rewrite !minus_INR, plus_INR by lia. field. exact HN.
Qed.

Lemma dftc_reflect shape : Forall (fun n => (0 < n)%nat) shape -> forall ax z k, valid_idx shape k ->
  dftc shape (fun n => z (reflect_idx shape ax n)) k = dftc shape z (reflect_idx shape ax k).
Proof.
  induction 1 as [|N rest HN _ IH]; intros ax z k Hk.
  - destruct ax; reflexivity.
  - unfold valid_idx in Hk. inversion Hk as [|N' k0 rest' k' Hk0 Hk' E1 E2]. subst.
    destruct ax as [|ax].
    + cbn [reflect_idx]. rewrite !dftc_cons. unfold T1. f_equal.
      set (G := fun m => dftc rest (fun n' => z (m :: n')) k').
      rewrite (csum_map_ext_in _ (fun n0 => (fun m => cmul (cexp (- angle N ((N - k0) mod N) m)) (G m)) ((N - n0) mod N)%nat)).
      2:{ intros n0 Hn0. apply in_seq in Hn0. cbn [reflect_idx].
          rewrite (cexp_reflect_phase N k0 n0) by lia. reflexivity. }
      apply (csum_reindex (seq 0 N) (seq 0 N) (fun n => ((N - n) mod N)%nat)
               (fun m => cmul (cexp (- angle N ((N - k0) mod N) m)) (G m))). apply refl1_perm. exact HN.
    + cbn [reflect_idx]. rewrite !dftc_cons. unfold T1. f_equal. apply csum_map_ext_in. intros n0 _. f_equal.
      apply (IH ax (fun n' => z (n0 :: n')) k' Hk').
Qed.

(* ------------------------------------------------------------------ transposition of two adjacent axes *)
Lemma dftc_swap i : forall shape z k, valid_idx (swap_at i shape) k ->
  dftc (swap_at i shape) (fun n => z (swap_at i n)) k = dftc shape z (swap_at i k).
Proof.
  induction i as [|i IH]; intros shape z k Hk.
  - destruct shape as [|a [|b rest]].
    + cbn [swap_at] in *. inversion Hk. subst. reflexivity.
    + cbn [swap_at] in *. inversion Hk as [|? k0 ? k' ? Hk']. subst. inversion Hk'. subst. reflexivity.
    + cbn [swap_at] in Hk. inversion Hk as [|? k2 ? kk ? Hk1]. subst. inversion Hk1 as [|? k1 ? k' ? Hk']. subst.
      cbn [swap_at]. rewrite !dftc_cons. unfold T1.
      set (X := fun n1 n2 => dftc rest (fun n' => z (n1 :: n2 :: n')) k').
      (* left: outer sum over n2 (axis of size b), inner over n1 (axis of size a) *)
      rewrite (csum_map_ext_in _ (fun n2 => cscal (/ sqrt (INR a)) (csum (map (fun n1 =>
                 cmul (cmul (cexp (- angle b k2 n2)) (cexp (- angle a k1 n1))) (X n1 n2)) (seq 0 a))))).
      2:{ intros n2 _. rewrite dftc_cons. unfold T1. rewrite cmul_cscal_r. f_equal.
          rewrite <- csum_map_cmul_l. apply csum_map_ext_in. intros n1 _. cbn [swap_at]. apply cmul_assoc. }
      rewrite csum_map_cscal, csum_exchange.
      (* right: outer sum over n1, inner over n2 *)
      symmetry.
      rewrite (csum_map_ext_in _ (fun n1 => cscal (/ sqrt (INR b)) (csum (map (fun n2 =>
                 cmul (cmul (cexp (- angle b k2 n2)) (cexp (- angle a k1 n1))) (X n1 n2)) (seq 0 b))))).
      2:{ intros n1 _. rewrite dftc_cons. unfold T1. rewrite cmul_cscal_r. f_equal.
          rewrite <- csum_map_cmul_l. apply csum_map_ext_in. intros n2 _. fold (X n1 n2).
          rewrite cmul_assoc. f_equal. apply cmul_comm. }
      rewrite csum_map_cscal, !cscal_cscal. f_equal. apply Rmult_comm.
  - destruct shape as [|a rest].
    + cbn [swap_at] in *. inversion Hk. subst. reflexivity.
    + cbn [swap_at] in Hk. inversion Hk as [|? k0 ? k' ? Hk']. subst. cbn [swap_at]. rewrite !dftc_cons. unfold T1.
      f_equal. apply csum_map_ext_in. intros n0 _. f_equal. apply (IH rest (fun n' => z (n0 :: n')) k' Hk').
Qed.

(* ------------------------------------------------------------------ the mathematical DFT satisfies dft_spec *)
Lemma dftc_ext shape : forall z z' k, (forall n, z n = z' n) -> dftc shape z k = dftc shape z' k.
Proof.
  induction shape as [|N rest IH]; intros z z' k H.
  - destruct k; [apply H|reflexivity].
  - destruct k as [|k0 k']; [reflexivity|]. rewrite !dftc_cons. unfold T1. f_equal. apply csum_map_ext_in. intros n0 _.
    f_equal. apply IH. intros n'. apply H.
Qed.

Lemma cabs2_real x : cabs2 (x, 0) = x ^ 2.
Proof. unfold cabs2. cbn [fst snd]. ring. Qed.

Lemma math_parseval : dft_parseval dom_math dft_math.
Proof.
  intros shape x Hd. unfold dft_math, sum_over.
  rewrite (rsum_map_ext_in (fun k => cabs2 (cscal 1 (dftc shape (fun n => (x n, 0)) k)))
             (fun k => cabs2 (dftc shape (fun n => (x n, 0)) k))) by (intros; rewrite cscal_1; reflexivity).
  pose proof (dftc_parseval shape Hd (fun n => (x n, 0))) as P. unfold sum_over in P. rewrite P.
  apply rsum_map_ext_in. intros. apply cabs2_real.
Qed.

Lemma math_zero_mode : dft_zero_mode dom_math dft_math.
Proof.
  intros shape x Hd. unfold dft_math. rewrite cscal_1, (dftc_zero_mode shape Hd), csum_map_components.
  cbn [fst snd]. rewrite rsum_map_zero.
  replace (rsum (map (fun a => x a) (all_idx shape))) with (sum_over (all_idx shape) x)
    by (unfold sum_over; f_equal).
  unfold cscal. cbn [fst snd]. apply pair_eq; cbn [fst snd]; unfold Rdiv; ring.
Qed.

Lemma math_homogeneous : dft_homogeneous dom_math dft_math.
Proof.
  intros shape c x k Hd Hk. unfold dft_math. rewrite !cscal_1.
  rewrite (dftc_ext shape (fun n => (c * x n, 0)) (fun n => cscal c (x n, 0)) k)
    by (intros n; unfold cscal; cbn [fst snd]; f_equal; ring).
  rewrite dftc_cscal. apply cabs2_cscal.
Qed.

Lemma math_shift : dft_shift dom_math dft_math.
Proof.
  intros shape s x k Hd Hk. unfold dft_math. rewrite !cscal_1.
  destruct (dftc_shift shape Hd s k) as [u [Hu H]].
  rewrite (H (fun n => (x n, 0))), cabs2_cmul, Hu. ring.
Qed.

Lemma math_reflect : dft_reflect dom_math dft_math.
Proof.
  intros shape ax x k Hd Hk. unfold dft_math. rewrite !cscal_1.
  rewrite (dftc_reflect shape Hd ax (fun n => (x n, 0)) k) by (apply in_all_idx; exact Hk). reflexivity.
Qed.

Lemma math_axis_swap : dft_axis_swap dom_math dft_math.
Proof.
  intros shape i x k Hd _ Hk. unfold dft_math. rewrite !cscal_1.
  rewrite (dftc_swap i shape (fun n => (x n, 0)) k) by (apply in_all_idx; exact Hk). reflexivity.
Qed.

Theorem dft_math_spec : dft_spec dom_math dft_math.
Proof.
  repeat split; [apply math_parseval|apply math_zero_mode|apply math_homogeneous|apply math_shift
                 |apply math_reflect|apply math_axis_swap].
Qed.

(* the domain of the mathematical transform is closed under axis transpositions *)
Lemma dom_math_swap i shape : dom_math shape -> dom_math (swap_at i shape).
Proof. apply swap_pos. Qed.
