(* C01, R-layer: the located spheres of separated droplets do not overlap, so remove_overlapping keeps
   all of them (discharges the premise  forall i j, i <> j -> 0 <= D i j  of C01Cart.c01_multi_no_removal
   in the real-number picture).
   Notation: d in {1,2,3}; h_1..h_d the grid spacings, |h| = sqrt (sum h_k^2); for a droplet of radius r
   rho_d(r) = rfv_scalar_d (prod (2 r + h_k)) is the radius of the sphere that has the volume of the
   bounding box of the digitised ball; the located radius is r' = rfv_scalar_d (n * prod h_k) with n the
   number of covered cells (Emulsion / SphericalDroplet.from_volume, generated definitions of
   Gen_spherical).
     rfv_d_mono            : radius_from_volume is monotone on non-negative volumes (d = 1, 2, 3);
     located_radius_le_rho : n * prod h <= prod (2 r + h)  ->  r' <= rho_d(r);
                             the counting premise is the D-layer theorem Proofs/BallCount.ball_count_bound
                             (over Q: |B| * prod h <= prod (2 r + h), proved from the row lemmas);
     dist_triangle         : triangle inequality of the Euclidean distance on lists of reals of equal
                             length (any dimension), from Cauchy-Schwarz;
     near_dist             : |l_k - c_k| <= h_k / 2 for all k  ->  dist l c <= |h| / 2;
     located_not_overlapping : dist c_i c_j >= rho_i + rho_j + |h|  (a fortiori 2 |h|),  r'_i <= rho_i,
                             r'_j <= rho_j, located centres within h_k / 2 per axis
                             ->  0 <= dist l_i l_j - (r'_i + r'_j);
     c01_no_overlap_1/2/3  : the two combined.
   Remark (link to the Q statements): c01_multi gives |pos_k - c_k| <= h_k / 2 and vol = cell volume * n over
   Q; injecting these rationals into R (Q2R) gives the premises `near` and the volume used here; the
   surface distance D i j of remove_overlapping is dist l_i l_j - (r'_i + r'_j) computed in floating point.
   Logical basis: the standard-library reals (and classical logic through Coquelicot, via C12). *)
From Coq Require Import Reals Lra Lia List Psatz.
From Coquelicot Require Import Coquelicot.
From PD Require Import Model.Num Gen.Gen_spherical Proofs.C12.
Import ListNotations.
Local Open Scope R_scope.

(* ---- monotonicity of radius_from_volume ---- *)
Lemma rfv_1_mono v1 v2 : v1 <= v2 -> rfv_scalar_1 v1 <= rfv_scalar_1 v2.
Proof. intros H. unfold rfv_scalar_1. lra. Qed.

Lemma rfv_2_nonneg v : 0 <= rfv_scalar_2 v.
Proof. unfold rfv_scalar_2. apply sqrt_pos. Qed.

Lemma rfv_3_nonneg v : 0 <= rfv_scalar_3 v.
Proof. unfold rfv_scalar_3. apply pow_nn_nonneg. Qed.

Lemma rfv_2_mono v1 v2 : 0 <= v1 -> v1 <= v2 -> rfv_scalar_2 v1 <= rfv_scalar_2 v2.
Proof.
  intros H1 H2. destruct (Rle_lt_dec (rfv_scalar_2 v1) (rfv_scalar_2 v2)) as [H|H]; [exact H|exfalso].
  pose proof (rfv_2_nonneg v2) as Hn. pose proof PI_pos as HP.
  assert (E1 := vr_inv_2 v1 H1). assert (E2 := vr_inv_2 v2 ltac:(lra)).
  unfold vfr_scalar_2 in E1, E2.
  set (a := rfv_scalar_2 v1) in *. set (b := rfv_scalar_2 v2) in *.
  assert (Hlt : b ^ 2 < a ^ 2) by nra.
  assert (PI * b ^ 2 < PI * a ^ 2) by (apply Rmult_lt_compat_l; assumption). lra.
Qed.

Lemma rfv_3_mono v1 v2 : 0 <= v1 -> v1 <= v2 -> rfv_scalar_3 v1 <= rfv_scalar_3 v2.
Proof.
  intros H1 H2. destruct (Rle_lt_dec (rfv_scalar_3 v1) (rfv_scalar_3 v2)) as [H|H]; [exact H|exfalso].
  pose proof (rfv_3_nonneg v2) as Hn. pose proof PI_pos as HP.
  assert (E1 := vr_inv_3 v1 H1). assert (E2 := vr_inv_3 v2 ltac:(lra)).
  unfold vfr_scalar_3 in E1, E2.
  set (a := rfv_scalar_3 v1) in *. set (b := rfv_scalar_3 v2) in *.
  assert (Hlt : b ^ 3 < a ^ 3).
  { assert (0 < a - b) by lra. assert (0 < a) by lra.
    replace (a ^ 3) with (b ^ 3 + (a - b) * (a * a + a * b + b * b)) by ring.
    assert (0 < a * a + a * b + b * b) by nra.
    assert (0 < (a - b) * (a * a + a * b + b * b)) by (apply Rmult_lt_0_compat; assumption). lra. }
  assert (4 / 3 * PI * b ^ 3 < 4 / 3 * PI * a ^ 3) by (apply Rmult_lt_compat_l; [nra|assumption]). lra.
Qed.

(* ---- (i) located radius <= radius of the bounding-box volume ---- *)
Theorem located_radius_le_rho_1 n h1 r : 0 <= n * h1 -> n * h1 <= 2 * r + h1 ->
  rfv_scalar_1 (n * h1) <= rfv_scalar_1 (2 * r + h1).
Proof. intros _ H. apply rfv_1_mono. exact H. Qed.

Theorem located_radius_le_rho_2 n h1 h2 r : 0 <= n * (h1 * h2) ->
  n * (h1 * h2) <= (2 * r + h1) * (2 * r + h2) ->
  rfv_scalar_2 (n * (h1 * h2)) <= rfv_scalar_2 ((2 * r + h1) * (2 * r + h2)).
Proof. intros H0 H. apply rfv_2_mono; assumption. Qed.

Theorem located_radius_le_rho_3 n h1 h2 h3 r : 0 <= n * (h1 * h2 * h3) ->
  n * (h1 * h2 * h3) <= (2 * r + h1) * (2 * r + h2) * (2 * r + h3) ->
  rfv_scalar_3 (n * (h1 * h2 * h3)) <= rfv_scalar_3 ((2 * r + h1) * (2 * r + h2) * (2 * r + h3)).
Proof. intros H0 H. apply rfv_3_mono; assumption. Qed.

(* ---- Euclidean distance on lists of reals ---- *)
Fixpoint sumsqR (v : list R) : R := match v with [] => 0 | x :: v' => x * x + sumsqR v' end.
Fixpoint dotR (u v : list R) : R :=
  match u, v with x :: u', y :: v' => x * y + dotR u' v' | _, _ => 0 end.
Fixpoint vsub (u v : list R) : list R :=
  match u, v with x :: u', y :: v' => (x - y) :: vsub u' v' | _, _ => [] end.
Definition normR (v : list R) : R := sqrt (sumsqR v).
Definition distR (u v : list R) : R := normR (vsub u v).

Lemma sumsqR_nonneg v : 0 <= sumsqR v.
Proof. induction v as [|x v IH]; simpl; [lra|nra]. Qed.

Lemma cs_R : forall u v, dotR u v * dotR u v <= sumsqR u * sumsqR v.
Proof.
  induction u as [|x u IH]; intros v; simpl; [lra|].
  destruct v as [|y v]; simpl.
  - pose proof (sumsqR_nonneg u). nra.
  - pose proof (IH v) as H. pose proof (sumsqR_nonneg u) as HU. pose proof (sumsqR_nonneg v) as HV.
    set (D := dotR u v) in *. set (U := sumsqR u) in *. set (V := sumsqR v) in *.
    (* 2 x y D <= x^2 V + y^2 U *)
    assert (HA : 0 <= x * x * V + y * y * U) by nra.
    assert (H3 : (2 * (x * y) * D) * (2 * (x * y) * D) <= (x * x * V + y * y * U) * (x * x * V + y * y * U)).
    { assert (0 <= (x * y) * (x * y) * (U * V - D * D)) by (apply Rmult_le_pos; nra).
      assert (0 <= (x * x * V - y * y * U) * (x * x * V - y * y * U)) by apply Rle_0_sqr.
      assert (E : (x * x * V + y * y * U) * (x * x * V + y * y * U) - (2 * (x * y) * D) * (2 * (x * y) * D)
                  = (x * x * V - y * y * U) * (x * x * V - y * y * U)
                    + 4 * ((x * y) * (x * y) * (U * V - D * D))) by ring.
      lra. }
    assert (H4 : 2 * (x * y) * D <= x * x * V + y * y * U).
    { destruct (Rle_lt_dec (2 * (x * y) * D) (x * x * V + y * y * U)) as [Hle|Hlt]; [exact Hle|exfalso].
      nra. }
    nra.
Qed.

Lemma vsub_chain : forall a b c, length a = length b -> length b = length c ->
  sumsqR (vsub a c)
  = sumsqR (vsub a b) + 2 * dotR (vsub a b) (vsub b c) + sumsqR (vsub b c).
Proof.
  induction a as [|x a IH]; intros [|y b] [|z c] H1 H2; simpl in *; try discriminate; [ring|].
  rewrite (IH b c) by lia. ring.
Qed.

Lemma sqrt_le_sum U V D : 0 <= U -> 0 <= V -> D * D <= U * V ->
  sqrt (U + 2 * D + V) <= sqrt U + sqrt V.
Proof.
  intros HU HV HD. set (a := sqrt U). set (b := sqrt V).
  assert (Ha : 0 <= a) by apply sqrt_pos. assert (Hb : 0 <= b) by apply sqrt_pos.
  assert (Ea : a * a = U) by (apply sqrt_sqrt; exact HU).
  assert (Eb : b * b = V) by (apply sqrt_sqrt; exact HV).
  assert (HDab : D <= a * b).
  { destruct (Rle_lt_dec D (a * b)) as [H|H]; [exact H|exfalso].
    assert (0 <= a * b) by (apply Rmult_le_pos; assumption).
    assert ((a * b) * (a * b) < D * D) by nra.
    assert ((a * b) * (a * b) = U * V) by (rewrite <- Ea, <- Eb; ring). lra. }
  destruct (Rle_lt_dec (U + 2 * D + V) 0) as [Hneg|Hpos].
  - rewrite sqrt_neg_0 by exact Hneg. lra.
  - rewrite <- (sqrt_square (a + b)) by lra. apply sqrt_le_1; [lra|nra|nra].
Qed.

Theorem dist_triangle a b c : length a = length b -> length b = length c ->
  distR a c <= distR a b + distR b c.
Proof.
  intros H1 H2. unfold distR, normR. rewrite (vsub_chain a b c H1 H2).
  apply sqrt_le_sum; [apply sumsqR_nonneg|apply sumsqR_nonneg|apply cs_R].
Qed.

Lemma distR_sym : forall a b, distR a b = distR b a.
Proof.
  unfold distR, normR. intros a b. f_equal. revert b.
  induction a as [|x a IH]; intros [|y b]; simpl; try reflexivity. rewrite (IH b). ring.
Qed.

(* the located centre is within half a spacing of the true centre along every axis *)
Fixpoint near (l c h : list R) : Prop :=
  match l, c, h with
  | x :: l', y :: c', k :: h' => Rabs (x - y) <= k / 2 /\ near l' c' h'
  | [], [], [] => True
  | _, _, _ => False
  end.

Lemma near_length : forall l c h, near l c h -> length l = length c /\ length c = length h.
Proof.
  induction l as [|x l IH]; intros [|y c] [|k h] H; simpl in *; try contradiction; [split; reflexivity|].
  destruct H as [_ H]. destruct (IH c h H). split; congruence.
Qed.

Lemma near_dist : forall l c h, near l c h -> distR l c <= normR h / 2.
Proof.
  intros l c h H. unfold distR, normR.
  assert (Hs : sumsqR (vsub l c) <= sumsqR h / 4).
  { revert c h H. induction l as [|x l IH]; intros [|y c] [|k h] H; simpl in *; try contradiction; [lra|].
    destruct H as [H1 H2]. specialize (IH c h H2).
    apply Rabs_le_between in H1. nra. }
  replace (sqrt (sumsqR h) / 2) with (sqrt (sumsqR h / 4)).
  - apply sqrt_le_1; [apply sumsqR_nonneg|pose proof (sumsqR_nonneg h); lra|exact Hs].
  - unfold Rdiv at 1. rewrite sqrt_mult_alt by apply sumsqR_nonneg.
    replace (/ 4) with ((/ 2) * (/ 2)) by field. rewrite sqrt_square by lra. reflexivity.
Qed.

(* ---- (ii) the located spheres do not overlap ---- *)
Theorem located_not_overlapping ci cj li lj h rhoi rhoj ri rj :
  near li ci h -> near lj cj h ->
  ri <= rhoi -> rj <= rhoj ->
  rhoi + rhoj + normR h <= distR ci cj ->
  0 <= distR li lj - (ri + rj).
Proof.
  intros Hi Hj Hri Hrj Hsep.
  destruct (near_length _ _ _ Hi) as [L1 L2]. destruct (near_length _ _ _ Hj) as [L3 L4].
  pose proof (near_dist _ _ _ Hi) as Di. pose proof (near_dist _ _ _ Hj) as Dj.
  assert (T1 : distR ci cj <= distR ci li + distR li cj).
  { apply dist_triangle; congruence. }
  assert (T2 : distR li cj <= distR li lj + distR lj cj).
  { apply dist_triangle; congruence. }
  rewrite (distR_sym ci li) in T1. lra.
Qed.

Corollary located_not_overlapping_2h ci cj li lj h rhoi rhoj ri rj :
  near li ci h -> near lj cj h ->
  ri <= rhoi -> rj <= rhoj ->
  rhoi + rhoj + 2 * normR h <= distR ci cj ->
  0 <= distR li lj - (ri + rj).
Proof.
  intros Hi Hj Hri Hrj Hsep. apply (located_not_overlapping ci cj li lj h rhoi rhoj ri rj); try assumption.
  assert (0 <= normR h) by (unfold normR; apply sqrt_pos). lra.
Qed.

(* ---- both steps combined, d = 1, 2, 3:  D i j >= 0 for the located droplets ---- *)
Theorem c01_no_overlap_1 ci cj li lj h1 ri rj ni nj :
  near li ci [h1] -> near lj cj [h1] ->
  0 <= ni * h1 -> ni * h1 <= 2 * ri + h1 ->
  0 <= nj * h1 -> nj * h1 <= 2 * rj + h1 ->
  rfv_scalar_1 (2 * ri + h1) + rfv_scalar_1 (2 * rj + h1) + 2 * normR [h1] <= distR ci cj ->
  0 <= distR li lj - (rfv_scalar_1 (ni * h1) + rfv_scalar_1 (nj * h1)).
Proof.
  intros Hi Hj A1 A2 B1 B2 Hsep.
  apply (located_not_overlapping_2h ci cj li lj [h1] _ _ _ _ Hi Hj
           (located_radius_le_rho_1 ni h1 ri A1 A2) (located_radius_le_rho_1 nj h1 rj B1 B2) Hsep).
Qed.

Theorem c01_no_overlap_2 ci cj li lj h1 h2 ri rj ni nj :
  near li ci [h1; h2] -> near lj cj [h1; h2] ->
  0 <= ni * (h1 * h2) -> ni * (h1 * h2) <= (2 * ri + h1) * (2 * ri + h2) ->
  0 <= nj * (h1 * h2) -> nj * (h1 * h2) <= (2 * rj + h1) * (2 * rj + h2) ->
  rfv_scalar_2 ((2 * ri + h1) * (2 * ri + h2)) + rfv_scalar_2 ((2 * rj + h1) * (2 * rj + h2))
    + 2 * normR [h1; h2] <= distR ci cj ->
  0 <= distR li lj - (rfv_scalar_2 (ni * (h1 * h2)) + rfv_scalar_2 (nj * (h1 * h2))).
Proof.
  intros Hi Hj A1 A2 B1 B2 Hsep.
  apply (located_not_overlapping_2h ci cj li lj [h1; h2] _ _ _ _ Hi Hj
           (located_radius_le_rho_2 ni h1 h2 ri A1 A2) (located_radius_le_rho_2 nj h1 h2 rj B1 B2) Hsep).
Qed.

Theorem c01_no_overlap_3 ci cj li lj h1 h2 h3 ri rj ni nj :
  near li ci [h1; h2; h3] -> near lj cj [h1; h2; h3] ->
  0 <= ni * (h1 * h2 * h3) -> ni * (h1 * h2 * h3) <= (2 * ri + h1) * (2 * ri + h2) * (2 * ri + h3) ->
  0 <= nj * (h1 * h2 * h3) -> nj * (h1 * h2 * h3) <= (2 * rj + h1) * (2 * rj + h2) * (2 * rj + h3) ->
  rfv_scalar_3 ((2 * ri + h1) * (2 * ri + h2) * (2 * ri + h3))
    + rfv_scalar_3 ((2 * rj + h1) * (2 * rj + h2) * (2 * rj + h3))
    + 2 * normR [h1; h2; h3] <= distR ci cj ->
  0 <= distR li lj - (rfv_scalar_3 (ni * (h1 * h2 * h3)) + rfv_scalar_3 (nj * (h1 * h2 * h3))).
Proof.
  intros Hi Hj A1 A2 B1 B2 Hsep.
  apply (located_not_overlapping_2h ci cj li lj [h1; h2; h3] _ _ _ _ Hi Hj
           (located_radius_le_rho_3 ni h1 h2 h3 ri A1 A2) (located_radius_le_rho_3 nj h1 h2 h3 rj B1 B2) Hsep).
Qed.

Lemma sqrt_le_bound x y : 0 <= x -> 0 <= y -> x <= y * y -> sqrt x <= y.
Proof.
  intros Hx Hy H. apply Rle_trans with (sqrt (y * y)).
  - apply sqrt_le_1; [exact Hx|nra|exact H].
  - rewrite sqrt_square by exact Hy. lra.
Qed.

(* the hypotheses are satisfiable (d = 2): unit spacings, radii 1, four covered cells each, centres
   (0,0) and (10,0), located centres displaced by (1/2, -1/2) and (-1/2, 1/2) *)
Example c01_no_overlap_nonvacuous :
  near [1 / 2; - (1 / 2)] [0; 0] [1; 1] /\ near [10 - 1 / 2; 1 / 2] [10; 0] [1; 1] /\
  0 <= 4 * (1 * 1) /\ 4 * (1 * 1) <= (2 * 1 + 1) * (2 * 1 + 1) /\
  rfv_scalar_2 ((2 * 1 + 1) * (2 * 1 + 1)) + rfv_scalar_2 ((2 * 1 + 1) * (2 * 1 + 1))
    + 2 * normR [1; 1] <= distR [0; 0] [10; 0].
Proof.
  assert (Hab : forall x k, - (k / 2) <= x <= k / 2 -> Rabs x <= k / 2)
    by (intros x k H; apply Rabs_le_between; exact H).
  split; [simpl; repeat split; apply Hab; split; lra|].
  split; [simpl; repeat split; apply Hab; split; lra|].
  split; [lra|]. split; [lra|].
  (* rho = sqrt (9 / PI) <= 3 since PI > 2;  |h| = sqrt 2 < 2;  distance = 10 *)
  assert (Hrho : rfv_scalar_2 ((2 * 1 + 1) * (2 * 1 + 1)) <= 3).
  { unfold rfv_scalar_2. pose proof PI_pos as HP. assert (H2 : 2 < PI) by (pose proof PI2_1; lra).
    apply sqrt_le_bound; [|lra|].
    - apply Rmult_le_pos; [lra|left; apply Rinv_0_lt_compat; exact HP].
    - apply (Rmult_le_reg_r PI); [exact HP|]. unfold Rdiv. rewrite Rmult_assoc, Rinv_l by lra. lra. }
  assert (Hh : normR [1; 1] <= 2).
  { unfold normR. simpl. apply sqrt_le_bound; lra. }
  assert (Hd : distR [0; 0] [10; 0] = 10).
  { unfold distR, normR. simpl. replace ((0 - 10) * (0 - 10) + ((0 - 0) * (0 - 0) + 0)) with (10 * 10) by ring.
    apply sqrt_square. lra. }
  rewrite Hd. lra.
Qed.

Print Assumptions rfv_3_mono.
Print Assumptions dist_triangle.
Print Assumptions located_not_overlapping.
Print Assumptions c01_no_overlap_3.
Print Assumptions c01_no_overlap_nonvacuous.
