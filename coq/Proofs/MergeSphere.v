(* Facts about the dimension-generic compiled conversions (generated rfv_nd_d / vfr_nd_d, the ones
   merge_data calls), proved directly so that C11 does not depend on the other variants. *)
From Coq Require Import Reals Lra.
From PD Require Import Model.Num Gen.Gen_spherical.
Local Open Scope R_scope.

Lemma nd_PI_pos : 0 < PI. Proof. apply PI_RGT_0. Qed.

(* volume is non-negative for non-negative radii *)
Lemma vfr_nd_1_nonneg r : 0 <= r -> 0 <= vfr_nd_1 r.
Proof. intros Hr. unfold vfr_nd_1. lra. Qed.

Lemma vfr_nd_2_nonneg r : 0 <= r -> 0 <= vfr_nd_2 r.
Proof.
  intros Hr. unfold vfr_nd_2. pose proof nd_PI_pos as HP.
  apply Rmult_le_pos; [lra|]. apply pow_le; exact Hr.
Qed.

Lemma vfr_nd_3_nonneg r : 0 <= r -> 0 <= vfr_nd_3 r.
Proof.
  intros Hr. unfold vfr_nd_3. pose proof nd_PI_pos as HP.
  apply Rmult_le_pos; [|apply pow_le; exact Hr].
  apply Rmult_le_pos; [lra|]. left. apply Rinv_0_lt_compat. lra.
Qed.

(* radius is non-negative for non-negative volumes *)
Lemma rfv_nd_1_nonneg v : 0 <= v -> 0 <= rfv_nd_1 v.
Proof. intros Hv. unfold rfv_nd_1. lra. Qed.

Lemma rfv_nd_2_nonneg v : 0 <= v -> 0 <= rfv_nd_2 v.
Proof. intros Hv. unfold rfv_nd_2. apply sqrt_pos. Qed.

Lemma rfv_nd_3_nonneg v : 0 <= v -> 0 <= rfv_nd_3 v.
Proof. intros Hv. unfold rfv_nd_3. apply pow_nn_nonneg. Qed.

(* volume -> radius -> volume *)
Lemma vr_nd_1 v : 0 <= v -> vfr_nd_1 (rfv_nd_1 v) = v.
Proof. intros _. unfold vfr_nd_1, rfv_nd_1. field. Qed.

Lemma vr_nd_2 v : 0 <= v -> vfr_nd_2 (rfv_nd_2 v) = v.
Proof.
  intros Hv. unfold vfr_nd_2, rfv_nd_2. pose proof nd_PI_pos as HP.
  replace (sqrt (v / PI) ^ 2) with (sqrt (v / PI) * sqrt (v / PI)) by ring.
  rewrite sqrt_sqrt; [field; lra|].
  apply Rmult_le_pos; [exact Hv|left; apply Rinv_0_lt_compat; exact HP].
Qed.

Lemma vr_nd_3 v : 0 <= v -> vfr_nd_3 (rfv_nd_3 v) = v.
Proof.
  intros Hv. unfold vfr_nd_3, rfv_nd_3. pose proof nd_PI_pos as HP.
  rewrite cube_pow_nn_third; [field; lra|].
  apply Rmult_le_pos; [lra|left; apply Rinv_0_lt_compat; lra].
Qed.

(* radius -> volume -> radius *)
Lemma rv_nd_1 r : 0 <= r -> rfv_nd_1 (vfr_nd_1 r) = r.
Proof. intros _. unfold vfr_nd_1, rfv_nd_1. field. Qed.

Lemma rv_nd_2 r : 0 <= r -> rfv_nd_2 (vfr_nd_2 r) = r.
Proof.
  intros Hr. unfold vfr_nd_2, rfv_nd_2.
  replace (PI * r ^ 2 / PI) with (r * r) by (field; apply PI_neq0).
  apply sqrt_square; exact Hr.
Qed.

Lemma rv_nd_3 r : 0 <= r -> rfv_nd_3 (vfr_nd_3 r) = r.
Proof.
  intros Hr. unfold vfr_nd_3, rfv_nd_3.
  match goal with |- pow_nn ?x _ = _ => replace x with (r ^ 3) by (field; apply PI_neq0) end.
  apply pow_nn_cube_third; exact Hr.
Qed.
