(* Facts about the dimension-generic compiled conversions (generated rfv_nd_d / vfr_nd_d, the ones
   merge_data calls), proved directly so that C11 does not depend on the other variants.
   The generated expressions are first brought to a canonical form by ring / field (so that
   commuted operands or regrouped constants in the source do not matter); everything else is
   proved from the canonical forms. *)
From Coq Require Import Reals Lra.
From PD Require Import Model.Num Gen.Gen_spherical.
Local Open Scope R_scope.

Lemma nd_PI_pos : 0 < PI. Proof. apply PI_RGT_0. Qed.

(* ---- canonical forms ---- *)
Lemma vfr_nd_1_eq r : vfr_nd_1 r = 2 * r.
Proof. unfold vfr_nd_1. field. Qed.
Lemma vfr_nd_2_eq r : vfr_nd_2 r = PI * (r * r).
Proof. unfold vfr_nd_2. field. Qed.
Lemma vfr_nd_3_eq r : vfr_nd_3 r = 4 / 3 * PI * (r * r * r).
Proof. unfold vfr_nd_3. field. Qed.

Lemma rfv_nd_1_eq v : rfv_nd_1 v = v / 2.
Proof. unfold rfv_nd_1. field. Qed.
Lemma rfv_nd_2_eq v : rfv_nd_2 v = sqrt (v / PI).
Proof. unfold rfv_nd_2. first [reflexivity | f_equal; field; apply PI_neq0]. Qed.
Lemma rfv_nd_3_eq v : rfv_nd_3 v = pow_nn (3 * v / (4 * PI)) (1 / 3).
Proof.
  unfold rfv_nd_3.
  first [ reflexivity
        | match goal with |- pow_nn ?x ?y = pow_nn ?x' ?y' =>
            replace x with x' by (field; apply PI_neq0); replace y with y' by field; reflexivity end ].
Qed.

(* volume is non-negative for non-negative radii *)
Lemma vfr_nd_1_nonneg r : 0 <= r -> 0 <= vfr_nd_1 r.
Proof. intros Hr. rewrite vfr_nd_1_eq. lra. Qed.

Lemma vfr_nd_2_nonneg r : 0 <= r -> 0 <= vfr_nd_2 r.
Proof.
  intros Hr. rewrite vfr_nd_2_eq. pose proof nd_PI_pos as HP.
  apply Rmult_le_pos; [lra|]. apply Rmult_le_pos; exact Hr.
Qed.

Lemma vfr_nd_3_nonneg r : 0 <= r -> 0 <= vfr_nd_3 r.
Proof.
  intros Hr. rewrite vfr_nd_3_eq. pose proof nd_PI_pos as HP.
  apply Rmult_le_pos; [lra|]. apply Rmult_le_pos; [apply Rmult_le_pos|]; exact Hr.
Qed.

(* radius is non-negative for non-negative volumes *)
Lemma rfv_nd_1_nonneg v : 0 <= v -> 0 <= rfv_nd_1 v.
Proof. intros Hv. rewrite rfv_nd_1_eq. lra. Qed.

Lemma rfv_nd_2_nonneg v : 0 <= v -> 0 <= rfv_nd_2 v.
Proof. intros Hv. rewrite rfv_nd_2_eq. apply sqrt_pos. Qed.

Lemma rfv_nd_3_nonneg v : 0 <= v -> 0 <= rfv_nd_3 v.
Proof. intros Hv. rewrite rfv_nd_3_eq. apply pow_nn_nonneg. Qed.

(* volume -> radius -> volume *)
Lemma vr_nd_1 v : 0 <= v -> vfr_nd_1 (rfv_nd_1 v) = v.
Proof. intros _. rewrite vfr_nd_1_eq, rfv_nd_1_eq. field. Qed.

Lemma vr_nd_2 v : 0 <= v -> vfr_nd_2 (rfv_nd_2 v) = v.
Proof.
  intros Hv. rewrite vfr_nd_2_eq, rfv_nd_2_eq. pose proof nd_PI_pos as HP.
  rewrite sqrt_sqrt; [field; lra|].
  apply Rmult_le_pos; [exact Hv|left; apply Rinv_0_lt_compat; exact HP].
Qed.

Lemma vr_nd_3 v : 0 <= v -> vfr_nd_3 (rfv_nd_3 v) = v.
Proof.
  intros Hv. rewrite vfr_nd_3_eq, rfv_nd_3_eq. pose proof nd_PI_pos as HP.
  set (x := 3 * v / (4 * PI)).
  assert (Hx : 0 <= x).
  { unfold x. apply Rmult_le_pos; [lra|left; apply Rinv_0_lt_compat; lra]. }
  replace (pow_nn x (1 / 3) * pow_nn x (1 / 3) * pow_nn x (1 / 3)) with (pow_nn x (1 / 3) ^ 3) by ring.
  rewrite (cube_pow_nn_third x Hx). unfold x. field. lra.
Qed.

(* radius -> volume -> radius *)
Lemma rv_nd_1 r : 0 <= r -> rfv_nd_1 (vfr_nd_1 r) = r.
Proof. intros _. rewrite rfv_nd_1_eq, vfr_nd_1_eq. field. Qed.

Lemma rv_nd_2 r : 0 <= r -> rfv_nd_2 (vfr_nd_2 r) = r.
Proof.
  intros Hr. rewrite rfv_nd_2_eq, vfr_nd_2_eq.
  replace (PI * (r * r) / PI) with (r * r) by (field; apply PI_neq0).
  apply sqrt_square; exact Hr.
Qed.

Lemma rv_nd_3 r : 0 <= r -> rfv_nd_3 (vfr_nd_3 r) = r.
Proof.
  intros Hr. rewrite rfv_nd_3_eq, vfr_nd_3_eq.
  replace (3 * (4 / 3 * PI * (r * r * r)) / (4 * PI)) with (r ^ 3) by (field; apply PI_neq0).
  apply pow_nn_cube_third; exact Hr.
Qed.
