(* Uniqueness: the specification determines the label image.
     firsts_rgs             : converse of rgs_first_occurrences (so  rgs 0 l  <->  the first occurrences
                              of the non-zero labels are 1, 2, ..., n  for some n);
     rgs_pattern_unique     : two restricted-growth labellings of the same key list with the same zero
                              set and the same "equal label" relation are equal;
     label_unique           : any label list lab' of the right length that is zero exactly off the mask,
                              satisfies LabelSpecImg and is numbered in raster order equals
                              label shape mask;
     label_unique_firsts    : the same with the numbering stated through first occurrences.
   Hence comparing an implementation's label image with `label shape mask` is the same as checking it
   against the specification. *)
From Coq Require Import ZArith List Arith Bool Lia.
Import ListNotations.
From PD Require Import Model.Grid Model.MergeLoop Model.Locate Model.Label
  Proofs.Components Proofs.LocateCart Proofs.LabelFlood Proofs.LabelSpec.

Lemma firsts_rgs : forall l m seen k, (forall j, In j seen <-> 1 <= j <= m) ->
  firsts seen l = seq (S m) k -> rgs m l.
Proof.
  induction l as [|x t IH]; intros m seen k Hseen H; cbn [rgs firsts] in *; [exact I|].
  destruct (Nat.eqb x 0 || existsb (Nat.eqb x) seen) eqn:E.
  - assert (Hxm : x <= m).
    { apply orb_true_iff in E. destruct E as [E|E]; [apply Nat.eqb_eq in E; lia|].
      apply existsb_exists in E. destruct E as (y & Hy & E). apply Nat.eqb_eq in E. subst y.
      apply Hseen in Hy. lia. }
    split; [lia|]. replace (Nat.max m x) with m by lia. apply (IH m seen k Hseen H).
  - destruct k as [|k]; cbn [seq] in H; [discriminate H|]. injection H as Hx H. subst x.
    split; [lia|]. replace (Nat.max m (S m)) with (S m) by lia.
    apply (IH (S m) (S m :: seen) k); [|exact H]. intros j. cbn [In]. rewrite Hseen. lia.
Qed.

Lemma rgs_iff_firsts l : rgs 0 l <-> exists n, firsts [] l = seq 1 n.
Proof.
  split.
  - intros H. exists (lmax l). apply rgs_first_occurrences. exact H.
  - intros [n H]. apply (firsts_rgs l 0 [] n); [intros j; cbn [In]; lia|exact H].
Qed.

Section Pattern.
  Variable A : Type.
  Variables f f' : A -> nat.
  Variable L : list A.
  Hypothesis Hzero : forall a, In a L -> (f a = 0 <-> f' a = 0).
  Hypothesis Hpat : forall a b, In a L -> In b L -> f a <> 0 -> f b <> 0 -> (f a = f b <-> f' a = f' b).
  Hypothesis Hr : rgs 0 (map f L).
  Hypothesis Hr' : rgs 0 (map f' L).

  Lemma rgs_pattern_prefix : forall K P, L = P ++ K -> map f P = map f' P -> map f K = map f' K.
  Proof.
    induction K as [|a K IH]; intros P HL HP; [reflexivity|].
    assert (Hfa : f a = f' a).
    { assert (HinP : forall b, In b P -> In b L) by (intros b Hb; rewrite HL; apply in_app_iff; left; exact Hb).
      assert (Ha : In a L) by (rewrite HL; apply in_app_iff; right; left; reflexivity).
      assert (HPeq : forall b, In b P -> f b = f' b) by (apply map_ext_in_iff; exact HP).
      pose proof Hr as H1. pose proof Hr' as H1'. rewrite HL, map_app in H1, H1'. cbn [map] in H1, H1'.
      apply rgs_app in H1. apply rgs_app in H1'. destruct H1 as [HrP [Hle _]]. destruct H1' as [HrP' [Hle' _]].
      rewrite <- HP in Hle', HrP'. cbn [Nat.max] in Hle, Hle'.
      set (M := lmax (map f P)) in *.
      assert (Hocc : forall v, 1 <= v <= M -> exists b, In b P /\ f b = v).
      { intros v Hv. assert (Hin : In v (map f P)) by (apply (rgs_occurs _ 0 v HrP); fold M; lia).
        apply in_map_iff in Hin. destruct Hin as (b & Hb & Hin). exists b. split; [exact Hin|exact Hb]. }
      pose proof (Hzero a Ha) as Hz.
      destruct (Nat.eq_dec (f a) 0) as [E0|Hne]; [lia|].
      assert (Hne' : f' a <> 0) by lia.
      destruct (le_lt_dec (f a) M) as [Hlow|Hhigh].
      - destruct (Hocc (f a)) as (b & Hb & Eb); [lia|].
        assert (E : f' a = f' b).
        { apply (Hpat a b Ha (HinP b Hb)); [exact Hne|lia|congruence]. }
        rewrite E, <- (HPeq b Hb). congruence.
      - destruct (le_lt_dec (f' a) M) as [Hlow'|Hhigh']; [|lia].
        destruct (Hocc (f' a)) as (b & Hb & Eb); [lia|].
        assert (E : f a = f b).
        { apply (Hpat a b Ha (HinP b Hb)); [exact Hne|lia|]. rewrite <- (HPeq b Hb). congruence. }
        congruence. }
    cbn [map]. rewrite Hfa. f_equal.
    apply (IH (P ++ [a])).
    - rewrite HL, <- app_assoc. reflexivity.
    - rewrite !map_app. cbn [map]. congruence.
  Qed.

  Theorem rgs_pattern_unique : map f L = map f' L.
  Proof. apply (rgs_pattern_prefix L []); reflexivity. Qed.
End Pattern.

(* reading a label image back along its key list *)
Lemma map_lab_of_combine : forall (cs : list cell) (l : list nat),
  NoDup cs -> length cs = length l -> map (lab_of (combine cs l)) cs = l.
Proof.
  induction cs as [|c cs IH]; intros [|x l] Hnd Hlen; cbn [length] in Hlen; try discriminate Hlen; [reflexivity|].
  inversion Hnd as [|c' cs' Hc Hnd']; subst.
  cbn [combine map lab_of].
  replace (cell_eqb c c) with true by (symmetry; apply cell_eqb_spec; reflexivity).
  f_equal. transitivity (map (lab_of (combine cs l)) cs); [|apply IH; [exact Hnd'|lia]].
  apply map_ext_in. intros a Ha. cbn [lab_of].
  destruct (cell_eqb a c) eqn:E; [|reflexivity].
  apply cell_eqb_spec in E. subst a. contradiction.
Qed.

Section Unique.
  Variable shape : list Z.
  Variable mask : list bool.
  Variable lab' : list nat.
  Hypothesis Hlen : length mask = length (all_cells shape).
  Hypothesis Hlen' : length lab' = length mask.

  Local Notation cs := (all_cells shape).
  Local Notation mc := (mcells shape mask).
  Local Notation img := (mk_limage shape (label shape mask)).
  Local Notation img' := (mk_limage shape lab').

  Hypothesis Hzero' : forall c m, In (c, m) (combine cs mask) -> (lab_of img' c = 0 <-> m = false).
  Hypothesis Hspec' : LabelSpecImg img'.
  Hypothesis Hrgs' : rgs 0 lab'.

  Lemma img'_keys : map fst img' = cs.
  Proof. unfold mk_limage. apply map_fst_combine. clia. Qed.

  Lemma in_mask_cells' a : In a (mask_cells img') <-> In a mc.
  Proof.
    rewrite mask_cells_spec, img'_keys. split.
    - intros [Ha Hl]. destruct (in_combine_l_ex cs mask a (eq_sym Hlen) Ha) as [m Hm].
      apply mcells_spec. destruct m; [exact Hm|]. exfalso. apply Hl. apply (Hzero' a false Hm). reflexivity.
    - intros Ha. apply mcells_spec in Ha. split; [exact (in_combine_l _ _ _ _ Ha)|].
      intros E. apply (Hzero' a true Ha) in E. discriminate E.
  Qed.

  Lemma box_conn_iff' a b : box_conn img' a b <-> conn0 cell mc face_adj a b.
  Proof.
    unfold box_conn, conn0. split; apply clos_mono; intros u v (Hu & Hv & Hf);
      (split; [|split; [|exact Hf]]); apply in_mask_cells'; assumption.
  Qed.

  Theorem label_unique : lab' = label shape mask.
  Proof.
    pose proof (nodup_all_cells shape) as Hnd.
    pose proof (label_length shape mask Hlen) as HlenL.
    assert (E1 : map (lab_of img) cs = label shape mask)
      by (apply map_lab_of_combine; [exact Hnd|clia]).
    assert (E2 : map (lab_of img') cs = lab')
      by (apply map_lab_of_combine; [exact Hnd|clia]).
    transitivity (map (lab_of img') cs); [symmetry; exact E2|].
    transitivity (map (lab_of img) cs); [|exact E1].
    assert (Hmc : forall a, In a cs -> lab_of img a <> 0 -> In a mc /\ lab_of img' a <> 0).
    { intros a Ha Hne. destruct (in_combine_l_ex cs mask a (eq_sym Hlen) Ha) as [m Hm].
      pose proof (label_zero_iff shape mask Hlen a m Hm) as H1. pose proof (Hzero' a m Hm) as H2.
      destruct m.
      - split; [apply mcells_spec; exact Hm|]. intros E. apply H2 in E. discriminate E.
      - exfalso. apply Hne. apply H1. reflexivity. }
    symmetry. apply (rgs_pattern_unique cell (lab_of img) (lab_of img') cs).
    - intros a Ha. destruct (in_combine_l_ex cs mask a (eq_sym Hlen) Ha) as [m Hm].
      rewrite (label_zero_iff shape mask Hlen a m Hm), (Hzero' a m Hm). reflexivity.
    - intros a b Ha Hb Hna Hnb.
      destruct (Hmc a Ha Hna) as [Ham Hna']. destruct (Hmc b Hb Hnb) as [Hbm Hnb'].
      rewrite (label_spec shape mask Hlen a b)
        by (apply (in_mask_cells shape mask Hlen); assumption).
      rewrite (Hspec' a b) by (apply in_mask_cells'; assumption).
      rewrite (box_conn_iff shape mask Hlen), box_conn_iff'. reflexivity.
    - rewrite E1. exact (label_raster_order shape mask).
    - rewrite E2. exact Hrgs'.
  Qed.
End Unique.

(* the numbering premise stated through first occurrences *)
Theorem label_unique_firsts shape mask lab' n :
  length mask = length (all_cells shape) -> length lab' = length mask ->
  (forall c m, In (c, m) (combine (all_cells shape) mask) ->
     (lab_of (mk_limage shape lab') c = 0 <-> m = false)) ->
  LabelSpecImg (mk_limage shape lab') ->
  firsts [] lab' = seq 1 n ->
  lab' = label shape mask.
Proof.
  intros Hlen Hlen' Hz Hs Hf. apply (label_unique shape mask lab' Hlen Hlen' Hz Hs).
  apply rgs_iff_firsts. exists n. exact Hf.
Qed.

Print Assumptions rgs_iff_firsts.
Print Assumptions rgs_pattern_unique.
Print Assumptions label_unique.
Print Assumptions label_unique_firsts.
