(* C13 -- 3-d and axisymmetric curvature: the factor h = (l^2 + l - 2)/2 of the code IS the first-order
   mean curvature of a harmonic perturbation, for the closed forms of the real spherical harmonics
   of degree l <= 4, and for every degree relative to the Laplace-Beltrami
   eigen-equation as a hypothesis. *)
From Coq Require Import Reals Lra List Lia ZArith Nsatz.
Import ListNotations.
From Coquelicot Require Import Coquelicot.
From PD Require Import Model.Num Model.NumZ Model.Perturbed Gen.Gen_spherical Gen.Gen_spherical_index
  Gen.Gen_perturbed Proofs.PerturbedSeries.
Local Open Scope R_scope.

(* ---------- partial derivatives of the closed forms ---------- *)
Ltac by_cases9 k tac :=
  do 25 (destruct k as [|k]; [tac|]); tac.

Ltac der_tac := cbn [Pshape Pshape_t Pshape_p Pshape_tt Pshape_tp Pshape_pp Lshape Lshape_t Lshape_tt];
  auto_derive; [exact I|ring].

Lemma Pshape_dt k theta phi : is_derive (fun t => Pshape k t phi) theta (Pshape_t k theta phi).
Proof. by_cases9 k der_tac. Qed.
Lemma Pshape_dp k theta phi : is_derive (fun p => Pshape k theta p) phi (Pshape_p k theta phi).
Proof. by_cases9 k der_tac. Qed.
Lemma Pshape_dtt k theta phi : is_derive (fun t => Pshape_t k t phi) theta (Pshape_tt k theta phi).
Proof. by_cases9 k der_tac. Qed.
Lemma Pshape_dtp k theta phi : is_derive (fun t => Pshape_p k t phi) theta (Pshape_tp k theta phi).
Proof. by_cases9 k der_tac. Qed.
Lemma Pshape_dpp k theta phi : is_derive (fun p => Pshape_p k theta p) phi (Pshape_pp k theta phi).
Proof. by_cases9 k der_tac. Qed.

Lemma Lshape_dt l theta : is_derive (fun t => Lshape l t) theta (Lshape_t l theta).
Proof. by_cases9 l der_tac. Qed.
Lemma Lshape_dtt l theta : is_derive (fun t => Lshape_t l t) theta (Lshape_tt l theta).
Proof. by_cases9 l der_tac. Qed.

(* ---------- (a) Laplace-Beltrami eigen-equation ---------- *)
(* degree of mode k as the code computes it (generated spherical_index_lm) *)
Definition degree (k : nat) : R := IZR (fst (index_lm (Z.of_nat k))).

Lemma degree_values k : (k <= 24)%nat ->
  degree k = INR (if k <? 1 then 0 else if k <? 4 then 1 else if k <? 9 then 2 else if k <? 16 then 3 else 4)%nat.
Proof.
  intros Hk. unfold degree.
  do 25 (destruct k as [|k]; [vm_compute fst; simpl; lra|]). lia.
Qed.

(* polynomial identities in sin theta, cos theta modulo sin^2 + cos^2 = 1: clear denominators, bring
   every power of cos theta to degree <= 1 (a normal form), conclude by ring *)
Ltac trig_id theta Hs :=
  let H2 := fresh "H2" in let H3 := fresh "H3" in let H4 := fresh "H4" in
  assert (H2 : cos theta ^ 2 = 1 - sin theta ^ 2)
    by (pose proof (sin2_cos2 theta) as Hsc; unfold Rsqr in Hsc; nra);
  assert (H3 : cos theta ^ 3 = cos theta * (1 - sin theta ^ 2)) by (rewrite <- H2; ring);
  assert (H4 : cos theta ^ 4 = (1 - sin theta ^ 2) ^ 2) by (rewrite <- H2; ring);
  let H5 := fresh "H5" in let H6 := fresh "H6" in
  assert (H5 : cos theta ^ 5 = cos theta * (1 - sin theta ^ 2) ^ 2) by (rewrite <- H2; ring);
  assert (H6 : cos theta ^ 6 = (1 - sin theta ^ 2) ^ 3) by (rewrite <- H2; ring);
  field_simplify_eq; [|exact Hs]; rewrite ?H6, ?H5, ?H4, ?H3, ?H2; ring.

Lemma Pshape_eigen k theta phi : (k <= 24)%nat -> sin theta <> 0 ->
  LB_jet theta (Pshape_t k theta phi) (Pshape_tt k theta phi) (Pshape_pp k theta phi)
  = - (degree k * (degree k + 1)) * Pshape k theta phi.
Proof.
  intros Hk Hs. rewrite (degree_values k Hk). unfold LB_jet.
  do 25 (destruct k as [|k]; [cbn [Pshape Pshape_t Pshape_tt Pshape_pp Nat.ltb Nat.leb INR];
        trig_id theta Hs|]).
  lia.
Qed.

Lemma Lshape_eigen l theta : (l <= 4)%nat -> sin theta <> 0 ->
  LB_jet theta (Lshape_t l theta) (Lshape_tt l theta) 0 = - (INR l * (INR l + 1)) * Lshape l theta.
Proof.
  intros Hl Hs. unfold LB_jet.
  do 5 (destruct l as [|l]; [cbn [Lshape Lshape_t Lshape_tt INR]; trig_id theta Hs|]).
  lia.
Qed.

(* ---------- (b) first-order mean curvature of the radial graph r = R0 (1 + eps g) ---------- *)
Lemma H_radial_sphere theta r : 0 < r -> 0 < sin theta -> H_radial theta r 0 0 0 0 0 = / r.
Proof.
  intros Hr Hs. unfold H_radial. cbv zeta. set (s := sin theta) in *.
  assert (Hq : 0 < r * s) by (apply Rmult_lt_0_compat; assumption).
  replace (r ^ 2 * s ^ 2 + 0 ^ 2 + 0 ^ 2 * s ^ 2) with ((r * s) * (r * s)) by ring.
  rewrite sqrt_square by lra. field. split; lra.
Qed.

(* y, yt, yp, ytt, ytp, ypp: value and partial derivatives of the perturbation g at the direction
   (theta, phi).  H = 1/R0 - eps (2 g + Laplace-Beltrami g) / (2 R0) + O(eps^2) *)
Lemma H_radial_first_order theta R0 y yt yp ytt ytp ypp : 0 < R0 -> 0 < sin theta ->
  is_derive (fun e => H_radial theta (R0 * (1 + e * y)) (R0 * (e * yt)) (R0 * (e * yp))
                                (R0 * (e * ytt)) (R0 * (e * ytp)) (R0 * (e * ypp))) 0
            (- (2 * y + LB_jet theta yt ytt ypp) / (2 * R0)).
Proof.
  intros HR Hs. unfold H_radial, LB_jet. cbv zeta.
  set (s := sin theta) in *. set (c := cos theta).
  assert (Hq : 0 < R0 * s) by (apply Rmult_lt_0_compat; assumption).
  assert (Hq2 : 0 < (R0 * s) * (R0 * s)) by (apply Rmult_lt_0_compat; assumption).
  auto_derive.
  - repeat match goal with |- context [sqrt ?x] => progress replace x with ((R0 * s) * (R0 * s)) by ring end.
    rewrite sqrt_square by lra.
    repeat split; try exact I.
    + match goal with |- 0 < ?x => replace x with ((R0 * s) * (R0 * s)) by ring end. exact Hq2.
    + match goal with |- ?x <> 0 => replace x with (2 * R0 * ((R0 * s) * (R0 * s) * (R0 * s))) by ring end.
      apply Rgt_not_eq.
      assert (0 < (R0 * s) * (R0 * s) * (R0 * s)) by (apply Rmult_lt_0_compat; assumption). nra.
  - repeat match goal with |- context [sqrt ?x] => progress replace x with ((R0 * s) * (R0 * s)) by ring end.
    rewrite sqrt_square by lra. field. split; lra.
Qed.

Lemma is_derive_ext_R (f g : R -> R) (x l : R) :
  (forall t : R, f t = g t) -> is_derive f x l -> is_derive g x l.
Proof. intros H. apply is_derive_ext. exact H. Qed.

Lemma is_derive_val_R (f : R -> R) (x u v : R) : u = v -> is_derive f x u -> is_derive f x v.
Proof. intros ->. exact (fun H => H). Qed.

(* ---------- (c) the coded correction is the true first-order term ---------- *)
(* linearity of the Laplace-Beltrami jet over the harmonic series *)
Lemma LB_jet_lin theta a y1 y2 y3 z1 z2 z3 : sin theta <> 0 ->
  LB_jet theta (a * y1 + z1) (a * y2 + z2) (a * y3 + z3)
  = a * LB_jet theta y1 y2 y3 + LB_jet theta z1 z2 z3.
Proof. intros Hs. unfold LB_jet. field. exact Hs. Qed.

Lemma LB_series theta (Y Yt Ytt Ypp : nat -> R) (lam : nat -> R) l : sin theta <> 0 -> forall n,
  (forall k, (n <= k < n + length l)%nat -> LB_jet theta (Yt k) (Ytt k) (Ypp k) = - lam k * Y k) ->
  LB_jet theta (series3 w_one Yt n l) (series3 w_one Ytt n l) (series3 w_one Ypp n l)
  = - series3 lam Y n l.
Proof.
  intros Hs. induction l as [|a l IH]; intros n H; cbn [series3].
  - unfold LB_jet. field. exact Hs.
  - assert (Hn := H n ltac:(simpl; lia)).
    assert (Hl := IH (S n) ltac:(intros k Hk; apply H; simpl; lia)).
    replace (a * w_one n * Yt n) with (a * Yt n) by (unfold w_one; ring).
    replace (a * w_one n * Ytt n) with (a * Ytt n) by (unfold w_one; ring).
    replace (a * w_one n * Ypp n) with (a * Ypp n) by (unfold w_one; ring).
    rewrite (LB_jet_lin theta a _ _ _ _ _ _ Hs), Hn, Hl. ring.
Qed.

Lemma series3_ext w w' Y l : forall n, (forall k, w k = w' k) -> series3 w Y n l = series3 w' Y n l.
Proof. induction l as [|a l IH]; intros n H; simpl; [reflexivity|]. rewrite (IH (S n) H), H. reflexivity. Qed.

Lemma series3_combine (lam : nat -> R) Y l : forall n,
  2 * series3 w_one Y n l - series3 lam Y n l = - 2 * series3 (fun k => (lam k - 2) / 2) Y n l.
Proof. induction l as [|a l IH]; intros n; simpl; [ring|]. unfold w_one in *. specialize (IH (S n)). lra. Qed.

(* Every degree, relative to the eigen-equation of the modes present: Y k, Yt k, ... are the value and
   the partial derivatives of the harmonic of mode k at the direction (theta, phi); by linearity the
   shape R0 (1 + eps sum a_k Y_k) has the jets R0 eps sum a_k Yt_k etc.  The derivative with respect
   to eps at 0 of (coded curvature - mean curvature of the radial graph) vanishes. *)
Theorem curvature3d_first_order_rel R0 theta (Y Yt Yp Ytt Ytp Ypp : nat -> R) l :
  0 < R0 -> 0 < sin theta ->
  (forall k, (1 <= k < 1 + length l)%nat ->
     LB_jet theta (Yt k) (Ytt k) (Ypp k) = - (degree k * (degree k + 1)) * Y k) ->
  is_derive (fun e => curv3d R0 Y (scale3 e l)
                      - H_radial theta (R0 * (1 + e * series3 w_one Y 1 l)) (R0 * (e * series3 w_one Yt 1 l))
                          (R0 * (e * series3 w_one Yp 1 l)) (R0 * (e * series3 w_one Ytt 1 l))
                          (R0 * (e * series3 w_one Ytp 1 l)) (R0 * (e * series3 w_one Ypp 1 l))) 0 0.
Proof.
  intros HR Hs Heig.
  assert (Hs0 : sin theta <> 0) by lra.
  pose proof (H_radial_first_order theta R0 (series3 w_one Y 1 l) (series3 w_one Yt 1 l) (series3 w_one Yp 1 l)
                (series3 w_one Ytt 1 l) (series3 w_one Ytp 1 l) (series3 w_one Ypp 1 l) HR Hs) as HH.
  rewrite (LB_series theta Y Yt Ytt Ypp (fun k => degree k * (degree k + 1)) l Hs0 1 Heig) in HH.
  assert (Hc : is_derive (fun e => curv3d R0 Y (scale3 e l)) 0 (series3 h3d Y 1 l / R0)).
  { apply (is_derive_ext_R (fun e => 1 / R0 + e * (series3 h3d Y 1 l / R0))).
    - intros e. rewrite curv3d_series, series3_scale. field. lra.
    - auto_derive; [exact I|ring]. }
  apply (is_derive_val_R _ _ (series3 h3d Y 1 l / R0
                  - - (2 * series3 w_one Y 1 l + - series3 (fun k => degree k * (degree k + 1)) Y 1 l) / (2 * R0))).
  2: exact (is_derive_minus _ _ 0 _ _ Hc HH).
  - replace (2 * series3 w_one Y 1 l + - series3 (fun k => degree k * (degree k + 1)) Y 1 l)
      with (- 2 * series3 (fun k => (degree k * (degree k + 1) - 2) / 2) Y 1 l)
      by (rewrite <- series3_combine; ring).
    rewrite (series3_ext h3d (fun k => (degree k * (degree k + 1) - 2) / 2))
      by (intros k; unfold h3d, h_of_degree, degree; field).
    field. lra.
Qed.

Lemma series3_Y0 w l : forall n, series3 w (fun _ => 0) n l = 0.
Proof. induction l as [|a l IH]; intros n; simpl; [reflexivity|]. rewrite IH. ring. Qed.

(* axisymmetric class: l = order, no phi dependence *)
Theorem curvature3s_first_order_rel R0 theta (Y Yt Ytt : nat -> R) l :
  0 < R0 -> 0 < sin theta ->
  (forall k, (1 <= k < 1 + length l)%nat -> LB_jet theta (Yt k) (Ytt k) 0 = - (INR k * (INR k + 1)) * Y k) ->
  is_derive (fun e => curv3s R0 Y (scale3 e l)
                      - H_radial theta (R0 * (1 + e * series3 w_one Y 1 l)) (R0 * (e * series3 w_one Yt 1 l))
                          0 (R0 * (e * series3 w_one Ytt 1 l)) 0 0) 0 0.
Proof.
  intros HR Hs Heig.
  assert (Hs0 : sin theta <> 0) by lra.
  pose proof (H_radial_first_order theta R0 (series3 w_one Y 1 l) (series3 w_one Yt 1 l) 0
                (series3 w_one Ytt 1 l) 0 0 HR Hs) as HH.
  assert (Hz : series3 w_one (fun _ => 0) 1 l = 0) by apply series3_Y0.
  assert (HLB : LB_jet theta (series3 w_one Yt 1 l) (series3 w_one Ytt 1 l) 0
                = - series3 (fun k => INR k * (INR k + 1)) Y 1 l).
  { rewrite <- Hz at 1. apply (LB_series theta Y Yt Ytt (fun _ => 0) (fun k => INR k * (INR k + 1)) l Hs0 1 Heig). }
  rewrite HLB in HH.
  assert (Hc : is_derive (fun e => curv3s R0 Y (scale3 e l)) 0 (series3 h3s Y 1 l / R0)).
  { apply (is_derive_ext_R (fun e => 1 / R0 + e * (series3 h3s Y 1 l / R0))).
    - intros e. rewrite curv3s_series, series3_scale. field. lra.
    - auto_derive; [exact I|ring]. }
  apply (is_derive_ext_R (fun e => curv3s R0 Y (scale3 e l)
           - H_radial theta (R0 * (1 + e * series3 w_one Y 1 l)) (R0 * (e * series3 w_one Yt 1 l))
               (R0 * (e * 0)) (R0 * (e * series3 w_one Ytt 1 l)) (R0 * (e * 0)) (R0 * (e * 0)))).
  { intros e. replace (R0 * (e * 0)) with 0 by ring. reflexivity. }
  apply (is_derive_val_R _ _ (series3 h3s Y 1 l / R0
                  - - (2 * series3 w_one Y 1 l + - series3 (fun k => INR k * (INR k + 1)) Y 1 l) / (2 * R0))).
  2: exact (is_derive_minus _ _ 0 _ _ Hc HH).
  - replace (2 * series3 w_one Y 1 l + - series3 (fun k => INR k * (INR k + 1)) Y 1 l)
      with (- 2 * series3 (fun k => (INR k * (INR k + 1) - 2) / 2) Y 1 l)
      by (rewrite <- series3_combine; ring).
    rewrite (series3_ext h3s (fun k => (INR k * (INR k + 1) - 2) / 2))
      by (intros k; unfold h3s, h_of_degree; field).
    field. lra.
Qed.

(* ---------- function level: the closed forms of degree <= 4 ---------- *)
Lemma series3_is_derive w (F F' : nat -> R -> R) x0 l : forall n,
  (forall k, is_derive (F k) x0 (F' k x0)) ->
  is_derive (fun x => series3 w (fun k => F k x) n l) x0 (series3 w (fun k => F' k x0) n l).
Proof.
  induction l as [|a l IH]; intros n H; simpl.
  - apply (is_derive_const 0 x0).
  - apply (is_derive_plus (fun x => a * w n * F n x) (fun x => series3 w (fun k => F k x) (S n) l)).
    + apply (is_derive_scal (F n) x0 (a * w n)). apply H.
    + apply IH. exact H.
Qed.

Lemma lin_is_derive (F F' : nat -> R -> R) R0 c l x0 :
  (forall k, is_derive (F k) x0 (F' k x0)) ->
  is_derive (fun x => R0 * (c + series3 w_one (fun k => F k x) 1 l)) x0
            (R0 * series3 w_one (fun k => F' k x0) 1 l).
Proof.
  intros H. apply (is_derive_scal (fun x => c + series3 w_one (fun k => F k x) 1 l) x0 R0).
  apply (is_derive_val_R _ _ (0 + series3 w_one (fun k => F' k x0) 1 l)); [ring|].
  apply (is_derive_plus (fun _ => c) (fun x => series3 w_one (fun k => F k x) 1 l)).
  - apply (is_derive_const c x0).
  - apply series3_is_derive. exact H.
Qed.

Lemma lin_Derive (F F' : nat -> R -> R) R0 c l x0 :
  (forall k, is_derive (F k) x0 (F' k x0)) ->
  Derive (fun x => R0 * (c + series3 w_one (fun k => F k x) 1 l)) x0
  = R0 * series3 w_one (fun k => F' k x0) 1 l.
Proof. intros H. apply is_derive_unique. apply lin_is_derive. exact H. Qed.

Lemma lin_Derive0 (F F' : nat -> R -> R) R0 l x0 :
  (forall k, is_derive (F k) x0 (F' k x0)) ->
  Derive (fun x => R0 * series3 w_one (fun k => F k x) 1 l) x0
  = R0 * series3 w_one (fun k => F' k x0) 1 l.
Proof.
  intros H. rewrite <- (lin_Derive F F' R0 0 l x0 H). apply Derive_ext. intros t. ring.
Qed.

(* jets of the normalised harmonics *)
Definition Yr_t k t p := Nreal k * Pshape_t k t p.
Definition Yr_p k t p := Nreal k * Pshape_p k t p.
Definition Yr_tt k t p := Nreal k * Pshape_tt k t p.
Definition Yr_tp k t p := Nreal k * Pshape_tp k t p.
Definition Yr_pp k t p := Nreal k * Pshape_pp k t p.

Lemma Yreal_dt k t p : is_derive (fun s => Yreal k s p) t (Yr_t k t p).
Proof. unfold Yreal, Yr_t. apply (is_derive_scal (fun s => Pshape k s p) t (Nreal k)). apply Pshape_dt. Qed.
Lemma Yreal_dp k t p : is_derive (fun q => Yreal k t q) p (Yr_p k t p).
Proof. unfold Yreal, Yr_p. apply (is_derive_scal (fun q => Pshape k t q) p (Nreal k)). apply Pshape_dp. Qed.
Lemma Yreal_dtt k t p : is_derive (fun s => Yr_t k s p) t (Yr_tt k t p).
Proof. unfold Yr_t, Yr_tt. apply (is_derive_scal (fun s => Pshape_t k s p) t (Nreal k)). apply Pshape_dtt. Qed.
Lemma Yreal_dtp k t p : is_derive (fun s => Yr_p k s p) t (Yr_tp k t p).
Proof. unfold Yr_p, Yr_tp. apply (is_derive_scal (fun s => Pshape_p k s p) t (Nreal k)). apply Pshape_dtp. Qed.
Lemma Yreal_dpp k t p : is_derive (fun q => Yr_p k t q) p (Yr_pp k t p).
Proof. unfold Yr_p, Yr_pp. apply (is_derive_scal (fun q => Pshape_p k t q) p (Nreal k)). apply Pshape_dpp. Qed.

(* (a) for the harmonics themselves, with the operator written with Derive *)
Definition LB (Y : R -> R -> R) (theta phi : R) : R :=
  / sin theta * Derive (fun t => sin t * Derive (fun s => Y s phi) t) theta
  + / (sin theta) ^ 2 * Derive (fun p => Derive (fun q => Y theta q) p) phi.

Theorem Yreal_eigen k theta phi : (k <= 24)%nat -> sin theta <> 0 ->
  LB (Yreal k) theta phi = - (degree k * (degree k + 1)) * Yreal k theta phi.
Proof.
  intros Hk Hs. unfold LB.
  rewrite (Derive_ext (fun t => sin t * Derive (fun s => Yreal k s phi) t) (fun t => sin t * Yr_t k t phi))
    by (intros t; f_equal; apply is_derive_unique; apply Yreal_dt).
  rewrite (Derive_ext (fun p => Derive (fun q => Yreal k theta q) p) (fun p => Yr_p k theta p))
    by (intros p; apply is_derive_unique; apply Yreal_dp).
  replace (Derive (fun p => Yr_p k theta p) phi) with (Yr_pp k theta phi)
    by (symmetry; apply is_derive_unique; apply Yreal_dpp).
  assert (H1 : is_derive (fun t => sin t * Yr_t k t phi) theta
                 (cos theta * Yr_t k theta phi + sin theta * Yr_tt k theta phi)).
  { pose proof (Yreal_dtt k theta phi) as Hd.
    pose (f := fun t => Yr_t k t phi).
    assert (Hex : ex_derive f theta) by (exists (Yr_tt k theta phi); exact Hd).
    assert (HD : Derive f theta = Yr_tt k theta phi) by (apply is_derive_unique; exact Hd).
    change (is_derive (fun t => sin t * f t) theta (cos theta * f theta + sin theta * Yr_tt k theta phi)).
    auto_derive; [first [exact Hex | split; [exact Hex|exact I]]|].
    change (Derive (fun x : R => f x) theta) with (Derive f theta). rewrite HD. ring. }
  replace (Derive (fun t => sin t * Yr_t k t phi) theta)
    with (cos theta * Yr_t k theta phi + sin theta * Yr_tt k theta phi)
    by (symmetry; apply is_derive_unique; exact H1).
  pose proof (Pshape_eigen k theta phi Hk Hs) as He. unfold LB_jet in He.
  unfold Yr_t, Yr_tt, Yr_pp, Yreal.
  replace (/ sin theta * (cos theta * (Nreal k * Pshape_t k theta phi) + sin theta * (Nreal k * Pshape_tt k theta phi))
           + / sin theta ^ 2 * (Nreal k * Pshape_pp k theta phi))
    with (Nreal k * (Pshape_tt k theta phi + cos theta / sin theta * Pshape_t k theta phi
                     + Pshape_pp k theta phi / sin theta ^ 2)) by (field; exact Hs).
  rewrite He. ring.
Qed.

(* exact mean curvature of the droplet's own interface: the radial-graph formula applied to the
   generated interface_distance with the closed-form harmonics, all partial derivatives by Derive *)
Definition shape3d (R0 : R) (l : list R) (theta phi : R) : R := dist3d R0 (fun k => Yreal k theta phi) l.

Definition H_exact3d (R0 : R) (l : list R) (theta phi : R) : R :=
  H_radial theta (shape3d R0 l theta phi)
    (Derive (fun t => shape3d R0 l t phi) theta)
    (Derive (fun p => shape3d R0 l theta p) phi)
    (Derive (fun t => Derive (fun s => shape3d R0 l s phi) t) theta)
    (Derive (fun t => Derive (fun p => shape3d R0 l t p) phi) theta)
    (Derive (fun p => Derive (fun q => shape3d R0 l theta q) p) phi).

Lemma shape3d_series R0 l t p : shape3d R0 l t p = R0 * (1 + series3 w_one (fun k => Yreal k t p) 1 l).
Proof. apply dist3d_series. Qed.

Lemma shape3d_jets R0 l theta phi :
  Derive (fun t => shape3d R0 l t phi) theta = R0 * series3 w_one (fun k => Yr_t k theta phi) 1 l /\
  Derive (fun p => shape3d R0 l theta p) phi = R0 * series3 w_one (fun k => Yr_p k theta phi) 1 l /\
  Derive (fun t => Derive (fun s => shape3d R0 l s phi) t) theta = R0 * series3 w_one (fun k => Yr_tt k theta phi) 1 l /\
  Derive (fun t => Derive (fun p => shape3d R0 l t p) phi) theta = R0 * series3 w_one (fun k => Yr_tp k theta phi) 1 l /\
  Derive (fun p => Derive (fun q => shape3d R0 l theta q) p) phi = R0 * series3 w_one (fun k => Yr_pp k theta phi) 1 l.
Proof.
  assert (Dt : forall t p, Derive (fun s => shape3d R0 l s p) t = R0 * series3 w_one (fun k => Yr_t k t p) 1 l).
  { intros t p. rewrite (Derive_ext _ (fun s => R0 * (1 + series3 w_one (fun k => Yreal k s p) 1 l)))
      by (intros s; apply shape3d_series).
    apply (lin_Derive (fun k s => Yreal k s p) (fun k s => Yr_t k s p)). intros k. apply Yreal_dt. }
  assert (Dp : forall t p, Derive (fun q => shape3d R0 l t q) p = R0 * series3 w_one (fun k => Yr_p k t p) 1 l).
  { intros t p. rewrite (Derive_ext _ (fun q => R0 * (1 + series3 w_one (fun k => Yreal k t q) 1 l)))
      by (intros q; apply shape3d_series).
    apply (lin_Derive (fun k q => Yreal k t q) (fun k q => Yr_p k t q)). intros k. apply Yreal_dp. }
  split; [apply Dt|]. split; [apply Dp|]. split; [|split].
  - rewrite (Derive_ext _ (fun t => R0 * series3 w_one (fun k => Yr_t k t phi) 1 l)) by (intros t; apply Dt).
    apply (lin_Derive0 (fun k t => Yr_t k t phi) (fun k t => Yr_tt k t phi)). intros k. apply Yreal_dtt.
  - rewrite (Derive_ext _ (fun t => R0 * series3 w_one (fun k => Yr_p k t phi) 1 l)) by (intros t; apply Dp).
    apply (lin_Derive0 (fun k t => Yr_p k t phi) (fun k t => Yr_tp k t phi)). intros k. apply Yreal_dtp.
  - rewrite (Derive_ext _ (fun p => R0 * series3 w_one (fun k => Yr_p k theta p) 1 l)) by (intros p; apply Dp).
    apply (lin_Derive0 (fun k p => Yr_p k theta p) (fun k p => Yr_pp k theta p)). intros k. apply Yreal_dpp.
Qed.

(* (c) for every amplitude vector over the modes of degree <= 4 (k = 1..24), every radius and every
   direction off the poles: coded curvature and true mean curvature of the droplet's interface agree
   to first order in the amplitudes, and both are 1/R0 at amplitude 0 *)
Theorem curvature3d_first_order_l4 R0 theta phi l : (length l <= 24)%nat -> 0 < R0 -> 0 < sin theta ->
  is_derive (fun e => curv3d R0 (fun k => Yreal k theta phi) (scale3 e l)
                      - H_exact3d R0 (scale3 e l) theta phi) 0 0 /\
  curv3d R0 (fun k => Yreal k theta phi) (scale3 0 l) = / R0 /\
  H_exact3d R0 (scale3 0 l) theta phi = / R0.
Proof.
  intros Hlen HR Hs.
  assert (Hform : forall e, H_exact3d R0 (scale3 e l) theta phi
            = H_radial theta (R0 * (1 + e * series3 w_one (fun k => Yreal k theta phi) 1 l))
                (R0 * (e * series3 w_one (fun k => Yr_t k theta phi) 1 l))
                (R0 * (e * series3 w_one (fun k => Yr_p k theta phi) 1 l))
                (R0 * (e * series3 w_one (fun k => Yr_tt k theta phi) 1 l))
                (R0 * (e * series3 w_one (fun k => Yr_tp k theta phi) 1 l))
                (R0 * (e * series3 w_one (fun k => Yr_pp k theta phi) 1 l))).
  { intros e. unfold H_exact3d.
    destruct (shape3d_jets R0 (scale3 e l) theta phi) as [J1 [J2 [J3 [J4 J5]]]].
    rewrite J1, J2, J3, J4, J5, shape3d_series, !series3_scale. reflexivity. }
  split; [|split].
  - apply (is_derive_ext_R (fun e => curv3d R0 (fun k => Yreal k theta phi) (scale3 e l)
             - H_radial theta (R0 * (1 + e * series3 w_one (fun k => Yreal k theta phi) 1 l))
                (R0 * (e * series3 w_one (fun k => Yr_t k theta phi) 1 l))
                (R0 * (e * series3 w_one (fun k => Yr_p k theta phi) 1 l))
                (R0 * (e * series3 w_one (fun k => Yr_tt k theta phi) 1 l))
                (R0 * (e * series3 w_one (fun k => Yr_tp k theta phi) 1 l))
                (R0 * (e * series3 w_one (fun k => Yr_pp k theta phi) 1 l)))).
    + intros e. rewrite Hform. reflexivity.
    + apply (curvature3d_first_order_rel R0 theta (fun k => Yreal k theta phi) (fun k => Yr_t k theta phi)
               (fun k => Yr_p k theta phi) (fun k => Yr_tt k theta phi) (fun k => Yr_tp k theta phi)
               (fun k => Yr_pp k theta phi) l HR Hs).
      intros k Hk. assert (Hk8 : (k <= 24)%nat) by lia. assert (Hs0 : sin theta <> 0) by lra.
      pose proof (Pshape_eigen k theta phi Hk8 Hs0) as He. unfold LB_jet in *.
      unfold Yr_t, Yr_tt, Yr_pp, Yreal.
      replace (Nreal k * Pshape_tt k theta phi + cos theta / sin theta * (Nreal k * Pshape_t k theta phi)
               + Nreal k * Pshape_pp k theta phi / sin theta ^ 2)
        with (Nreal k * (Pshape_tt k theta phi + cos theta / sin theta * Pshape_t k theta phi
                         + Pshape_pp k theta phi / sin theta ^ 2)) by (field; exact Hs0).
      rewrite He. ring.
  - rewrite curv3d_series, series3_scale. field. lra.
  - rewrite Hform.
    replace (R0 * (1 + 0 * series3 w_one (fun k => Yreal k theta phi) 1 l)) with R0 by ring.
    repeat match goal with |- context [R0 * (0 * ?x)] => replace (R0 * (0 * x)) with 0 by ring end.
    apply H_radial_sphere; assumption.
Qed.

(* ---------- axisymmetric class: Legendre forms Y_l0, degree l = order <= 4 ---------- *)
Definition Ys_t l t := Nsym l * Lshape_t l t.
Definition Ys_tt l t := Nsym l * Lshape_tt l t.

Lemma Ysym_dt l t : is_derive (fun s => Ysym l s) t (Ys_t l t).
Proof. unfold Ysym, Ys_t. apply (is_derive_scal (fun s => Lshape l s) t (Nsym l)). apply Lshape_dt. Qed.
Lemma Ysym_dtt l t : is_derive (fun s => Ys_t l s) t (Ys_tt l t).
Proof. unfold Ys_t, Ys_tt. apply (is_derive_scal (fun s => Lshape_t l s) t (Nsym l)). apply Lshape_dtt. Qed.

Lemma Ysym_eigen_jet l theta : (l <= 4)%nat -> sin theta <> 0 ->
  LB_jet theta (Ys_t l theta) (Ys_tt l theta) 0 = - (INR l * (INR l + 1)) * Ysym l theta.
Proof.
  intros Hl Hs. pose proof (Lshape_eigen l theta Hl Hs) as He. unfold LB_jet in *. unfold Ys_t, Ys_tt, Ysym.
  replace (Nsym l * Lshape_tt l theta + cos theta / sin theta * (Nsym l * Lshape_t l theta) + 0 / sin theta ^ 2)
    with (Nsym l * (Lshape_tt l theta + cos theta / sin theta * Lshape_t l theta + 0 / sin theta ^ 2))
    by (field; exact Hs).
  rewrite He. ring.
Qed.

Theorem Ysym_eigen l theta phi : (l <= 4)%nat -> sin theta <> 0 ->
  LB (fun t _ => Ysym l t) theta phi = - (INR l * (INR l + 1)) * Ysym l theta.
Proof.
  intros Hl Hs. unfold LB.
  rewrite (Derive_ext (fun t => sin t * Derive (fun s => Ysym l s) t) (fun t => sin t * Ys_t l t))
    by (intros t; f_equal; apply is_derive_unique; apply Ysym_dt).
  rewrite (Derive_ext (fun p => Derive (fun _ : R => Ysym l theta) p) (fun _ => 0))
    by (intros p; apply Derive_const).
  rewrite Derive_const.
  assert (H1 : is_derive (fun t => sin t * Ys_t l t) theta (cos theta * Ys_t l theta + sin theta * Ys_tt l theta)).
  { pose proof (Ysym_dtt l theta) as Hd.
    pose (f := fun t => Ys_t l t).
    assert (Hex : ex_derive f theta) by (exists (Ys_tt l theta); exact Hd).
    assert (HD : Derive f theta = Ys_tt l theta) by (apply is_derive_unique; exact Hd).
    change (is_derive (fun t => sin t * f t) theta (cos theta * f theta + sin theta * Ys_tt l theta)).
    auto_derive; [first [exact Hex | split; [exact Hex|exact I]]|].
    change (Derive (fun x : R => f x) theta) with (Derive f theta). rewrite HD. ring. }
  replace (Derive (fun t => sin t * Ys_t l t) theta) with (cos theta * Ys_t l theta + sin theta * Ys_tt l theta)
    by (symmetry; apply is_derive_unique; exact H1).
  pose proof (Ysym_eigen_jet l theta Hl Hs) as He. unfold LB_jet in He. rewrite <- He. field. exact Hs.
Qed.

Definition shape3s (R0 : R) (l : list R) (theta : R) : R := dist3s R0 (fun k => Ysym k theta) l.

Definition H_exact3s (R0 : R) (l : list R) (theta : R) : R :=
  H_radial theta (shape3s R0 l theta) (Derive (fun t => shape3s R0 l t) theta) 0
    (Derive (fun t => Derive (fun s => shape3s R0 l s) t) theta) 0 0.

Lemma shape3s_series R0 l t : shape3s R0 l t = R0 * (1 + series3 w_one (fun k => Ysym k t) 1 l).
Proof. apply dist3s_series. Qed.

Lemma shape3s_jets R0 l theta :
  Derive (fun t => shape3s R0 l t) theta = R0 * series3 w_one (fun k => Ys_t k theta) 1 l /\
  Derive (fun t => Derive (fun s => shape3s R0 l s) t) theta = R0 * series3 w_one (fun k => Ys_tt k theta) 1 l.
Proof.
  assert (Dt : forall t, Derive (fun s => shape3s R0 l s) t = R0 * series3 w_one (fun k => Ys_t k t) 1 l).
  { intros t. rewrite (Derive_ext _ (fun s => R0 * (1 + series3 w_one (fun k => Ysym k s) 1 l)))
      by (intros s; apply shape3s_series).
    apply (lin_Derive (fun k s => Ysym k s) (fun k s => Ys_t k s)). intros k. apply Ysym_dt. }
  split; [apply Dt|].
  rewrite (Derive_ext _ (fun t => R0 * series3 w_one (fun k => Ys_t k t) 1 l)) by (intros t; apply Dt).
  apply (lin_Derive0 (fun k t => Ys_t k t) (fun k t => Ys_tt k t)). intros k. apply Ysym_dtt.
Qed.

Theorem curvature3s_first_order_l4 R0 theta l : (length l <= 4)%nat -> 0 < R0 -> 0 < sin theta ->
  is_derive (fun e => curv3s R0 (fun k => Ysym k theta) (scale3 e l) - H_exact3s R0 (scale3 e l) theta) 0 0 /\
  curv3s R0 (fun k => Ysym k theta) (scale3 0 l) = / R0 /\
  H_exact3s R0 (scale3 0 l) theta = / R0.
Proof.
  intros Hlen HR Hs.
  assert (Hform : forall e, H_exact3s R0 (scale3 e l) theta
            = H_radial theta (R0 * (1 + e * series3 w_one (fun k => Ysym k theta) 1 l))
                (R0 * (e * series3 w_one (fun k => Ys_t k theta) 1 l)) 0
                (R0 * (e * series3 w_one (fun k => Ys_tt k theta) 1 l)) 0 0).
  { intros e. unfold H_exact3s. destruct (shape3s_jets R0 (scale3 e l) theta) as [J1 J2].
    rewrite J1, J2, shape3s_series, !series3_scale. reflexivity. }
  split; [|split].
  - apply (is_derive_ext_R (fun e => curv3s R0 (fun k => Ysym k theta) (scale3 e l)
             - H_radial theta (R0 * (1 + e * series3 w_one (fun k => Ysym k theta) 1 l))
                (R0 * (e * series3 w_one (fun k => Ys_t k theta) 1 l)) 0
                (R0 * (e * series3 w_one (fun k => Ys_tt k theta) 1 l)) 0 0)).
    + intros e. rewrite Hform. reflexivity.
    + apply (curvature3s_first_order_rel R0 theta (fun k => Ysym k theta) (fun k => Ys_t k theta)
               (fun k => Ys_tt k theta) l HR Hs).
      intros k Hk. apply Ysym_eigen_jet; [lia|lra].
  - rewrite curv3s_series, series3_scale. field. lra.
  - rewrite Hform.
    replace (R0 * (1 + 0 * series3 w_one (fun k => Ysym k theta) 1 l)) with R0 by ring.
    repeat match goal with |- context [R0 * (0 * ?x)] => replace (R0 * (0 * x)) with 0 by ring end.
    apply H_radial_sphere; assumption.
Qed.
