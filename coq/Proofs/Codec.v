(* Proofs/Codec.v -- generic lemmas for the codec model: result monad, lookups, lexicographic order
   of zero-padded keys, insertion sort on sorted input, round trip of keyed collections. *)
From Coq Require Import ZArith List Bool String Ascii Lia ZifyBool.
From PD Require Import Model.Codec.
Import ListNotations.
Local Open Scope Z_scope.

(* ------------------------------------------------------------------------------------------ *)
(* result monad                                                                               *)
(* ------------------------------------------------------------------------------------------ *)
Lemma bind_ok {A B} (r : result A) (f : A -> result B) b :
  bind r f = Ok b -> exists a, r = Ok a /\ f a = Ok b.
Proof. destruct r as [a|e]; simpl; intros H; [exists a; auto | discriminate]. Qed.

Lemma mapM_ok_Forall2 {A B} (f : A -> result B) l l' :
  mapM f l = Ok l' <-> Forall2 (fun x y => f x = Ok y) l l'.
Proof.
  revert l'. induction l as [|x t IH]; intros l'; simpl.
  - split; intros H.
    + injection H as <-. constructor.
    + inversion H. reflexivity.
  - split; intros H.
    + apply bind_ok in H as (y & Hy & H). apply bind_ok in H as (ys & Hys & H).
      injection H as <-. constructor; [exact Hy | apply IH; exact Hys].
    + inversion H as [|x' y t' ys Hy Hys]; subst. rewrite Hy. simpl.
      apply IH in Hys. rewrite Hys. reflexivity.
Qed.

Lemma mapM_ext_in {A B} (f g : A -> result B) l :
  (forall x, In x l -> f x = g x) -> mapM f l = mapM g l.
Proof.
  induction l as [|x t IH]; intros H; simpl; [reflexivity|].
  rewrite (H x (or_introl eq_refl)), IH; [reflexivity|]. intros y Hy. apply H. right. exact Hy.
Qed.

Lemma mapM_map {A B C} (f : B -> result C) (g : A -> B) l :
  mapM f (map g l) = mapM (fun x => f (g x)) l.
Proof. induction l as [|x t IH]; simpl; [reflexivity|]. rewrite IH. reflexivity. Qed.

Lemma mapM_all_ok {A B} (f : A -> result B) (h : A -> B) l :
  (forall x, In x l -> f x = Ok (h x)) -> mapM f l = Ok (map h l).
Proof.
  induction l as [|x t IH]; intros H; simpl; [reflexivity|].
  rewrite (H x (or_introl eq_refl)). simpl. rewrite IH; [reflexivity|].
  intros y Hy. apply H. right. exact Hy.
Qed.

Lemma Forall2_length' {A B} (R : A -> B -> Prop) l l' : Forall2 R l l' -> List.length l = List.length l'.
Proof. induction 1; simpl; congruence. Qed.

(* ------------------------------------------------------------------------------------------ *)
(* lookups                                                                                    *)
(* ------------------------------------------------------------------------------------------ *)
Lemma lookup_head {V} k (v : V) t : lookup k ((k, v) :: t) = Some v.
Proof. simpl. rewrite String.eqb_refl. reflexivity. Qed.

Lemma lookup_skip {V} k k' (v : V) t : k' <> k -> lookup k ((k', v) :: t) = lookup k t.
Proof. intros H. simpl. destruct (String.eqb k' k) eqn:E; [apply String.eqb_eq in E; contradiction | reflexivity]. Qed.

Lemma lookup_keys {V B} (g : V -> result B) (wr : list (string * V)) :
  NoDup (map fst wr) ->
  mapM (fun k => match lookup k wr with Some ds => g ds | None => Err EOther end) (map fst wr)
  = mapM g (map snd wr).
Proof.
  induction wr as [|[k v] t IH]; intros Hnd; [reflexivity|].
  simpl map. inversion Hnd as [|k0 l0 Hnotin Hnd']; subst.
  cbn [mapM]. rewrite lookup_head.
  rewrite (mapM_ext_in _ (fun k0 => match lookup k0 t with Some ds => g ds | None => Err EOther end)).
  - rewrite IH by exact Hnd'. reflexivity.
  - intros k' Hin. rewrite lookup_skip; [reflexivity|]. intros ->. contradiction.
Qed.

(* ------------------------------------------------------------------------------------------ *)
(* python string order                                                                        *)
(* ------------------------------------------------------------------------------------------ *)
Lemma str_ltb_irrefl s : str_ltb s s = false.
Proof. induction s as [|c s IH]; simpl; [reflexivity|]. rewrite N.ltb_irrefl, N.eqb_refl. exact IH. Qed.

Lemma str_ltb_asym a : forall b, str_ltb a b = true -> str_ltb b a = false.
Proof.
  induction a as [|x a IH]; intros [|y b]; simpl; try discriminate; try reflexivity.
  destruct (N.ltb_spec (N_of_ascii x) (N_of_ascii y)) as [Hlt|Hge].
  - intros _. destruct (N.ltb_spec (N_of_ascii y) (N_of_ascii x)); [lia|].
    destruct (N.eqb_spec (N_of_ascii y) (N_of_ascii x)); [lia|reflexivity].
  - destruct (N.eqb_spec (N_of_ascii x) (N_of_ascii y)) as [He|Hne]; [|discriminate].
    intros H. rewrite He, N.ltb_irrefl, N.eqb_refl. apply IH. exact H.
Qed.

Lemma str_ltb_neq a b : str_ltb a b = true -> a <> b.
Proof. intros H ->. rewrite str_ltb_irrefl in H. discriminate. Qed.

Lemma str_ltb_app p a b : str_ltb (String.append p a) (String.append p b) = str_ltb a b.
Proof. induction p as [|c p IH]; simpl; [reflexivity|]. rewrite N.ltb_irrefl, N.eqb_refl. exact IH. Qed.

(* digits *)
Fixpoint lex_ltb (a b : list Z) : bool :=
  match a, b with
  | [], [] => false
  | [], _ :: _ => true
  | _ :: _, [] => false
  | x :: a', y :: b' => if x <? y then true else if x =? y then lex_ltb a' b' else false
  end.

Definition is_digit (d : Z) : Prop := 0 <= d < 10.

Lemma digit_code d : is_digit d -> N_of_ascii (digit_char d) = Z.to_N (48 + d).
Proof.
  intros [H0 H9]. unfold digit_char. apply N_ascii_embedding.
  change 256%N with (Z.to_N 256). apply Z2N.inj_lt; lia.
Qed.

Lemma str_ltb_digits a : forall b, Forall is_digit a -> Forall is_digit b ->
  str_ltb (string_of_digits a) (string_of_digits b) = lex_ltb a b.
Proof.
  induction a as [|x a IH]; intros [|y b] Ha Hb; simpl; try reflexivity.
  inversion Ha as [|? ? Hx Ha']; inversion Hb as [|? ? Hy Hb']; subst.
  rewrite (digit_code x Hx), (digit_code y Hy), (IH b Ha' Hb').
  unfold is_digit in Hx, Hy.
  destruct (Z.ltb_spec x y); destruct (N.ltb_spec (Z.to_N (48 + x)) (Z.to_N (48 + y))); try lia; try reflexivity.
  destruct (Z.eqb_spec x y); destruct (N.eqb_spec (Z.to_N (48 + x)) (Z.to_N (48 + y))); try lia; reflexivity.
Qed.

Lemma pow10_pos n : 0 < 10 ^ Z.of_nat n.
Proof. apply Z.pow_pos_nonneg; lia. Qed.

Lemma pow10_S n : 10 ^ Z.of_nat (S n) = 10 * 10 ^ Z.of_nat n.
Proof. rewrite Nat2Z.inj_succ, Z.pow_succ_r by lia. reflexivity. Qed.

Lemma fixed_digits_range w : forall i, 0 <= i < 10 ^ Z.of_nat w -> Forall is_digit (fixed_digits w i).
Proof.
  induction w as [|w IH]; intros i Hi; simpl; [constructor|].
  pose proof (pow10_pos w) as HP. rewrite pow10_S in Hi.
  constructor.
  - split; [apply Z.div_pos; lia | apply Z.div_lt_upper_bound; lia].
  - apply IH. apply Z.mod_pos_bound. exact HP.
Qed.

Lemma fixed_digits_lex w : forall a b, 0 <= a < 10 ^ Z.of_nat w -> 0 <= b < 10 ^ Z.of_nat w ->
  lex_ltb (fixed_digits w a) (fixed_digits w b) = (a <? b).
Proof.
  induction w as [|w IH]; intros a b Ha Hb.
  - simpl in *. lia.
  - cbn [fixed_digits lex_ltb].
    pose proof (pow10_pos w) as HP. set (P := 10 ^ Z.of_nat w) in *.
    pose proof (Z.div_mod a P ltac:(lia)) as Ea. pose proof (Z.div_mod b P ltac:(lia)) as Eb.
    pose proof (Z.mod_pos_bound a P HP) as Ra. pose proof (Z.mod_pos_bound b P HP) as Rb.
    rewrite (IH (a mod P) (b mod P) Ra Rb).
    set (qa := a / P) in *. set (qb := b / P) in *. set (ra := a mod P) in *. set (rb := b mod P) in *.
    destruct (Z.ltb_spec qa qb) as [Hq|Hq].
    + symmetry. apply Z.ltb_lt. nia.
    + destruct (Z.eqb_spec qa qb) as [He|Hne].
      * subst qb. rewrite He in *. destruct (Z.ltb_spec ra rb); destruct (Z.ltb_spec a b); try reflexivity; nia.
      * symmetry. apply Z.ltb_ge. nia.
Qed.

Lemma render_small w i : 0 <= w -> 0 <= i < 10 ^ w -> render w i = fixed_digits (Z.to_nat w) i.
Proof. intros Hw Hi. unfold render. destruct (Z.ltb_spec i (10 ^ w)); [reflexivity|lia]. Qed.

Lemma key_lt p w a b : 0 <= w -> 0 <= a -> a < b -> b < 10 ^ w ->
  str_ltb (key p w a) (key p w b) = true.
Proof.
  intros Hw Ha Hab Hb. unfold key. rewrite str_ltb_app.
  rewrite !render_small by lia.
  assert (Hp : 10 ^ Z.of_nat (Z.to_nat w) = 10 ^ w) by (rewrite Z2Nat.id by lia; reflexivity).
  rewrite str_ltb_digits by (apply fixed_digits_range; rewrite Hp; lia).
  rewrite fixed_digits_lex by (rewrite Hp; lia). lia.
Qed.

Lemma key_inj p w a b : 0 <= w -> 0 <= a < 10 ^ w -> 0 <= b < 10 ^ w -> key p w a = key p w b -> a = b.
Proof.
  intros Hw Ha Hb He.
  destruct (Z.lt_trichotomy a b) as [H|[H|H]]; [|exact H|].
  - exfalso. apply (str_ltb_neq _ _ (key_lt p w a b Hw ltac:(lia) H ltac:(lia))). exact He.
  - exfalso. apply (str_ltb_neq _ _ (key_lt p w b a Hw ltac:(lia) H ltac:(lia))). symmetry. exact He.
Qed.

(* ------------------------------------------------------------------------------------------ *)
(* insertion sort of ascending input                                                          *)
(* ------------------------------------------------------------------------------------------ *)
Inductive asc {A} (ltb : A -> A -> bool) : list A -> Prop :=
| asc_nil : asc ltb []
| asc_one x : asc ltb [x]
| asc_cons x y t : ltb x y = true -> asc ltb (y :: t) -> asc ltb (x :: y :: t).

Lemma isort_asc {A} (ltb : A -> A -> bool) l :
  (forall x y, ltb x y = true -> ltb y x = false) -> asc ltb l -> isort ltb l = l.
Proof.
  intros Hasym H. induction H as [| x | x y t Hxy Ht IH]; try reflexivity.
  unfold isort in *. cbn [fold_right]. cbn [fold_right] in IH. rewrite IH.
  cbn [insert]. rewrite (Hasym _ _ Hxy). reflexivity.
Qed.

Lemma asc_map {A B} (f : A -> B) (ltb : B -> B -> bool) l :
  asc ltb (map f l) -> asc (fun a b => ltb (f a) (f b)) l.
Proof.
  induction l as [|x [|y t] IH]; intros H; try constructor.
  - simpl in H. inversion H; subst. assumption.
  - apply IH. simpl in H. inversion H; subst. assumption.
Qed.

Fixpoint zseq (i : Z) (n : nat) : list Z :=
  match n with O => [] | S n' => i :: zseq (i + 1) n' end.

Lemma zseq_in i n x : In x (zseq i n) -> i <= x < i + Z.of_nat n.
Proof.
  revert i. induction n as [|n IH]; intros i H; simpl in H; [contradiction|].
  destruct H as [<-|H]; [lia|]. apply IH in H. lia.
Qed.

Lemma zseq_nodup i n : NoDup (zseq i n).
Proof.
  revert i. induction n as [|n IH]; intros i; simpl; constructor.
  - intros H. apply zseq_in in H. lia.
  - apply IH.
Qed.

Lemma keys_asc p w : 0 <= w -> forall n i, 0 <= i -> i + Z.of_nat n <= 10 ^ w ->
  asc str_ltb (map (key p w) (zseq i n)).
Proof.
  intros Hw. induction n as [|n IH]; intros i Hi Hb; simpl; [constructor|].
  destruct n as [|n]; [constructor|].
  change (zseq (i + 1) (S n)) with ((i + 1) :: zseq (i + 1 + 1) n) in *.
  cbn [map]. constructor.
  - apply key_lt; lia.
  - apply (IH (i + 1)); lia.
Qed.

Lemma keys_nodup p w n i : 0 <= w -> 0 <= i -> i + Z.of_nat n <= 10 ^ w ->
  NoDup (map (key p w) (zseq i n)).
Proof.
  intros Hw Hi Hb. assert (Hr : forall x, In x (zseq i n) -> 0 <= x < 10 ^ w).
  { intros x Hx. apply zseq_in in Hx. lia. }
  pose proof (zseq_nodup i n) as Hnd. revert Hr Hnd. generalize (zseq i n) as l.
  induction l as [|x l IH]; intros Hr Hnd; simpl; constructor.
  - intros Hin. apply in_map_iff in Hin as (y & Hy & Hyl).
    inversion Hnd as [|? ? Hnotin _]; subst.
    assert (y = x) by (apply (key_inj p w); auto; apply Hr; [right; exact Hyl | left; reflexivity]).
    subst y. contradiction.
  - inversion Hnd; subst. apply IH; [|assumption]. intros y Hy. apply Hr. right. exact Hy.
Qed.

(* ------------------------------------------------------------------------------------------ *)
(* keyed collections                                                                          *)
(* ------------------------------------------------------------------------------------------ *)
Lemma enc_keyed_shape {A} (encode : A -> result dataset) p w l : forall i wr,
  enc_keyed encode p w i l = Ok wr ->
  map fst wr = map (key p w) (zseq i (List.length l)) /\
  Forall2 (fun x ds => encode x = Ok ds) l (map snd wr).
Proof.
  induction l as [|x t IH]; intros i wr H; simpl in H.
  - injection H as <-. split; [reflexivity|constructor].
  - apply bind_ok in H as (ds & Hds & H). apply bind_ok in H as (more & Hmore & H).
    injection H as <-. destruct (IH _ _ Hmore) as [Hk Hf]. split.
    + simpl. rewrite Hk. reflexivity.
    + simpl. constructor; assumption.
Qed.

Lemma enc_keyed_err_or_ok {A} (encode : A -> result dataset) p w l i :
  (exists e, enc_keyed encode p w i l = Err e) \/ (exists wr, enc_keyed encode p w i l = Ok wr).
Proof. destruct (enc_keyed encode p w i l) as [wr|e]; [right; exists wr | left; exists e]; reflexivity. Qed.

(* Writing a collection under keys prefix + zero-padded index and reading it back in (sorted) key
   order returns the members in the original order -- provided there are at most 10^w of them. *)
Lemma keyed_roundtrip {A B} (encode : A -> result dataset) (decode : dataset -> result B) (rho : A -> B)
      p w srt (l : list A) wr :
  0 <= w -> Z.of_nat (List.length l) <= 10 ^ w ->
  (forall x ds, In x l -> encode x = Ok ds -> decode ds = Ok (rho x)) ->
  enc_keyed encode p w 0 l = Ok wr ->
  h5_store wr = wr /\ dec_keyed decode srt wr = Ok (map rho l).
Proof.
  intros Hw Hlen Hdec Henc.
  destruct (enc_keyed_shape _ _ _ _ _ _ Henc) as [Hkeys Hrows].
  pose proof (keys_asc p w Hw (List.length l) 0 ltac:(lia) ltac:(lia)) as Hasc.
  pose proof (keys_nodup p w (List.length l) 0 Hw ltac:(lia) ltac:(lia)) as Hnd.
  rewrite <- Hkeys in Hasc, Hnd.
  split.
  - unfold h5_store. apply isort_asc.
    + intros x y. apply str_ltb_asym.
    + apply asc_map. exact Hasc.
  - unfold dec_keyed.
    assert (Hs : (if srt then sorted_keys (map fst wr) else map fst wr) = map fst wr).
    { destruct srt; [|reflexivity]. unfold sorted_keys. apply isort_asc; [apply str_ltb_asym | exact Hasc]. }
    rewrite Hs. rewrite lookup_keys by exact Hnd.
    apply mapM_ok_Forall2.
    clear -Hrows Hdec. revert Hrows Hdec. generalize (map snd wr) as dss.
    induction l as [|x t IH]; intros dss Hrows Hdec; inversion Hrows as [|? ds ? dss' Hx Ht]; subst; simpl; constructor.
    + apply (Hdec x ds); [left; reflexivity | exact Hx].
    + apply IH; [exact Ht|]. intros y ds' Hy. apply Hdec. right. exact Hy.
Qed.

(* the order of two keys beyond the padding width: 10^w sorts before 10^w - 1 (computed for w = 6) *)
Lemma key_order_breaks p :
  str_ltb (key p 6 1000000) (key p 6 999999) = true.
Proof. unfold key. rewrite str_ltb_app. vm_compute. reflexivity. Qed.
