(* C02 / C01 on Cartesian grids WITHOUT the labelling oracle: the label image is computed by
   Model/Label.v `label`, whose specification (wf_img, LabelSpecImg, zero exactly off the mask) is
   proved in Proofs/LabelSpec.v.  End-to-end statements "mask -> label -> locate":
     locate_cart_components_label / _volume_label / _position_label  (C02, any mask of the right length);
     locate_cart_components_mask : the same with the cell set and the connectivity written on the
                                   mask itself (mcells), not on the label image;
     c01_single_label, c01_multi_label, c01_multi_euclid_label, c01_periodic_single_partial_label,
     c01_periodic_single_label  (C01: "render (Model/Render.v), label, locate"). *)
From Coq Require Import QArith Qabs Qround ZArith List Arith Bool Lia.
Import ListNotations.
From PD Require Import Model.Grid Model.Render Model.MergeLoop Model.Locate Model.Ball Model.Overlap Model.Label
  Proofs.MergeLoop Proofs.Components Proofs.LocateCart Proofs.BallTorus Proofs.BallLift Proofs.C01Cart
  Proofs.LabelFlood Proofs.LabelSpec.
Local Open Scope Q_scope.

(* ------------------------------------------------------------------------------------------ *)
(* C02                                                                                          *)
(* ------------------------------------------------------------------------------------------ *)
Theorem locate_cart_components_label g mask :
  grid_ok g -> length mask = length (all_cells (gshape g)) ->
  let img := mk_limage (gshape g) (label (gshape g) mask) in
  forall a b, In a (mask_cells img) -> In b (mask_cells img) ->
  (cl (final_state g img) (clab img a) = cl (final_state g img) (clab img b) <-> torus_conn g img a b).
Proof.
  intros Hg Hlen img.
  exact (locate_cart_components g img Hg (label_wf g mask Hlen) (label_spec (gshape g) mask Hlen)).
Qed.

Theorem locate_cart_volume_label g mask :
  grid_ok g -> length mask = length (all_cells (gshape g)) ->
  let img := mk_limage (gshape g) (label (gshape g) mask) in
  forall a comp, In a (mask_cells img) -> NoDup comp ->
  (forall c, In c comp <-> In c (mask_cells img) /\ torus_conn g img a c) ->
  mvol (final_state g img) (cl (final_state g img) (clab img a))
  == cell_volume g * inject_Z (Z.of_nat (length comp)).
Proof.
  intros Hg Hlen img.
  exact (locate_cart_volume g img Hg (label_wf g mask Hlen) (label_spec (gshape g) mask Hlen)).
Qed.

Theorem locate_cart_position_label g mask :
  grid_ok g -> length mask = length (all_cells (gshape g)) ->
  let img := mk_limage (gshape g) (label (gshape g) mask) in
  forall kappa, lift_ok kappa (edges g img) ->
  exists t : nat -> nat -> Z, forall a ax comp, In a (mask_cells img) -> NoDup comp ->
    (forall c, In c comp <-> In c (mask_cells img) /\ torus_conn g img a c) ->
    let i := cl (final_state g img) (clab img a) in
    mpos (final_state g img) i ax * inject_Z (Z.of_nat (length comp))
    == lsum comp (fun c => coordQ c ax + (1 # 2) + inject_Z ((kappa (clab img c) ax + t i ax) * shapeN g ax)).
Proof.
  intros Hg Hlen img.
  exact (locate_cart_position g img Hg (label_wf g mask Hlen) (label_spec (gshape g) mask Hlen)).
Qed.

(* the cell set and the torus connectivity of the label image are those of the mask *)
Lemma torus_conn_label g mask a b : length mask = length (all_cells (gshape g)) ->
  (torus_conn g (mk_limage (gshape g) (label (gshape g) mask)) a b
   <-> connT cell (mcells (gshape g) mask) face_adj (wrap_pair g) a b).
Proof.
  intros Hlen. unfold torus_conn, connT.
  split; apply clos_mono; intros u v (Hu & Hv & Hs); (split; [|split; [|exact Hs]]);
    apply (in_mask_cells (gshape g) mask Hlen); assumption.
Qed.

(* C02 components, everything stated on the mask: two cells whose mask entry is true end in the same
   cluster iff they are connected through face-adjacent and periodic-boundary pairs of mask cells *)
Theorem locate_cart_components_mask g mask :
  grid_ok g -> length mask = length (all_cells (gshape g)) ->
  let img := mk_limage (gshape g) (label (gshape g) mask) in
  forall a b, In (a, true) (combine (all_cells (gshape g)) mask) ->
              In (b, true) (combine (all_cells (gshape g)) mask) ->
  (cl (final_state g img) (clab img a) = cl (final_state g img) (clab img b)
   <-> connT cell (mcells (gshape g) mask) face_adj (wrap_pair g) a b).
Proof.
  intros Hg Hlen img a b Ha Hb. rewrite <- (torus_conn_label g mask a b Hlen).
  apply (locate_cart_components_label g mask Hg Hlen);
    apply (label_mask_cells (gshape g) mask Hlen); assumption.
Qed.

(* ------------------------------------------------------------------------------------------ *)
(* C01: rendered masks                                                                          *)
(* ------------------------------------------------------------------------------------------ *)
Lemma in_combine_map_self {A B : Type} (f : A -> B) : forall (l : list A) x,
  In x l -> In (x, f x) (combine l (map f l)).
Proof.
  induction l as [|y l IH]; intros x Hin; [destruct Hin|]. cbn [map combine].
  destruct Hin as [->|Hin]; [left; reflexivity|right; apply IH; exact Hin].
Qed.

(* the label image of a mask given cell by cell is non-zero exactly where the mask is true *)
Lemma label_of_fun shape (f : cell -> bool) idx : LocateCart.in_range shape idx ->
  (lab_of (mk_limage shape (label shape (map f (all_cells shape)))) idx <> 0%nat <-> f idx = true).
Proof.
  intros Hr. apply all_cells_spec in Hr.
  pose proof (label_zero_iff shape (map f (all_cells shape)) (map_length _ _) idx (f idx)
                (in_combine_map_self f _ idx Hr)) as H.
  destruct (f idx).
  - split; [reflexivity|]. intros _ E. apply H in E. discriminate E.
  - split; [|discriminate]. intros Hne. exfalso. apply Hne. apply H. reflexivity.
Qed.

Lemma label_mask_is_ball g c r :
  mask_is_ball g c r (mk_limage (gshape g) (label (gshape g) (mask_sphere g c r))).
Proof. intros idx Hr. unfold mask_sphere. apply label_of_fun. exact Hr. Qed.

Lemma label_mask_is_emulsion g ds :
  mask_is_emulsion g ds (mk_limage (gshape g) (label (gshape g) (mask_emulsion g ds))).
Proof. intros idx Hr. unfold mask_emulsion. apply label_of_fun. exact Hr. Qed.

Lemma mask_sphere_length g c r : length (mask_sphere g c r) = length (all_cells (gshape g)).
Proof. apply map_length. Qed.

Lemma mask_emulsion_length g ds : length (mask_emulsion g ds) = length (all_cells (gshape g)).
Proof. apply map_length. Qed.

(* (A) render one sphere, label, locate: one droplet, exact volume, centre within half a spacing *)
Theorem c01_single_label g c r :
  let lab := label (gshape g) (mask_sphere g c r) in
  let img := mk_limage (gshape g) lab in
  grid_ok g -> nonper g -> fits g c r -> ball_cells g c r <> [] ->
  num_labels img = 1%nat /\
  exists pos vol,
    candidates g lab = [(pos, vol)] /\
    vol == cell_volume g * inject_Z (Z.of_nat (length (ball_cells g c r))) /\
    length pos = length g /\
    forall k a x, nth_error g k = Some a -> nth_error c k = Some x ->
      exists pk, nth_error pos k = Some pk /\ Qabs (pk - x) <= adisc a / 2.
Proof.
  intros lab img Hok Hnp Hfit Hne.
  exact (c01_single g c r lab Hok Hnp Hfit Hne
           (label_wf g _ (mask_sphere_length g c r))
           (label_spec (gshape g) _ (mask_sphere_length g c r))
           (label_mask_is_ball g c r)).
Qed.

(* (B) render several mutually separated spheres, label, locate *)
Theorem c01_multi_label g (ds : list sphere) :
  let lab := label (gshape g) (mask_emulsion g ds) in
  let img := mk_limage (gshape g) lab in
  grid_ok g -> nonper g ->
  (forall d, In d ds -> fits g (fst d) (snd d)) ->
  (forall d, In d ds -> ball_cells g (fst d) (snd d) <> []) ->
  (forall i j di dj, nth_error ds i = Some di -> nth_error ds j = Some dj -> i <> j -> apart g di dj) ->
  num_labels img = length ds /\
  length (candidates g lab) = length ds /\
  exists lbl : nat -> nat,
    (forall i, (i < length ds)%nat -> (lbl i < length ds)%nat) /\
    (forall i j, (i < length ds)%nat -> (j < length ds)%nat -> lbl i = lbl j -> i = j) /\
    forall i d, nth_error ds i = Some d ->
      exists pos vol,
        nth_error (candidates g lab) (lbl i) = Some (pos, vol) /\
        vol == cell_volume g * inject_Z (Z.of_nat (length (ball_cells g (fst d) (snd d)))) /\
        length pos = length g /\
        forall k a x, nth_error g k = Some a -> nth_error (fst d) k = Some x ->
          exists pk, nth_error pos k = Some pk /\ Qabs (pk - x) <= adisc a / 2.
Proof.
  intros lab img Hok Hnp Hfits Hne Hsep.
  exact (c01_multi g ds lab Hok Hnp Hfits Hne Hsep
           (label_wf g _ (mask_emulsion_length g ds))
           (label_spec (gshape g) _ (mask_emulsion_length g ds))
           (label_mask_is_emulsion g ds)).
Qed.

Theorem c01_multi_euclid_label g (ds : list sphere) hmax :
  let lab := label (gshape g) (mask_emulsion g ds) in
  let img := mk_limage (gshape g) lab in
  grid_ok g -> nonper g ->
  (forall d, In d ds -> fits g (fst d) (snd d)) ->
  (forall d, In d ds -> ball_cells g (fst d) (snd d) <> []) ->
  0 <= hmax -> Forall (fun a => adisc a <= hmax) g ->
  (forall i j di dj, nth_error ds i = Some di -> nth_error ds j = Some dj -> i <> j ->
     (snd di + snd dj + hmax) * (snd di + snd dj + hmax) <= dist2 g (fst di) (fst dj)) ->
  num_labels img = length ds /\
  length (candidates g lab) = length ds /\
  exists lbl : nat -> nat,
    (forall i, (i < length ds)%nat -> (lbl i < length ds)%nat) /\
    (forall i j, (i < length ds)%nat -> (j < length ds)%nat -> lbl i = lbl j -> i = j) /\
    forall i d, nth_error ds i = Some d ->
      exists pos vol,
        nth_error (candidates g lab) (lbl i) = Some (pos, vol) /\
        vol == cell_volume g * inject_Z (Z.of_nat (length (ball_cells g (fst d) (snd d)))) /\
        length pos = length g /\
        forall k a x, nth_error g k = Some a -> nth_error (fst d) k = Some x ->
          exists pk, nth_error pos k = Some pk /\ Qabs (pk - x) <= adisc a / 2.
Proof.
  intros lab img Hok Hnp Hfits Hne Hh0 Hh Hsep.
  exact (c01_multi_euclid g ds lab hmax Hok Hnp Hfits Hne Hh0 Hh Hsep
           (label_wf g _ (mask_emulsion_length g ds))
           (label_spec (gshape g) _ (mask_emulsion_length g ds))
           (label_mask_is_emulsion g ds)).
Qed.

(* (C) one sphere on a grid with periodic axes *)
Theorem c01_periodic_single_partial_label g c r :
  let lab := label (gshape g) (mask_sphere g c r) in
  let img := mk_limage (gshape g) lab in
  grid_ok g -> tfits g c r -> ball_cells g c r <> [] ->
  (forall p q, In p (mask_cells img) -> In q (mask_cells img) -> torus_conn g img p q) /\
  exists pos vol,
    candidates g lab = [(pos, vol)] /\
    vol == cell_volume g * inject_Z (Z.of_nat (length (ball_cells g c r))).
Proof.
  intros lab img Hok Hfit Hne.
  exact (c01_periodic_single_partial g c r lab Hok Hfit Hne
           (label_wf g _ (mask_sphere_length g c r))
           (label_spec (gshape g) _ (mask_sphere_length g c r))
           (label_mask_is_ball g c r)).
Qed.

Theorem c01_periodic_single_label g c r :
  let lab := label (gshape g) (mask_sphere g c r) in
  grid_ok g -> pfits g c r -> ball_cells g c r <> [] ->
  exists pos vol,
    candidates g lab = [(pos, vol)] /\
    vol == cell_volume g * inject_Z (Z.of_nat (length (ball_cells g c r))) /\
    length pos = length g /\
    forall k a x, nth_error g k = Some a -> nth_error c k = Some x ->
      exists pk, nth_error pos k = Some pk /\
        Qabs (diff1 a x pk) <= adisc a / 2 /\ (aper a = true -> alo a <= pk /\ pk < ahi a).
Proof.
  intros lab Hok Hpf Hne.
  exact (c01_periodic_single g c r lab Hok Hpf Hne
           (label_wf g _ (mask_sphere_length g c r))
           (label_spec (gshape g) _ (mask_sphere_length g c r))
           (label_mask_is_ball g c r)).
Qed.

Print Assumptions locate_cart_components_label.
Print Assumptions locate_cart_volume_label.
Print Assumptions locate_cart_position_label.
Print Assumptions locate_cart_components_mask.
Print Assumptions c01_single_label.
Print Assumptions c01_multi_label.
Print Assumptions c01_multi_euclid_label.
Print Assumptions c01_periodic_single_partial_label.
Print Assumptions c01_periodic_single_label.
