(* The (periodic) squared distance of Model/Grid.v is symmetric: dist2 g p q == dist2 g q p.
   Per axis: wrap1 L (-d) and wrap1 L d have equal squares (they are opposite, or both equal -L/2). *)
From Coq Require Import QArith Qround ZArith List Bool Lia Lqa.
Import ListNotations.
From PD Require Import Model.Grid Proofs.Render.
Local Open Scope Q_scope.

Lemma wrap1_form L d : wrap1 L d == d - inject_Z (Qfloor ((d + L / 2) / L)) * L.
Proof. unfold wrap1, Qmod. ring. Qed.

Lemma wrap1_neg_sq L d : 0 < L -> wrap1 L (- d) * wrap1 L (- d) == wrap1 L d * wrap1 L d.
Proof.
  intros HL.
  destruct (wrap1_range L d HL) as [Hu1 Hu2]. destruct (wrap1_range L (- d) HL) as [Hv1 Hv2].
  pose proof (wrap1_form L d) as Eu. pose proof (wrap1_form L (- d)) as Ev.
  set (k := Qfloor ((d + L / 2) / L)) in *. set (k' := Qfloor ((- d + L / 2) / L)) in *.
  set (u := wrap1 L d) in *. set (v := wrap1 L (- d)) in *. clearbody u v k k'.
  assert (Hhalf : L / 2 == (1 # 2) * L) by field.
  rewrite Hhalf in Hu1, Hu2, Hv1, Hv2.
  assert (Hs : u + v == - (inject_Z (k + k') * L)) by (rewrite Eu, Ev, inject_Z_plus; ring).
  set (m := (k + k')%Z) in *. clearbody m.
  assert (Hm1 : inject_Z m <= 1).
  { apply Qnot_lt_le. intros H. assert (0 < (inject_Z m - 1) * L) by (apply Qmult_lt_0_compat; lra). nra. }
  assert (Hm0 : -1 < inject_Z m).
  { apply Qnot_le_lt. intros H. assert (0 <= (-1 - inject_Z m) * L) by (apply Qmult_le_0_compat; lra). nra. }
  assert (Hz : (m = 0 \/ m = 1)%Z).
  { change 1 with (inject_Z 1) in Hm1. change (-1) with (inject_Z (-1)) in Hm0.
    rewrite <- Zle_Qle in Hm1. rewrite <- Zlt_Qlt in Hm0. lia. }
  destruct Hz as [-> | ->].
  - assert (v == - u) by (change (inject_Z 0) with 0 in Hs; lra). rewrite H. ring.
  - change (inject_Z 1) with 1 in Hs.
    assert (u == - ((1 # 2) * L)) by lra. assert (v == - ((1 # 2) * L)) by lra. rewrite H, H0. ring.
Qed.

Lemma diff1_sym_sq a p q : aper a = false \/ 0 < asize a ->
  diff1 a q p * diff1 a q p == diff1 a p q * diff1 a p q.
Proof.
  intros H. unfold diff1. destruct (aper a) eqn:E.
  - destruct H as [H|H]; [discriminate|].
    assert (Hw : wrap1 (asize a) (p - q) == wrap1 (asize a) (- (q - p))) by (apply wrap1_comp; ring).
    rewrite Hw. apply wrap1_neg_sq. exact H.
  - ring.
Qed.

Lemma dist2_sym g : (forall a, In a g -> aper a = false \/ 0 < asize a) ->
  forall p q, dist2 g p q == dist2 g q p.
Proof.
  unfold dist2. induction g as [|a g IH]; intros Hg p q; [reflexivity|].
  destruct p as [|x p]; destruct q as [|y q]; try reflexivity. simpl.
  rewrite (diff1_sym_sq a y x) by (apply Hg; left; reflexivity).
  rewrite (IH (fun b Hb => Hg b (or_intror Hb)) p q). reflexivity.
Qed.
