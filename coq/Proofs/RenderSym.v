(* C03, D-layer on grids with a symmetry centre / axis (Model/RenderSym.v): the sharp image of a centred sphere on a
   PolarSymGrid / SphericalSymGrid and of on-axis spheres on a CylindricalSymGrid is the indicator of
   `distance < radius` (strict), never increases with the distance, and an emulsion is the cellwise OR of its
   members, independent of their order.  Closed under the global context (exact rationals).  The in-Coq correspondence of
   harness/props/C03.py (`symmask` cases) ties radial_mask / cyl_mask to the implementation. *)
From Coq Require Import QArith ZArith List Bool Lia Lqa.
Import ListNotations.
From PD Require Import Model.Grid Model.Render Model.LocateSym Model.RenderSym Proofs.Render.
Local Open Scope Q_scope.

Definition radial_inside (r_lo dr R : Q) (i : nat) : bool :=
  Qle_bool 0 R && Qlt_bool (radial_centre r_lo dr i * radial_centre r_lo dr i) (R * R).

Lemma radial_mask_nth r_lo dr R n i : (i < n)%nat ->
  nth_error (radial_mask r_lo dr R n) i = Some (radial_inside r_lo dr R i).
Proof.
  intros Hi. unfold radial_mask.
  rewrite nth_error_map, nth_error_nth' with (d := 0%nat) by (rewrite seq_length; exact Hi).
  rewrite seq_nth by exact Hi. reflexivity.
Qed.

Lemma radial_mask_length r_lo dr R n : length (radial_mask r_lo dr R n) = n.
Proof. unfold radial_mask. rewrite map_length, seq_length. reflexivity. Qed.

Lemma radial_inside_iff r_lo dr R i :
  radial_inside r_lo dr R i = true <->
  0 <= R /\ radial_centre r_lo dr i * radial_centre r_lo dr i < R * R.
Proof. unfold radial_inside. rewrite andb_true_iff, Qle_bool_iff, Qlt_bool_iff. reflexivity. Qed.

Lemma radial_centre_pos r_lo dr i : 0 <= r_lo -> 0 < dr -> 0 < radial_centre r_lo dr i.
Proof.
  intros H1 H2. unfold radial_centre.
  assert (0 <= inject_Z (Z.of_nat i)) by (change 0 with (inject_Z 0); rewrite <- Zle_Qle; lia).
  nra.
Qed.

Lemma radial_centre_le r_lo dr i j : 0 < dr -> (i <= j)%nat ->
  radial_centre r_lo dr i <= radial_centre r_lo dr j.
Proof.
  intros Hd Hij. unfold radial_centre.
  assert (inject_Z (Z.of_nat i) <= inject_Z (Z.of_nat j)) by (rewrite <- Zle_Qle; lia). nra.
Qed.

(* with the centre at the origin the distance of a cell is its radial coordinate: distance < R *)
Lemma radial_inside_dist r_lo dr R i : 0 <= r_lo -> 0 < dr ->
  (radial_inside r_lo dr R i = true <-> radial_centre r_lo dr i < R).
Proof.
  intros H1 H2. rewrite radial_inside_iff.
  pose proof (radial_centre_pos r_lo dr i H1 H2) as Hp.
  set (x := radial_centre r_lo dr i) in *. split.
  - intros [HR H]. apply Qnot_le_lt. intros Hle.
    assert (Ha : 0 <= x - R) by lra. assert (Hb : 0 <= x + R) by lra.
    pose proof (Qmult_le_0_compat _ _ Ha Hb) as Hab. nra.
  - intros H. split; [lra|].
    assert (Ha : 0 < R - x) by lra. assert (Hb : 0 < R + x) by lra.
    pose proof (Qmult_lt_0_compat _ _ Ha Hb) as Hab. nra.
Qed.

(* the value never increases with the distance: a covered cell has only covered cells below it *)
Lemma radial_inside_monotone r_lo dr R i j : 0 <= r_lo -> 0 < dr -> (i <= j)%nat ->
  radial_inside r_lo dr R j = true -> radial_inside r_lo dr R i = true.
Proof.
  intros H1 H2 Hij Hj. apply (radial_inside_dist r_lo dr R i H1 H2).
  apply (radial_inside_dist r_lo dr R j H1 H2) in Hj.
  pose proof (radial_centre_le r_lo dr i j H2 Hij). lra.
Qed.

Lemma radial_inside_radius_0 r_lo dr R i : R <= 0 -> radial_inside r_lo dr R i = false.
Proof.
  intros HR. destruct (radial_inside r_lo dr R i) eqn:E; [|reflexivity].
  apply radial_inside_iff in E. destruct E as [H0 Hlt].
  assert (E0 : R == 0) by lra. rewrite E0 in Hlt.
  set (x := radial_centre r_lo dr i) in *. nra.
Qed.

(* ---- cylindrical grids ---- *)
Definition cyl_r (g : cylgrid) (i : Z) : Q := (inject_Z i + (1 # 2)) * cg_dr g.
Definition cyl_z (g : cylgrid) (j : Z) : Q := cg_zlo g + (inject_Z j + (1 # 2)) * cg_dz g.

Lemma cyl_inside_iff g c R i j :
  cyl_inside g c R i j = true <->
  0 <= R /\ cyl_r g i * cyl_r g i + (cyl_z g j - c) * (cyl_z g j - c) < R * R.
Proof.
  unfold cyl_inside, cyl_r, cyl_z. cbv zeta.
  rewrite andb_true_iff, Qle_bool_iff, Qlt_bool_iff. reflexivity.
Qed.

Lemma cyl_inside_radius_0 g c R i j : R <= 0 -> cyl_inside g c R i j = false.
Proof.
  intros HR. destruct (cyl_inside g c R i j) eqn:E; [|reflexivity].
  apply cyl_inside_iff in E. destruct E as [H0 Hlt].
  assert (E0 : R == 0) by lra. rewrite E0 in Hlt.
  set (x := cyl_r g i) in *. set (y := cyl_z g j - c) in *. nra.
Qed.

(* in one z-slice the value never increases with the radial index (the distance from the axis) *)
Lemma cyl_inside_monotone_r g c R i i' j : 0 < cg_dr g -> (0 <= i <= i')%Z ->
  cyl_inside g c R i' j = true -> cyl_inside g c R i j = true.
Proof.
  intros Hd [H0 Hii]. rewrite !cyl_inside_iff. intros [HR Hlt]. split; [exact HR|].
  assert (Ha : 0 <= cyl_r g i).
  { unfold cyl_r. assert (0 <= inject_Z i) by (change 0 with (inject_Z 0); rewrite <- Zle_Qle; lia). nra. }
  assert (Hb : cyl_r g i <= cyl_r g i').
  { unfold cyl_r. assert (inject_Z i <= inject_Z i') by (rewrite <- Zle_Qle; lia). nra. }
  set (x := cyl_r g i) in *. set (x' := cyl_r g i') in *. set (y := cyl_z g j - c) in *.
  assert (x * x <= x' * x') by nra. lra.
Qed.

Definition cyl_inside_any (g : cylgrid) (ds : list (Q * Q)) (idx : list Z) : bool :=
  existsb (fun d => cyl_inside g (fst d) (snd d) (nth 0 idx 0%Z) (nth 1 idx 0%Z)) ds.

Lemma cyl_mask_map g ds : cyl_mask g ds = map (cyl_inside_any g ds) (all_cells [cg_nr g; cg_nz g]).
Proof. reflexivity. Qed.

Lemma cyl_inside_any_iff g ds idx :
  cyl_inside_any g ds idx = true <->
  exists d, In d ds /\ cyl_inside g (fst d) (snd d) (nth 0 idx 0%Z) (nth 1 idx 0%Z) = true.
Proof. unfold cyl_inside_any. apply existsb_exists. Qed.

Lemma cyl_mask_perm g ds ds' : (forall d, In d ds <-> In d ds') -> cyl_mask g ds = cyl_mask g ds'.
Proof.
  intros H. rewrite !cyl_mask_map. apply map_ext. intros idx. apply eq_true_iff_eq.
  rewrite !cyl_inside_any_iff.
  split; intros [d [Hin Hd]]; exists d; (split; [apply H; exact Hin|exact Hd]).
Qed.

Lemma cyl_mask_empty g : forall b, In b (cyl_mask g []) -> b = false.
Proof. intros b Hb. rewrite cyl_mask_map in Hb. apply in_map_iff in Hb. destruct Hb as [idx [E _]]. rewrite <- E. reflexivity. Qed.

(* ---- the statement used in Properties/C03.v ---- *)
Lemma sharp_mask_sym_spec :
  (forall r_lo dr R n i, (i < n)%nat ->
     nth_error (radial_mask r_lo dr R n) i = Some (radial_inside r_lo dr R i)) /\
  (forall r_lo dr R i,
     (radial_inside r_lo dr R i = true <->
        0 <= R /\ radial_centre r_lo dr i * radial_centre r_lo dr i < R * R) /\
     (R <= 0 -> radial_inside r_lo dr R i = false) /\
     (0 <= r_lo -> 0 < dr ->
        (radial_inside r_lo dr R i = true <-> radial_centre r_lo dr i < R) /\
        (forall j, (i <= j)%nat -> radial_inside r_lo dr R j = true -> radial_inside r_lo dr R i = true))) /\
  (forall g c R i j,
     (cyl_inside g c R i j = true <->
        0 <= R /\ cyl_r g i * cyl_r g i + (cyl_z g j - c) * (cyl_z g j - c) < R * R) /\
     (R <= 0 -> cyl_inside g c R i j = false) /\
     (forall i', 0 < cg_dr g -> (0 <= i <= i')%Z -> cyl_inside g c R i' j = true -> cyl_inside g c R i j = true)) /\
  (forall g ds ds',
     cyl_mask g ds = map (cyl_inside_any g ds) (all_cells [cg_nr g; cg_nz g]) /\
     (forall idx, cyl_inside_any g ds idx = true <->
        exists d, In d ds /\ cyl_inside g (fst d) (snd d) (nth 0 idx 0%Z) (nth 1 idx 0%Z) = true) /\
     ((forall d, In d ds <-> In d ds') -> cyl_mask g ds = cyl_mask g ds')).
Proof.
  split; [exact radial_mask_nth|]. split; [|split].
  - intros r_lo dr R i. split; [apply radial_inside_iff|]. split; [apply radial_inside_radius_0|].
    intros H1 H2. split; [apply radial_inside_dist; assumption|].
    intros j Hij. apply radial_inside_monotone; assumption.
  - intros g c R i j. split; [apply cyl_inside_iff|]. split; [apply cyl_inside_radius_0|].
    intros i'. apply cyl_inside_monotone_r.
  - intros g ds ds'. split; [apply cyl_mask_map|]. split; [intros idx; apply cyl_inside_any_iff|apply cyl_mask_perm].
Qed.

(* non-vacuity: a sphere of radius 9/4 on a radial grid with inner radius 1/2 and spacing 1/2 covers cells 0..2 only;
   two on-axis spheres on a 2 x 4 cylinder (dr = 1, dz = 1/2, z from -1): the first covers two cells, the second has
   the cell (r, z) = (1/2, 3/4) exactly on its interface (distance = radius = 1/2), which is outside (strict <) *)
Lemma ex_sym_mask :
  radial_mask (1 # 2) (1 # 2) (9 # 4) 6 = [true; true; true; false; false; false] /\
  cyl_mask {| cg_nr := 2; cg_nz := 4; cg_R := 2; cg_zlo := - (1); cg_zhi := 1; cg_per := true |}
           [(- (3 # 4), 3 # 4); (3 # 4, 1 # 2)] =
    [true; true; false; false;  false; false; false; false].
Proof. split; vm_compute; reflexivity. Qed.
