(* C04, D-layer: what refine_droplet hands to the optimiser and what it makes of the answer
   (Model/Refine.v over the generated lines Gen_refine), relative to the stated optimiser specification. *)
From Coq Require Import QArith Qabs Qround ZArith List Bool Arith Lia Lra Psatz.
Import ListNotations.
From PD Require Import Model.Grid Gen.Gen_refine Model.Refine Proofs.RefineVec Proofs.Render.
Local Open Scope Q_scope.

(* ---------------------------------------------------------------------------------------- *)
(* hypotheses as predicates                                                                  *)
(* ---------------------------------------------------------------------------------------- *)
(* scipy.optimize.least_squares (method trf) on a feasible problem: the answer respects the bounds and
   its cost is not larger than that of the start (only cost-reducing steps are accepted) *)
Definition lsq_spec (lsq : (list Q -> list Q) -> list Q -> list ext -> list ext -> list Q) : Prop :=
  forall f x0 lo hi, lsq_precondition x0 lo hi = None ->
    within lo (lsq f x0 lo hi) hi = true /\ sumsq (f (lsq f x0 lo hi)) <= sumsq (f x0).

(* a start of zero cost has zero gradient: the solver stops at once and returns it *)
Definition lsq_stationary (lsq : (list Q -> list Q) -> list Q -> list ext -> list ext -> list Q) : Prop :=
  forall f x0 lo hi, lsq_precondition x0 lo hi = None -> sumsq (f x0) == 0 -> lsq f x0 lo hi = x0.

Definition is_perturbed (c : rclass) : bool := match c with RP2D | RP3D | RP3DAxi => true | _ => false end.

(* the record represents a droplet object: only perturbed classes carry amplitudes *)
Definition wf (c : droplet) : Prop := is_perturbed (d_cls c) = false -> d_cls c <> RSpherical -> d_amp c = [].

(* the axis list has the arity of the grid family *)
Definition wf_grid (g : rgrid) : Prop :=
  match g_family g with FCart => True | FPolar | FSpher => length (g_axes g) = 1%nat | FCyl => length (g_axes g) = 2%nat end.

(* what the constructors / setters of the droplet classes enforce, plus amplitudes inside their bounds *)
Definition valid (g : rgrid) (c : droplet) : Prop :=
  0 <= d_rad c /\
  0 <= width_or_default (d_width (promoted c)) (typical_discretization g) /\
  Forall (fun a => -1 <= a /\ a <= 1) (d_amp (promoted c)).

(* ---------------------------------------------------------------------------------------- *)
(* shapes of the generated bound vectors and of the free mask                                *)
(* ---------------------------------------------------------------------------------------- *)
Lemma set_at_repeat_0 {A : Type} (a y : A) n b : set_at n a (repeat y n ++ b) = repeat y n ++ set_at 0 a b.
Proof. rewrite <- (Nat.add_0_r n) at 1. apply set_at_repeat_app. Qed.

Lemma diffuse_bounds_shape dim modes :
  bounds_DiffuseDroplet dim modes (dim + S (S modes)) =
  (repeat NegInf dim ++ Fin 0 :: Fin 0 :: repeat NegInf modes, repeat PosInf dim ++ PosInf :: PosInf :: repeat PosInf modes).
Proof.
  unfold bounds_DiffuseDroplet, bounds_SphericalDroplet, bounds_DropletBase.
  rewrite !repeat_app. cbn [repeat]. rewrite set_at_repeat_0. cbn [set_at].
  rewrite set_at_repeat_app. reflexivity.
Qed.

Lemma perturbed_bounds_shape dim modes :
  bounds_PerturbedDropletBase dim modes (dim + S (S modes)) =
  (repeat NegInf dim ++ Fin 0 :: Fin 0 :: repeat (Fin (-1)) modes, repeat PosInf dim ++ PosInf :: PosInf :: repeat (Fin 1) modes).
Proof.
  unfold bounds_PerturbedDropletBase. rewrite diffuse_bounds_shape.
  replace (dim + 2 + modes)%nat with (dim + (2 + modes))%nat by lia.
  rewrite !set_range_repeat_app. cbn [set_range Nat.leb Nat.ltb Nat.add pred andb].
  rewrite !set_range_all. reflexivity.
Qed.

(* radius and width are bounded below by 0, amplitudes lie in [-1, 1], positions are unbounded *)
Lemma data_bounds_shape c dim modes : is_diffuse c = true -> (is_perturbed c = false -> modes = 0%nat) ->
  data_bounds c dim modes (dim + S (S modes)) =
  (repeat NegInf dim ++ Fin 0 :: Fin 0 :: repeat (Fin (-1)) modes, repeat PosInf dim ++ PosInf :: PosInf :: repeat (Fin 1) modes).
Proof.
  intros Hd Hm. destruct c; try discriminate Hd; unfold data_bounds; try apply perturbed_bounds_shape.
  rewrite (Hm eq_refl). apply diffuse_bounds_shape.
Qed.

Lemma free_mask_shape dim k cs : Forall (fun i => (i < dim)%nat) cs ->
  free_mask (dim + k) cs = free_mask dim cs ++ repeat true k.
Proof.
  intros H. unfold free_mask. rewrite repeat_app. apply set_many_app_l. rewrite repeat_length. exact H.
Qed.

Lemma free_mask_length n cs : length (free_mask n cs) = n.
Proof. unfold free_mask. rewrite set_many_length. apply repeat_length. Qed.

Lemma constraints_lt g : Forall (fun i => (i < g_dim g)%nat) (constraints g).
Proof. unfold constraints, g_dim. destruct (g_family g); repeat constructor. Qed.

Lemma free_mask_constrained g i : In i (constraints g) -> nth_error (free_mask (g_dim g) (constraints g)) i = Some false.
Proof.
  intros Hin. unfold free_mask. apply nth_error_set_many_in; [exact Hin|]. rewrite repeat_length.
  pose proof (constraints_lt g) as H. rewrite Forall_forall in H. apply H. exact Hin.
Qed.

(* ---------------------------------------------------------------------------------------- *)
(* promotion                                                                                 *)
(* ---------------------------------------------------------------------------------------- *)
Lemma promoted_class c : d_cls (promoted c) = promote (d_cls c) /\ is_diffuse (d_cls (promoted c)) = true.
Proof.
  unfold promoted, promote. destruct (is_diffuse (d_cls c)) eqn:E; simpl; [split; [reflexivity|exact E]|].
  split; reflexivity.
Qed.

Lemma promoted_pos c : d_pos (promoted c) = d_pos c /\ d_rad (promoted c) = d_rad c.
Proof. unfold promoted. destruct (is_diffuse (d_cls c)); split; reflexivity. Qed.

Lemma promoted_modes c : wf c -> is_perturbed (d_cls (promoted c)) = false -> length (d_amp (promoted c)) = 0%nat.
Proof.
  intros Hwf. unfold promoted. destruct (is_diffuse (d_cls c)) eqn:E; simpl; [|reflexivity].
  intros Hp. rewrite Hwf; [reflexivity|exact Hp|]. intros Hs. rewrite Hs in E. discriminate.
Qed.

(* the unit of the intensities is positive (|vrng|, or 1 for a vanishing range) *)
Lemma level_scale_pos x : 0 < level_scale x.
Proof.
  unfold level_scale. destruct (Qeq_bool x 0) eqn:E; [reflexivity|].
  assert (Hx : ~ x == 0). { intro H. apply Qeq_bool_iff in H. congruence. }
  destruct (Qlt_le_dec 0 x) as [H|H].
  - rewrite Qabs_pos by (apply Qlt_le_weak; exact H). exact H.
  - rewrite Qabs_neg by exact H. destruct (Qle_lt_or_eq _ _ H) as [H1|H1]; [lra | contradiction].
Qed.

(* dividing by the unit keeps the order of the levels *)
Lemma div_scale_lt a b s : 0 < s -> (a < b <-> a / s < b / s).
Proof.
  intros Hs. unfold Qdiv. assert (Hi : 0 < / s) by (apply Qinv_lt_0_compat; exact Hs).
  split; intros H.
  - apply Qmult_lt_r; assumption.
  - apply Qmult_lt_r in H; assumption.
Qed.

(* ---------------------------------------------------------------------------------------- *)
(* everything `prepare` assembles, in closed form                                            *)
(* ---------------------------------------------------------------------------------------- *)
Section Shape.
  Variables (g : rgrid) (st : stats) (vmin_o vmax_o : option Q) (adjust : bool) (c : droplet) (p : prepared).
  Hypothesis Hwf : wf c.
  Hypothesis Hp : prepare g st vmin_o vmax_o adjust c = inr p.

  Let q := promoted c.
  Let dim := length (d_pos q).
  Let modes := length (d_amp q).
  Let w := width_or_default (d_width q) (typical_discretization g).
  Let fm := free_mask dim (constraints g).
  Let b0 := select fm (repeat NegInf dim) ++ Fin 0 :: Fin 0 :: repeat (Fin (-1)) modes.
  Let b1 := select fm (repeat PosInf dim) ++ PosInf :: PosInf :: repeat (Fin 1) modes.
  Let xs := select fm (d_pos q) ++ d_rad q :: w :: d_amp q.

  Lemma prepare_shape :
    dim = g_dim g /\
    (exists vmin0 vmax0, levels vmin_o vmax_o st = (vmin0, vmax0) /\
       p_scale p = level_scale (vrng_of vmin0 vmax0) /\
       p_vmin p = vmin0 / p_scale p /\ p_vmax p = vmax0 / p_scale p /\ p_vrng p = vrng_of vmin0 vmax0 / p_scale p) /\
    p_drop p = q /\ p_dim p = dim /\ p_width p = w /\
    p_flat p = d_pos q ++ d_rad q :: w :: d_amp q /\
    p_free p = fm ++ repeat true (S (S modes)) /\
    p_vrng p == vrng_of (p_vmin p) (p_vmax p) /\
    (adjust = false -> p_x0 p = xs /\ p_lo p = b0 /\ p_hi p = b1) /\
    (adjust = true -> p_x0 p = xs ++ [p_vmin p; p_vrng p] /\
                      p_lo p = b0 ++ [Fin (p_vmin p - p_vrng p); Fin 0] /\
                      p_hi p = b1 ++ [Fin (p_vmax p); Fin (3 * p_vrng p)]).
  Proof.
    revert Hp. unfold prepare. fold q. fold dim.
    destruct (Nat.eqb dim (g_dim g)) eqn:Ed; simpl negb; cbv iota; [|discriminate].
    apply Nat.eqb_eq in Ed. fold w. fold modes.
    assert (Elen : length (flat (d_pos q) (d_rad q) w (d_amp q)) = (dim + S (S modes))%nat).
    { unfold flat. rewrite app_length. reflexivity. }
    rewrite Elen.
    assert (Efree : free_mask (dim + S (S modes)) (constraints g) = fm ++ repeat true (S (S modes))).
    { apply free_mask_shape. rewrite Ed. apply constraints_lt. }
    rewrite Efree.
    destruct (promoted_class c) as [_ Hdiff]. fold q in Hdiff.
    rewrite (data_bounds_shape (d_cls q) dim modes Hdiff) by (intros Hn; apply (promoted_modes c Hwf Hn)).
    unfold fit_bounds.
    assert (Hfm : length fm = dim) by apply free_mask_length.
    rewrite !select_app by (rewrite repeat_length; exact Hfm).
    rewrite (select_all_true (S (S modes)) (Fin 0 :: Fin 0 :: repeat (Fin (-1)) modes)) by (simpl; rewrite repeat_length; reflexivity).
    rewrite (select_all_true (S (S modes)) (PosInf :: PosInf :: repeat (Fin 1) modes)) by (simpl; rewrite repeat_length; reflexivity).
    fold b0. fold b1.
    destruct (levels vmin_o vmax_o st) as [vmin vmax] eqn:El.
    unfold normalised_levels. cbv iota beta.
    unfold start_adjust, start_plain, bounds_adjust. unfold flat.
    rewrite (select_app fm (repeat true (S (S modes))) (d_pos q) (d_rad q :: w :: d_amp q)) by exact Hfm.
    rewrite (select_all_true (S (S modes)) (d_rad q :: w :: d_amp q)) by reflexivity.
    fold xs.
    pose proof (level_scale_pos (vrng_of vmin vmax)) as Hs.
    destruct adjust; intros Hq; injection Hq as <-; cbn [p_drop p_dim p_width p_flat p_free p_scale p_vmin p_vmax p_vrng p_x0 p_lo p_hi];
      (repeat split; try reflexivity; try discriminate; try exact Ed).
    all: try (exists vmin, vmax; repeat split; reflexivity).
    all: try (unfold vrng_of; field; intro Hz; rewrite Hz in Hs; revert Hs; apply Qlt_irrefl).
    all: intros _; repeat split; rewrite <- ?app_assoc; reflexivity.
  Qed.

  Lemma shape_lengths : length xs = length b0 /\ length xs = length b1 /\ length (select fm (d_pos q)) = length (select fm (repeat NegInf dim)).
  Proof.
    assert (E1 : length (select fm (d_pos q)) = length (select fm (repeat NegInf dim)))
      by (apply select_length_same; rewrite repeat_length; reflexivity).
    assert (E2 : length (select fm (d_pos q)) = length (select fm (repeat PosInf dim)))
      by (apply select_length_same; rewrite repeat_length; reflexivity).
    unfold xs, b0, b1. rewrite !app_length. simpl. rewrite !repeat_length. fold modes. lia.
  Qed.
End Shape.

(* ---------------------------------------------------------------------------------------- *)
(* start feasibility                                                                         *)
(* ---------------------------------------------------------------------------------------- *)
Lemma within_unbounded n : forall v, length v = n -> within (repeat NegInf n) v (repeat PosInf n) = true.
Proof.
  induction n as [|n IH]; intros v H; destruct v as [|a v]; try discriminate; [reflexivity|].
  simpl. apply IH. simpl in H. lia.
Qed.

Lemma strict_unbounded n : strict (repeat NegInf n) (repeat PosInf n) = true.
Proof. induction n as [|n IH]; [reflexivity|]. simpl. exact IH. Qed.

Lemma within_amplitudes amp : Forall (fun a => -1 <= a /\ a <= 1) amp ->
  within (repeat (Fin (-1)) (length amp)) amp (repeat (Fin 1) (length amp)) = true.
Proof.
  induction 1 as [|a amp [Ha Hb] _ IH]; [reflexivity|]. simpl.
  apply Qle_bool_iff in Ha. apply Qle_bool_iff in Hb. rewrite Ha, Hb. exact IH.
Qed.

Lemma strict_amplitudes n : strict (repeat (Fin (-1)) n) (repeat (Fin 1) n) = true.
Proof. induction n as [|n IH]; [reflexivity|]. simpl. exact IH. Qed.

Section Feasible.
  Variables (g : rgrid) (st : stats) (vmin_o vmax_o : option Q) (adjust : bool) (c : droplet) (p : prepared).
  Hypothesis Hwf : wf c.
  Hypothesis Hp : prepare g st vmin_o vmax_o adjust c = inr p.

  (* the droplet part of the start vector lies inside the droplet part of the bounds *)
  Lemma droplet_part_feasible : valid g c ->
    let q := promoted c in
    let fm := free_mask (length (d_pos q)) (constraints g) in
    let w := width_or_default (d_width q) (typical_discretization g) in
    within (select fm (repeat NegInf (length (d_pos q))) ++ Fin 0 :: Fin 0 :: repeat (Fin (-1)) (length (d_amp q)))
           (select fm (d_pos q) ++ d_rad q :: w :: d_amp q)
           (select fm (repeat PosInf (length (d_pos q))) ++ PosInf :: PosInf :: repeat (Fin 1) (length (d_amp q))) = true /\
    strict (select fm (repeat NegInf (length (d_pos q))) ++ Fin 0 :: Fin 0 :: repeat (Fin (-1)) (length (d_amp q)))
           (select fm (repeat PosInf (length (d_pos q))) ++ PosInf :: PosInf :: repeat (Fin 1) (length (d_amp q))) = true.
  Proof.
    intros [Hr [Hw Ha]] q fm w. fold q in Hw, Ha. fold w in Hw.
    assert (Hrq : 0 <= d_rad q) by (unfold q; rewrite (proj2 (promoted_pos c)); exact Hr).
    assert (L1 : length (select fm (repeat NegInf (length (d_pos q)))) = length (select fm (d_pos q)))
      by (apply select_length_same; apply repeat_length).
    assert (L2 : length (select fm (repeat PosInf (length (d_pos q)))) = length (select fm (d_pos q)))
      by (apply select_length_same; apply repeat_length).
    split.
    - rewrite within_app by assumption. apply andb_true_iff. split.
      + apply within_select. apply within_unbounded. reflexivity.
      + simpl. apply Qle_bool_iff in Hrq. apply Qle_bool_iff in Hw. rewrite Hrq, Hw. simpl.
        apply within_amplitudes. exact Ha.
    - rewrite strict_app by congruence. apply andb_true_iff. split.
      + apply strict_select. apply strict_unbounded.
      + simpl. apply strict_amplitudes.
  Qed.

  (* THE start-feasibility statement: a valid candidate meets every precondition of the optimiser;
     with fitted intensities this needs (and only needs) vmin < vmax *)
  Lemma start_feasible : valid g c -> (adjust = true -> p_vmin p < p_vmax p) ->
    lsq_precondition (p_x0 p) (p_lo p) (p_hi p) = None.
  Proof.
    intros Hv Hlev.
    destruct (prepare_shape g st vmin_o vmax_o adjust c p Hwf Hp) as (_ & _ & _ & _ & _ & _ & _ & Hrng & Hplain & Hadj).
    destruct (droplet_part_feasible Hv) as [W S]. cbv zeta in W, S.
    destruct adjust.
    - destruct (Hadj eq_refl) as (-> & -> & ->). specialize (Hlev eq_refl).
      rewrite precondition_app by assumption.
      apply precondition_ok; simpl; rewrite ?andb_true_r.
      + assert (E3 : Qle_bool (p_vmin p - p_vrng p) (p_vmin p) = true) by (apply Qle_bool_iff; unfold vrng_of in Hrng; lra).
        assert (E4 : Qle_bool (p_vmin p) (p_vmax p) = true) by (apply Qle_bool_iff; lra).
        assert (E5 : Qle_bool 0 (p_vrng p) = true) by (apply Qle_bool_iff; unfold vrng_of in Hrng; lra).
        assert (E6 : Qle_bool (p_vrng p) (3 * p_vrng p) = true) by (apply Qle_bool_iff; unfold vrng_of in Hrng; lra).
        rewrite E3, E4, E5, E6. reflexivity.
      + assert (E1 : Qle_bool (p_vmax p) (p_vmin p - p_vrng p) = false).
        { destruct (Qle_bool (p_vmax p) (p_vmin p - p_vrng p)) eqn:E; [|reflexivity].
          apply Qle_bool_iff in E. unfold vrng_of in Hrng. lra. }
        assert (E2 : Qle_bool (3 * p_vrng p) 0 = false).
        { destruct (Qle_bool (3 * p_vrng p) 0) eqn:E; [|reflexivity].
          apply Qle_bool_iff in E. unfold vrng_of in Hrng. lra. }
        rewrite E1, E2. reflexivity.
    - destruct (Hplain eq_refl) as (-> & -> & ->). apply precondition_ok; assumption.
  Qed.

  (* the converse: with fitted intensities and vmin >= vmax scipy rejects the bounds *)
  Lemma degenerate_range_rejected : adjust = true -> ~ p_vmin p < p_vmax p ->
    lsq_precondition (p_x0 p) (p_lo p) (p_hi p) = Some EBoundsNotStrict.
  Proof.
    intros Ha Hn. subst adjust.
    destruct (prepare_shape g st vmin_o vmax_o true c p Hwf Hp) as (_ & _ & _ & _ & _ & _ & _ & Hrng & _ & Hadj).
    destruct (Hadj eq_refl) as (-> & -> & ->).
    destruct (shape_lengths g c) as (L1 & L2 & _).
    apply precondition_app_lengths; try congruence; try reflexivity.
    simpl.
    assert (E2 : Qle_bool (3 * p_vrng p) 0 = true).
    { apply Qle_bool_iff. unfold vrng_of in Hrng. apply Qnot_lt_le in Hn. lra. }
    rewrite E2. simpl. rewrite !andb_false_r. reflexivity.
  Qed.
End Feasible.

(* ---------------------------------------------------------------------------------------- *)
(* the answer of the optimiser, written back                                                 *)
(* ---------------------------------------------------------------------------------------- *)
Section Fitted.
  Variable lsq : (list Q -> list Q) -> list Q -> list ext -> list ext -> list Q.
  Variable hyp : list Q -> Q.
  Variable dev : list Q -> Q -> Q -> list Q.
  Variables (g : rgrid) (st : stats) (vmin_o vmax_o : option Q) (adjust : bool) (c : droplet) (p : prepared).
  Hypothesis Hwf : wf c.
  Hypothesis Hp : prepare g st vmin_o vmax_o adjust c = inr p.

  Let q := promoted c.
  Let dim := length (d_pos q).
  Let modes := length (d_amp q).
  Let fm := free_mask dim (constraints g).

  (* the vector that is written back: the optimiser's answer without the two intensity entries *)
  Definition answer_droplet_part (x : list Q) : list Q := if adjust then drop_last 2 x else x.

  Lemma writeback_char x :
    (if adjust then writeback_adjust (p_free p) (p_flat p) x else writeback_plain (p_free p) (p_flat p) x)
    = scatter (p_free p) (p_flat p) (answer_droplet_part x).
  Proof. unfold answer_droplet_part, writeback_adjust, writeback_plain. destruct adjust; reflexivity. Qed.

  Lemma free_flat_length : length (p_free p) = length (p_flat p).
  Proof.
    destruct (prepare_shape g st vmin_o vmax_o adjust c p Hwf Hp) as (_ & _ & _ & _ & _ & -> & -> & _).
    rewrite !app_length, free_mask_length. simpl. rewrite repeat_length. reflexivity.
  Qed.

  Lemma fitted_inr_length d : fitted lsq dev adjust p = inr d -> length d = length (p_flat p).
  Proof.
    unfold fitted. destruct (lsq_precondition (p_x0 p) (p_lo p) (p_hi p)); [discriminate|].
    rewrite writeback_char.
    destruct (scatter (p_free p) (p_flat p) _) as [d'|] eqn:Es; [|discriminate].
    intros H. injection H as <-. eapply scatter_length; [apply free_flat_length|exact Es].
  Qed.

  (* in closed form: constrained entries keep their value, the others are within the droplet bounds *)
  Lemma fitted_char d : lsq_spec lsq -> fitted lsq dev adjust p = inr d ->
    length d = length (p_flat p) /\
    (forall i, nth_error (p_free p) i = Some false -> nth_error d i = nth_error (p_flat p) i) /\
    within_masked (p_free p)
       (repeat NegInf dim ++ Fin 0 :: Fin 0 :: repeat (Fin (-1)) modes) d
       (repeat PosInf dim ++ PosInf :: PosInf :: repeat (Fin 1) modes).
  Proof.
    intros Hspec Hf. unfold fitted in Hf.
    destruct (lsq_precondition (p_x0 p) (p_lo p) (p_hi p)) eqn:Epre; [discriminate|].
    destruct (Hspec (fit_function dev adjust p) _ _ _ Epre) as [Hw _].
    set (x := lsq (fit_function dev adjust p) (p_x0 p) (p_lo p) (p_hi p)) in *.
    rewrite writeback_char in Hf.
    destruct (scatter (p_free p) (p_flat p) (answer_droplet_part x)) as [d'|] eqn:Es; [|discriminate].
    injection Hf as <-.
    pose proof free_flat_length as Hfl.
    split; [eapply scatter_length; eauto|]. split.
    - intros i Hi. eapply scatter_keeps; eauto.
    - destruct (prepare_shape g st vmin_o vmax_o adjust c p Hwf Hp) as (_ & _ & _ & _ & _ & Hflat & Hfree & _ & Hplain & Hadj).
      fold q dim modes fm in Hflat, Hfree, Hplain, Hadj.
      assert (Hfm : length fm = dim) by apply free_mask_length.
      set (lfull := repeat NegInf dim ++ Fin 0 :: Fin 0 :: repeat (Fin (-1)) modes).
      set (hfull := repeat PosInf dim ++ PosInf :: PosInf :: repeat (Fin 1) modes).
      assert (Ll : length lfull = length (p_free p)).
      { unfold lfull. rewrite Hfree, !app_length, Hfm, !repeat_length. simpl. rewrite !repeat_length. reflexivity. }
      assert (Lh : length hfull = length (p_free p)).
      { unfold hfull. rewrite Hfree, !app_length, Hfm, !repeat_length. simpl. rewrite !repeat_length. reflexivity. }
      assert (Sl : select (p_free p) lfull = select fm (repeat NegInf dim) ++ Fin 0 :: Fin 0 :: repeat (Fin (-1)) modes).
      { unfold lfull. rewrite Hfree, select_app by (rewrite repeat_length; exact Hfm).
        rewrite (select_all_true (S (S modes))) by (simpl; rewrite repeat_length; reflexivity). reflexivity. }
      assert (Sh : select (p_free p) hfull = select fm (repeat PosInf dim) ++ PosInf :: PosInf :: repeat (Fin 1) modes).
      { unfold hfull. rewrite Hfree, select_app by (rewrite repeat_length; exact Hfm).
        rewrite (select_all_true (S (S modes))) by (simpl; rewrite repeat_length; reflexivity). reflexivity. }
      apply (scatter_within (p_free p) (p_flat p) (answer_droplet_part x) d' lfull hfull); try congruence.
      rewrite Sl, Sh. unfold answer_droplet_part. destruct adjust.
      + destruct (Hadj eq_refl) as (Ex0 & Elo & Ehi). rewrite Elo, Ehi in Hw.
        destruct (within_length _ _ _ Hw) as [Hl1 _]. rewrite app_length in Hl1. simpl in Hl1.
        destruct (drop_last_last_n 2 x) as [Ex El2]; [lia|].
        remember (drop_last 2 x) as x1 eqn:E1. remember (last_n 2 x) as x2 eqn:E2. clear E1 E2.
        destruct (shape_lengths g c) as (L1 & L2 & _). fold q dim modes fm in L1, L2.
        assert (Lx : length x = (length x1 + 2)%nat) by (rewrite Ex, app_length, El2; reflexivity).
        rewrite Ex in Hw. rewrite within_app in Hw by lia.
        apply andb_true_iff in Hw. tauto.
      + destruct (Hplain eq_refl) as (Ex0 & Elo & Ehi). rewrite Elo, Ehi in Hw. exact Hw.
  Qed.

  (* cost: the deviation at the written-back vector (with the fitted intensities) is not larger than at the start *)
  Lemma fitted_cost d : lsq_spec lsq -> fitted lsq dev adjust p = inr d ->
    exists vminf vrngf,
      sumsq (dev d vminf vrngf) <= sumsq (dev (p_flat p) (p_vmin p) (p_vrng p)) /\
      (adjust = false -> vminf = p_vmin p /\ vrngf = p_vrng p).
  Proof.
    intros Hspec Hf. unfold fitted in Hf.
    destruct (lsq_precondition (p_x0 p) (p_lo p) (p_hi p)) eqn:Epre; [discriminate|].
    destruct (Hspec (fit_function dev adjust p) _ _ _ Epre) as [Hw Hc].
    set (x := lsq (fit_function dev adjust p) (p_x0 p) (p_lo p) (p_hi p)) in *.
    rewrite writeback_char in Hf.
    destruct (scatter (p_free p) (p_flat p) (answer_droplet_part x)) as [d'|] eqn:Es; [|discriminate].
    injection Hf as <-.
    pose proof free_flat_length as Hfl.
    destruct (prepare_shape g st vmin_o vmax_o adjust c p Hwf Hp) as (_ & _ & _ & _ & _ & Hflat & Hfree & _ & Hplain & Hadj).
    fold q dim modes fm in Hflat, Hfree, Hplain, Hadj.
    assert (Hfm : length fm = dim) by apply free_mask_length.
    (* the start vector is the selection of the free entries (plus the intensities) *)
    assert (Hsel : select (p_free p) (p_flat p) = select fm (d_pos q) ++ d_rad q :: width_or_default (d_width q) (typical_discretization g) :: d_amp q).
    { rewrite Hflat, Hfree, select_app by exact Hfm. rewrite (select_all_true (S (S modes))) by reflexivity. reflexivity. }
    unfold fit_function, answer_droplet_part in *. destruct adjust.
    - destruct (Hadj eq_refl) as (Ex0 & Elo & Ehi).
      destruct (within_length _ _ _ Hw) as [Hl1 _]. rewrite Elo, app_length in Hl1. simpl in Hl1.
      destruct (drop_last_last_n 2 x) as [Ex El2]; [lia|].
      destruct (last_n 2 x) as [|vminf [|vrngf [|? ?]]] eqn:El; try discriminate El2.
      exists vminf, vrngf. split; [|discriminate].
      unfold deviation_adjust in Hc. unfold params_droplet_adjust, params_levels_adjust in Hc.
      fold x in Hc. rewrite Es, El in Hc.
      rewrite Ex0 in Hc. rewrite <- Hsel in Hc.
      rewrite drop_last_app2, last_n_app2 in Hc.
      rewrite scatter_select in Hc by exact Hfl. exact Hc.
    - destruct (Hplain eq_refl) as (Ex0 & Elo & Ehi).
      exists (p_vmin p), (p_vrng p). split; [|intros _; split; reflexivity].
      unfold deviation_plain, params_droplet_plain in Hc. fold x in Hc. rewrite Es in Hc.
      rewrite Ex0, <- Hsel, scatter_select in Hc by exact Hfl. exact Hc.
  Qed.

  (* a zero-cost start is returned as it is by a solver that stops at stationary points *)
  Lemma fitted_stationary : lsq_stationary lsq -> lsq_precondition (p_x0 p) (p_lo p) (p_hi p) = None ->
    sumsq (dev (p_flat p) (p_vmin p) (p_vrng p)) == 0 -> fitted lsq dev adjust p = inr (p_flat p).
  Proof.
    intros Hstat Epre Hz. unfold fitted. rewrite Epre.
    pose proof free_flat_length as Hfl.
    destruct (prepare_shape g st vmin_o vmax_o adjust c p Hwf Hp) as (_ & _ & _ & _ & _ & Hflat & Hfree & _ & Hplain & Hadj).
    fold q dim modes fm in Hflat, Hfree, Hplain, Hadj.
    assert (Hfm : length fm = dim) by apply free_mask_length.
    assert (Hsel : select (p_free p) (p_flat p) = select fm (d_pos q) ++ d_rad q :: width_or_default (d_width q) (typical_discretization g) :: d_amp q).
    { rewrite Hflat, Hfree, select_app by exact Hfm. rewrite (select_all_true (S (S modes))) by reflexivity. reflexivity. }
    assert (Hstart : sumsq (fit_function dev adjust p (p_x0 p)) == 0).
    { unfold fit_function. destruct adjust.
      - destruct (Hadj eq_refl) as (Ex0 & _). unfold deviation_adjust, params_droplet_adjust, params_levels_adjust.
        rewrite Ex0, <- Hsel.
        rewrite drop_last_app2, last_n_app2.
        rewrite scatter_select by exact Hfl. exact Hz.
      - destruct (Hplain eq_refl) as (Ex0 & _). unfold deviation_plain, params_droplet_plain.
        rewrite Ex0, <- Hsel, scatter_select by exact Hfl. exact Hz. }
    rewrite (Hstat _ _ _ _ Epre Hstart). rewrite writeback_char. unfold answer_droplet_part.
    destruct adjust.
    - destruct (Hadj eq_refl) as (Ex0 & _). rewrite Ex0, <- Hsel.
      rewrite drop_last_app2.
      rewrite scatter_select by exact Hfl. reflexivity.
    - destruct (Hplain eq_refl) as (Ex0 & _). rewrite Ex0, <- Hsel, scatter_select by exact Hfl. reflexivity.
  Qed.

  (* the write-back succeeds whenever the optimiser answers within its bounds *)
  Lemma fitted_ok : lsq_spec lsq -> lsq_precondition (p_x0 p) (p_lo p) (p_hi p) = None ->
    exists d, fitted lsq dev adjust p = inr d.
  Proof.
    intros Hspec Epre. unfold fitted. rewrite Epre.
    destruct (Hspec (fit_function dev adjust p) _ _ _ Epre) as [Hw _].
    set (x := lsq (fit_function dev adjust p) (p_x0 p) (p_lo p) (p_hi p)) in *.
    rewrite writeback_char.
    pose proof free_flat_length as Hfl.
    destruct (prepare_shape g st vmin_o vmax_o adjust c p Hwf Hp) as (_ & _ & _ & _ & _ & Hflat & Hfree & _ & Hplain & Hadj).
    fold q dim modes fm in Hflat, Hfree, Hplain, Hadj.
    assert (Hfm : length fm = dim) by apply free_mask_length.
    assert (Hsel : select (p_free p) (p_flat p) = select fm (d_pos q) ++ d_rad q :: width_or_default (d_width q) (typical_discretization g) :: d_amp q).
    { rewrite Hflat, Hfree, select_app by exact Hfm. rewrite (select_all_true (S (S modes))) by reflexivity. reflexivity. }
    destruct (within_length _ _ _ Hw) as [Hl1 _].
    destruct (shape_lengths g c) as (L1 & L2 & _). fold q dim modes fm in L1, L2.
    destruct (scatter_some (p_free p) (p_flat p) (answer_droplet_part x) Hfl) as [d Ed].
    - rewrite Hsel. unfold answer_droplet_part. destruct adjust.
      + destruct (Hadj eq_refl) as (_ & Elo & _). rewrite Elo, app_length in Hl1. simpl in Hl1.
        destruct (drop_last_last_n 2 x) as [Ex El2]; [lia|].
        assert (length x = length (drop_last 2 x) + 2)%nat by (rewrite Ex at 1; rewrite app_length, El2; reflexivity).
        lia.
      + destruct (Hplain eq_refl) as (_ & Elo & _). rewrite Elo in Hl1. lia.
    - rewrite Ed. eexists; reflexivity.
  Qed.
End Fitted.
