(* C12, floating-point layer: the premise of the standard model is met by IEEE-754 binary64 arithmetic
   (Flocq): round-to-nearest-even to 53 bits has relative error at most 2^-53; binary64 rounding is that
   rounding as long as the result is in the normal range. *)
From Coq Require Import Reals Lra ZArith Lia.
From Flocq Require Import Core Relative.
From PD Require Import Model.Num Gen.Gen_spherical Gen.Gen_spherical_fp Proofs.C12Float.
Local Open Scope R_scope.

(* 53-bit significand, unbounded exponent / binary64 (minimal exponent -1074), both to nearest, ties to even *)
Definition rnd53 : R -> R := round radix2 (FLX_exp 53) ZnearestE.
Definition rnd64 : R -> R := round radix2 (FLT_exp (-1074) 53) ZnearestE.
Definition u64 : R := 1 / 9007199254740992.   (* 2^-53 *)

Lemma u64_bpow : / 2 * bpow radix2 (- (53) + 1) = u64.
Proof.
  unfold u64. replace (- (53) + 1)%Z with (-52)%Z by lia.
  change (bpow radix2 (-52)) with (/ IZR (Z.pow_pos 2 52)).
  replace (Z.pow_pos 2 52) with 4503599627370496%Z by (vm_compute; reflexivity). lra.
Qed.

Lemma rnd53_rel x : Rabs (rnd53 x - x) <= u64 * Rabs x.
Proof.
  unfold rnd53. rewrite <- u64_bpow. apply relative_error_N_FLX. lia.
Qed.

Lemma normal_min : bpow radix2 (-1074 + 53 - 1) = bpow radix2 (-1022).
Proof. reflexivity. Qed.

(* binary64 rounding = 53-bit rounding whenever the exact result is at least 2^-1022 in magnitude
   (no underflow; overflow is the other restriction: |result| < 2^1024) *)
Lemma binary64_is_FLX_in_normal_range x : bpow radix2 (-1022) <= Rabs x -> rnd64 x = rnd53 x.
Proof. intros H. unfold rnd64, rnd53. apply round_FLT_FLX. rewrite normal_min. exact H. Qed.

Lemma rnd64_rel x : bpow radix2 (-1022) <= Rabs x -> Rabs (rnd64 x - x) <= u64 * Rabs x.
Proof. intros H. rewrite (binary64_is_FLX_in_normal_range x H). apply rnd53_rel. Qed.

(* the standard model is inhabited: u = 2^-53, and a correctly rounded pow (kp = 1) *)
Lemma std_model_binary64 : std_model u64 1 rnd53 rnd53.
Proof.
  unfold std_model. repeat split; try (unfold u64, U0; lra).
  - apply rnd53_rel.
  - intros x. rewrite Rmult_1_l. apply rnd53_rel.
Qed.

(* ... and with a pow that is only accurate to one unit in the last place (kp = 2) *)
Lemma std_model_binary64_pow_1ulp (pw : R -> R) :
  (forall x, Rabs (pw x - x) <= 2 * u64 * Rabs x) -> std_model u64 2 rnd53 pw.
Proof.
  intros H. unfold std_model. repeat split; try (unfold u64, U0; lra); [apply rnd53_rel|exact H].
Qed.

(* instance: the round trips in binary64 arithmetic (53-bit rounding), 1 and 2 dimensions *)
Lemma binary64_round_trips_12 x : 0 <= x ->
  rel_err (2 + 1 / 100) u64 x (rfv_fp_1 rnd53 rnd53 (vfr_fp_1 rnd53 rnd53 x)) /\
  rel_err (7 / 2 + 1 / 100) u64 x (rfv_fp_2 rnd53 rnd53 (vfr_fp_2 rnd53 rnd53 x)).
Proof. intros Hx. exact (proj1 (fp_round_trips _ _ _ _ std_model_binary64 x Hx)). Qed.
