(* Spectrum, part 8: the C16 / C17 theorems instantiated with the mathematical DFT (Model.Spectrum.dft_math, proved
   to satisfy dft_spec and dft_cosine for every shape with positive axis lengths): no DFT premise is left. *)
From Coq Require Import Reals Lra List ZArith Lia Bool Permutation Arith.
Import ListNotations.
From PD Require Import Model.Num Model.Spectrum Gen.Gen_spectrum
  Proofs.SpectrumLists Proofs.SpectrumSF Proofs.SpectrumSmooth Proofs.SpectrumPeak
  Proofs.SpectrumDFTAlg Proofs.SpectrumDFTMath Proofs.SpectrumDFTCosine Proofs.C16 Proofs.C17.
Local Open Scope R_scope.

Notation pos_shape shape := (Forall (fun n => (0 < n)%nat) shape).

Lemma m_sf_sum shape x : pos_shape shape -> sumsq shape x <> 0 ->
  rsum (sf_list dft_math shape x) = 1 - total shape x ^ 2 / (INR (size_of shape) * sumsq shape x).
Proof. intros Hd Hs. exact (c16_sf_sum dom_math dft_math dft_math_spec shape x Hd Hd Hs). Qed.

Lemma m_sf_scale_inv shape c x : pos_shape shape -> c <> 0 -> sumsq shape x <> 0 ->
  sf_list dft_math shape (fun n => c * x n) = sf_list dft_math shape x.
Proof. exact (c16_sf_scale_inv dom_math dft_math dft_math_spec shape c x). Qed.

Lemma m_sf_shift_inv shape s x : pos_shape shape ->
  sf_list dft_math shape (fun n => x (shift_idx shape s n)) = sf_list dft_math shape x.
Proof. exact (c16_sf_shift_inv dom_math dft_math dft_math_spec shape s x). Qed.

Lemma m_sf_reflect_perm shape h ax x : pos_shape shape ->
  Permutation (sf_pairs dft_math shape h (fun n => x (reflect_idx shape ax n))) (sf_pairs dft_math shape h x).
Proof. intros Hd. exact (c16_sf_reflect_perm dom_math dft_math dft_math_spec shape h ax x Hd Hd). Qed.

Lemma m_sf_flip_perm shape h ax s x : pos_shape shape ->
  Permutation (sf_pairs dft_math shape h (fun n => x (reflect_idx shape ax (shift_idx shape s n))))
              (sf_pairs dft_math shape h x).
Proof. intros Hd. exact (c16_sf_flip_perm dom_math dft_math dft_math_spec shape h ax s x Hd Hd). Qed.

Lemma m_sf_axis_perm i shape h x : pos_shape shape -> length h = length shape ->
  Permutation (sf_pairs dft_math (swap_at i shape) (swap_at i h) (fun n => x (swap_at i n)))
              (sf_pairs dft_math shape h x).
Proof.
  intros Hd Hl. exact (c16_sf_axis_perm dom_math dft_math dft_math_spec i shape h x Hd (dom_math_swap i shape Hd) Hd Hl).
Qed.

Lemma m_sf_axis_perm_seq swaps shape h x : pos_shape shape -> length h = length shape ->
  Permutation (sf_pairs dft_math (fold_left (fun l i => swap_at i l) swaps shape)
                                 (fold_left (fun l i => swap_at i l) swaps h)
                                 (fun n => x (fold_right (fun i m => swap_at i m) n swaps)))
              (sf_pairs dft_math shape h x).
Proof.
  intros Hd Hl. exact (c16_sf_axis_perm_seq dom_math dft_math dft_math_spec swaps dom_math_swap shape h x Hd Hd Hl).
Qed.

Lemma m_smoothed_shares_invariances shape h x on au nw az sm wn : pos_shape shape -> sumsq shape x <> 0 ->
  (forall c, c <> 0 ->
     gsf_model dft_math shape h (fun n => c * x n) on au nw az sm wn = gsf_model dft_math shape h x on au nw az sm wn) /\
  (forall s,
     gsf_model dft_math shape h (fun n => x (shift_idx shape s n)) on au nw az sm wn =
     gsf_model dft_math shape h x on au nw az sm wn) /\
  (forall ax,
     gsf_model dft_math shape h (fun n => x (reflect_idx shape ax n)) true au nw az sm wn =
     gsf_model dft_math shape h x true au nw az sm wn) /\
  (forall i, length h = length shape ->
     gsf_model dft_math (swap_at i shape) (swap_at i h) (fun n => x (swap_at i n)) true au nw az sm wn =
     gsf_model dft_math shape h x true au nw az sm wn).
Proof.
  intros Hd Hs.
  destruct (c16_smoothed_shares_invariances dom_math dft_math dft_math_spec shape h x on au nw az sm wn Hd Hd Hs)
    as [H1 [H2 [H3 H4]]].
  repeat split; try assumption. intros i Hl. apply H4; [apply dom_math_swap; exact Hd|exact Hl].
Qed.

(* ---- C17 *)
Lemma m_ls_mean_field_inv shape h x : pos_shape shape -> sumsq shape x <> 0 ->
  (forall c, c <> 0 -> ls_mean_model dft_math shape h (fun n => c * x n) = ls_mean_model dft_math shape h x) /\
  (forall s, ls_mean_model dft_math shape h (fun n => x (shift_idx shape s n)) = ls_mean_model dft_math shape h x).
Proof. exact (ls_mean_field_inv dom_math dft_math dft_math_spec shape h x). Qed.

Lemma m_ls_peak_field_inv mini shape h x sigma : pos_shape shape -> sumsq shape x <> 0 ->
  (forall c, c <> 0 ->
     ls_peak_model mini dft_math shape h (fun n => c * x n) sigma = ls_peak_model mini dft_math shape h x sigma) /\
  (forall s,
     ls_peak_model mini dft_math shape h (fun n => x (shift_idx shape s n)) sigma = ls_peak_model mini dft_math shape h x sigma).
Proof. exact (ls_peak_field_inv mini dom_math dft_math dft_math_spec shape h x sigma). Qed.

Lemma m_plane_wave_peak_bin mini N q A phi c h sigma : minimizer_in_bracket mini ->
  (1 <= q)%nat -> (4 * q <= N)%nat -> A <> 0 -> 0 < h ->
  (exists p, argmax_pair (sf_pairs dft_math [N] [h] (cosine_field N q A phi c)) = Some p /\
             fst p = 2 * PI * INR q / (INR N * h)) /\
  (forall L, ls_peak_model mini dft_math [N] [h] (cosine_field N q A phi c) sigma = Some L ->
     exists xk, L = ls_peak xk /\
                2 * PI * INR q / (INR N * h) / 5 <= xk <= 5 * (2 * PI * INR q / (INR N * h))).
Proof.
  intros Hm Hq1 Hq4 HA Hh.
  apply (plane_wave_peak_bin mini dom_math dft_math Hm dft_math_spec dft_math_cosine N q A phi c h sigma);
    try assumption. repeat constructor. lia.
Qed.

Lemma m_plane_wave_start_covariant N q A phi c h s :
  (1 <= q)%nat -> (4 * q <= N)%nat -> A <> 0 -> 0 < h -> 0 < s ->
  exists p p', argmax_pair (sf_pairs dft_math [N] [h] (cosine_field N q A phi c)) = Some p /\
               argmax_pair (sf_pairs dft_math [N] [s * h] (cosine_field N q A phi c)) = Some p' /\
               fst p' = fst p / s.
Proof.
  intros Hq1 Hq4 HA Hh Hs.
  apply (plane_wave_start_covariant dom_math dft_math dft_math_spec dft_math_cosine N q A phi c h s); try assumption.
  repeat constructor. lia.
Qed.
