(* C13 -- perturbed droplets: the statements of Properties/C13.v, assembled from
   PerturbedSeries (loops = series), PerturbedInt (area integral), PerturbedCurv (2-d curvature,
   positions, line element) and Perturbed3d (oracle harmonics). *)
From Coq Require Import Reals Lra List Lia ZArith.
Import ListNotations.
From Coquelicot Require Import Coquelicot.
From PD Require Import Model.Num Model.NumZ Model.Perturbed Gen.Gen_spherical Gen.Gen_spherical_index
  Gen.Gen_perturbed Proofs.PerturbedSeries Proofs.PerturbedInt Proofs.PerturbedCurv Proofs.Perturbed3d.
Local Open Scope R_scope.

(* the three harmonic series as the code evaluates them *)
Lemma distance_series radius phi l2 Y l3 :
  dist2d radius phi l2 = radius * (1 + series2 w_one phi 1 l2) /\
  dist3d radius Y l3 = radius * (1 + series3 w_one Y 1 l3) /\
  dist3s radius Y l3 = radius * (1 + series3 w_one Y 1 l3).
Proof. split; [apply dist2d_series|]. split; [apply dist3d_series|apply dist3s_series]. Qed.

Lemma position_on_interface :
  (forall cx cy radius phi l,
     pos2d_0 cx radius phi l = cx + dist2d radius phi l * cos phi /\
     pos2d_1 cy radius phi l = cy + dist2d radius phi l * sin phi /\
     (pos2d_0 cx radius phi l - cx) ^ 2 + (pos2d_1 cy radius phi l - cy) ^ 2 = dist2d radius phi l ^ 2) /\
  (forall cx cy radius l angles v, In v (triang2d_vertices cx cy radius l angles) ->
     exists phi, In phi angles /\
       v = (cx + dist2d radius phi l * cos phi, cy + dist2d radius phi l * sin phi) /\
       (fst v - cx) ^ 2 + (snd v - cy) ^ 2 = dist2d radius phi l ^ 2) /\
  (forall c0 c1 c2 dist theta phi,
     (pos3d_0 c0 dist theta phi - c0) ^ 2 + (pos3d_1 c1 dist theta phi - c1) ^ 2
       + (pos3d_2 c2 dist theta phi - c2) ^ 2 = dist ^ 2 /\
     (pos3s_0 c0 dist theta phi - c0) ^ 2 + (pos3s_1 c1 dist theta phi - c1) ^ 2
       + (pos3s_2 c2 dist theta phi - c2) ^ 2 = dist ^ 2) /\
  (forall c0 c1 c2 dist theta phi,
     let v := triang3d_vertex c0 c1 c2 dist theta phi in
     (fst (fst v) - c0) ^ 2 + (snd (fst v) - c1) ^ 2 + (snd v - c2) ^ 2 = dist ^ 2) /\
  (forall theta phi,
     unit2d_0 phi ^ 2 + unit2d_1 phi ^ 2 = 1 /\
     unit3d_0 theta phi ^ 2 + unit3d_1 theta phi ^ 2 + unit3d_2 theta phi ^ 2 = 1 /\
     unit3s_0 theta phi ^ 2 + unit3s_1 theta phi ^ 2 + unit3s_2 theta phi ^ 2 = 1).
Proof.
  split; [exact position2d_on_interface|]. split; [exact triangulation2d_on_interface|].
  split; [exact position3d_on_interface|]. split; [exact triangulation3d_on_interface|].
  intros theta phi. split; [apply unit2d_norm|apply unit3d_norm].
Qed.

Lemma volume2d :
  (forall radius l, is_RInt (fun phi => (dist2d radius phi l) ^ 2 / 2) 0 (2 * PI) (vol2d radius l)) /\
  (forall radius l, vol2d radius l = PI * radius ^ 2 * (1 + sumsq l / 2)) /\
  (forall radius a1 b1 a2 b2 a3 b3 a4 b4,
     RInt (fun phi => (dist2d radius phi [(a1, b1); (a2, b2); (a3, b3); (a4, b4)]) ^ 2 / 2) 0 (2 * PI)
     = PI * radius ^ 2 * (1 + (a1 * a1 + b1 * b1 + a2 * a2 + b2 * b2 + a3 * a3 + b3 * b3
                               + a4 * a4 + b4 * b4) / 2)) /\
  (forall volume l, 0 <= volume -> vol2d (set_vol2d volume l) l = volume).
Proof.
  split; [exact volume2d_exact|]. split; [exact vol2d_closed|]. split; [exact volume2d_exact_deg4|].
  exact vol2d_set_get.
Qed.

Lemma curvature2d :
  (forall radius phi l, curv2d radius phi l = 1 / (radius * (1 - series2 w_curv phi 1 l))) /\
  (forall radius phi l, 0 < radius ->
     is_derive (fun e => curv2d radius phi (scale2 e l) - exact_curv2d radius phi (scale2 e l)) 0 0) /\
  (forall radius phi l, 0 < radius ->
     curv2d radius phi (scale2 0 l) = / radius /\ exact_curv2d radius phi (scale2 0 l) = / radius).
Proof.
  split; [exact curv2d_series|]. split; [exact curvature2d_first_order|exact curvature2d_zeroth_order].
Qed.

Lemma sphere_limit :
  (forall radius phi l, zeros2 l -> radius <> 0 ->
     dist2d radius phi l = radius /\ curv2d radius phi l = / radius /\
     vol2d radius l = PI * radius ^ 2 /\ perim_approx2d radius l = 2 * PI * radius /\ line2d phi l = 1) /\
  (forall radius Y l, zeros3 l -> radius <> 0 ->
     dist3d radius Y l = radius /\ curv3d radius Y l = / radius /\
     volapprox3d radius l = 4 / 3 * PI * radius ^ 3 /\
     dist3s radius Y l = radius /\ curv3s radius Y l = / radius /\
     volapprox3s radius l = 4 / 3 * PI * radius ^ 3).
Proof. split; [exact sphere_limit_2d|exact sphere_limit_3d]. Qed.

Lemma curvature3d_additive_all :
  (forall radius Y l, curv3d radius Y l = 1 / radius + series3 h3d Y 1 l / radius) /\
  (forall radius Y l, curv3s radius Y l = 1 / radius + series3 h3s Y 1 l / radius) /\
  (forall radius Y l1 l2, length l1 = length l2 ->
     curv3d radius Y (add3 l1 l2) - 1 / radius
     = (curv3d radius Y l1 - 1 / radius) + (curv3d radius Y l2 - 1 / radius)) /\
  (forall radius Y l1 l2, length l1 = length l2 ->
     curv3s radius Y (add3 l1 l2) - 1 / radius
     = (curv3s radius Y l1 - 1 / radius) + (curv3s radius Y l2 - 1 / radius)) /\
  (forall radius Y l,
     curv3d radius Y l - 1 / radius
     = sum_below (length l) (fun i => curv3d radius Y (only i l) - 1 / radius)) /\
  (forall radius Y l,
     curv3s radius Y l - 1 / radius
     = sum_below (length l) (fun i => curv3s radius Y (only i l) - 1 / radius)) /\
  (h3d 1 = 0 /\ h3d 2 = 0 /\ h3d 3 = 0) /\ (h3d 4 = 2 /\ h3d 8 = 2 /\ h3d 9 = 5) /\
  (h3s 1 = 0 /\ h3s 2 = 2 /\ h3s 3 = 5 /\ h3s 4 = 9).
Proof.
  split; [exact curv3d_series|]. split; [exact curv3s_series|].
  split; [exact curvature3d_additive|]. split; [exact curvature3s_additive|].
  split; [exact curvature3d_sum_of_modes|]. split; [exact curvature3s_sum_of_modes|].
  split; [exact h3d_degree1|]. split; [exact h3d_degree2|exact h3s_values].
Qed.

Lemma curvature3d_homogeneous_all :
  (forall radius lambda Y l, 0 < lambda -> radius <> 0 ->
     curv3d (lambda * radius) Y l = curv3d radius Y l / lambda) /\
  (forall radius lambda Y l, 0 < lambda -> radius <> 0 ->
     curv3s (lambda * radius) Y l = curv3s radius Y l / lambda) /\
  (forall radius lambda Y l,
     dist3d (lambda * radius) Y l = lambda * dist3d radius Y l /\
     dist3s (lambda * radius) Y l = lambda * dist3s radius Y l).
Proof.
  split; [exact curvature3d_homogeneous|]. split; [exact curvature3s_homogeneous|exact distance3d_homogeneous].
Qed.

Lemma surface2d_partial :
  (forall radius l, perim_approx2d radius l = PI * radius * (4 + sumsq_w w_sq 1 l) / 2) /\
  (forall cx cy radius l phi, 0 <= radius -> radius * line2d phi l = speed2d cx cy radius l phi) /\
  (forall cx cy radius l, 0 <= radius ->
     exists (N : nat) (h : R), (0 < N)%nat /\ INR N * h = 2 * PI /\
       surface2d radius l = sum_below N (fun k => speed2d cx cy radius l (0 + INR k * h)) * h).
Proof.
  split; [exact perim_approx2d_closed|]. split; [exact line2d_is_speed|exact surface2d_riemann_partial].
Qed.
