(* C01 geometry, part 7: the centroid of a digitised ball on a grid with periodic axes, in lifted
   coordinates.
   Along a periodic axis a with centre coordinate x the window  W = [A, A + N)  of N consecutive lattice
   indices, A = ceil(gamma - (N+1)/2), contains exactly the indices whose cell centre is within
   [-L/2, L/2) of x.  liftZ a x i  is the representative of i modulo N in W (i itself on a non-periodic
   axis) and  ksh a x i  the number of periods between them: liftZ = i + ksh * N.  Then
     diff1_lift       : the wrapped difference of cell i is the plain difference of cell liftZ i;
     lift_succ        : inside the ball, stepping to the next index commutes with liftZ (2 r + 2 h <= L);
     lsum_rotate      : a sum over [0, N) equals the sum over any window of N indices taken modulo N;
     torus_centroid   : generalised (slices { dist2 < s2 }, s2 <= r^2), by induction over the axes;
     torus_ball_centroid : | sum_{idx in B} (liftZ idx_k + 1/2 - gamma_k) | <= |B| / 2. *)
From Coq Require Import QArith Qabs Qround ZArith List Arith Bool Lia Lqa Setoid Morphisms.
Import ListNotations.
From PD Require Import Model.Grid Model.Render Model.MergeLoop Model.Locate Model.Ball
  Proofs.Render Proofs.MergeLoop Proofs.Components Proofs.LocateCart
  Proofs.BallRow Proofs.BallCentroid Proofs.BallSep Proofs.BallConn Proofs.BallTorus.
Local Open Scope Q_scope.

(* ---- the window and the lift ---- *)
Definition winA (a : axis) (x : Q) : Z :=
  Qceiling (gam a x - (inject_Z (ncell a) + 1) * (1 # 2)).

Definition ksh (a : axis) (x : Q) (i : Z) : Z :=
  if aper a then (- ((i - winA a x) / ncell a))%Z else 0%Z.

Definition liftZ (a : axis) (x : Q) (i : Z) : Z := (i + ksh a x i * ncell a)%Z.

Lemma liftZ_nonper a x i : aper a = false -> liftZ a x i = i.
Proof. intros H. unfold liftZ, ksh. rewrite H. lia. Qed.

Lemma liftZ_mod a x i : aper a = true -> (0 < ncell a)%Z ->
  liftZ a x i = (winA a x + (i - winA a x) mod ncell a)%Z.
Proof.
  intros H HN. unfold liftZ, ksh. rewrite H.
  pose proof (Z.div_mod (i - winA a x) (ncell a)). lia.
Qed.

Lemma liftZ_window a x i : aper a = true -> (0 < ncell a)%Z ->
  (winA a x <= liftZ a x i < winA a x + ncell a)%Z.
Proof.
  intros H HN. rewrite (liftZ_mod a x i H HN).
  pose proof (Z.mod_pos_bound (i - winA a x) (ncell a) HN). lia.
Qed.

Lemma liftZ_unique a x i j k : aper a = true -> (0 < ncell a)%Z ->
  (winA a x <= j < winA a x + ncell a)%Z -> (j = i + k * ncell a)%Z -> liftZ a x i = j.
Proof.
  intros H HN Hj E. rewrite (liftZ_mod a x i H HN).
  assert (Em : ((i - winA a x) mod ncell a = j - winA a x)%Z).
  { symmetry. apply (Z.mod_unique (i - winA a x) (ncell a) (- k) (j - winA a x)); [lia|]. nia. }
  lia.
Qed.

Lemma centre1_shift a i k : (0 < ncell a)%Z ->
  centre1 a (i + k * ncell a) == centre1 a i + inject_Z k * asize a.
Proof.
  intros HN. unfold centre1. rewrite <- (ncell_adisc a HN), inject_Z_plus, inject_Z_mult. ring.
Qed.

(* the window is the set of indices whose centre is within [-L/2, L/2) of x *)
Lemma window_offset a x j : axis_ok a -> (winA a x <= j < winA a x + ncell a)%Z ->
  - asize a <= 2 * (centre1 a j - x) /\ 2 * (centre1 a j - x) < asize a.
Proof.
  intros Hok [Hj1 Hj2]. pose proof (adisc_pos a Hok) as Hh.
  rewrite (centre1_rowoff a x j Hok). rewrite <- (ncell_adisc a (proj1 Hok)).
  unfold winA in *. set (y := gam a x - (inject_Z (ncell a) + 1) * (1 # 2)) in *.
  pose proof (Qle_ceiling y) as Hc1. pose proof (Qceiling_lt y) as Hc2.
  assert (Hj2' : (j + 1 <= (Qceiling y - 1) + 1 + ncell a)%Z) by lia.
  rewrite Zle_Qle in Hj1, Hj2'. rewrite !inject_Z_plus in Hj2'. change (inject_Z 1) with 1 in Hj2'.
  unfold rowoff. set (h := adisc a) in *. set (J := inject_Z j) in *. set (Nq := inject_Z (ncell a)) in *.
  set (Aq := inject_Z (Qceiling y)) in *. set (A1 := inject_Z (Qceiling y - 1)) in *.
  set (gm := gam a x) in *.
  assert (P1 : 0 <= h * (2 * J + 1 - 2 * gm + Nq)) by (apply Qmult_le_0_compat; unfold y in *; lra).
  assert (P2 : 0 < h * (Nq - (2 * J + 1 - 2 * gm))) by (apply Qmult_lt_0_compat; unfold y in *; lra).
  split; lra.
Qed.

Lemma offset_window a x j : axis_ok a ->
  - asize a <= 2 * (centre1 a j - x) -> 2 * (centre1 a j - x) < asize a ->
  (winA a x <= j < winA a x + ncell a)%Z.
Proof.
  intros Hok. pose proof (adisc_pos a Hok) as Hh.
  rewrite (centre1_rowoff a x j Hok). rewrite <- (ncell_adisc a (proj1 Hok)).
  unfold winA. set (y := gam a x - (inject_Z (ncell a) + 1) * (1 # 2)).
  pose proof (Qle_ceiling y) as Hc1. pose proof (Qceiling_lt y) as Hc2.
  unfold rowoff. set (h := adisc a) in *. set (J := inject_Z j) in *. set (Nq := inject_Z (ncell a)) in *.
  set (gm := gam a x) in *. intros H1 H2.
  assert (E1 : 0 <= 2 * J + 1 - 2 * gm + Nq).
  { destruct (Qlt_le_dec (2 * J + 1 - 2 * gm + Nq) 0) as [H|H]; [exfalso|exact H].
    assert (h * (2 * J + 1 - 2 * gm + Nq) < 0) by nra. lra. }
  assert (E2 : 2 * J + 1 - 2 * gm < Nq).
  { destruct (Qlt_le_dec (2 * J + 1 - 2 * gm) Nq) as [H|H]; [exact H|exfalso].
    assert (0 <= h * (2 * J + 1 - 2 * gm - Nq)) by (apply Qmult_le_0_compat; lra). lra. }
  split.
  - assert (Hlt : (Qceiling y - 1 < j)%Z).
    { rewrite Zlt_Qlt. fold J. unfold y in *. lra. }
    lia.
  - rewrite Zlt_Qlt, inject_Z_plus. fold J Nq. unfold y in *. lra.
Qed.

(* the wrapped difference of a cell is the plain difference of its lift *)
Lemma diff1_lift a x i : axis_ok a ->
  diff1 a x (centre1 a i) == centre1 a (liftZ a x i) - x.
Proof.
  intros Hok. destruct (aper a) eqn:Hper.
  - pose proof (liftZ_window a x i Hper (proj1 Hok)) as Hw.
    destruct (window_offset a x _ Hok Hw) as [H1 H2].
    assert (HLpos : 0 < asize a) by (destruct Hok as [_ H]; unfold asize; lra).
    unfold diff1. rewrite Hper.
    rewrite (wrap1_comp (asize a) (centre1 a i - x)
               ((centre1 a (liftZ a x i) - x) + inject_Z (- ksh a x i) * asize a)).
    2:{ unfold liftZ. rewrite (centre1_shift a i _ (proj1 Hok)), inject_Z_opp. ring. }
    rewrite wrap1_add_period by exact HLpos. apply wrap1_small; assumption.
  - rewrite (liftZ_nonper a x i Hper). unfold diff1. rewrite Hper. reflexivity.
Qed.

(* inside the ball the lift commutes with stepping to the next index *)
Lemma lift_succ a x r i : axis_ok a -> aper a = true -> 0 <= r -> 2 * r + 2 * adisc a <= asize a ->
  (centre1 a (liftZ a x i) - x) * (centre1 a (liftZ a x i) - x) < r * r ->
  liftZ a x (i + 1) = (liftZ a x i + 1)%Z.
Proof.
  intros Hok Hper Hr HL Hd. pose proof (adisc_pos a Hok) as Hh.
  destruct (sq_lt_abs _ r Hr Hd) as [H1 H2].
  apply (liftZ_unique a x (i + 1) (liftZ a x i + 1) (ksh a x i) Hper (proj1 Hok)).
  - apply (offset_window a x _ Hok).
    + assert (E : centre1 a (liftZ a x i + 1) == centre1 a (liftZ a x i) + adisc a).
      { unfold centre1. rewrite inject_Z_plus. change (inject_Z 1) with 1. ring. }
      rewrite E. lra.
    + assert (E : centre1 a (liftZ a x i + 1) == centre1 a (liftZ a x i) + adisc a).
      { unfold centre1. rewrite inject_Z_plus. change (inject_Z 1) with 1. ring. }
      rewrite E. lra.
  - unfold liftZ. lia.
Qed.

(* ---- sums over a window taken modulo N ---- *)
Lemma lsum_mod_seg (H : Z -> Q) N : (0 < N)%Z -> forall n A, (A mod N + Z.of_nat n <= N)%Z ->
  lsum (zrange n A) (fun j => H (j mod N)%Z) == lsum (zrange n (A mod N)%Z) H.
Proof.
  intros HN. induction n as [|n IH]; intros A Hle; cbn [zrange lsum]; [reflexivity|].
  destruct (mod_succ A N HN) as [Hs|[Hs1 Hs2]].
  - rewrite IH by lia. rewrite Hs. reflexivity.
  - assert (n = 0%nat) by lia. subst n. cbn [zrange lsum]. reflexivity.
Qed.

Lemma lsum_rotate (H : Z -> Q) N A : (0 < N)%Z ->
  lsum (zrange (Z.to_nat N) A) (fun j => H (j mod N)%Z) == lsum (zrange (Z.to_nat N) 0) H.
Proof.
  intros HN. pose proof (Z.mod_pos_bound A N HN) as Hb. set (s := (A mod N)%Z) in *.
  assert (E1 : Z.to_nat N = (Z.to_nat (N - s) + Z.to_nat s)%nat) by lia.
  assert (E2 : Z.to_nat N = (Z.to_nat s + Z.to_nat (N - s))%nat) by lia.
  rewrite E1 at 1. rewrite E2 at 1. rewrite !zrange_app, !lsum_app.
  rewrite (lsum_mod_seg H N HN (Z.to_nat (N - s)) A) by (fold s; lia). fold s.
  rewrite (lsum_mod_seg H N HN (Z.to_nat s) (A + Z.of_nat (Z.to_nat (N - s)))).
  - assert (E3 : ((A + Z.of_nat (Z.to_nat (N - s))) mod N = 0)%Z).
    { symmetry. apply (Z.mod_unique _ N (A / N + 1) 0); [lia|].
      pose proof (Z.div_mod A N). fold s in H0. lia. }
    rewrite E3. replace (0 + Z.of_nat (Z.to_nat s))%Z with s by lia. ring.
  - assert (E3 : ((A + Z.of_nat (Z.to_nat (N - s))) mod N = 0)%Z).
    { symmetry. apply (Z.mod_unique _ N (A / N + 1) 0); [lia|].
      pose proof (Z.div_mod A N). fold s in H0. lia. }
    rewrite E3. lia.
Qed.

(* ---- slices ---- *)
Lemma within_cons_tail_gen a g x c s2 i t :
  within (a :: g) (x :: c) s2 (i :: t)
  = within g c (s2 - diff1 a x (centre1 a i) * diff1 a x (centre1 a i)) t.
Proof.
  apply bool_eq_iff. unfold within. rewrite !Qlt_bool_iff, d2cell_cons_gen. lra.
Qed.

Lemma within_cons_head_gen a g x c s2 i t : axis_ok a ->
  within (a :: g) (x :: c) s2 (i :: t)
  = rowb (adisc a) (gam a x) (s2 - d2cell g c t) (liftZ a x i).
Proof.
  intros Hok. apply bool_eq_iff. unfold within, rowb.
  rewrite !Qlt_bool_iff, d2cell_cons_gen, (diff1_lift a x i Hok), (centre1_rowoff a x _ Hok). lra.
Qed.

(* one row of the torus *)
Lemma torus_row_sum a x r s2 : axis_ok a -> 0 <= r -> s2 <= r * r -> tfits1 a x r ->
  Qabs (lsum (zrange (Z.to_nat (ncell a)) 0)
          (fun i => ind (rowb (adisc a) (gam a x) s2 (liftZ a x i)) (rowoff (gam a x) (liftZ a x i))))
  <= (1 # 2) * lsum (zrange (Z.to_nat (ncell a)) 0)
                 (fun i => ind (rowb (adisc a) (gam a x) s2 (liftZ a x i)) 1).
Proof.
  intros Hok Hr Hs Hfit. pose proof (adisc_pos a Hok) as Hh. unfold tfits1 in Hfit.
  destruct (aper a) eqn:Hper.
  - (* rotate the window *)
    set (p := rowb (adisc a) (gam a x) s2).
    assert (Erot : forall F : Z -> Q,
              lsum (zrange (Z.to_nat (ncell a)) 0) (fun i => ind (p (liftZ a x i)) (F (liftZ a x i)))
              == lsum (zrange (Z.to_nat (ncell a)) (winA a x)) (fun j => ind (p j) (F j))).
    { intros F.
      rewrite <- (lsum_rotate (fun i => ind (p (liftZ a x i)) (F (liftZ a x i))) (ncell a) (winA a x)
                    (proj1 Hok)).
      apply lsum_ext. intros j Hj. apply zrange_In in Hj. rewrite Z2Nat.id in Hj by (destruct Hok; lia).
      assert (E : liftZ a x (j mod ncell a) = j).
      { apply (liftZ_unique a x _ j (j / ncell a) Hper (proj1 Hok) Hj).
        pose proof (Z.div_mod j (ncell a)). lia. }
      rewrite E. reflexivity. }
    rewrite (Erot (rowoff (gam a x))), (Erot (fun _ => 1)). unfold p.
    apply row_ind_sum; [exact Hh|].
    intros j Hm. unfold rowmem in Hm. rewrite <- (centre1_rowoff a x j Hok) in Hm.
    assert (Hd : (centre1 a j - x) * (centre1 a j - x) < r * r) by lra.
    destruct (sq_lt_abs _ r Hr Hd) as [H1 H2].
    rewrite Z2Nat.id by (destruct Hok; lia).
    apply (offset_window a x j Hok); lra.
  - assert (E1 : lsum (zrange (Z.to_nat (ncell a)) 0)
                   (fun i => ind (rowb (adisc a) (gam a x) s2 (liftZ a x i)) (rowoff (gam a x) (liftZ a x i)))
                 == lsum (zrange (Z.to_nat (ncell a)) 0)
                      (fun i => ind (rowb (adisc a) (gam a x) s2 i) (rowoff (gam a x) i))).
    { apply lsum_ext. intros i _. rewrite (liftZ_nonper a x i Hper). reflexivity. }
    assert (E2 : lsum (zrange (Z.to_nat (ncell a)) 0)
                   (fun i => ind (rowb (adisc a) (gam a x) s2 (liftZ a x i)) 1)
                 == lsum (zrange (Z.to_nat (ncell a)) 0)
                      (fun i => ind (rowb (adisc a) (gam a x) s2 i) 1)).
    { apply lsum_ext. intros i _. rewrite (liftZ_nonper a x i Hper). reflexivity. }
    rewrite E1, E2. apply row_ind_sum; [exact Hh|].
    intros i Hm. unfold rowmem in Hm.
    assert (Hi : (0 <= i < ncell a)%Z) by (apply (row_in_box a x r i Hok Hr Hfit); lra).
    lia.
Qed.

(* ---- generalised centroid statement on a grid with any mixture of periodic axes ---- *)
Theorem torus_centroid : forall g c k a x r s2,
  nth_error g k = Some a -> nth_error c k = Some x -> axis_ok a ->
  0 <= r -> s2 <= r * r -> tfits1 a x r ->
  Qabs (lsum (all_cells (gshape g))
             (fun idx => ind (within g c s2 idx) (rowoff (gam a x) (liftZ a x (nth k idx 0%Z)))))
  <= (1 # 2) * lsum (all_cells (gshape g)) (fun idx => ind (within g c s2 idx) 1).
Proof.
  induction g as [|a0 g IH]; intros c k a x r s2 Hg Hc Hok Hr Hs Hfit.
  - destruct k; discriminate Hg.
  - destruct c as [|x0 c]; [destruct k; discriminate Hc|].
    unfold gshape. cbn [map]. fold (gshape g). rewrite !lsum_all_cells_cons.
    rewrite <- lsum_scale.
    destruct k as [|k].
    + cbn [nth_error] in Hg, Hc. injection Hg as ->. injection Hc as ->.
      rewrite lsum_swap.
      assert (E : lsum (zrange (Z.to_nat (ncell a)) 0)
                    (fun i => (1 # 2) * lsum (all_cells (gshape g))
                                             (fun t => ind (within (a :: g) (x :: c) s2 (i :: t)) 1))
                  == lsum (all_cells (gshape g))
                       (fun t => (1 # 2) * lsum (zrange (Z.to_nat (ncell a)) 0)
                                             (fun i => ind (within (a :: g) (x :: c) s2 (i :: t)) 1))).
      { rewrite lsum_scale, lsum_swap, <- lsum_scale. reflexivity. }
      rewrite E. apply lsum_abs_le. intros t _. cbn [nth].
      pose proof (d2cell_nonneg g c t) as Hd.
      assert (E1 : lsum (zrange (Z.to_nat (ncell a)) 0)
                     (fun i => ind (within (a :: g) (x :: c) s2 (i :: t)) (rowoff (gam a x) (liftZ a x i)))
                   == lsum (zrange (Z.to_nat (ncell a)) 0)
                        (fun i => ind (rowb (adisc a) (gam a x) (s2 - d2cell g c t) (liftZ a x i))
                                      (rowoff (gam a x) (liftZ a x i)))).
      { apply lsum_ext. intros i _. rewrite (within_cons_head_gen a g x c s2 i t Hok). reflexivity. }
      assert (E2 : lsum (zrange (Z.to_nat (ncell a)) 0)
                     (fun i => ind (within (a :: g) (x :: c) s2 (i :: t)) 1)
                   == lsum (zrange (Z.to_nat (ncell a)) 0)
                        (fun i => ind (rowb (adisc a) (gam a x) (s2 - d2cell g c t) (liftZ a x i)) 1)).
      { apply lsum_ext. intros i _. rewrite (within_cons_head_gen a g x c s2 i t Hok). reflexivity. }
      rewrite E1, E2. apply (torus_row_sum a x r (s2 - d2cell g c t) Hok Hr); [lra|exact Hfit].
    + cbn [nth_error] in Hg, Hc. apply lsum_abs_le. intros i _. cbn [nth].
      set (q := diff1 a0 x0 (centre1 a0 i) * diff1 a0 x0 (centre1 a0 i)).
      assert (Hq : 0 <= q) by (unfold q; generalize (diff1 a0 x0 (centre1 a0 i)); intros z; nra).
      assert (E1 : lsum (all_cells (gshape g))
                     (fun t => ind (within (a0 :: g) (x0 :: c) s2 (i :: t))
                                   (rowoff (gam a x) (liftZ a x (nth k t 0%Z))))
                   == lsum (all_cells (gshape g))
                        (fun t => ind (within g c (s2 - q) t) (rowoff (gam a x) (liftZ a x (nth k t 0%Z))))).
      { apply lsum_ext. intros t _. rewrite (within_cons_tail_gen a0 g x0 c s2 i t). reflexivity. }
      assert (E2 : lsum (all_cells (gshape g)) (fun t => ind (within (a0 :: g) (x0 :: c) s2 (i :: t)) 1)
                   == lsum (all_cells (gshape g)) (fun t => ind (within g c (s2 - q) t) 1)).
      { apply lsum_ext. intros t _. rewrite (within_cons_tail_gen a0 g x0 c s2 i t). reflexivity. }
      rewrite E1, E2. apply (IH c k a x r (s2 - q) Hg Hc Hok Hr); [lra|exact Hfit].
Qed.

Theorem torus_ball_centroid g c r k a x : grid_ok g ->
  nth_error g k = Some a -> nth_error c k = Some x -> tfits1 a x r ->
  Qabs (lsum (ball_cells g c r) (fun idx => rowoff (gam a x) (liftZ a x (nth k idx 0%Z))))
  <= (1 # 2) * inject_Z (Z.of_nat (length (ball_cells g c r))).
Proof.
  intros Hg Hk Hc Hfit.
  destruct (Qlt_le_dec r 0) as [Hr|Hr].
  - rewrite ball_cells_neg by lra. cbn [lsum length]. change (inject_Z (Z.of_nat 0)) with 0.
    apply Qabs_Qle_condition. split; lra.
  - rewrite <- lsum_one. unfold ball_cells. rewrite <- !lsum_filter.
    pose proof (torus_centroid g c k a x r (r * r) Hk Hc (grid_ok_axis g k a Hg Hk) Hr
                  (Qle_refl _) Hfit) as H.
    assert (E1 : lsum (all_cells (gshape g))
                   (fun idx => ind (inside g c r idx) (rowoff (gam a x) (liftZ a x (nth k idx 0%Z))))
                 == lsum (all_cells (gshape g))
                      (fun idx => ind (within g c (r * r) idx) (rowoff (gam a x) (liftZ a x (nth k idx 0%Z))))).
    { apply lsum_ext. intros idx _. rewrite (inside_within g c r idx Hr). reflexivity. }
    assert (E2 : lsum (all_cells (gshape g)) (fun idx => ind (inside g c r idx) 1)
                 == lsum (all_cells (gshape g)) (fun idx => ind (within g c (r * r) idx) 1)).
    { apply lsum_ext. intros idx _. rewrite (inside_within g c r idx Hr). reflexivity. }
    rewrite E1, E2. exact H.
Qed.

(* ---- precondition for the position statement: the ball does not meet its periodic images ---- *)
Definition pfits1 (a : axis) (x r : Q) : Prop :=
  if aper a then 2 * r + 2 * adisc a <= asize a else fits1 a x r.
Definition pfits (g : grid) (c : list Q) (r : Q) : Prop := Forall2 (fun a x => pfits1 a x r) g c.

Lemma pfits1_tfits1 a x r : axis_ok a -> pfits1 a x r -> tfits1 a x r.
Proof.
  intros Hok. pose proof (adisc_pos a Hok) as Hh. unfold pfits1, tfits1. destruct (aper a); [lra|tauto].
Qed.

Lemma pfits_tfits g c r : grid_ok g -> pfits g c r -> tfits g c r.
Proof.
  intros Hok H. unfold pfits, tfits in *. induction H as [|a x g c Ha _ IH]; [constructor|].
  unfold grid_ok in Hok. inversion Hok as [|a' g' Hoka Hok']; subst a' g'.
  constructor; [exact (pfits1_tfits1 a x r Hoka Ha)|exact (IH Hok')].
Qed.

Lemma pfits_nth g c r : pfits g c r -> forall k a, nth_error g k = Some a ->
  exists x, nth_error c k = Some x /\ pfits1 a x r.
Proof.
  intros H. induction H as [|a0 x0 g c H0 _ IH]; intros k a Hk.
  - destruct k; discriminate Hk.
  - destruct k as [|k]; cbn [nth_error] in *.
    + injection Hk as <-. exists x0. split; [reflexivity|exact H0].
    + apply IH. exact Hk.
Qed.

(* a covered cell: the lifted offset along every axis is smaller than r *)
Lemma ball_axis_lift g c r p k a x : grid_ok g -> nth_error g k = Some a -> nth_error c k = Some x ->
  In p (ball_cells g c r) ->
  0 <= r /\ (centre1 a (liftZ a x (nth k p 0%Z)) - x) * (centre1 a (liftZ a x (nth k p 0%Z)) - x) < r * r.
Proof.
  intros Hok Hg Hc Hp. pose proof (ball_cells_length _ _ _ _ Hp) as Hlen.
  apply ball_cells_spec in Hp. destruct Hp as [_ Hin]. apply inside_iff in Hin. destruct Hin as [Hr Hd].
  assert (Hk : (k < length p)%nat) by (rewrite Hlen; apply nth_error_Some; congruence).
  pose proof (cell_centre_nth g k a p _ Hg (nth_error_nth_Z p k Hk)) as Hcc.
  pose proof (diff_vec_nth g k a c _ x _ Hg Hc Hcc) as Hdv.
  apply sumsq_nth in Hdv. unfold dist2 in Hd.
  rewrite (diff1_lift a x _ (grid_ok_axis g k a Hok Hg)) in Hdv. split; [exact Hr|]. lra.
Qed.

(* the number of periods is the same for neighbouring indices of the ball ... *)
Lemma ksh_succ a x r i : axis_ok a -> 0 <= r -> pfits1 a x r ->
  (centre1 a (liftZ a x i) - x) * (centre1 a (liftZ a x i) - x) < r * r ->
  ksh a x (i + 1) = ksh a x i.
Proof.
  intros Hok Hr Hfit Hd. unfold pfits1 in Hfit. destruct (aper a) eqn:Hper.
  - pose proof (lift_succ a x r i Hok Hper Hr Hfit Hd) as H. unfold liftZ in H.
    destruct Hok as [HN _]. nia.
  - unfold ksh. rewrite Hper. reflexivity.
Qed.

(* ... and drops by one from index 0 to index N - 1 across the periodic boundary *)
Lemma ksh_wrap a x r : axis_ok a -> aper a = true -> 0 <= r -> pfits1 a x r ->
  (centre1 a (liftZ a x (ncell a - 1)) - x) * (centre1 a (liftZ a x (ncell a - 1)) - x) < r * r ->
  ksh a x (ncell a - 1) = (ksh a x 0 - 1)%Z.
Proof.
  intros Hok Hper Hr Hfit Hd. unfold pfits1 in Hfit. rewrite Hper in Hfit.
  pose proof (lift_succ a x r (ncell a - 1) Hok Hper Hr Hfit Hd) as H.
  replace (ncell a - 1 + 1)%Z with (ncell a) in H by lia.
  assert (E : liftZ a x (ncell a) = liftZ a x 0).
  { apply (liftZ_unique a x (ncell a) (liftZ a x 0) (ksh a x 0 - 1) Hper (proj1 Hok)).
    - apply (liftZ_window a x 0 Hper (proj1 Hok)).
    - unfold liftZ. lia. }
  rewrite E in H. unfold liftZ in H. destruct Hok as [HN _]. nia.
Qed.

Lemma ksh_face_adj g c r p q k a x : grid_ok g -> nth_error g k = Some a -> nth_error c k = Some x ->
  pfits1 a x r -> In p (ball_cells g c r) -> In q (ball_cells g c r) -> face_adj p q ->
  ksh a x (nth k p 0%Z) = ksh a x (nth k q 0%Z).
Proof.
  intros Hok Hg Hc Hfit Hp Hq Hf. pose proof (grid_ok_axis g k a Hok Hg) as Ha.
  pose proof (face_adj_coord p q k Hf) as Hd.
  destruct (ball_axis_lift g c r p k a x Hok Hg Hc Hp) as [Hr Hpd].
  destruct (ball_axis_lift g c r q k a x Hok Hg Hc Hq) as [_ Hqd].
  assert (Hcase : (nth k q 0 = nth k p 0 \/ nth k q 0 = nth k p 0 + 1 \/ nth k p 0 = nth k q 0 + 1)%Z) by lia.
  destruct Hcase as [E|[E|E]]; rewrite E.
  - reflexivity.
  - symmetry. exact (ksh_succ a x r _ Ha Hr Hfit Hpd).
  - exact (ksh_succ a x r _ Ha Hr Hfit Hqd).
Qed.

Print Assumptions diff1_lift.
Print Assumptions lift_succ.
Print Assumptions lsum_rotate.
Print Assumptions torus_centroid.
Print Assumptions torus_ball_centroid.
Print Assumptions ksh_face_adj.
Print Assumptions ksh_wrap.
