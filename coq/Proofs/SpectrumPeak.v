(* Spectrum, part 5: resolved plane waves on a periodic 1-d grid.  The unsmoothed structure factor of
   x_m = A cos(2 pi q m / N + phi) + c  is supported on the modes q and N - q (premise dft_cosine, an
   orthogonality statement about the DFT oracle that the executable N = 4 transform satisfies), hence the
   argmax over `.flat[1:]` -- the starting estimate of the peak search -- sits at the true wave number
   2 pi q / (N h) for every spacing h > 0. *)
From Coq Require Import Reals Lra List ZArith Lia Bool Permutation Arith.
Import ListNotations.
From PD Require Import Model.Num Model.Spectrum Gen.Gen_spectrum
  Proofs.SpectrumLists Proofs.SpectrumSF Proofs.SpectrumSmooth.
Local Open Scope R_scope.

(* ------------------------------------------------------------------ argmax *)
Lemma argmax_from_spec best l :
  In (argmax_from best l) (best :: l) /\ forall p, In p (best :: l) -> snd p <= snd (argmax_from best l).
Proof.
  revert best. induction l as [|a l IH]; intros best; cbn [argmax_from].
  - split; [left; reflexivity|]. intros p [<-|[]]. lra.
  - destruct (Rlt_dec (snd best) (snd a)) as [Hlt|Hge].
    + destruct (IH a) as [Hin Hmax]. split; [right; exact Hin|].
      intros p [<-|Hp]; [|apply Hmax; exact Hp].
      apply Rle_trans with (snd a); [lra|apply Hmax; left; reflexivity].
    + destruct (IH best) as [Hin Hmax]. split.
      * destruct Hin as [E|Hin]; [left; exact E|right; right; exact Hin].
      * intros p [<-|[<-|Hp]].
        -- apply Hmax. left. reflexivity.
        -- apply Rle_trans with (snd best); [lra|apply Hmax; left; reflexivity].
        -- apply Hmax. right. exact Hp.
Qed.

Lemma rsum_ge_member l a : Forall (fun v => 0 <= v) l -> In a l -> a <= rsum l.
Proof.
  induction 1 as [|b l Hb Hl IH]; intros Hin; [destruct Hin|].
  rewrite rsum_cons. pose proof (rsum_nonneg l Hl). destruct Hin as [->|Hin]; [lra|].
  specialize (IH Hin). lra.
Qed.

(* ------------------------------------------------------------------ the 1-d index set and wave numbers *)
Lemma all_idx_1d N : all_idx [N] = map (fun m => [m]) (seq 0 N).
Proof.
  change (all_idx [N]) with (flat_map (fun m => map (cons m) [[]]) (seq 0 N)).
  generalize (seq 0 N). intros l. induction l as [|a l IH]; [reflexivity|].
  simpl. simpl in IH. rewrite IH. reflexivity.
Qed.

Lemma k_mag_1d N h m : (0 < N)%nat -> 0 < h ->
  k_mag [N] [h] [m] = Rabs (IZR (fft_int_freq N m)) * (2 * PI / (INR N * h)).
Proof.
  intros HN Hh. unfold k_mag, k_mag_of. cbn [k2s]. rewrite k2_component_is_square.
  unfold rsum. cbn [fold_right]. rewrite Rplus_0_r.
  replace (wave_number N h m ^ 2) with (Rsqr (wave_number N h m)) by (unfold Rsqr; ring).
  rewrite sqrt_Rsqr_abs, k_is_fftfreq by (try assumption; lra).
  rewrite Rabs_mult. f_equal. apply Rabs_pos_eq.
  assert (0 < INR N) by (apply lt_0_INR; exact HN). pose proof PI_RGT_0.
  apply Rlt_le. apply Rdiv_lt_0_compat; [lra|]. apply Rmult_lt_0_compat; assumption.
Qed.

Lemma k_mag_1d_pm N h q : (1 <= q)%nat -> (4 * q <= N)%nat -> 0 < h ->
  k_mag [N] [h] [q] = 2 * PI * INR q / (INR N * h) /\
  k_mag [N] [h] [(N - q)%nat] = 2 * PI * INR q / (INR N * h).
Proof.
  intros Hq1 Hq4 Hh. assert (HN : (0 < N)%nat) by lia. rewrite !k_mag_1d by assumption.
  assert (Hpos : 0 <= INR q) by apply pos_INR.
  unfold fft_int_freq. split.
  - destruct (Nat.ltb_spec (2 * q) N) as [_|H]; [|lia].
    rewrite <- INR_IZR_INZ, Rabs_pos_eq by exact Hpos. unfold Rdiv. ring.
  - destruct (Nat.ltb_spec (2 * (N - q)) N) as [H|_]; [lia|].
    rewrite minus_IZR, <- !INR_IZR_INZ, minus_INR by lia.
    replace (INR N - INR q - INR N) with (- INR q) by ring.
    rewrite Rabs_Ropp, Rabs_pos_eq by exact Hpos. unfold Rdiv. ring.
Qed.

Section PlaneWave.
  Variable dom : list nat -> Prop.
  Variable F : dft_oracle.
  Hypothesis HF : dft_spec dom F.
  Hypothesis HC : dft_cosine dom F.

  Variables (N q : nat) (A phi c : R).
  Hypothesis Hd : dom [N].
  Hypothesis Hq1 : (1 <= q)%nat.
  Hypothesis Hq4 : (4 * q <= N)%nat.
  Hypothesis HA : A <> 0.

  Let x := cosine_field N q A phi c.

  Lemma pw_power_pos : 0 < A ^ 2 * INR N / 4.
  Proof.
    assert (0 < INR N) by (apply lt_0_INR; lia). assert (0 < A ^ 2) by (pose proof (pow2_ge_0 A); destruct (Req_dec (A ^ 2) 0) as [Z|Z]; [|lra];
      exfalso; apply HA; replace (A ^ 2) with (A * A) in Z by ring; apply Rmult_integral in Z; tauto). nra.
  Qed.

  Lemma pw_sumsq_pos : 0 < sumsq [N] x.
  Proof.
    destruct (HC N q A phi c Hd Hq1 Hq4) as [_ [Eq _]]. fold x in Eq.
    pose proof (proj1 HF [N] x Hd) as HP. fold (sumsq [N] x) in HP. rewrite <- HP.
    apply Rlt_le_trans with (cabs2 (F true [N] x [q])); [rewrite Eq; apply pw_power_pos|].
    unfold sum_over. apply rsum_ge_member.
    - apply Forall_forall. intros v Hv. apply in_map_iff in Hv. destruct Hv as [k [<- _]]. apply cabs2_nonneg.
    - apply in_map_iff. exists [q]. split; [reflexivity|]. rewrite all_idx_1d.
      apply (in_map (fun m : nat => [m]) (seq 0 N) q). apply in_seq. lia.
  Qed.

  (* the structure factor is supported on the modes q and N - q *)
  Lemma pw_sf_support m : (m < N)%nat -> m <> 0%nat ->
    (m <> q -> m <> (N - q)%nat -> sf_at F [N] x [m] = 0) /\
    (m = q \/ m = (N - q)%nat -> sf_at F [N] x [m] = A ^ 2 * INR N / 4 / sumsq [N] x).
  Proof.
    intros Hm H0. destruct (HC N q A phi c Hd Hq1 Hq4) as [E0 [Eq Enq]]. fold x in E0, Eq, Enq.
    rewrite sf_at_eq. split.
    - intros H1 H2. rewrite (E0 m Hm H0 H1 H2). unfold Rdiv. ring.
    - intros [->| ->]; [rewrite Eq|rewrite Enq]; reflexivity.
  Qed.

  (* max_est is the true wave number, for every spacing *)
  Lemma plane_wave_max_est h : 0 < h ->
    exists p, argmax_pair (sf_pairs F [N] [h] x) = Some p /\ fst p = 2 * PI * INR q / (INR N * h).
  Proof.
    intros Hh. set (v := A ^ 2 * INR N / 4 / sumsq [N] x).
    assert (Hv : 0 < v) by (apply Rdiv_lt_0_compat; [apply pw_power_pos|apply pw_sumsq_pos]).
    set (g := fun k => (k_mag [N] [h] k, sf_at F [N] x k)).
    assert (Hpairs : sf_pairs F [N] [h] x = map g (map (fun m => [m]) (seq 1 (N - 1)))).
    { unfold sf_pairs, k_list, sf_list, k_modes, sf_modes, drop_first, drop_first_k.
      rewrite all_idx_1d.
      assert (Es : seq 0 N = 0%nat :: seq 1 (N - 1)) by (replace N with (S (N - 1)) at 1 by lia; reflexivity).
      rewrite Es. cbn [map skipn].
      set (l := map (fun m => [m]) (seq 1 (N - 1))). clearbody l.
      induction l as [|a l IH]; [reflexivity|]. cbn [map combine]. rewrite IH. reflexivity. }
    rewrite Hpairs.
    assert (Hin_q : In (g [q]) (map g (map (fun m => [m]) (seq 1 (N - 1))))).
    { apply in_map, in_map_iff. exists q. split; [reflexivity|]. apply in_seq. lia. }
    destruct (map g (map (fun m => [m]) (seq 1 (N - 1)))) as [|p0 rest] eqn:El; [destruct Hin_q|].
    cbn [argmax_pair]. exists (argmax_from p0 rest). split; [reflexivity|].
    destruct (argmax_from_spec p0 rest) as [Hin Hmax].
    specialize (Hmax (g [q]) Hin_q).
    rewrite <- El in Hin. apply in_map_iff in Hin. destruct Hin as [k [Ek Hk]].
    apply in_map_iff in Hk. destruct Hk as [m [<- Hm]]. apply in_seq in Hm.
    rewrite <- Ek in *. unfold g in *. cbn [fst snd] in *.
    assert (HmN : (m < N)%nat) by lia. assert (Hm0 : m <> 0%nat) by lia.
    destruct (pw_sf_support m HmN Hm0) as [Hz Hs].
    destruct (pw_sf_support q ltac:(lia) ltac:(lia)) as [_ Hsq]. rewrite (Hsq (or_introl eq_refl)) in Hmax.
    fold v in Hmax.
    destruct (Nat.eq_dec m q) as [->|H1]; [apply (k_mag_1d_pm N h q); assumption|].
    destruct (Nat.eq_dec m (N - q)) as [->|H2]; [apply (k_mag_1d_pm N h q); assumption|].
    rewrite (Hz H1 H2) in Hmax. lra.
  Qed.
End PlaneWave.
