(* Proofs/C08.v -- saving and loading returns an equal object: the theorems of property C08 for the
   format facts that harness/gen_codec.py reads from the current source (Gen/Gen_codec.v). *)
From Coq Require Import ZArith List Bool String Ascii Lia ZifyBool.
From PD Require Import Model.Codec Proofs.Codec Proofs.CodecDrop Gen.Gen_codec.
Import ListNotations.
Local Open Scope Z_scope.

(* the format of the files as the code under /repo writes and reads them now *)
Definition repo_fmt : fmt := {|
  em_key := g_em_key; em_attr_w := g_em_attr_w; em_attr_r := g_em_attr_r;
  em_none_w := g_em_none_w; em_none_r := g_em_none_r; em_sel := g_em_sel;
  tr_key := g_tr_key; tr_attr_w := g_tr_attr_w; tr_attr_r := g_tr_attr_r;
  tr_none_w := g_tr_none_w; tr_none_r := g_tr_none_r; tr_sel := g_tr_sel;
  tr_time_w := g_tr_time_w; tr_time_r := g_tr_time_r; tr_time_drop := g_tr_time_drop;
  tr_time_first := g_tr_time_first; tr_layout_guard := g_tr_layout_guard;
  etc_prefix := g_etc_prefix; etc_width := g_etc_width;
  etc_time_w := g_etc_time_w; etc_time_r := g_etc_time_r; etc_sorted := g_etc_sorted;
  tl_prefix := g_tl_prefix; tl_width := g_tl_width; tl_sorted := g_tl_sorted
|}.

(* written and read attribute names / markers / column names agree, no name collisions, and
   DropletTrack.data rejects members whose dtype differs from that of the first member *)
Lemma repo_fmt_ok : fmt_ok repo_fmt = true.
Proof. vm_compute. reflexivity. Qed.

(* the zero-padding width of both key formats is 6: this is where the bound 10^6 comes from *)
Lemma repo_etc_width : etc_width repo_fmt = 6. Proof. reflexivity. Qed.
Lemma repo_tl_width : tl_width repo_fmt = 6. Proof. reflexivity. Qed.

(* ------------------------------------------------------------------------------------------ *)
(* generic (any consistent format)                                                            *)
(* ------------------------------------------------------------------------------------------ *)
Lemma lookup_set_attr_same k v l : lookup k (set_attr k v l) = Some v.
Proof.
  induction l as [|[k' v'] t IH]; simpl.
  - rewrite String.eqb_refl. reflexivity.
  - destruct (String.eqb k' k) eqn:E; simpl; [rewrite String.eqb_refl; reflexivity|]. rewrite E. exact IH.
Qed.

Lemma lookup_set_attr_other k k' v l : String.eqb k' k = false -> lookup k' (set_attr k v l) = lookup k' l.
Proof.
  intros Hne. induction l as [|[k0 v0] t IH]; simpl.
  - rewrite String.eqb_sym, Hne. reflexivity.
  - destruct (String.eqb k0 k) eqn:E; simpl.
    + apply String.eqb_eq in E. subst k0. rewrite String.eqb_sym, Hne. reflexivity.
    + destruct (String.eqb k0 k'); [reflexivity|exact IH].
Qed.

Lemma filter_all {A} (f : A -> bool) l : forallb f l = true -> filter f l = l.
Proof.
  induction l as [|x t IH]; simpl; [reflexivity|]. intros H. apply andb_prop in H as [Hx Ht].
  rewrite Hx, IH by exact Ht. reflexivity.
Qed.

Lemma h5_time_attr_ok t a : h5_time_attr t = Ok a -> a = t.
Proof. destruct t as [z|f]; simpl; [destruct (_ && _); [|discriminate]|]; intros H; injection H as <-; reflexivity. Qed.

Lemma dec_enc_frame fm te ds :
  fmt_ok fm = true ->
  forallb (fun d => valid_drop d && f_gt_m1 (radius d)) (snd te) = true ->
  enc_frame fm te = Ok ds -> dec_frame fm ds = Ok te.
Proof.
  intros Hfm Hv Henc. pose proof (fmt_ok_facts fm Hfm) as Hff. destruct te as [t em]. cbn [snd] in Hv.
  unfold enc_frame in Henc. apply bind_ok in Henc as (ds0 & Hds0 & Henc). apply bind_ok in Henc as (a & Ha & Henc).
  apply h5_time_attr_ok in Ha. subst a. injection Henc as <-.
  assert (Hve : valid_emulsion em = true /\ forallb (fun d => f_gt_m1 (radius d)) em = true).
  { unfold valid_emulsion. rewrite !forallb_forall. rewrite forallb_forall in Hv.
    split; intros d Hd; specialize (Hv d Hd); apply andb_prop in Hv; tauto. }
  destruct Hve as [Hve Hgt].
  pose proof (dec_enc_emulsion fm em ds0 Hfm Hve Hds0) as Hdec.
  unfold dec_frame. unfold dec_emulsion in *. cbn [ds_attrs ds_body].
  rewrite lookup_set_attr_other by (rewrite <- (ff_em_attr fm Hff); apply (ff_etc_attr fm Hff)).
  rewrite Hdec. cbn [bind].
  rewrite <- (ff_etc_time fm Hff), lookup_set_attr_same. rewrite (filter_all _ _ Hgt). reflexivity.
Qed.

Lemma dec_enc_etc_gen fm x f :
  fmt_ok fm = true -> valid_etc x = true -> Z.of_nat (List.length x) <= 10 ^ etc_width fm ->
  enc_etc fm x = Ok f -> dec_etc fm f = Ok x.
Proof.
  intros Hfm Hv Hlen Henc. pose proof (fmt_ok_facts fm Hfm) as Hff.
  unfold enc_etc in Henc. apply bind_ok in Henc as (wr & Hwr & Henc). injection Henc as <-.
  destruct (keyed_roundtrip (enc_frame fm) (dec_frame fm) (fun te => te) (etc_prefix fm) (etc_width fm)
              (etc_sorted fm) x wr (ff_etc_w fm Hff) Hlen) as [Hst Hdec]; [|exact Hwr|].
  - intros te ds Hin He. apply (dec_enc_frame fm te ds Hfm); [|exact He].
    unfold valid_etc in Hv. rewrite forallb_forall in Hv. apply Hv. exact Hin.
  - rewrite Hst. unfold dec_etc. rewrite Hdec, map_id. reflexivity.
Qed.

(* the track that is read back: times replaced by the doubles of the f8 column *)
Definition rho_track (l : track) : track :=
  map (fun td => (match time_f64 (fst td) with Ok b => TFloat b | Err _ => fst td end, snd td)) l.

Lemma float_times_fun l l' : float_times l l' -> l' = rho_track l.
Proof.
  induction 1 as [|x y l1 l2 (Hs & b & Hb & Hy) _ IH]; [reflexivity|].
  simpl. rewrite Hb, <- IH. destruct y as [ty dy]. cbn [fst snd] in *. subst. reflexivity.
Qed.

Lemma dec_enc_track_gen fm l ds :
  fmt_ok fm = true -> valid_track l = true ->
  enc_track fm l = Ok ds -> dec_track fm ds = Ok (rho_track l) /\ float_times l (rho_track l).
Proof.
  intros Hfm Hv Henc. destruct (dec_enc_track_core fm l ds Hfm Hv Henc) as (l' & Hdec & Hft).
  pose proof (float_times_fun _ _ Hft) as ->. auto.
Qed.

Definition valid_tracklist (x : tracklist) : bool :=
  forallb (fun l => valid_track l && times_exact l) x.

Lemma dec_enc_tracklist_gen fm x f :
  fmt_ok fm = true -> valid_tracklist x = true -> Z.of_nat (List.length x) <= 10 ^ tl_width fm ->
  enc_tracklist fm x = Ok f -> dec_tracklist fm f = Ok (map rho_track x) /\ tracklist_same x (map rho_track x).
Proof.
  intros Hfm Hv Hlen Henc. pose proof (fmt_ok_facts fm Hfm) as Hff.
  unfold valid_tracklist in Hv. rewrite forallb_forall in Hv.
  assert (Hv' : forall l, In l x -> valid_track l = true /\ times_exact l = true).
  { intros l Hl. specialize (Hv l Hl). rewrite !andb_true_iff in Hv. tauto. }
  unfold enc_tracklist in Henc. apply bind_ok in Henc as (wr & Hwr & Henc). injection Henc as <-.
  destruct (keyed_roundtrip (enc_track fm) (dec_track fm) rho_track (tl_prefix fm) (tl_width fm)
              (tl_sorted fm) x wr (ff_tl_w fm Hff) Hlen) as [Hst Hdec]; [|exact Hwr|].
  - intros l ds Hin He. destruct (Hv' l Hin) as (H1 & _).
    apply (dec_enc_track_gen fm l ds Hfm H1 He).
  - rewrite Hst. split; [exact Hdec|].
    (* every member track was encoded successfully, so its read-back has the same times *)
    destruct (enc_keyed_shape _ _ _ _ _ _ Hwr) as [_ Hrows].
    unfold tracklist_same. clear Hst Hdec Hwr Hlen Hv. revert Hrows Hv'. generalize (map snd wr) as dss.
    induction x as [|l t IH]; intros dss Hrows Hv'; inversion Hrows as [|? ds ? dss' Hl Ht]; subst; simpl; constructor.
    + destruct (Hv' l (or_introl eq_refl)) as (H1 & H3).
      apply float_times_same; [exact H3|]. apply (dec_enc_track_gen fm l ds Hfm H1 Hl).
    + apply (IH dss'); [exact Ht|]. intros l' Hl'. apply Hv'. right. exact Hl'.
Qed.

(* ------------------------------------------------------------------------------------------ *)
(* the four round-trip theorems for the code as it is now (file level: to_file, then from_file)*)
(* ------------------------------------------------------------------------------------------ *)
Lemma dec_enc_emulsion_file l f :
  valid_emulsion l = true -> enc_emulsion_file repo_fmt l = Ok f -> dec_emulsion_file repo_fmt f = Ok l.
Proof.
  intros Hv H. unfold enc_emulsion_file in H. apply bind_ok in H as (ds & Hds & H). injection H as <-.
  cbn [dec_emulsion_file]. exact (dec_enc_emulsion repo_fmt l ds repo_fmt_ok Hv Hds).
Qed.

Lemma dec_enc_track_file l f :
  valid_track l = true -> times_exact l = true ->
  enc_track_file repo_fmt l = Ok f ->
  exists l', dec_track_file repo_fmt f = Ok l' /\ track_same l l'.
Proof.
  intros Hv Ht H. unfold enc_track_file in H. apply bind_ok in H as (ds & Hds & H). injection H as <-.
  cbn [dec_track_file]. destruct (dec_enc_track_gen repo_fmt l ds repo_fmt_ok Hv Hds) as [Hd Hf].
  exists (rho_track l). split; [exact Hd | exact (float_times_same _ _ Ht Hf)].
Qed.

Lemma dec_enc_etc x f :
  valid_etc x = true -> Z.of_nat (List.length x) <= 10 ^ 6 ->
  enc_etc repo_fmt x = Ok f -> dec_etc repo_fmt f = Ok x.
Proof. intros Hv Hlen. apply (dec_enc_etc_gen repo_fmt x f repo_fmt_ok Hv). rewrite repo_etc_width. exact Hlen. Qed.

Lemma dec_enc_tracklist x f :
  valid_tracklist x = true -> Z.of_nat (List.length x) <= 10 ^ 6 ->
  enc_tracklist repo_fmt x = Ok f ->
  exists x', dec_tracklist repo_fmt f = Ok x' /\ tracklist_same x x'.
Proof.
  intros Hv Hlen H. exists (map rho_track x).
  apply (dec_enc_tracklist_gen repo_fmt x f repo_fmt_ok Hv); [rewrite repo_tl_width; exact Hlen | exact H].
Qed.

(* writing either raises or produces a file that reads back as the object written *)
Lemma enc_total_or_err_emulsion l : valid_emulsion l = true ->
  (exists e, enc_emulsion_file repo_fmt l = Err e) \/
  (exists f, enc_emulsion_file repo_fmt l = Ok f /\ dec_emulsion_file repo_fmt f = Ok l).
Proof.
  intros Hv. destruct (enc_emulsion_file repo_fmt l) as [f|e] eqn:E; [right|left; exists e; reflexivity].
  exists f. split; [reflexivity | exact (dec_enc_emulsion_file l f Hv E)].
Qed.

Lemma enc_total_or_err_etc x : valid_etc x = true -> Z.of_nat (List.length x) <= 10 ^ 6 ->
  (exists e, enc_etc repo_fmt x = Err e) \/
  (exists f, enc_etc repo_fmt x = Ok f /\ dec_etc repo_fmt f = Ok x).
Proof.
  intros Hv Hlen. destruct (enc_etc repo_fmt x) as [f|e] eqn:E; [right|left; exists e; reflexivity].
  exists f. split; [reflexivity | exact (dec_enc_etc x f Hv Hlen E)].
Qed.

Lemma enc_total_or_err_track l : valid_track l = true -> times_exact l = true ->
  (exists e, enc_track_file repo_fmt l = Err e) \/
  (exists f l', enc_track_file repo_fmt l = Ok f /\ dec_track_file repo_fmt f = Ok l' /\ track_same l l').
Proof.
  intros Hv Ht. destruct (enc_track_file repo_fmt l) as [f|e] eqn:E; [right|left; exists e; reflexivity].
  destruct (dec_enc_track_file l f Hv Ht E) as (l' & H1 & H2). exists f, l'. auto.
Qed.

Lemma enc_total_or_err_tracklist x : valid_tracklist x = true -> Z.of_nat (List.length x) <= 10 ^ 6 ->
  (exists e, enc_tracklist repo_fmt x = Err e) \/
  (exists f x', enc_tracklist repo_fmt x = Ok f /\ dec_tracklist repo_fmt f = Ok x' /\ tracklist_same x x').
Proof.
  intros Hv Hlen. destruct (enc_tracklist repo_fmt x) as [f|e] eqn:E; [right|left; exists e; reflexivity].
  destruct (dec_enc_tracklist x f Hv Hlen E) as (x' & H1 & H2). exists f, x'. auto.
Qed.

(* ------------------------------------------------------------------------------------------ *)
(* keys                                                                                       *)
(* ------------------------------------------------------------------------------------------ *)
(* up to 10^6 keys prefix ++ "%06d" % i are already in lexicographic order: sorted() returns them
   in index order *)
Lemma pad6_sorted p n : Z.of_nat n <= 10 ^ 6 ->
  sorted_keys (map (key p 6) (zseq 0 n)) = map (key p 6) (zseq 0 n).
Proof.
  intros Hn. unfold sorted_keys. apply isort_asc; [apply str_ltb_asym|].
  apply keys_asc; lia.
Qed.

(* with 1000001 frames the key of frame 1000000 sorts before the key of frame 999999 *)
Lemma pad6_unsorted :
  str_ltb (key (etc_prefix repo_fmt) (etc_width repo_fmt) 1000000) (key (etc_prefix repo_fmt) (etc_width repo_fmt) 999999) = true
  /\ str_ltb (key (tl_prefix repo_fmt) (tl_width repo_fmt) 1000000) (key (tl_prefix repo_fmt) (tl_width repo_fmt) 999999) = true
  /\ sorted_keys [key (etc_prefix repo_fmt) (etc_width repo_fmt) 999999; key (etc_prefix repo_fmt) (etc_width repo_fmt) 1000000]
     = [key (etc_prefix repo_fmt) (etc_width repo_fmt) 1000000; key (etc_prefix repo_fmt) (etc_width repo_fmt) 999999].
Proof. split; [|split]; vm_compute; reflexivity. Qed.

(* ------------------------------------------------------------------------------------------ *)
(* what the faithful model does NOT satisfy (findings about the code)                         *)
(* ------------------------------------------------------------------------------------------ *)
Definition f_1 : F := 4607182418800017408.     (* 1.0 *)
Definition f_2 : F := 4611686018427387904.     (* 2.0 *)
Definition f_3 : F := 4613937818241073152.     (* 3.0 *)
Definition f_half : F := 4602678819172646912.  (* 0.5 *)
Definition f_01 : F := 4591870180066957722.    (* 0.1 *)
Definition f_02 : F := 4596373779694328218.    (* 0.2 *)
Definition f_03 : F := 4599075939470750515.    (* 0.3 *)

(* DropletTrack([PerturbedDroplet2D([1,2],3,0.5,[0.1,0.3]), PerturbedDroplet2D([1,2],3,0.5,[0.2])], [0,1]):
   before the fix f3c9dfd numpy broadcast the single amplitude of the second member; now writing raises *)
Definition bcast_track : track :=
  [(TInt 0, {| cls := P2D; dpos := [f_1; f_2]; radius := f_3; width := Some f_half; ampl := [f_01; f_03] |});
   (TInt 1, {| cls := P2D; dpos := [f_1; f_2]; radius := f_3; width := Some f_half; ampl := [f_02] |})].

(* a track that is written has members of one layout (dimension, width field, number of amplitudes) *)
Lemma track_written_uniform l f : enc_track_file repo_fmt l = Ok f ->
  match l with
  | [] => True
  | td0 :: _ => forallb (fun td => layout_eqb (layout (snd td)) (layout (snd td0))) l = true
  end.
Proof.
  intros H. unfold enc_track_file in H. apply bind_ok in H as (ds & Hds & _).
  apply (enc_track_uniform repo_fmt l ds); [|exact Hds].
  exact (ff_guard repo_fmt (fmt_ok_facts repo_fmt repo_fmt_ok)).
Qed.

Lemma bcast_track_rejected :
  valid_track bcast_track = true /\ enc_track_file repo_fmt bcast_track = Err EType.
Proof. split; vm_compute; reflexivity. Qed.

(* an integer time beyond 2^53 is rounded by the f8 time column *)
Definition big_time_track : track :=
  [(TInt (2 ^ 53 + 1), {| cls := Spherical; dpos := [f_1]; radius := f_1; width := None; ampl := [] |})].

Lemma track_int_time_witness :
  valid_track big_time_track = true /\
  exists f l', enc_track_file repo_fmt big_time_track = Ok f /\ dec_track_file repo_fmt f = Ok l' /\
               ~ track_same big_time_track l'.
Proof.
  split; [vm_compute; reflexivity|].
  eexists. eexists. split; [vm_compute; reflexivity|]. split; [vm_compute; reflexivity|].
  intros H. inversion H as [|x y l1 l2 [Ht _] _]; subst. vm_compute in Ht. discriminate.
Qed.

(* a time course that holds a droplet with NaN radius (possible through append(copy=False)) loses it on
   reading: EmulsionTimeCourse.from_file appends copies, and Emulsion.copy keeps radius > -1 only *)
Definition nan_radius_etc : etc :=
  [(TInt 0, [ {| cls := Spherical; dpos := [f_1; f_2]; radius := qnan; width := None; ampl := [] |};
              {| cls := Spherical; dpos := [f_1; f_2]; radius := f_3; width := None; ampl := [] |} ])].

Lemma etc_nan_radius_witness :
  forallb (fun te => forallb valid_drop (snd te)) nan_radius_etc = true /\
  exists f x', enc_etc repo_fmt nan_radius_etc = Ok f /\ dec_etc repo_fmt f = Ok x' /\ x' <> nan_radius_etc.
Proof.
  split; [vm_compute; reflexivity|].
  eexists. eexists. split; [vm_compute; reflexivity|]. split; [vm_compute; reflexivity|].
  discriminate.
Qed.

(* ------------------------------------------------------------------------------------------ *)
(* a non-trivial time course for the non-vacuity example                                      *)
(* ------------------------------------------------------------------------------------------ *)
Definition f_m25 : F := 13836183955189006336.   (* -2.5 *)
Definition sample_etc : etc :=
  [ (TInt 0, [ {| cls := Spherical; dpos := [f_1; f_2]; radius := f_3; width := None; ampl := [] |};
               {| cls := Spherical; dpos := [f_2; f_1]; radius := f_half; width := None; ampl := [] |} ]);
    (TFloat f_m25, []);
    (TInt 7, [ {| cls := P3DAxi; dpos := [0; 0; f_1]; radius := f_2; width := Some qnan; ampl := [f_01; f_02; f_03] |} ]);
    (TFloat f_half, [ {| cls := Diffuse; dpos := [f_1]; radius := f_1; width := Some f_half; ampl := [] |} ]) ].

Lemma sample_etc_roundtrip :
  valid_etc sample_etc = true /\ Z.of_nat (List.length sample_etc) <= 10 ^ 6 /\
  exists f, enc_etc repo_fmt sample_etc = Ok f /\ List.length f = 4%nat /\ dec_etc repo_fmt f = Ok sample_etc.
Proof.
  split; [vm_compute; reflexivity|]. split; [vm_compute; discriminate|].
  eexists. split; [vm_compute; reflexivity|]. split; vm_compute; reflexivity.
Qed.
