(* Invariants of the periodic cluster-merging loop (Model/MergeLoop.v), for ANY list of edges:
     merge_classes  : two labels end in the same cluster iff they are related by the equivalence
                      closure of the processed edges;
     merge_volume   : the stored volume of a cluster is the sum of the volumes of its members;
     merge_position : the stored position is the volume-weighted mean of the members' positions,
                      each shifted by its period offsets;
     merge_offsets  : if the edges admit a consistent lift kappa (the component does not wind around a
                      periodic axis) every member's offset is kappa plus one integer vector per cluster.
   Axiom-free. *)
From Coq Require Import QArith ZArith List Arith Bool Lia Lqa.
Import ListNotations.
From PD Require Import Model.MergeLoop.
Local Open Scope Q_scope.

(* ---- finite sums over label indices 0 .. n-1 ---- *)
Fixpoint sumn (n : nat) (f : nat -> Q) : Q :=
  match n with O => 0 | S n' => sumn n' f + f n' end.

Lemma sumn_ext n f g : (forall j, (j < n)%nat -> f j == g j) -> sumn n f == sumn n g.
Proof.
  induction n as [|n IH]; intros H; simpl; [reflexivity|].
  rewrite IH by (intros j Hj; apply H; lia). rewrite (H n) by lia. reflexivity.
Qed.

Lemma sumn_plus n f g : sumn n (fun j => f j + g j) == sumn n f + sumn n g.
Proof. induction n as [|n IH]; simpl; [ring|rewrite IH; ring]. Qed.

Lemma sumn_scale n c f : sumn n (fun j => c * f j) == c * sumn n f.
Proof. induction n as [|n IH]; simpl; [ring|rewrite IH; ring]. Qed.

Lemma sumn_nonneg n f : (forall j, (j < n)%nat -> 0 <= f j) -> 0 <= sumn n f.
Proof.
  induction n as [|n IH]; intros H; simpl; [apply Qle_refl|].
  assert (0 <= sumn n f) by (apply IH; intros j Hj; apply H; lia).
  assert (0 <= f n) by (apply H; lia). lra.
Qed.

Lemma sumn_ge_term n f k : (forall j, (j < n)%nat -> 0 <= f j) -> (k < n)%nat -> f k <= sumn n f.
Proof.
  induction n as [|n IH]; intros H Hk; [lia|]. simpl.
  assert (0 <= f n) by (apply H; lia).
  assert (0 <= sumn n f) by (apply sumn_nonneg; intros j Hj; apply H; lia).
  destruct (Nat.eq_dec k n) as [->|Hne]; [lra|].
  assert (f k <= sumn n f) by (apply IH; [intros j Hj; apply H; lia|lia]). lra.
Qed.

(* indicator-weighted sums: members of cluster i *)
Definition ind (b : bool) (x : Q) : Q := if b then x else 0.

Definition msum (n : nat) (c : nat -> nat) (i : nat) (f : nat -> Q) : Q :=
  sumn n (fun j => ind (Nat.eqb (c j) i) (f j)).

Lemma sumn_single m k (f : nat -> Q) :
  sumn m (fun j => ind (Nat.eqb j k) (f j)) == if Nat.ltb k m then f k else 0.
Proof.
  induction m as [|m IH]; [reflexivity|].
  change (sumn (S m) (fun j => ind (Nat.eqb j k) (f j)))
    with (sumn m (fun j => ind (Nat.eqb j k) (f j)) + ind (Nat.eqb m k) (f m)).
  rewrite IH. destruct (Nat.eqb_spec m k) as [->|Hne].
  - rewrite Nat.ltb_irrefl. replace (k <? S k)%nat with true by (symmetry; apply Nat.ltb_lt; lia).
    unfold ind. ring.
  - unfold ind. destruct (Nat.ltb_spec k m); destruct (Nat.ltb_spec k (S m)); try lia; ring.
Qed.

(* ---- equivalence closure of the processed edges ---- *)
Inductive eqclos (E : list edge) : nat -> nat -> Prop :=
| ec_refl x : eqclos E x x
| ec_sym x y : eqclos E x y -> eqclos E y x
| ec_trans x y z : eqclos E x y -> eqclos E y z -> eqclos E x z
| ec_edge kl kh ax : In (kl, kh, ax) E -> eqclos E kl kh.

Lemma eqclos_mono E E' x y : (forall e, In e E -> In e E') -> eqclos E x y -> eqclos E' x y.
Proof.
  intros H Hc. induction Hc as [x|x y _ IH|x y z _ IH1 _ IH2|kl kh ax Hin].
  - apply ec_refl.
  - apply ec_sym; exact IH.
  - eapply ec_trans; eassumption.
  - eapply ec_edge. apply H. exact Hin.
Qed.

Section Proofs.
  Variable N : nat -> Z.
  Variable n : nat.                       (* number of labels *)
  Variable pos0 : nat -> nat -> Q.
  Variable vol0 : nat -> Q.
  Hypothesis vol0_pos : forall j, (j < n)%nat -> 0 < vol0 j.

  Notation step := (merge_step N).
  Notation st0 := (init_state pos0 vol0).

  Definition edges_ok (es : list edge) : Prop :=
    forall kl kh ax, In (kl, kh, ax) es -> (kl < n)%nat /\ (kh < n)%nat.

  (* contribution of label j along axis a: volume * (position + offset * N) *)
  Definition contrib (st : mstate) (a j : nat) : Q :=
    vol0 j * (pos0 j a + inject_Z (off st j a * N a)).

  Record Inv (E : list edge) (st : mstate) : Prop := {
    inv_cls : forall j k, cl st j = cl st k <-> eqclos E j k;
    inv_vol : forall k, (k < n)%nat -> mvol st (cl st k) == msum n (cl st) (cl st k) vol0;
    inv_pos : forall k a, (k < n)%nat ->
              mpos st (cl st k) a * mvol st (cl st k) == msum n (cl st) (cl st k) (contrib st a)
  }.

  Lemma inv_init : Inv [] st0.
  Proof.
    split.
    - intros j k. cbn [cl init_state]. split.
      + intros ->. apply ec_refl.
      + intros H. induction H as [x|x y _ IH|x y z _ IH1 _ IH2|kl kh ax []]; congruence.
    - intros k Hk. unfold msum. cbn [cl mvol init_state].
      rewrite (sumn_single n k vol0).
      replace (k <? n)%nat with true by (symmetry; apply Nat.ltb_lt; exact Hk). reflexivity.
    - intros k a Hk. unfold msum, contrib. cbn [cl mvol mpos off init_state].
      rewrite !sumn_single.
      replace (k <? n)%nat with true by (symmetry; apply Nat.ltb_lt; exact Hk).
      replace (0 * N a)%Z with 0%Z by ring. unfold inject_Z. ring.
  Qed.

  (* members of the merged cluster = members of il plus members of ih *)
  Lemma msum_merge (c : nat -> nat) il ih (f g : nat -> Q) : il <> ih ->
    (forall j, (j < n)%nat -> c j = ih -> g j == f j + 0 * 0 \/ True) ->
    msum n (fun k => if Nat.eqb (c k) ih then il else c k) il
         (fun j => if Nat.eqb (c j) ih then g j else f j)
    == msum n c il f + msum n c ih g.
  Proof.
    intros Hne _. unfold msum. rewrite <- sumn_plus. apply sumn_ext. intros j _.
    destruct (Nat.eqb_spec (c j) ih) as [E|E].
    - rewrite Nat.eqb_refl. destruct (Nat.eqb_spec (c j) il) as [E'|E']; [congruence|]. simpl. ring.
    - destruct (Nat.eqb_spec (c j) il) as [E'|E']; simpl; ring.
  Qed.

  Lemma msum_other (c : nat -> nat) il ih i (f g : nat -> Q) : i <> il -> i <> ih ->
    msum n (fun k => if Nat.eqb (c k) ih then il else c k) i
         (fun j => if Nat.eqb (c j) ih then g j else f j)
    == msum n c i f.
  Proof.
    intros H1 H2. unfold msum. apply sumn_ext. intros j _.
    destruct (Nat.eqb_spec (c j) ih) as [E|E].
    - destruct (Nat.eqb_spec il i) as [E'|E']; [congruence|].
      destruct (Nat.eqb_spec (c j) i) as [E''|E'']; [congruence|]. reflexivity.
    - reflexivity.
  Qed.

  Lemma msum_pos st k : (k < n)%nat -> 0 < msum n (cl st) (cl st k) vol0.
  Proof.
    intros Hk. unfold msum.
    apply Qlt_le_trans with (ind (Nat.eqb (cl st k) (cl st k)) (vol0 k)).
    - rewrite Nat.eqb_refl. simpl. apply vol0_pos. exact Hk.
    - apply (sumn_ge_term n (fun j => ind (Nat.eqb (cl st j) (cl st k)) (vol0 j)) k); [|exact Hk].
      intros j Hj. destruct (Nat.eqb (cl st j) (cl st k)); simpl; [apply Qlt_le_weak, vol0_pos; exact Hj|apply Qle_refl].
  Qed.

  Lemma inv_step E st kl kh ax : (kl < n)%nat -> (kh < n)%nat ->
    Inv E st -> Inv ((kl, kh, ax) :: E) (step st (kl, kh, ax)).
  Proof.
    intros Hkl Hkh [Hcls Hvol Hpos]. unfold merge_step.
    destruct (Nat.eqb_spec (cl st kl) (cl st kh)) as [Heq|Hne].
    - (* same cluster already: nothing changes *)
      split.
      + intros j k. rewrite Hcls. split.
        * apply eqclos_mono. intros e He. right. exact He.
        * intros H. induction H as [x|x y _ IH|x y z _ IH1 _ IH2|a b c [Hin|Hin]].
          -- apply ec_refl.
          -- apply ec_sym; exact IH.
          -- eapply ec_trans; eassumption.
          -- injection Hin as <- <- <-. apply Hcls. exact Heq.
          -- eapply ec_edge. exact Hin.
      + exact Hvol.
      + exact Hpos.
    - set (il := cl st kl) in *. set (ih := cl st kh) in *.
      set (shift := fun a => (off st kl a - off st kh a - delta a ax)%Z).
      set (vl := mvol st il). set (vh := mvol st ih).
      assert (Hvl : vl == msum n (cl st) il vol0) by (apply (Hvol kl Hkl)).
      assert (Hvh : vh == msum n (cl st) ih vol0) by (apply (Hvol kh Hkh)).
      assert (Hvlp : 0 < vl) by (rewrite Hvl; apply (msum_pos st kl Hkl)).
      assert (Hvhp : 0 < vh) by (rewrite Hvh; apply (msum_pos st kh Hkh)).
      split; simpl.
      + (* classes *)
        intros j k. split.
        * intros H.
          assert (Hm : forall x, eqclos ((kl, kh, ax) :: E) x (if Nat.eqb (cl st x) ih then kl else x)).
          { intros x. destruct (Nat.eqb_spec (cl st x) ih) as [Ex|Ex]; [|apply ec_refl].
            apply ec_trans with kh.
            - apply (eqclos_mono E); [intros e He; right; exact He|]. apply Hcls. exact Ex.
            - apply ec_sym. eapply ec_edge. left. reflexivity. }
          apply ec_trans with (if Nat.eqb (cl st j) ih then kl else j); [apply Hm|].
          apply ec_trans with (if Nat.eqb (cl st k) ih then kl else k); [|apply ec_sym; apply Hm].
          apply (eqclos_mono E); [intros e He; right; exact He|]. apply Hcls.
          destruct (Nat.eqb (cl st j) ih); destruct (Nat.eqb (cl st k) ih); fold il; congruence.
        * intros H. induction H as [x|x y _ IH|x y z _ IH1 _ IH2|a b c [Hin|Hin]].
          -- reflexivity.
          -- symmetry; exact IH.
          -- congruence.
          -- injection Hin as <- <- <-. fold il ih. rewrite Nat.eqb_refl.
             destruct (Nat.eqb_spec il ih); congruence.
          -- assert (cl st a = cl st b) as -> by (apply Hcls; eapply ec_edge; exact Hin). reflexivity.
      + (* volumes *)
        intros k Hk.
        assert (Hm : forall i, msum n (fun k0 => if Nat.eqb (cl st k0) ih then il else cl st k0) i vol0
                     == msum n (fun k0 => if Nat.eqb (cl st k0) ih then il else cl st k0) i
                          (fun j => if Nat.eqb (cl st j) ih then vol0 j else vol0 j)).
        { intros i. unfold msum. apply sumn_ext. intros j _. destruct (Nat.eqb (cl st j) ih); reflexivity. }
        destruct (Nat.eqb_spec (cl st k) ih) as [Ek|Ek].
        * rewrite Nat.eqb_refl. rewrite Hm, msum_merge by (exact Hne || (intros; right; exact I)).
          rewrite Hvl, Hvh. reflexivity.
        * destruct (Nat.eqb_spec (cl st k) il) as [Ek'|Ek'].
          -- rewrite Ek'. rewrite Hm, msum_merge by (exact Hne || (intros; right; exact I)).
             rewrite Hvl, Hvh. reflexivity.
          -- rewrite Hm, msum_other by assumption. apply Hvol. exact Hk.
      + (* positions *)
        intros k a Hk.
        set (cl' := fun k0 => if Nat.eqb (cl st k0) ih then il else cl st k0).
        set (st' := {| cl := cl'; off := _; mpos := _; mvol := _ |}).
        assert (Hc : forall i, msum n cl' i (contrib st' a)
                     == msum n cl' i (fun j => if Nat.eqb (cl st j) ih
                                               then contrib st a j + vol0 j * inject_Z (shift a * N a)
                                               else contrib st a j)).
        { intros i. unfold msum. apply sumn_ext. intros j _. unfold contrib, st'. cbn [off].
          destruct (Nat.eqb (cl st j) ih); [|reflexivity].
          destruct (Nat.eqb (cl' j) i); unfold ind; [|reflexivity].
          unfold shift. rewrite Z.mul_add_distr_r, inject_Z_plus. ring. }
        assert (Hsplit : msum n (cl st) ih (fun j => contrib st a j + vol0 j * inject_Z (shift a * N a))
                         == msum n (cl st) ih (contrib st a) + inject_Z (shift a * N a) * vh).
        { rewrite Hvh. unfold msum. rewrite <- sumn_scale, <- sumn_plus. apply sumn_ext. intros j _.
          destruct (Nat.eqb (cl st j) ih); unfold ind; ring. }
        assert (Hpl : mpos st il a * vl == msum n (cl st) il (contrib st a)) by (apply (Hpos kl a Hkl)).
        assert (Hph : mpos st ih a * vh == msum n (cl st) ih (contrib st a)) by (apply (Hpos kh a Hkh)).
        assert (Hmerged : (mpos st il a * vl + (mpos st ih a + inject_Z (shift a * N a)) * vh) / (vl + vh) * (vl + vh)
                          == msum n cl' il (contrib st' a)).
        { rewrite Hc. unfold cl'. rewrite msum_merge by (exact Hne || (intros; right; exact I)).
          rewrite Hsplit. rewrite <- Hpl, <- Hph.
          field. lra. }
        destruct (Nat.eqb_spec (cl st k) ih) as [Ek|Ek].
        * rewrite Nat.eqb_refl. exact Hmerged.
        * destruct (Nat.eqb_spec (cl st k) il) as [Ek'|Ek'].
          -- rewrite Ek'. exact Hmerged.
          -- rewrite Hc. unfold cl'. rewrite msum_other by assumption. apply Hpos. exact Hk.
  Qed.

  Lemma inv_all es : edges_ok es -> forall E st, Inv E st -> Inv (rev es ++ E) (merge_all N st es).
  Proof.
    induction es as [|[[kl kh] ax] es IH]; intros Hok E st HI; simpl; [exact HI|].
    rewrite <- app_assoc. simpl. apply IH.
    - intros a b c Hin. apply (Hok a b c). right. exact Hin.
    - destruct (Hok kl kh ax (or_introl eq_refl)) as [H1 H2]. apply inv_step; assumption.
  Qed.

  Theorem merge_inv es : edges_ok es -> Inv (rev es) (merge_all N st0 es).
  Proof.
    intros Hok. pose proof (inv_all es Hok [] st0 inv_init) as H. rewrite app_nil_r in H. exact H.
  Qed.

  (* ---- consequences, stated for the final state ---- *)
  Lemma eqclos_rev E x y : eqclos (rev E) x y <-> eqclos E x y.
  Proof. split; apply eqclos_mono; intros e He; [apply in_rev; exact He|apply in_rev in He; exact He]. Qed.

  Theorem merge_classes es : edges_ok es -> forall j k,
    cl (merge_all N st0 es) j = cl (merge_all N st0 es) k <-> eqclos es j k.
  Proof. intros Hok j k. rewrite (inv_cls _ _ (merge_inv es Hok)). apply eqclos_rev. Qed.

  Theorem merge_volume es : edges_ok es -> forall k, (k < n)%nat ->
    let st := merge_all N st0 es in mvol st (cl st k) == msum n (cl st) (cl st k) vol0.
  Proof. intros Hok k Hk. apply (inv_vol _ _ (merge_inv es Hok)). exact Hk. Qed.

  Theorem merge_position es : edges_ok es -> forall k a, (k < n)%nat ->
    let st := merge_all N st0 es in
    mpos st (cl st k) a * msum n (cl st) (cl st k) vol0 == msum n (cl st) (cl st k) (contrib st a).
  Proof.
    intros Hok k a Hk. cbv zeta. rewrite <- (inv_vol _ _ (merge_inv es Hok) k Hk).
    apply (inv_pos _ _ (merge_inv es Hok)). exact Hk.
  Qed.

  (* ---- offsets follow a consistent lift ---- *)
  Definition lift_ok (kappa : nat -> nat -> Z) (es : list edge) : Prop :=
    forall kl kh ax, In (kl, kh, ax) es -> forall a, (kappa kh a = kappa kl a - delta a ax)%Z.

  Definition OffInv (kappa : nat -> nat -> Z) (st : mstate) : Prop :=
    exists t : nat -> nat -> Z, forall k a, (off st k a = kappa k a + t (cl st k) a)%Z.

  Lemma off_step kappa st kl kh ax :
    (forall a, (kappa kh a = kappa kl a - delta a ax)%Z) ->
    OffInv kappa st -> OffInv kappa (step st (kl, kh, ax)).
  Proof.
    intros Hk [t Ht]. unfold merge_step.
    destruct (Nat.eqb_spec (cl st kl) (cl st kh)) as [Heq|Hne]; [exists t; exact Ht|].
    exists t. intros k a. simpl.
    destruct (Nat.eqb_spec (cl st k) (cl st kh)) as [E|E].
    - rewrite (Ht k a), (Ht kl a), (Ht kh a), E, (Hk a). lia.
    - apply Ht.
  Qed.

  Lemma off_all kappa es : lift_ok kappa es -> forall st, OffInv kappa st -> OffInv kappa (merge_all N st es).
  Proof.
    induction es as [|[[kl kh] ax] es IH]; intros Hl st HI; simpl; [exact HI|].
    apply IH.
    - intros a b c Hin. apply Hl. right. exact Hin.
    - apply off_step; [apply (Hl kl kh ax); left; reflexivity|exact HI].
  Qed.

  Theorem merge_offsets kappa es : lift_ok kappa es ->
    exists t : nat -> nat -> Z, forall k a,
      (off (merge_all N st0 es) k a = kappa k a + t (cl (merge_all N st0 es) k) a)%Z.
  Proof.
    intros Hl. apply (off_all kappa es Hl st0). exists (fun i a => (- kappa i a)%Z).
    intros k a. simpl. lia.
  Qed.
End Proofs.
