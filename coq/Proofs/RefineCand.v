(* C05, D-layer: candidates produced by locate_droplets WITHOUT refinement are valid starts of the fit:
   class decided from (interface_width, modes, grid family), position / radius of a located cluster,
   interface width given (>= 0, enforced by the setter) or unset (-> typical discretization > 0),
   amplitudes np.zeros(modes). *)
From Coq Require Import QArith ZArith List Bool Arith Lia Lra.
Import ListNotations.
From PD Require Import Model.Grid Gen.Gen_refine Model.Refine Proofs.RefineVec Proofs.Refine Proofs.C04.
Local Open Scope Q_scope.

(* what locate_droplets builds before refining: cls any of the five classes; width None or the given value;
   amplitudes all zero (none unless the class is perturbed) *)
Definition located (g : rgrid) (c : droplet) : Prop :=
  0 < d_rad c /\
  match d_width (promoted c) with Some w => 0 <= w | None => 0 < typical_discretization g end /\
  Forall (fun a => a == 0) (d_amp c) /\
  (is_perturbed (d_cls c) = false -> d_amp c = []).

Lemma located_wf g c : located g c -> wf c.
Proof. intros (_ & _ & _ & H) Hp _. exact (H Hp). Qed.

Lemma located_valid g c : located g c -> valid g c.
Proof.
  intros (Hr & Hw & Ha & _). unfold valid. split; [apply Qlt_le_weak; exact Hr|]. split.
  - unfold width_or_default. destruct (d_width (promoted c)); [exact Hw|apply Qlt_le_weak; exact Hw].
  - unfold promoted. destruct (is_diffuse (d_cls c)); simpl; [|constructor].
    eapply Forall_impl; [|exact Ha]. intros a E. simpl in E. split; rewrite E; unfold Qle; simpl; lia.
Qed.

(* corollary of C04 refine_start_feasible *)
Theorem candidate_feasible g st vmin_o vmax_o adjust c p : located g c ->
  prepare g st vmin_o vmax_o adjust c = inr p ->
  (adjust = false \/ p_vmin p < p_vmax p) ->
  lsq_precondition (p_x0 p) (p_lo p) (p_hi p) = None.
Proof.
  intros Hl Ep Hlev.
  exact (proj1 (refine_start_feasible g st vmin_o vmax_o adjust c p (located_wf g c Hl) (located_valid g c Hl) Ep Hlev)).
Qed.

(* hence refinement of a located candidate never fails on a non-empty region with increasing levels *)
Theorem candidate_refines lsq hyp dev g st vmin_o vmax_o adjust c : lsq_spec lsq -> located g c ->
  length (d_pos c) = g_dim g ->
  (adjust = false \/ level_min vmin_o st < level_max vmax_o st) ->
  exists r, refine lsq hyp dev g st vmin_o vmax_o adjust c = ROk r.
Proof.
  intros Hs Hl Hd Hlev.
  exact (refine_ok lsq hyp dev g st vmin_o vmax_o adjust c Hs (located_wf g c Hl) (located_valid g c Hl) Hd Hlev).
Qed.

Lemma ex_located : located ex_cart ex_sph /\
  located ex_cyl {| d_cls := RP3DAxi; d_pos := [0; 0; 1]; d_rad := 1; d_width := None; d_amp := [0; 0] |}.
Proof.
  split; (split; [reflexivity|]); (split; [vm_compute; reflexivity|]); split; try (intros; discriminate);
    repeat constructor; try reflexivity.
Qed.
